/-! # spawn.interact(): the copy loop of pty_spawn.py as a function of the reads it performs

One event = one `os.read` that the loop performs (at most 1000 bytes each; how the kernel cuts the
keystroke stream and the child's output into reads is the environment's choice, so every theorem
quantifies over all event lists).  `fin` / `fout` are the input / output filters (identity when absent).
The model describes the repaired code: the first escape character ends the session (`find`), all pending
text is flushed first and cleared, the child's remaining output is drained when it exits. -/
namespace Ia
variable {α : Type} [DecidableEq α]

inductive IEv (α : Type) where
  | childOut (d : List α)      -- a read from the child's pty returned `d`
  | userIn (d : List α)        -- a read from the user's terminal returned `d`
  | childExit                  -- the read from the child's pty reported EOF (EIO on Linux, b'' on BSD)

inductive Mode | cooked | raw deriving DecidableEq, Repr

structure S (α : Type) where
  pending : List α             -- text read by earlier expect calls and not yet handed back
  shown : List α               -- bytes written to the user's terminal, in order
  toChild : List α             -- bytes written to the child, in order
  logRead : List α             -- logfile_read
  logSend : List α             -- logfile_send
  mode : Mode                  -- mode of the user's terminal
  escaped : Bool := false
  childGone : Bool := false

/-- index of the first occurrence of `e` (Python `data.find(e)` for a one-element `e`) -/
def findIdx (e : α) : List α → Option Nat
  | [] => none
  | c :: t => if c = e then some 0 else (findIdx e t).map (· + 1)

/-- `__interact_copy` -/
def copy (esc : Option α) (fin fout : List α → List α) : S α → List (IEv α) → S α × List (IEv α)
  | s, [] => (s, [])                                          -- nothing more happens: the loop keeps waiting
  | s, .childOut d :: r => copy esc fin fout { s with shown := s.shown ++ fout d, logRead := s.logRead ++ fout d } r
  | s, .childExit :: r => ({ s with childGone := true }, r)
  | s, .userIn d :: r =>
      let d' := fin d
      match esc with
      | none => copy esc fin fout { s with toChild := s.toChild ++ d', logSend := s.logSend ++ d' } r
      | some e =>
        match findIdx e d' with
        | none => copy esc fin fout { s with toChild := s.toChild ++ d', logSend := s.logSend ++ d' } r
        | some i => ({ s with toChild := s.toChild ++ d'.take i, logSend := s.logSend ++ d'.take i, escaped := true }, r)

/-- `interact()`: flush and clear the pending text, raw mode, copy, restore the mode -/
def interact (esc : Option α) (fin fout : List α → List α) (s : S α) (evs : List (IEv α)) : S α × List (IEv α) :=
  let m := s.mode
  let s1 := { s with shown := s.shown ++ s.pending, pending := [], mode := .raw }
  let r := copy esc fin fout s1 evs
  ({ r.1 with mode := m }, r.2)

/-! ### projections of an event list -/
def outs (fout : List α → List α) : List (IEv α) → List α
  | [] => []
  | .childOut d :: r => fout d ++ outs fout r
  | _ :: r => outs fout r

def ins (fin : List α → List α) : List (IEv α) → List α
  | [] => []
  | .userIn d :: r => fin d ++ ins fin r
  | _ :: r => ins fin r

theorem findIdx_none {e : α} {l : List α} (h : findIdx e l = none) : e ∉ l := by
  induction l with
  | nil => simp
  | cons c t ih =>
    simp only [findIdx] at h
    split at h
    · cases h
    · rename_i hne
      simp only [Option.map_eq_none_iff] at h
      simp only [List.mem_cons, not_or]
      exact ⟨fun h' => hne h'.symm, ih h⟩

theorem findIdx_some {e : α} {l : List α} {i : Nat} (h : findIdx e l = some i) :
    l.take i = l.takeWhile (· ≠ e) ∧ e ∉ l.take i ∧ l[i]? = some e := by
  induction l generalizing i with
  | nil => simp [findIdx] at h
  | cons c t ih =>
    simp only [findIdx] at h
    split at h
    · rename_i hc
      simp only [Option.some.injEq] at h
      subst h
      simp [hc]
    · rename_i hne
      simp only [Option.map_eq_some_iff] at h
      obtain ⟨j, hj, rfl⟩ := h
      obtain ⟨h1, h2, h3⟩ := ih hj
      refine ⟨?_, ?_, ?_⟩
      · simp [List.take_succ_cons, List.takeWhile_cons, hne, h1]
      · simp only [List.take_succ_cons, List.mem_cons, not_or]
        exact ⟨fun h' => hne h'.symm, h2⟩
      · simpa using h3

theorem takeWhile_append_of_all {p : α → Bool} {a b : List α} (h : ∀ x ∈ a, p x = true) :
    (a ++ b).takeWhile p = a ++ b.takeWhile p := by
  induction a with
  | nil => rfl
  | cons c t ih =>
    have hc : p c = true := h c (by simp)
    simp only [List.cons_append, List.takeWhile_cons, hc, if_true]
    rw [ih (fun x hx => h x (by simp [hx]))]

theorem copy_userIn_hit (e : α) (fin fout : List α → List α) (s : S α) (d : List α) (r : List (IEv α)) (i : Nat)
    (h : findIdx e (fin d) = some i) :
    copy (some e) fin fout s (.userIn d :: r) =
      ({ s with toChild := s.toChild ++ (fin d).take i, logSend := s.logSend ++ (fin d).take i, escaped := true }, r) := by
  simp only [copy, h]

theorem copy_userIn_miss (e : α) (fin fout : List α → List α) (s : S α) (d : List α) (r : List (IEv α))
    (h : findIdx e (fin d) = none) :
    copy (some e) fin fout s (.userIn d :: r) =
      copy (some e) fin fout { s with toChild := s.toChild ++ fin d, logSend := s.logSend ++ fin d } r := by
  simp only [copy, h]

/-- the output direction (any escape setting): what was shown = what was there + the (filtered) child output of the
    consumed reads, in order; the log of reads is the same text; pending and mode are untouched by the loop;
    the log of sends is exactly what was written to the child -/
theorem copy_out_spec (esc : Option α) (fin fout : List α → List α) (evs : List (IEv α)) (s : S α) :
    ∃ used, evs = used ++ (copy esc fin fout s evs).2 ∧
      (copy esc fin fout s evs).1.shown = s.shown ++ outs fout used ∧
      (copy esc fin fout s evs).1.logRead = s.logRead ++ outs fout used ∧
      (copy esc fin fout s evs).1.pending = s.pending ∧
      (copy esc fin fout s evs).1.mode = s.mode ∧
      (∀ t, s.logSend = t ++ s.toChild → (copy esc fin fout s evs).1.logSend = t ++ (copy esc fin fout s evs).1.toChild) := by
  induction evs generalizing s with
  | nil => exact ⟨[], by simp [copy], by simp [copy, outs], by simp [copy, outs], rfl, rfl, fun t h => by simpa [copy] using h⟩
  | cons ev r ih =>
    cases ev with
    | childExit =>
      exact ⟨[.childExit], by simp [copy], by simp [copy, outs], by simp [copy, outs], rfl, rfl, fun t h => by simpa [copy] using h⟩
    | childOut d =>
      obtain ⟨used, h1, h2, h3, h4, h5, h6⟩ := ih { s with shown := s.shown ++ fout d, logRead := s.logRead ++ fout d }
      refine ⟨.childOut d :: used, by simp only [copy, List.cons_append]; rw [← h1], ?_, ?_, h4, h5, h6⟩
      · simp only [copy, outs]; rw [h2]; simp
      · simp only [copy, outs]; rw [h3]; simp
    | userIn d =>
      have step : ∀ s' : S α, s'.shown = s.shown → s'.logRead = s.logRead → s'.pending = s.pending → s'.mode = s.mode →
          (∀ t, s.logSend = t ++ s.toChild → s'.logSend = t ++ s'.toChild) →
          copy esc fin fout s (.userIn d :: r) = copy esc fin fout s' r →
          ∃ used, IEv.userIn d :: r = used ++ (copy esc fin fout s (.userIn d :: r)).2 ∧
            (copy esc fin fout s (.userIn d :: r)).1.shown = s.shown ++ outs fout used ∧
            (copy esc fin fout s (.userIn d :: r)).1.logRead = s.logRead ++ outs fout used ∧
            (copy esc fin fout s (.userIn d :: r)).1.pending = s.pending ∧
            (copy esc fin fout s (.userIn d :: r)).1.mode = s.mode ∧
            (∀ t, s.logSend = t ++ s.toChild → (copy esc fin fout s (.userIn d :: r)).1.logSend = t ++ (copy esc fin fout s (.userIn d :: r)).1.toChild) := by
        intro s' e1 e2 e3 e4 e5 heq
        obtain ⟨used, h1, h2, h3, h4, h5, h6⟩ := ih s'
        rw [heq]
        refine ⟨.userIn d :: used, by simp only [List.cons_append]; rw [← h1], by rw [h2, e1]; simp [outs], by rw [h3, e2]; simp [outs],
          by rw [h4, e3], by rw [h5, e4], fun t ht => h6 t (e5 t ht)⟩
      cases esc with
      | none =>
        exact step { s with toChild := s.toChild ++ fin d, logSend := s.logSend ++ fin d } rfl rfl rfl rfl
          (fun t ht => by simp [ht]) (by simp only [copy])
      | some e =>
        cases hf : findIdx e (fin d) with
        | some i =>
          rw [copy_userIn_hit e fin fout s d r i hf]
          exact ⟨[.userIn d], by simp, by simp [outs], by simp [outs], rfl, rfl, fun t ht => by simp [ht]⟩
        | none =>
          exact step { s with toChild := s.toChild ++ fin d, logSend := s.logSend ++ fin d } rfl rfl rfl rfl
            (fun t ht => by simp [ht]) (copy_userIn_miss e fin fout s d r hf)

/-- the input direction without an escape character: everything typed (through the filter) reaches the child -/
theorem copy_in_noesc (fin fout : List α → List α) (evs : List (IEv α)) (s : S α) :
    ∃ used, evs = used ++ (copy none fin fout s evs).2 ∧
      (copy none fin fout s evs).1.toChild = s.toChild ++ ins fin used ∧ (copy none fin fout s evs).1.escaped = s.escaped := by
  induction evs generalizing s with
  | nil => exact ⟨[], by simp [copy], by simp [copy, ins], rfl⟩
  | cons ev r ih =>
    cases ev with
    | childExit => exact ⟨[.childExit], by simp [copy], by simp [copy, ins], rfl⟩
    | childOut d =>
      obtain ⟨used, h1, h2, h3⟩ := ih { s with shown := s.shown ++ fout d, logRead := s.logRead ++ fout d }
      exact ⟨.childOut d :: used, by simp only [copy, List.cons_append]; rw [← h1], by simpa only [copy, ins] using h2, by simpa only [copy] using h3⟩
    | userIn d =>
      obtain ⟨used, h1, h2, h3⟩ := ih { s with toChild := s.toChild ++ fin d, logSend := s.logSend ++ fin d }
      refine ⟨.userIn d :: used, by simp only [copy, List.cons_append]; rw [← h1], ?_, by simpa only [copy] using h3⟩
      simp only [copy, ins]; rw [h2]; simp

/-- the input direction with escape character `e`: the child receives the typed stream (through the filter) up to
    the first occurrence of `e`, exactly; what follows it in the same read is not delivered; the loop ends there -/
theorem copy_in_esc (e : α) (fin fout : List α → List α) (evs : List (IEv α)) (s : S α) (hs : s.escaped = false) :
    ∃ used, evs = used ++ (copy (some e) fin fout s evs).2 ∧
      (if (copy (some e) fin fout s evs).1.escaped = true then
          (copy (some e) fin fout s evs).1.toChild = s.toChild ++ (ins fin used).takeWhile (· ≠ e) ∧ e ∈ ins fin used
        else (copy (some e) fin fout s evs).1.toChild = s.toChild ++ ins fin used ∧ e ∉ ins fin used) := by
  induction evs generalizing s with
  | nil => exact ⟨[], by simp [copy], by simp [copy, ins, hs]⟩
  | cons ev r ih =>
    cases ev with
    | childExit => exact ⟨[.childExit], by simp [copy], by simp [copy, ins, hs]⟩
    | childOut d =>
      obtain ⟨used, h1, h2⟩ := ih { s with shown := s.shown ++ fout d, logRead := s.logRead ++ fout d } hs
      exact ⟨.childOut d :: used, by simp only [copy, List.cons_append]; rw [← h1], by simp only [copy, ins]; exact h2⟩
    | userIn d =>
      cases hf : findIdx e (fin d) with
      | some i =>
        obtain ⟨t1, t2, t3⟩ := findIdx_some hf
        rw [copy_userIn_hit e fin fout s d r i hf]
        refine ⟨[.userIn d], by simp, ?_⟩
        simp only [ins, List.append_nil, if_true, t1, true_and]
        exact List.mem_of_getElem? t3
      | none =>
        have hn := findIdx_none hf
        rw [copy_userIn_miss e fin fout s d r hf]
        obtain ⟨used, h1, h2⟩ := ih { s with toChild := s.toChild ++ fin d, logSend := s.logSend ++ fin d } hs
        refine ⟨.userIn d :: used, by simp only [List.cons_append]; rw [← h1], ?_⟩
        simp only [ins]
        split at h2
        · rename_i hc
          rw [if_pos hc]
          refine ⟨?_, List.mem_append_right _ h2.2⟩
          rw [h2.1, List.append_assoc]
          congr 1
          exact (takeWhile_append_of_all (fun x hx => by simp only [ne_eq, decide_eq_true_eq]; intro h'; exact hn (h' ▸ hx))).symm
        · rename_i hc
          rw [if_neg hc]
          refine ⟨by rw [h2.1, List.append_assoc], ?_⟩
          simp only [List.mem_append, not_or]
          exact ⟨hn, h2.2⟩

/-- the loop ends only at the escape character, at the child's EOF, or never (no more events) -/
theorem copy_ends (esc : Option α) (fin fout : List α → List α) (evs : List (IEv α)) (s : S α)
    (hs : s.escaped = false ∧ s.childGone = false) :
    (copy esc fin fout s evs).1.escaped = true ∨ (copy esc fin fout s evs).1.childGone = true ∨ (copy esc fin fout s evs).2 = [] := by
  induction evs generalizing s with
  | nil => right; right; rfl
  | cons ev r ih =>
    cases ev with
    | childExit => right; left; simp [copy]
    | childOut d => simp only [copy]; exact ih _ hs
    | userIn d =>
      cases esc with
      | none => simp only [copy]; exact ih _ hs
      | some e =>
        cases hf : findIdx e (fin d) with
        | some i => rw [copy_userIn_hit e fin fout s d r i hf]; left; rfl
        | none => rw [copy_userIn_miss e fin fout s d r hf]; exact ih _ hs

/-! ### `__interact_writen`: the child's terminal may take fewer bytes than offered -/

/-- pieces written by the write-all loop when the i-th `os.write` accepts at most `ks[i]` bytes (at least one: a blocking write of a
    non-empty buffer does not return 0); once the schedule is used up the rest is taken whole -/
def writen : List Nat → List α → List (List α)
  | _, [] => []
  | [], d => [d]
  | k :: ks, x :: d =>
      let n := max 1 (min k (d.length + 1))
      (x :: d).take n :: writen ks ((x :: d).drop n)

/-- whatever the child's terminal accepts per write, the loop delivers exactly the bytes it was given, in order -/
theorem writen_delivers_all (ks : List Nat) (d : List α) : (writen ks d).flatten = d := by
  induction ks generalizing d with
  | nil => cases d <;> simp [writen]
  | cons k ks ih =>
    cases d with
    | nil => simp [writen]
    | cons x d =>
      rw [writen]
      simp only [List.flatten_cons]
      rw [ih]
      exact List.take_append_drop _ _

/-- every piece is non-empty and no larger than what the terminal accepts for that write -/
theorem writen_pieces_bounded (k : Nat) (ks : List Nat) (x : α) (d : List α) (hk : 1 ≤ k) :
    ((writen (k :: ks) (x :: d)).head?.map List.length).getD 0 ≤ k ∧ 1 ≤ ((writen (k :: ks) (x :: d)).head?.map List.length).getD 0 := by
  rw [writen]
  simp only [List.head?_cons, Option.map_some, Option.getD_some, List.length_take, List.length_cons]
  omega

end Ia
