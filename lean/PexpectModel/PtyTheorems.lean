import PexpectModel.PtyProof
/-! Top-level facts about the repaired pty `read_nonblocking`, for every child script and every schedule:
    conservation (delivered ++ unread = written), EOF only when drained and hung up, at most `size` bytes. -/
namespace PtyW

/-- what one call guarantees, given that `d` had been delivered before it -/
def Post (d : List Byte) (size : Nat) (r : Out × World × Sched) : Prop :=
  WInv r.2.1 ∧
  match r.1 with
  | .data bs => Conserve (d ++ bs) r.2.1 ∧ bs.length ≤ size ∧ bs ≠ []
  | .eof => Drained r.2.1 ∧ Conserve d r.2.1
  | .timeout => Conserve d r.2.1

theorem Conserve.of_eq {d : List Byte} {w w' : World} (h : Conserve d w) (hk : w'.kbuf = w.kbuf) (hw : w'.written = w.written) :
    Conserve d w' := by
  unfold Conserve at *; rw [hk, hw]; exact h

theorem select0_facts (w : World) (sc : Sched) (d : List Byte) (hw : WInv w) (hc : Conserve d w) :
    Evolves w (select0 w sc).2.1 ∧ (select0 w sc).1 = readable (select0 w sc).2.1 ∧
    WInv (select0 w sc).2.1 ∧ Conserve d (select0 w sc).2.1 := by
  have h := select0_spec w sc
  exact ⟨h.1, h.2, h.1.winv hw, h.1.conserve d hc⟩

theorem selectT_go_facts (n : Nat) (w : World) :
    Evolves w (selectT.go n w).2 ∧ (selectT.go n w).1 = readable (selectT.go n w).2 := by
  induction n generalizing w with
  | zero => exact ⟨Evolves.refl w, rfl⟩
  | succ n ih =>
    unfold selectT.go
    by_cases hr : readable w = true
    · rw [if_pos hr]; exact ⟨Evolves.refl w, hr.symm⟩
    · rw [if_neg hr]
      obtain ⟨h1, h2⟩ := ih (childStep w)
      exact ⟨Evolves.trans ⟨1, rfl⟩ h1, h2⟩

theorem selectT_facts (w : World) (sc : Sched) (d : List Byte) (hw : WInv w) (hc : Conserve d w) :
    Evolves w (selectT w sc).2.1 ∧ (selectT w sc).1 = readable (selectT w sc).2.1 ∧
    WInv (selectT w sc).2.1 ∧ Conserve d (selectT w sc).2.1 := by
  have h := selectT_go_facts (nextStep sc).1.acts w
  unfold selectT
  simp only
  exact ⟨h.1, h.2, h.1.winv hw, h.1.conserve d hc⟩

theorem isalive_facts (w : World) (sc : Sched) (d : List Byte) (hw : WInv w) (hc : Conserve d w) :
    WInv (isalive w sc).2.1 ∧ Conserve d (isalive w sc).2.1 ∧
    ((isalive w sc).1 = false → (isalive w sc).2.1.slaveOpen = false) := by
  obtain ⟨h1, h2, _, h4, h5⟩ := isalive_spec w sc hw
  exact ⟨h1, (childSteps_conserve _ d w hc).of_eq h2 h4, h5⟩

/-- one `os.read` after the descriptor was seen readable -/
theorem readOnce_post (size : Nat) (hsize : 1 ≤ size) (w0 w : World) (sc : Sched) (hr : readable w0 = true)
    (he : Evolves w0 w) (d : List Byte) (hw : WInv w) (hc : Conserve d w) : Post d size (readOnce size w sc) := by
  unfold readOnce osRead
  simp only
  have he1 : Evolves w0 (childSteps (nextStep sc).1.acts w) := he.trans ⟨_, rfl⟩
  have hc1 := childSteps_conserve (nextStep sc).1.acts d w hc
  have hw1 := childSteps_winv (nextStep sc).1.acts w hw
  generalize childSteps (nextStep sc).1.acts w = w1 at *
  by_cases hk : w1.kbuf.isEmpty = true
  · simp only [hk, if_true]
    exact ⟨hw1, readable_then_empty hr he1 (by simpa using hk), hc1⟩
  · simp only [hk, Bool.false_eq_true, if_false]
    have hne : w1.kbuf ≠ [] := by simpa using hk
    have hlen : 0 < w1.kbuf.length := List.length_pos_iff.mpr hne
    refine ⟨?_, ?_, ?_, ?_⟩
    · intro hp; exact hw1 hp
    · simp only [Conserve] at hc1 ⊢
      rw [List.append_assoc, List.take_append_drop]; exact hc1
    · simp only [List.length_take]; omega
    · intro h
      have := congrArg List.length h
      simp only [List.length_take, List.length_nil] at this
      omega

/-- the drain loop keeps adding to what was read, never beyond `size` -/
theorem drain_post (size : Nat) (d : List Byte) :
    ∀ (fuel : Nat) (inc : List Byte) (w : World) (sc : Sched), inc.length ≤ size → inc ≠ [] → WInv w →
      Conserve (d ++ inc) w →
      WInv (drain size fuel inc w sc).2.1 ∧ Conserve (d ++ (drain size fuel inc w sc).1) (drain size fuel inc w sc).2.1 ∧
      (drain size fuel inc w sc).1.length ≤ size ∧ (drain size fuel inc w sc).1 ≠ [] := by
  intro fuel
  induction fuel with
  | zero => intro inc w sc h1 h2 h3 h4; exact ⟨h3, h4, h1, h2⟩
  | succ fuel ih =>
    intro inc w sc h1 h2 h3 h4
    unfold drain
    by_cases hlt : inc.length < size
    · rw [if_pos hlt]
      obtain ⟨hev, hrd, hw1, hc1⟩ := select0_facts w sc (d ++ inc) h3 h4
      rcases hsel : select0 w sc with ⟨r, w1, sc1⟩
      rw [hsel] at hev hrd hw1 hc1
      simp only at hev hrd hw1 hc1 ⊢
      by_cases hr : r = true
      · rw [if_pos hr]
        have hpost := readOnce_post (size - inc.length) (by omega) w1 w1 sc1 (by rw [← hrd]; exact hr) (Evolves.refl _)
          (d ++ inc) hw1 hc1
        unfold readOnce at hpost
        rcases hos : osRead (size - inc.length) w1 sc1 with ⟨rr, w2, sc2⟩
        rw [hos] at hpost
        cases rr with
        | eio => exact ⟨hpost.1, hpost.2.2, h1, h2⟩
        | data bs =>
          simp only [Post] at hpost
          obtain ⟨hw2, hc2, hl2, _⟩ := hpost
          have := ih (inc ++ bs) w2 sc2 (by simp only [List.length_append]; omega) (by simp [h2]) hw2
            (by rw [← List.append_assoc]; exact hc2)
          exact this
      · rw [if_neg hr]; exact ⟨hw1, hc1, h1, h2⟩
    · rw [if_neg hlt]; exact ⟨h3, h4, h1, h2⟩

/-- poll-and-read on a hung-up terminal: data if any is left, EOF only when nothing is -/
theorem pollRead_post (size : Nat) (hsize : 1 ≤ size) (w : World) (sc : Sched) (d : List Byte) (hw : WInv w)
    (hc : Conserve d w) (hclosed : w.slaveOpen = false) : Post d size (pollRead size w sc) := by
  unfold pollRead
  simp only
  obtain ⟨hev, hrd, hw1, hc1⟩ := select0_facts w sc d hw hc
  have hcl := (hev.closed hclosed).1
  have hr : (select0 w sc).1 = true := by rw [hrd]; simp [readable, hcl]
  rw [if_pos hr]
  exact readOnce_post size hsize _ _ _ (by rw [← hrd]; exact hr) (Evolves.refl _) d hw1 hc1

/-- **the pty transport, one call** — for every child script, every schedule, every size ≥ 1, timed or not -/
theorem readNonblocking_post (size : Nat) (hsize : 1 ≤ size) (timed : Bool) (w : World) (sc : Sched) (d : List Byte)
    (hw : WInv w) (hc : Conserve d w) : Post d size (readNonblocking size timed w sc) := by
  unfold readNonblocking
  simp only
  obtain ⟨hev, hrd, hw1, hc1⟩ := select0_facts w sc d hw hc
  by_cases hr : (select0 w sc).1 = true
  · rw [if_pos hr]
    have hpost := readOnce_post size hsize _ _ (select0 w sc).2.2 (by rw [← hrd]; exact hr) (Evolves.refl _) d hw1 hc1
    unfold readOnce at hpost
    rcases hos : osRead size (select0 w sc).2.1 (select0 w sc).2.2 with ⟨rr, w2, sc2⟩
    rw [hos] at hpost
    cases rr with
    | eio => exact hpost
    | data bs =>
      simp only [Post] at hpost
      obtain ⟨hw2, hc2, hl2, hne2⟩ := hpost
      obtain ⟨a, b, c, e⟩ := drain_post size d size bs w2 sc2 hl2 hne2 hw2 hc2
      exact ⟨a, b, c, e⟩
  · rw [if_neg hr]
    obtain ⟨hwa, hca, hdead⟩ := isalive_facts (select0 w sc).2.1 (select0 w sc).2.2 d hw1 hc1
    by_cases ha : (isalive (select0 w sc).2.1 (select0 w sc).2.2).1 = true
    · simp only [ha, Bool.not_true, Bool.false_eq_true, if_false]
      -- the child is alive: timed wait (or none), then a second liveness check
      have hT : ∀ t : Bool × World × Sched,
          (Evolves (isalive (select0 w sc).2.1 (select0 w sc).2.2).2.1 t.2.1 ∧ (t.1 = true → readable t.2.1 = true) ∧
            WInv t.2.1 ∧ Conserve d t.2.1) →
          Post d size (if t.1 = true then readOnce size t.2.1 t.2.2
            else if (!(isalive t.2.1 t.2.2).1) = true then pollRead size (isalive t.2.1 t.2.2).2.1 (isalive t.2.1 t.2.2).2.2
            else (Out.timeout, (isalive t.2.1 t.2.2).2.1, (isalive t.2.1 t.2.2).2.2)) := by
        intro t ⟨_, htr, hwt, hct⟩
        by_cases h1 : t.1 = true
        · rw [if_pos h1]
          exact readOnce_post size hsize _ _ _ (htr h1) (Evolves.refl _) d hwt hct
        · rw [if_neg h1]
          obtain ⟨hw3, hc3, hdead3⟩ := isalive_facts t.2.1 t.2.2 d hwt hct
          by_cases h2 : (isalive t.2.1 t.2.2).1 = true
          · simp only [h2, Bool.not_true, Bool.false_eq_true, if_false]
            exact ⟨hw3, hc3⟩
          · have h2' : (isalive t.2.1 t.2.2).1 = false := by simpa using h2
            simp only [h2', Bool.not_false, if_true]
            exact pollRead_post size hsize _ _ d hw3 hc3 (hdead3 h2')
      cases timed with
      | true =>
        simp only [if_true]
        obtain ⟨e1, e2, e3, e4⟩ := selectT_facts _ (isalive (select0 w sc).2.1 (select0 w sc).2.2).2.2 d hwa hca
        exact hT _ ⟨e1, fun h => by rw [← e2]; exact h, e3, e4⟩
      | false =>
        simp only [Bool.false_eq_true, if_false]
        exact hT (false, _, _) ⟨Evolves.refl _, fun h => absurd h (by simp), hwa, hca⟩
    · have ha' : (isalive (select0 w sc).2.1 (select0 w sc).2.2).1 = false := by simpa using ha
      simp only [ha', Bool.not_false, if_true]
      exact pollRead_post size hsize _ _ d hwa hca (hdead ha')

/-! ### sequences of reads -/

/-- the reader calls `read_nonblocking` again and again (sizes and timed-ness chosen per call) until EOF -/
def reads : List (Nat × Bool) → World → Sched → List Byte → List Out × World × Sched × List Byte
  | [], w, sc, d => ([], w, sc, d)
  | (size, timed) :: rest, w, sc, d =>
      let r := readNonblocking size timed w sc
      match r.1 with
      | .data bs => let q := reads rest r.2.1 r.2.2 (d ++ bs); (.data bs :: q.1, q.2)
      | .eof => ([.eof], r.2.1, r.2.2, d)
      | .timeout => let q := reads rest r.2.1 r.2.2 d; (.timeout :: q.1, q.2)

/-- **pty_reads_conserve / pty_eof_only_when_drained / read_le_size**: over any sequence of reads, any child
    script and any schedule, what was delivered plus what is still unread in the pty is exactly what the child
    wrote; if the sequence ended in EOF, nothing is unread and the terminal is hung up (no later write can
    land); and no read returned more than its size -/
theorem reads_conserve (calls : List (Nat × Bool)) (hsz : ∀ c ∈ calls, 1 ≤ c.1) (w : World) (sc : Sched) (d : List Byte)
    (hw : WInv w) (hc : Conserve d w) :
    let r := reads calls w sc d
    WInv r.2.1 ∧ Conserve r.2.2.2 r.2.1 ∧
    (r.1.getLast? = some .eof → Drained r.2.1) := by
  induction calls generalizing w sc d with
  | nil => exact ⟨hw, hc, by simp [reads]⟩
  | cons c rest ih =>
    obtain ⟨size, timed⟩ := c
    have hs : 1 ≤ size := hsz (size, timed) (by simp)
    have hpost := readNonblocking_post size hs timed w sc d hw hc
    simp only [reads]
    rcases hrn : readNonblocking size timed w sc with ⟨o, w1, sc1⟩
    rw [hrn] at hpost
    cases o with
    | data bs =>
      simp only [Post] at hpost
      obtain ⟨hw1, hc1, _, _⟩ := hpost
      have := ih (fun c hc' => hsz c (by simp [hc'])) w1 sc1 (d ++ bs) hw1 hc1
      simp only at this ⊢
      refine ⟨this.1, this.2.1, ?_⟩
      intro hl
      apply this.2.2
      cases hq : (reads rest w1 sc1 (d ++ bs)).1 with
      | nil => rw [hq] at hl; simp at hl
      | cons x t => rw [hq] at hl; simpa [List.getLast?_cons_cons] using hl
    | eof =>
      simp only [Post] at hpost
      exact ⟨hpost.1, hpost.2.2, fun _ => hpost.2.1⟩
    | timeout =>
      simp only [Post] at hpost
      obtain ⟨hw1, hc1⟩ := hpost
      have := ih (fun c hc' => hsz c (by simp [hc'])) w1 sc1 d hw1 hc1
      simp only at this ⊢
      refine ⟨this.1, this.2.1, ?_⟩
      intro hl
      apply this.2.2
      cases hq : (reads rest w1 sc1 d).1 with
      | nil => rw [hq] at hl; simp at hl
      | cons x t => rw [hq] at hl; simpa [List.getLast?_cons_cons] using hl

theorem w0_ok (script : List Act) : WInv (w0 script) ∧ Conserve [] (w0 script) := by
  constructor
  · intro h; simp [w0] at h
  · simp [Conserve, w0]

/-- once drained and hung up, every later read reports EOF again, at once (sticky EOF) -/
theorem eof_again (size : Nat) (timed : Bool) (w : World) (sc : Sched) (hw : WInv w) (hd : Drained w) :
    (readNonblocking size timed w sc).1 = .eof := by
  obtain ⟨hk, hcl⟩ := hd
  have hev : ∀ n, (childSteps n w).kbuf = [] ∧ (childSteps n w).slaveOpen = false := by
    intro n
    obtain ⟨h1, h2⟩ := childSteps_closed n w hcl
    exact ⟨by rw [h2]; exact hk, h1⟩
  unfold readNonblocking select0
  simp only
  obtain ⟨a, b⟩ := hev (nextStep sc).1.acts
  have hr : readable (childSteps (nextStep sc).1.acts w) = true := by simp [readable, b]
  rw [if_pos hr]
  unfold osRead
  simp only
  obtain ⟨c, e⟩ := childSteps_closed (nextStep (nextStep sc).2).1.acts (childSteps (nextStep sc).1.acts w) b
  have : (childSteps (nextStep (nextStep sc).2).1.acts (childSteps (nextStep sc).1.acts w)).kbuf.isEmpty = true := by
    rw [e, a]; rfl
  simp [this]

end PtyW
