import PexpectModel.Drv.Ex
import PexpectModel.Drv.Launch
