import PexpectModel.Drv.Ex
