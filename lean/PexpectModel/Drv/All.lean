import PexpectModel.Drv.Ex
import PexpectModel.Drv.Launch
import PexpectModel.Drv.Screen
import PexpectModel.Drv.Ansi
import PexpectModel.Drv.Forms
import PexpectModel.Drv.Transport
import PexpectModel.Drv.Deadline
import PexpectModel.Drv.Session
