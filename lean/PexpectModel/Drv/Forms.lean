import PexpectModel.Forms
import PexpectModel.Drv.Common
/-! driver: `FM <b|u> <ic 0/1> <r|x> <form>…`, form = `s=<hex>` | `y=<hex>` (bytes) | `cs=<flags>=<hex>` | `cb=<flags>=<hex>` | `E` | `T` | `O` -/
namespace Drv.FormsD
open Fm Drv

def parseFlags (s : String) : Flags :=
  { icase := s.contains 'i', dotall := s.contains 's', multiline := s.contains 'm', verbose := s.contains 'x', ascii := s.contains 'a' }

def showFlags (f : Flags) : String :=
  let s := (if f.ascii then "a" else "") ++ (if f.icase then "i" else "") ++ (if f.multiline then "m" else "") ++
    (if f.dotall then "s" else "") ++ (if f.verbose then "x" else "")
  if s == "" then "n" else s

def parseForm (s : String) : Option Form :=
  match s.splitOn "=" with
  | ["s", h] => some (.str (decList h))
  | ["y", h] => some (.bytes (decList h))
  | ["cs", fl, h] => some (.compiledStr (decList h) (parseFlags fl))
  | ["cb", fl, h] => some (.compiledBytes (decList h) (parseFlags fl))
  | ["E"] => some .eof
  | ["T"] => some .timeout
  | ["O"] => some .other
  | _ => none

def handle (toks : List String) : String :=
  match toks with
  | m :: ic :: kind :: forms =>
    match forms.mapM parseForm with
    | none => "bad-op"
    | some fs =>
      let mode := if m == "b" then Mode.bytes else Mode.unicode
      if kind == "r" then
        match compileList mode (ic == "1") fs with
        | .error _ => "TypeError"
        | .ok ps => " ".intercalate (ps.map (fun p => match p with
            | .re t f => s!"re={showFlags f}={encList t}" | .eof => "E" | .timeout => "T"))
      else
        match fs.mapM (prepareOne mode) with
        | .error _ => "TypeError"
        | .ok ps => " ".intercalate (ps.map (fun p => match p with
            | .str t => s!"s={encList t}" | .eof => "E" | .timeout => "T"))
  | _ => "bad-op"

end Drv.FormsD
