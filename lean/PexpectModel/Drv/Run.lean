import PexpectModel.Run
import PexpectModel.Drv.Ex
/-! driver for the run() model:  RN <W> <fuel> ev… @ cb… @ events…
    ev = <pat>><resp>   resp = s:<enc> | f:<id> | bad        cb = <id>:<count>:(s=<enc>|stop|cont) -/
namespace Drv.RunD
open Ex Rn Drv Drv.ExD

def parseResp (s : String) : Option (Resp Nat) :=
  match s.splitOn ":" with
  | ["s", h] => some (.str (decList h))
  | ["f", id] => id.toNat?.map .fn
  | ["bad"] => some .bad
  | _ => none

def parseEvent (s : String) : Option (Pat Nat × Resp Nat) :=
  match s.splitOn ">" with
  | [p, r] => do let p ← parsePat p; let r ← parseResp r; pure (p, r)
  | _ => none

def parseCb (s : String) : Option (Nat × Nat × CbRes Nat) :=
  match s.splitOn ":" with
  | [id, k, r] =>
      match id.toNat?, k.toNat? with
      | some id, some k =>
          match r.splitOn "=" with
          | ["s", h] => some (id, k, .send (decList h))
          | ["stop"] => some (id, k, .stop)
          | ["cont"] => some (id, k, .cont)
          | _ => none
      | _, _ => none
  | _ => none

def showAct : Act Nat → String
  | .sent s => s!"S{encList s}"
  | .cbSent id k s => s!"C{id}/{k}/S{encList s}"
  | .cbCont id k => s!"C{id}/{k}/cont"
  | .cbStop id k => s!"C{id}/{k}/stop"
  | .typeError => "TypeError"

def showAfter : AfterV Nat → String
  | .text a => encList a
  | .eofCls => "EOF"
  | .timeoutCls => "TIMEOUT"

def showStop : Stop → String
  | .eofExc => "eof" | .timeoutExc => "timeout" | .cbStop _ => "cbstop" | .typeError => "typeerror" | .outOfFuel => "fuel"

def split3 (toks : List String) : List String × List String × List String :=
  let a := toks.takeWhile (· != "@")
  let r := (toks.dropWhile (· != "@")).drop 1
  let b := r.takeWhile (· != "@")
  let c := (r.dropWhile (· != "@")).drop 1
  (a, b, c)

def handle (toks : List String) : String :=
  match toks with
  | w :: fuel :: rest =>
    let (evToks, cbToks, sToks) := split3 rest
    match w.toNat?, fuel.toNat?, evToks.mapM parseEvent, cbToks.mapM parseCb, sToks.mapM parseEv with
    | some W, some fuel, some events, some cbs, some evs =>
      let cb := fun id k => match cbs.find? (fun t => t.1 == id && t.2.1 == k) with
                            | some t => t.2.2
                            | none => CbRes.cont
      let c : Cfg Nat := { events := events, W := W, cb := cb }
      let (stop, s) := run fuel c (.init evs)
      let log := " ".intercalate (s.log.map (fun d => s!"{d.idx}:{showAfter d.after}:{showAct d.act}"))
      let sent := ";".intercalate (s.sent.map encList)
      s!"{showStop stop} acc={encList s.acc} n={s.count} p={encList s.st.B} left={s.evs.length} sent=[{sent}] log=[{log}]"
    | _, _, _, _, _ => "bad-op"
  | _ => "bad-op"

end Drv.RunD
