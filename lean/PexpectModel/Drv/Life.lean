import PexpectModel.Life
import PexpectModel.Drv.Common
/-! driver: `LF <R|S> <ignHup 0/1> <ignInt 0/1> <e:code|s:sig> <op>…` -/
namespace Drv.LifeD
open Lf Drv

def showOpt : Option Nat → String | some n => toString n | none => "-"

def showSp (w : W) : String :=
  s!"t={w.sp.terminated} e={showOpt w.sp.exitstatus} s={showOpt w.sp.signalstatus} st={showOpt w.sp.status} c={w.sp.closed} fd={if w.sp.childFd = -1 then "-1" else "open"}"

def showProc : Proc → String
  | .running => "running" | .stopped => "stopped" | .zombie _ => "zombie" | .reaped _ => "reaped"

def doOp (w : W) (tok : String) : Option (String × W) :=
  match tok.splitOn ":" with
  | ["alive"] => let r := spIsalive w; some (s!"{r.1}", r.2)
  | ["wait"] => let r := spWait w; some (showOpt r.1, r.2)
  | ["kill", n] => n.toNat?.map (fun sig => ("None", stepOp w (.kill sig)))
  | ["term", f] =>
      let t := ppTerminate w (f == "1")
      some (s!"{t.1}", stepOp w (.terminate (f == "1")))
  | ["close", f] => let r := spClose w (f == "1"); some ((if r.1 = .ok then "None" else "raised"), r.2)
  | ["ends"] => some ("-", stepOp w .childEnds)
  | ["send"] => some ((match spSend w with | .badf => "OSError" | .usesOwnFd => "ok" | .touchesForeignFd => "FOREIGN" | .valueError => "ValueError"), w)
  | ["read"] =>
      -- read_nonblocking polls, and on the way checks liveness (which records the status of a dead child)
      some ((match spRead w with | .badf => "OSError" | .usesOwnFd => "ok" | .touchesForeignFd => "FOREIGN" | .valueError => "ValueError"),
            stepOp w .read)
  | _ => none

def handle (toks : List String) : String :=
  match toks with
  | st :: ih :: ii :: plan :: ops =>
    let fate : Option Fate := match plan.splitOn ":" with
      | ["e", n] => n.toNat?.map .exit
      | ["s", n] => n.toNat?.map .signal
      | _ => none
    match fate with
    | none => "bad-op"
    | some f =>
      let w : W := { (w0 (if st == "S" then .stopped else .running) (ih == "1") (ii == "1") false false) with
        k := { (w0 (if st == "S" then .stopped else .running) (ih == "1") (ii == "1") false false).k with plan := f } }
      let rec go : List String → W → List String → Option (List String × W)
        | [], w, acc => some (acc.reverse, w)
        | t :: r, w, acc =>
          match doOp w t with
          | some (res, w') => go r w' (s!"{res}|{showSp w'}" :: acc)
          | none => none
      match go ops w [] with
      | some (outs, w) => " ; ".intercalate outs ++ s!" # proc={showProc w.k.proc} fdOpen={w.k.fdOpen}"
      | none => "bad-op"
  | _ => "bad-op"

end Drv.LifeD
