import PexpectModel.Interact
import PexpectModel.Drv.Common
/-! driver for interact():  IA <esc|-> <fin> <fout> <pending> @ ev…      ev = o=<enc> | u=<enc> | X
    filters: id | up (ASCII upper-case) | drop<n> (remove code point n) | dbl (double every element) -/
namespace Drv.IaD
open Ia Drv

def parseFilter (s : String) : Option (List Nat → List Nat) :=
  if s == "id" then some id
  else if s == "up" then some (fun l => l.map (fun c => if 97 ≤ c ∧ c ≤ 122 then c - 32 else c))
  else if s == "dbl" then some (fun l => l.flatMap (fun c => [c, c]))
  else if s.startsWith "drop" then (s.drop 4).toNat?.map (fun n => fun l => l.filter (· != n))
  else none

def parseEv (s : String) : Option (IEv Nat) :=
  match s.splitOn "=" with
  | ["o", h] => some (.childOut (decList h))
  | ["u", h] => some (.userIn (decList h))
  | ["X"] => some .childExit
  | _ => none

def handle (toks : List String) : String :=
  match toks with
  | e :: fi :: fo :: pend :: "@" :: evToks =>
    match parseFilter fi, parseFilter fo, evToks.mapM parseEv with
    | some fin, some fout, some evs =>
      let esc := if e == "-" then none else e.toNat?
      let s0 : S Nat := { pending := decList pend, shown := [], toChild := [], logRead := [], logSend := [], mode := .cooked }
      let r := interact esc fin fout s0 evs
      s!"shown={encList r.1.shown} child={encList r.1.toChild} lr={encList r.1.logRead} ls={encList r.1.logSend} esc={r.1.escaped} gone={r.1.childGone} left={r.2.length} mode={if r.1.mode == .cooked then "cooked" else "raw"}"
    | _, _, _ => "bad-op"
  | _ => "bad-op"

end Drv.IaD
