import PexpectModel.Session
import PexpectModel.SessionFaults
import PexpectModel.Drv.Common
/-! driver: `SS <b|u8|l1> <linesep> <eofByte> <intrByte> <op>…`  (ops of the expect()-side API and `X=` chunks copied by interact()) -/
namespace Drv.SessionD
open Sess Cd Drv

def parseOp1 (s : String) : Option Op :=
  match s.splitOn "=" with
  | ["R", h] => some (.read (decList h))
  | ["S", h] => some (.send (decList h))
  | ["L", h] => some (.sendline (decList h))
  | ["W", h] => some (.writelines (if h == "_" then [] else (h.splitOn ";").map decList))
  | ["C", c] => c.toNat?.map .sendcontrol
  | ["E"] => some .sendeof
  | ["I"] => some .sendintr
  | _ => none

/-- `X=<bytes>`: one chunk copied by interact() -/
def parseOp (s : String) : Option Op2 :=
  match s.splitOn "=" with
  | ["X", h] => some (.iread (decList h))
  | _ => (parseOp1 s).map .op

def showEv : LogEv → String
  | .write .read s => s!"w:r:{encList s}"
  | .write .send s => s!"w:s:{encList s}"
  | .flush => "f"

def showSt {σd σe : Type} (st : St σd σe) : String :=
  s!"del={";".intercalate (st.delivered.map encList)} peer={encList st.peer} log={"|".intercalate (st.logfile.map showEv)} " ++
  s!"lr={"|".intercalate (st.logRead.map showEv)} ls={"|".intercalate (st.logSend.map showEv)} ret={encList st.returned}"

def handle (toks : List String) : String :=
  match toks with
  | mode :: ls :: e :: i :: ops =>
    match e.toNat?, i.toNat?, ops.mapM parseOp with
    | some e, some i, some ops =>
      let cfg : Cfg := ⟨decList ls, e, i⟩
      if mode == "u8" then showSt (run2 utf8 (mapEnc utf8Encode) cfg (Sess.init utf8 (mapEnc utf8Encode)) ops)
      else showSt (run2 latin1 (mapEnc (fun c => [c])) cfg (Sess.init latin1 (mapEnc (fun c => [c]))) ops)
    | _, _, _ => "bad-op"
  | _ => "bad-op"

/-- `Sr=<h>` / `Lr=<h>`: send / sendline whose write is refused; `Ss=<k>=<h>` / `Ls=<k>=<h>`: the write takes k bytes -/
def parseOpF (s : String) : Option (Op × WFault) :=
  match s.splitOn "=" with
  | ["Sr", h] => some (.send (decList h), .refuse)
  | ["Lr", h] => some (.sendline (decList h), .refuse)
  | ["Ss", k, h] => k.toNat?.map fun k => (.send (decList h), .short k)
  | ["Ls", k, h] => k.toNat?.map fun k => (.sendline (decList h), .short k)
  | _ => (parseOp1 s).map fun o => (o, .ok)

def handleF (toks : List String) : String :=
  match toks with
  | mode :: ls :: e :: i :: ops =>
    match e.toNat?, i.toNat?, ops.mapM parseOpF with
    | some e, some i, some ops =>
      let cfg : Cfg := ⟨decList ls, e, i⟩
      if mode == "u8" then showSt (runF utf8 (mapEnc utf8Encode) cfg (Sess.init utf8 (mapEnc utf8Encode)) ops)
      else showSt (runF latin1 (mapEnc (fun c => [c])) cfg (Sess.init latin1 (mapEnc (fun c => [c]))) ops)
    | _, _, _ => "bad-op"
  | _ => "bad-op"

end Drv.SessionD
