import PexpectModel.Screen
import PexpectModel.Drv.Common
/-! driver for the screen model: `SC <rows> <cols> <op>…` -/
namespace Drv.ScreenD
open Scr Drv

def ints (l : List String) : Option (List Int) := l.mapM String.toInt?

/-- returns the new screen and, for read accessors, a result token -/
def doOp (s : Screen) (tok : String) : Option (Screen × Option String) :=
  let parts := tok.splitOn ":"
  match parts with
  | "pa" :: rest => match ints rest with | some [r, c, ch] => some (putAbs s r c ch.toNat, none) | _ => none
  | "pu" :: rest => match ints rest with | some [ch] => some (put s ch.toNat, none) | _ => none
  | "ia" :: rest => match ints rest with | some [r, c, ch] => some (insertAbs s r c ch.toNat, none) | _ => none
  | "in" :: rest => match ints rest with | some [ch] => some (insert s ch.toNat, none) | _ => none
  | "fi" :: rest => match ints rest with | some [ch] => some (fill s ch.toNat, none) | _ => none
  | "fr" :: rest => match ints rest with | some [a, b, c, d, ch] => some (fillRegion s a b c d ch.toNat, none) | _ => none
  | "ch" :: rest => match ints rest with | some [r, c] => some (cursorHome s r c, none) | _ => none
  | "cb" :: rest => match ints rest with | some [n] => some (cursorBack s n, none) | _ => none
  | "cd" :: rest => match ints rest with | some [n] => some (cursorDown s n, none) | _ => none
  | "cf" :: rest => match ints rest with | some [n] => some (cursorForward s n, none) | _ => none
  | "cu" :: rest => match ints rest with | some [n] => some (cursorUp s n, none) | _ => none
  | ["ur"] => some (cursorUpReverse s, none)
  | ["cs"] => some (cursorSave s, none)
  | ["cr_"] => some (cursorRestore s, none)
  | ["ss"] => some (scrollScreen s, none)
  | "sr" :: rest => match ints rest with | some [a, b] => some (scrollScreenRows s a b, none) | _ => none
  | ["su"] => some (scrollUp s, none)
  | ["sd"] => some (scrollDown s, none)
  | ["ee"] => some (eraseEndOfLine s, none)
  | ["es"] => some (eraseStartOfLine s, none)
  | ["el"] => some (eraseLine s, none)
  | ["ed"] => some (eraseDown s, none)
  | ["eu"] => some (eraseUp s, none)
  | ["ec"] => some (eraseScreen s, none)
  | ["CR"] => some (cr s, none)
  | ["LF"] => some (lf s, none)
  | ["CL"] => some (crlf s, none)
  | ["g"] => some (s, some (toString (get s)))
  | "ga" :: rest => match ints rest with | some [r, c] => some (s, some (toString (getAbs s r c))) | _ => none
  | "gr" :: rest => match ints rest with
      | some [a, b, c, d] => some (s, some (";".intercalate ((getRegion s a b c d).map encList)))
      | _ => none
  | _ => none

def showState (s : Screen) : String :=
  s!"w={";".intercalate (s.w.map encList)} c={s.curR},{s.curC} s={s.savR},{s.savC} g={s.scrS},{s.scrE} d={encList (dump s)} t={encList (toStr s)} p={encList (pretty s)}"

def handle (toks : List String) : String :=
  match toks with
  | r :: c :: ops =>
    match r.toNat?, c.toNat? with
    | some r, some c =>
      let rec go : List String → Screen → List String → Option (Screen × List String)
        | [], s, acc => some (s, acc.reverse)
        | t :: rest, s, acc =>
          match doOp s t with
          | some (s', some q) => go rest s' (q :: acc)
          | some (s', none) => go rest s' acc
          | none => none
      match go ops (blank r c) [] with
      | some (s, qs) => " ".intercalate qs ++ " # " ++ showState s
      | none => "bad-op"
    | _, _ => "bad-op"
  | _ => "bad-op"

end Drv.ScreenD
