import PexpectModel.ExOutcome
import PexpectModel.Regex
import PexpectModel.ReadApi
import PexpectModel.Drv.Common
/-! driver for the Expecter model: one history per line -/
namespace Drv.ExD
open Ex Py Drv

/-- prefix-notation regex, tokens separated by '.' -/
partial def parseRe : List String → Option (Rx.Re × List String)
  | "chr" :: n :: r => n.toNat?.map (fun c => (.chr c, r))
  | "any" :: r => some (.any, r)
  | "bol" :: r => some (.bol, r)
  | "eol" :: r => some (.eol, r)
  | "eos" :: r => some (.eos, r)
  | "empty" :: r => some (.empty, r)
  | "cls" :: neg :: k :: r =>
      match k.toNat? with
      | none => none
      | some k =>
        let rec ranges : Nat → List String → List (Nat × Nat) → Option (List (Nat × Nat) × List String)
          | 0, r, acc => some (acc.reverse, r)
          | n+1, lo :: hi :: r, acc =>
              match lo.toNat?, hi.toNat? with
              | some lo, some hi => ranges n r ((lo, hi) :: acc)
              | _, _ => none
          | _, _, _ => none
        (ranges k r []).map (fun (rs, r) => (.cls (neg == "1") rs, r))
  | "seq" :: r => do let (a, r) ← parseRe r; let (b, r) ← parseRe r; pure (.seq a b, r)
  | "alt" :: r => do let (a, r) ← parseRe r; let (b, r) ← parseRe r; pure (.alt a b, r)
  | "star" :: r => do let (a, r) ← parseRe r; pure (.star a, r)
  | "plus" :: r => do let (a, r) ← parseRe r; pure (.plus a, r)
  | "opt" :: r => do let (a, r) ← parseRe r; pure (.opt a, r)
  | "look" :: r => do let (a, r) ← parseRe r; pure (.look a, r)
  | _ => none

def parseFlags (s : String) : Rx.Flags :=
  { icase := s.contains 'i', dotall := s.contains 's', multiline := s.contains 'm' }

def mkRe (fl : Rx.Flags) (r : Rx.Re) : ReFn Nat := { search := fun w pos => Rx.search fl r w pos }

def parsePat (s : String) : Option (Pat Nat) :=
  match s.splitOn "=" with
  | ["E"] => some .eof
  | ["T"] => some .timeout
  | ["s", h] => some (.str (decList h))
  | ["re", fl, body] =>
      match parseRe (body.splitOn ".") with
      | some (r, []) => some (.re (mkRe (parseFlags fl) r))
      | _ => none
  | _ => none

def parsePats (s : String) : Option (List (Pat Nat)) :=
  if s == "_" then some [] else (s.splitOn "+").mapM parsePat

def parseEv (s : String) : Option (Ev Nat) :=
  match s.splitOn "=" with
  | ["d", h] => some (.data (decList h))
  | ["E"] => some .eofExc
  | ["T"] => some .timeoutExc
  | ["X"] => some .expired
  | _ => none

def showFinal (f : Final Nat) (st : St Nat) : String :=
  match f with
  | .idx i b (.text a) => s!"hit {i} b={encList b} a={encList a} p={encList st.B} s={encList st.S}"
  | .idx i b .eofCls => s!"eofidx {i} b={encList b} p={encList st.B}"
  | .idx i b .timeoutCls => s!"timeoutidx {i} b={encList b} p={encList st.B}"
  | .raisedEOF b => s!"EOF b={encList b} p={encList st.B}"
  | .raisedTIMEOUT b => s!"TIMEOUT b={encList b} p={encList st.B}"

/-- ops: `x:W:pats`, `r:W:pats`, `b:hex` -/
def runLine (ops : List String) (evs : List (Ev Nat)) : Option (List String) :=
  let rec go : List String → St Nat → List (Ev Nat) → List String → Option (List String)
    | [], _, _, acc => some acc.reverse
    | op :: rest, st, evs, acc =>
      match op.splitOn ":" with
      | ["x", w, ps] =>
          match w.toNat?, parsePats ps with
          | some W, some pats =>
              let (f, st', evs') := expectExact pats W st evs
              go rest st' evs' (showFinal f st' :: acc)
          | _, _ => none
      | ["r", w, ps] =>
          match w.toNat?, parsePats ps with
          | some W, some pats =>
              let (f, st', evs') := expectList pats W st evs
              go rest st' evs' (showFinal f st' :: acc)
          | _, _ => none
      | ["n", n] =>       -- spawn.read(n), n > 0
          match n.toNat? with
          | some n =>
              let (f, st', evs') := expectList [.re (Ra.dotN n), .eof] 0 st evs
              let v := match (Ra.readN n st evs).1 with | .value v => s!" v={encList v}" | .raised _ => " v=!"
              go rest st' evs' ((showFinal f st' ++ v) :: acc)
          | none => none
      | ["a", w] =>       -- spawn.read() / read(-1)
          match w.toNat? with
          | some W =>
              let (f, st', evs') := expectList [.eof] W st evs
              let v := match (Ra.readAll W st evs).1 with | .value v => s!" v={encList v}" | .raised _ => " v=!"
              go rest st' evs' ((showFinal f st' ++ v) :: acc)
          | none => none
      | ["l", w] =>       -- spawn.readline()
          match w.toNat? with
          | some W =>
              let (f, st', evs') := expectList [.re (Ra.litRe [13, 10]), .eof] W st evs
              let v := match (Ra.readline [13, 10] W st evs).1 with | .value v => s!" v={encList v}" | .raised _ => " v=!"
              go rest st' evs' ((showFinal f st' ++ v) :: acc)
          | none => none
      | ["b", h] => go rest (setBuffer (decList h)) evs (s!"set" :: acc)
      | _ => none
  go ops { B := [], S := [] } evs []

def handle (toks : List String) : String :=
  -- toks: ops… "@" events…
  let ops := toks.takeWhile (· != "@")
  let evToks := (toks.dropWhile (· != "@")).drop 1
  match evToks.mapM parseEv with
  | none => "bad-op"
  | some evs =>
    match runLine ops evs with
    | none => "bad-op"
    | some outs => " | ".intercalate outs

end Drv.ExD
