import PexpectModel.Async
import PexpectModel.AsyncCancel
import PexpectModel.Drv.Ex
/-! driver for mixed sync / async histories:  AY op… @ ev…   op = x|r|ax|ar|cx|cr :W:pats | b:hex | i    ev = d=… | E | L | T -/
namespace Drv.AsyncD
open Ex Py Drv Drv.ExD

def parseAEv (s : String) : Option (AEv Nat) :=
  match s.splitOn "=" with
  | ["d", h] => some (.dataReceived (decList h))
  | ["E"] => some .eofReceived
  | ["L"] => some .connLostEIO
  | ["T"] => some .timeoutFired
  | _ => none

def kindOf (exact : Bool) (pats : List (Pat Nat)) : Kind Nat :=
  if exact then .exact (stringsFrom 0 pats) else .re (resFrom 0 pats)

def runLine (ops : List String) (evs : List (AEv Nat)) : Option (List String) :=
  let rec go : List String → AS Nat → List (AEv Nat) → List String → Option (List String)
    | [], s, _, acc => some ((s!"pw paused={s.pw.paused} closed={s.pw.closed} connected={s.pw.connected}" :: acc).reverse)
    | op :: rest, s, evs, acc =>
      match op.splitOn ":" with
      | [k, w, ps] =>
          match w.toNat?, parsePats ps with
          | some W, some pats =>
            let exact := k == "x" || k == "ax" || k == "cx"
            let kd := kindOf exact pats
            if k == "x" || k == "r" then
              let r := acall kd.sr W s.st evs
              go rest { s with st := r.2.1 } r.2.2 (showFinal (finish pats r.1) r.2.1 :: acc)
            else if k == "ax" || k == "ar" then
              let r := acallS kd.sr W s evs
              go rest r.2.1 r.2.2 (showFinal (finish pats r.1) r.2.1.st :: acc)
            else if k == "cx" || k == "cr" then
              -- an awaited call its caller gives up (Ex.hrun, `.abandoned`): the give-up point is the `T` marker in the events
              let r := acall kd.sr W s.st evs
              match r.1 with
              | .timeout _ => go rest { st := r.2.1, pw := { s.pw with connected := true, paused := false, futDone := true } } r.2.2 ("CANCELLED" :: acc)
              | o => go rest { st := r.2.1, pw := pwAfter s.pw (existingHit kd.sr W s.st) o } r.2.2 (showFinal (finish pats o) r.2.1 :: acc)
            else none
          | _, _ => none
      | ["b", h] => go rest { s with st := setBuffer (decList h) } evs ("set" :: acc)
      | ["i"] =>
          -- the next loop event is delivered while no call is outstanding (Ex.hrun, `.idle`)
          match evs with
          | .dataReceived d :: r => go rest { s with st := doneData s.st d } r ("idle" :: acc)
          | _ => go rest s evs ("idle-none" :: acc)
      | _ => none
  go ops { st := { B := [], S := [] }, pw := {} } evs []

def handle (toks : List String) : String :=
  let ops := toks.takeWhile (· != "@")
  let evToks := (toks.dropWhile (· != "@")).drop 1
  match evToks.mapM parseAEv with
  | none => "bad-op"
  | some evs =>
    match runLine ops evs with
    | none => "bad-op"
    | some outs => " | ".intercalate outs

end Drv.AsyncD
