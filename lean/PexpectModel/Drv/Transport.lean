import PexpectModel.PtyTheorems
import PexpectModel.PopenWorld
import PexpectModel.Drv.Common
/-! drivers: `PT <sizes/timed list> | <script> | <sched>` (pty) and `PF …` (fd / socket) -/
namespace Drv.TransportD
open Drv

def parsePtyAct (s : String) : Option PtyW.Act :=
  match s.splitOn "=" with
  | ["W", h] => some (.write (decList h))
  | ["C"] => some .closeTty
  | ["E"] => some (.exit 0)
  | _ => none

def showPtyOut : PtyW.Out → String
  | .data bs => s!"d={encList bs}"
  | .eof => "eof"
  | .timeout => "timeout"

/-- `PT <size>:<timed> … @ <act> … @ <acts> …` -/
def handlePty (toks : List String) : String :=
  let callsT := toks.takeWhile (· != "@")
  let rest := (toks.dropWhile (· != "@")).drop 1
  let actsT := rest.takeWhile (· != "@")
  let schedT := (rest.dropWhile (· != "@")).drop 1
  let calls := callsT.filterMap (fun t => match t.splitOn ":" with
    | [a, b] => a.toNat?.map (fun n => (n, b == "1"))
    | _ => none)
  match actsT.mapM parsePtyAct with
  | none => "bad-op"
  | some script =>
    let sched : PtyW.Sched := schedT.filterMap (fun t => t.toNat?.map (fun n => (⟨n, 1000000⟩ : PtyW.Step)))
    let r := PtyW.reads calls (PtyW.w0 script) sched []
    " ".intercalate (r.1.map showPtyOut) ++ s!" # left={encList r.2.1.kbuf} written={r.2.1.written.length}"

def parsePipeAct (s : String) : Option PipeW.Act :=
  match s.splitOn "=" with
  | ["W", h] => some (.write (decList h))
  | ["C"] => some .close
  | _ => none

def showPipeOut : PipeW.Out → String
  | .data bs => s!"d={encList bs}"
  | .eof => "eof"
  | .timeout => "timeout"

/-- `PF <size> … @ <act> … @ <acts> …`: successive fd / socket reads until EOF -/
def handleFd (toks : List String) : String :=
  let sizesT := toks.takeWhile (· != "@")
  let rest := (toks.dropWhile (· != "@")).drop 1
  let actsT := rest.takeWhile (· != "@")
  let schedT := (rest.dropWhile (· != "@")).drop 1
  let sizes := sizesT.filterMap String.toNat?
  match actsT.mapM parsePipeAct with
  | none => "bad-op"
  | some script =>
    let sched : PipeW.Sched := schedT.filterMap (fun t => t.toNat?.map (fun n => (⟨n, 1000000⟩ : PipeW.Step)))
    let rec go : List Nat → PipeW.World → PipeW.Sched → List String → List String × PipeW.World
      | [], w, _, acc => (acc.reverse, w)
      | sz :: r, w, sc, acc =>
        let o := PipeW.fdRead sz w sc
        match o.1 with
        | .eof => ((showPipeOut o.1 :: acc).reverse, o.2.1)
        | _ => go r o.2.1 o.2.2 (showPipeOut o.1 :: acc)
    let (outs, w) := go sizes ⟨[], true, script, []⟩ sched []
    " ".intercalate outs ++ s!" # left={encList w.kbuf} written={w.written.length}"

end Drv.TransportD
