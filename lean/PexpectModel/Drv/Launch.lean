import PexpectModel.Launch
import PexpectModel.Drv.Common
/-! drivers for C13: `SP <text>` (split_command_line) and `WH …` (which over a listed file system) -/
namespace Drv.LaunchD
open Drv

/-- `str.isspace()` of CPython 3 for one code point -/
def pyIsSpace (c : Nat) : Bool :=
  (9 ≤ c && c ≤ 13) || (28 ≤ c && c ≤ 32) || c == 133 || c == 160 || c == 5760 ||
  (8192 ≤ c && c ≤ 8202) || c == 8232 || c == 8233 || c == 8239 || c == 8287 || c == 12288

def cls (c : Nat) : SplitGen.Cls :=
  if c == 92 then .bs else if c == 39 then .sq else if c == 34 then .dq else if pyIsSpace c then .sp else .other

def handleSplit (toks : List String) : String :=
  match toks with
  | [t] => "|".intercalate ((Split.split cls (decList t)).map encList)
  | _ => "bad-op"

/-- `WH <hasDirname 0/1/2> <explicitExec 0/1> …` (1: a path that no PATH directory can complete - absolute, or through a sub-directory the
    PATH directories do not have; 2: `./name`, which joined to a PATH directory names that directory's own entry) <env: os|unset|empty|set> <ospath: unset|empty|set> <envdirs> <osdirs> <defdirs>`
    each dirs = comma list of 0/1 (does directory i hold an executable of that name), `-` for none.
    Directory ids: env dirs 100+i, os dirs 200+i, defpath dirs 300+i; explicit = 1 -/
def parseBits (s : String) : List Bool := (decList s).map (· != 0)

def handleWhich (toks : List String) : String :=
  match toks with
  | [hd, ee, env, osp, envd, osd, defd] =>
    let envDirs := parseBits envd
    let osDirs := parseBits osd
    let defDirs := parseBits defd
    -- path strings are modelled by a tag character: 'e' env, 'o' os, 'd' defpath
    let fs : Launch.FS Nat Unit Nat := {
      join := fun d _ => if hd == "1" then 1 else d   -- os.path.join(dir, absolute) = absolute; join(dir, "./name") names dir's own entry
      asPath := fun _ => 1
      hasDirname := fun _ => hd == "1" || hd == "2"
      isExec := fun p =>
        if p == 1 then ee == "1"
        else if 100 ≤ p && p < 200 then envDirs.getD (p - 100) false
        else if 200 ≤ p && p < 300 then osDirs.getD (p - 200) false
        else defDirs.getD (p - 300) false
      splitPath := fun s => match s with
        | ['e'] => (List.range envDirs.length).map (· + 100)
        | ['o'] => (List.range osDirs.length).map (· + 200)
        | _ => (List.range defDirs.length).map (· + 300) }
    let mk (tag : String) (c : Char) : Option (List Char) :=
      if tag == "unset" then none else if tag == "empty" then some [] else some [c]
    let envArg : Option (Option (List Char)) := if env == "os" then none else some (mk env 'e')
    match Launch.which fs () envArg (mk osp 'o') ['d'] with
    | none => "none"
    | some p => toString p
  | _ => "bad-op"

end Drv.LaunchD
