/-! line-protocol helpers shared by all model drivers -/
namespace Drv

def decList (s : String) : List Nat :=
  if s == "-" || s == "" then [] else (s.splitOn ",").filterMap String.toNat?

def encList (l : List Nat) : String :=
  if l.isEmpty then "-" else ",".intercalate (l.map toString)

def encOptNat : Option Nat → String
  | some n => toString n
  | none => "-"

def decInt (s : String) : Option Int := s.toInt?

end Drv
