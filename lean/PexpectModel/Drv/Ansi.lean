import PexpectModel.Ansi
import PexpectModel.Drv.Screen
/-! driver for the ANSI terminal model: `AN <rows> <cols> <latin1|utf8> <t=…|b=…>…` -/
namespace Drv.AnsiD
open Ansi Drv

def showTerm (t : Term) : String :=
  s!"{Drv.ScreenD.showState t.scr} st={repr t.p.s} k={";".intercalate (t.p.st.map encList)}"

def run (r c : Nat) (utf8 : Bool) (chunks : List String) : Option Term :=
  let rec go : List String → (Nat × Nat) → Term → Option Term
    | [], _, t => some t
    | ch :: rest, d, t =>
      match ch.splitOn "=" with
      | ["t", h] => (feed t (decList h)).bind (fun t' => go rest d t')
      | ["b", h] =>
          if utf8 then
            let r := Cd.utf8.feed d (decList h)
            (feed t r.2).bind (fun t' => go rest r.1 t')
          else (feed t (decList h)).bind (fun t' => go rest d t')
      | _ => none
  go chunks Cd.utf8.init (Ansi.init r c)

def handle (toks : List String) : String :=
  match toks with
  | r :: c :: enc :: chunks =>
    match r.toNat?, c.toNat? with
    | some r, some c =>
      match run r c (enc == "utf8") chunks with
      | some t => showTerm t
      | none => "raises"
    | _, _ => "bad-op"
  | _ => "bad-op"

end Drv.AnsiD
