import PexpectModel.Deadline
import PexpectModel.ReadTiming
import PexpectModel.Drv.Common
/-! driver: `DL <T|none> <start> <d0> <hit0 0/1> <eps> <dt:kind>…`  and  `WN <T|none> <start> <S> <dt:echo>…` -/
namespace Drv.DeadlineD
open Dl

def parseKind : String → Option Kind
  | "hit" => some .hit | "miss" => some .miss | "eof" => some .eof | "timeout" => some .timeoutExc | _ => none

def parseEv (s : String) : Option Ev :=
  match s.splitOn ":" with
  | [d, k] => do let d ← d.toNat?; let k ← parseKind k; pure ⟨d, k⟩
  | _ => none

/-- decidable twin of `runOk` -/
def runOkB (eps : Nat) (endT : Int) : Option Int → Int → List Ev → Bool
  | _, _, [] => true
  | tmo, now, ev :: r =>
    (match tmo with | some t => decide (t < 0) | none => false) ||
    ((match tmo with
      | some t => decide ((ev.dt : Int) ≤ t + eps) && (ev.k != .timeoutExc || decide (t ≤ ev.dt))
      | none => ev.k != .timeoutExc) &&
     (ev.k != .miss || runOkB eps endT (tmo.map (fun _ => endT - (now + ev.dt))) (now + ev.dt) r))

def showRes : Res → String | .hit => "hit" | .eof => "eof" | .timeout => "timeout" | .blocked => "blocked"

def handle (toks : List String) : String :=
  match toks with
  | t :: st :: d0 :: h0 :: eps :: evs =>
    match st.toInt?, d0.toNat?, eps.toNat?, evs.mapM parseEv with
    | some start, some d0, some eps, some evs =>
      let T : Option Int := if t == "none" then none else t.toInt?
      let r := expectLoop T start d0 (h0 == "1") evs
      let ok := runOkB eps (start + T.getD 0) T (start + d0) evs
      s!"{showRes r.1} {r.2} ok={ok}"
    | _, _, _, _ => "bad-op"
  | _ => "bad-op"

def handleWait (toks : List String) : String :=
  match toks with
  | t :: st :: sl :: evs =>
    match st.toInt?, sl.toNat? with
    | some start, some S =>
      let T : Option Int := if t == "none" then none else t.toInt?
      let wevs := evs.filterMap (fun e => match e.splitOn ":" with
        | [d, b] => d.toNat?.map (fun d => (⟨b == "1", d⟩ : WEv))
        | _ => none)
      let r := waitnoecho S (start + T.getD 0) T start wevs
      let res := match r.1 with | some true => "True" | some false => "False" | none => "blocked"
      s!"{res} {r.2}"
    | _, _ => "bad-op"
  | _ => "bad-op"

/-- `SI <T> <readyAt|none> <handler cost> <d1,d2,…|->`: select_ignore_interrupts / poll_ignore_interrupts under signals -/
def handleSelII (toks : List String) : String :=
  match toks with
  | [t, r, h, ds] =>
    match t.toNat?, h.toNat? with
    | some T, some h =>
      let ready : Option Nat := if r == "none" then none else r.toNat?
      let res := Rt.selII T ready h 0 (decList ds)
      s!"{res.1} {res.2}"
    | _, _ => "bad-op"
  | _ => "bad-op"

end Drv.DeadlineD
