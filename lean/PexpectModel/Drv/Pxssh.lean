import PexpectModel.Pxssh
import PexpectModel.PxPrompt
import PexpectModel.Drv.Ex
import PexpectModel.Drv.Common
/-! driver for the pxssh model:  PX <sync> <reset> <first> @ answers… @ reads… @ resetAnswers…   |   LV <a> <b> -/
namespace Drv.PxD
open Px Drv

def parseAns (s : String) : Option Ans :=
  if s == "E" then some .raisedEOF else if s == "T" then some .raisedTIMEOUT
  else if s.startsWith "i" then (s.drop 1).toNat?.map .idx else none

def parseRead (s : String) : Option (List Nat) := if s == "N" then none else some (decList s)

def showSent : Sent → String
  | .first w i c => s!"F:{match w with | .yes => "yes" | .password => "password" | .termType => "termType"}:{i}:{c}"
  | .enter => "enter"
  | .unsetPromptCommand => "unset"
  | .setPrompt s => s!"set:{match s with | .sh => "sh" | .csh => "csh" | .zsh => "zsh"}"

def showRes : Res → String
  | .ok => "ok" | .pxsshError => "pxssh" | .eofError => "EOF" | .timeoutError => "TIMEOUT"

def split4 (toks : List String) : List (List String) :=
  let rec go : List String → List String → List (List String) → List (List String)
    | [], cur, acc => (cur.reverse :: acc).reverse
    | "@" :: r, cur, acc => go r [] (cur.reverse :: acc)
    | t :: r, cur, acc => go r (t :: cur) acc
  go toks [] []

def handle (toks : List String) : String :=
  match toks with
  | sy :: rs :: first :: "@" :: rest =>
    match split4 rest, parseAns first with
    | [a, r, ra], some f =>
      match a.mapM parseAns, ra.mapM parseAns with
      | some answers, some resetAnswers =>
        let env : Env := { first := f, answers := answers, reads := r.map parseRead, resetAnswers := resetAnswers }
        let o := login PxGen.tbl ⟨sy == "1", rs == "1"⟩ env
        s!"{showRes o.res} closed={if o.closed then 1 else 0} expects={o.expects} reads={o.reads} sent=[{" ".intercalate (o.sent.map showSent)}]"
      | _, _ => "bad-op"
    | _, _ => "bad-op"
  | _ => "bad-op"

def handleLev (toks : List String) : String :=
  match toks with
  | [a, b] => s!"{lev (decList a) (decList b)} {if similar (decList a) (decList b) then 1 else 0}"
  | _ => "bad-op"

/-- PP <n> @ ev… : n successive prompt() calls on the unique prompt -/
def handlePrompt (toks : List String) : String :=
  match toks with
  | n :: "@" :: evToks =>
    match n.toNat?, evToks.mapM Drv.ExD.parseEv with
    | some n, some evs =>
      let (fs, st, _) := PxP.promptSeq n { B := [], S := [] } evs
      " | ".intercalate (fs.map (fun f => Drv.ExD.showFinal f { B := [], S := [] })) ++ s!" | p={encList st.B}"
    | _, _ => "bad-op"
  | _ => "bad-op"

end Drv.PxD
