import PexpectModel.Repl
import PexpectModel.Drv.Ex
/-! driver for the REPLWrapper model:  RP <prompt> <cont> <n1,n2,…> @ ev…   (n = further lines of each command)
    RC <prompt> <cont> <o> <0|1>  -> cleanB -/
namespace Drv.ReplD
open Ex Rp Drv Drv.ExD

def showR : RRes Nat → String
  | .value v => s!"value={encList v}"
  | .valueError => "ValueError"
  | .raised (.raisedEOF b) => s!"EOF b={encList b}"
  | .raised (.raisedTIMEOUT b) => s!"TIMEOUT b={encList b}"
  | .raised _ => "raised"

def handle (toks : List String) : String :=
  match toks with
  | p :: c :: ns :: "@" :: evToks =>
    match evToks.mapM parseEv with
    | some evs =>
      let cfg : Cfg Nat := { prompt := decList p, cont := decList c }
      -- the constructor's own _expect_prompt() comes first
      let (f0, st0, r0) := expectPrompt cfg { B := [], S := [] } evs
      let (rs, st, rest) := runSeq cfg (decList ns) st0 r0
      let init := match f0 with | .idx i b _ => s!"init={i}:{encList b}" | .raisedEOF _ => "init=EOF" | .raisedTIMEOUT _ => "init=TIMEOUT"
      s!"{init} | {" | ".intercalate (rs.map showR)} | p={encList st.B} left={rest.length}"
    | none => "bad-op"
  | _ => "bad-op"

def handleClean (toks : List String) : String :=
  match toks with
  | [p, c, o, k] => if cleanB ({ prompt := decList p, cont := decList c } : Cfg Nat) { o := decList o, isCont := k == "1" } then "clean" else "dirty"
  | _ => "bad-op"

end Drv.ReplD
