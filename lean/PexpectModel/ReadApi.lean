import PexpectModel.Run
import PexpectModel.Repl
/-! # The file-like reading API of SpawnBase: read(size), readline(), readlines() / iteration

All of them are thin wrappers around `expect` (spawnbase.py:448-517):
`read(n)` = `expect([re.compile('.{n}', DOTALL), EOF])`, `read(-1)` = `expect(EOF)`,
`readline()` = `expect(['\r\n', EOF])`, `readlines()` / `__iter__` = `readline()` until it returns ''.
The theorems say that what these calls *return* is exactly what they removed from the stream. -/
namespace Ra
open Ex Py
variable {α : Type} [DecidableEq α]

/-- `re.compile('.{n}', re.DOTALL)`: the next `n` characters, whatever they are -/
def dotN (n : Nat) : ReFn α := { search := fun w pos => if pos + n ≤ w.length then some (pos, pos + n) else none }

/-- a literal string compiled as a regular expression (`'\r\n'`) -/
def litRe (s : List α) : ReFn α := { search := fun w pos => (findFrom s w pos).map (fun i => (i, i + s.length)) }

theorem dotN_wf (n : Nat) : (dotN n : ReFn α).WF := by
  intro w pos s e h
  simp only [dotN] at h
  split at h
  · simp only [Option.some.injEq, Prod.mk.injEq] at h; obtain ⟨rfl, rfl⟩ := h; omega
  · cases h

inductive RVal (α : Type) where
  | value (v : List α)
  | raised (f : Final α)
deriving DecidableEq

/-- `spawn.read(size)` for `size > 0` (repaired: the call ignores the object's search window) -/
def readN (n : Nat) (st : St α) (evs : List (Ev α)) : RVal α × St α × List (Ev α) :=
  match expectList [.re (dotN n), .eof] 0 st evs with
  | (.idx 0 _ (.text a), st', r) => (.value a, st', r)
  | (.idx _ b _, st', r) => (.value b, st', r)
  | (f, st', r) => (.raised f, st', r)

/-- `spawn.read()` / `spawn.read(-1)` -/
def readAll (W : Nat) (st : St α) (evs : List (Ev α)) : RVal α × St α × List (Ev α) :=
  match expectList [.eof] W st evs with
  | (.idx _ b _, st', r) => (.value b, st', r)
  | (f, st', r) => (.raised f, st', r)

/-- `spawn.readline()` -/
def readline (crlf : List α) (W : Nat) (st : St α) (evs : List (Ev α)) : RVal α × St α × List (Ev α) :=
  match expectList [.re (litRe crlf), .eof] W st evs with
  | (.idx 0 b _, st', r) => (.value (b ++ crlf), st', r)
  | (.idx _ b _, st', r) => (.value b, st', r)
  | (f, st', r) => (.raised f, st', r)

/-- `spawn.readlines()` (= `list(iter(spawn))`): `fuel` bounds the number of lines -/
def readlines (crlf : List α) (W : Nat) : Nat → St α → List (Ev α) → List (List α) → Option (List (List α)) × St α × List (Ev α)
  | 0, st, evs, acc => (some acc, st, evs)
  | fuel+1, st, evs, acc =>
      match readline crlf W st evs with
      | (.value [], st', r) => (some acc, st', r)
      | (.value l, st', r) => readlines crlf W fuel st' r (acc ++ [l])
      | (.raised _, st', r) => (none, st', r)            -- TIMEOUT propagates to the caller

/-! ### every hit of a call comes from one naive search -/

theorem nloop_hit_from (sr : Searcher α) (W : Nat) (P : Nat → List α → List α → Prop)
    (hP : ∀ B i b a rest, nsearch sr W B = some (i, b, a, rest) → P i b a) (evs : List (Ev α)) (B : List α) (i : Nat) (b a : List α)
    (h : (nloop sr W B evs).1 = .hit i b a) : P i b a := by
  induction evs generalizing B with
  | nil => simp [nloop] at h
  | cons e r ih =>
    cases e with
    | data d =>
      simp only [nloop] at h
      cases hn : nsearch sr W (B ++ d) with
      | none => rw [hn] at h; exact ih (B ++ d) h
      | some t =>
        obtain ⟨i', b', a', rest⟩ := t
        rw [hn] at h
        simp only [Out.hit.injEq] at h
        obtain ⟨rfl, rfl, rfl⟩ := h
        exact hP _ _ _ _ _ hn
    | eofExc => simp [nloop] at h
    | timeoutExc => simp [nloop] at h
    | expired => simp [nloop] at h

theorem ncall_hit_from (sr : Searcher α) (W : Nat) (P : Nat → List α → List α → Prop)
    (hP : ∀ B i b a rest, nsearch sr W B = some (i, b, a, rest) → P i b a) (evs : List (Ev α)) (B : List α) (i : Nat) (b a : List α)
    (h : (ncall sr W B evs).1 = .hit i b a) : P i b a := by
  unfold ncall at h
  cases hn : nsearch sr W B with
  | none => rw [hn] at h; exact nloop_hit_from sr W P hP evs B i b a h
  | some t =>
    obtain ⟨i', b', a', rest⟩ := t
    rw [hn] at h
    simp only [Out.hit.injEq] at h
    obtain ⟨rfl, rfl, rfl⟩ := h
    exact hP _ _ _ _ _ hn

theorem search_dotN (n : Nat) (B : List α) (f : Nat) :
    (reSr [(0, dotN n)]).search B f 0 = if n ≤ B.length then some ⟨0, 0, n⟩ else none := by
  simp only [reSr, searchRe, List.foldl_cons, List.foldl_nil, stepRe, dotN, if_true, Nat.zero_add]
  by_cases hle : n ≤ B.length
  · simp [hle, keep]
  · simp [hle]

/-- `.{n}` searched from the front: the match is the first `n` characters, nothing precedes it -/
theorem nsearch_dotN (n : Nat) (B : List α) (i : Nat) (b a rest : List α)
    (h : nsearch (reSr [(0, dotN n)]) 0 B = some (i, b, a, rest)) : i = 0 ∧ b = [] ∧ a.length = n := by
  unfold nsearch at h
  simp only [win, if_true, search_dotN] at h
  by_cases hle : n ≤ B.length
  · simp only [hle, if_true, Option.some.injEq, Prod.mk.injEq] at h
    obtain ⟨rfl, rfl, rfl, -⟩ := h
    refine ⟨rfl, by simp, ?_⟩
    simp [List.length_take, hle]
  · simp [hle] at h

theorem search_litRe (s : List α) (w : List α) (f W : Nat) :
    (reSr [(0, litRe s)]).search w f W =
      (findFrom s w (if W = 0 then 0 else w.length - W)).map (fun j => ⟨0, j, j + s.length⟩) := by
  simp only [reSr, searchRe, List.foldl_cons, List.foldl_nil, stepRe, litRe]
  cases findFrom s w (if W = 0 then 0 else w.length - W) with
  | none => rfl
  | some j => simp [keep]

/-- a literal: the matched text is the literal itself -/
theorem nsearch_litRe (s : List α) (W : Nat) (B : List α) (i : Nat) (b a rest : List α)
    (h : nsearch (reSr [(0, litRe s)]) W B = some (i, b, a, rest)) : i = 0 ∧ a = s := by
  unfold nsearch at h
  simp only [search_litRe] at h
  cases hj : findFrom s (win W B) (if W = 0 then 0 else (win W B).length - W) with
  | none => rw [hj] at h; cases h
  | some j =>
    rw [hj] at h
    simp only [Option.map_some, Option.some.injEq, Prod.mk.injEq] at h
    obtain ⟨rfl, -, rfl, -⟩ := h
    refine ⟨rfl, ?_⟩
    obtain ⟨-, hocc, -⟩ := findFrom_some hj
    obtain ⟨hle, t, ht⟩ := hocc
    rw [List.drop_take]
    have : j + s.length - j = s.length := by omega
    rw [this, ← ht]
    simp

theorem litRe_wf (s : List α) : (litRe s).WF := by
  intro w pos st e h
  simp only [litRe, Option.map_eq_some_iff, Prod.mk.injEq] at h
  obtain ⟨j, hj, rfl, rfl⟩ := h
  obtain ⟨h1, hocc, -⟩ := findFrom_some hj
  have := Rp.occAt_len hocc
  exact ⟨h1, by omega, this⟩

/-- one reader call over `[re r, EOF]`: conservation plus what a hit looks like -/
theorem reader_call (r : ReFn α) (hr : r.WF) (W : Nat) (st : St α) (evs : List (Ev α)) (hI : Inv st)
    (P : Nat → List α → List α → Prop) (hP : ∀ B i b a rest, nsearch (reSr [(0, r)]) W B = some (i, b, a, rest) → P i b a) :
    ∃ used, evs = used ++ (expectList [.re r, .eof] W st evs).2.2 ∧ Inv (expectList [.re r, .eof] W st evs).2.1 ∧
      (∀ i b a, (expectList [.re r, .eof] W st evs).1 = .idx i b (.text a) →
          P i b a ∧ b ++ a ++ (expectList [.re r, .eof] W st evs).2.1.B = st.B ++ dataOf used) ∧
      (∀ i b, (expectList [.re r, .eof] W st evs).1 = .idx i b .eofCls →
          b = st.B ++ dataOf used ∧ (expectList [.re r, .eof] W st evs).2.1.B = []) ∧
      (∀ i b, (expectList [.re r, .eof] W st evs).1 ≠ .idx i b .timeoutCls) := by
  have hres : resFrom 0 ([.re r, .eof] : List (Pat α)) = [(0, r)] := rfl
  have hk : (Kind.re [(0, r)]).WF := by intro p hp; simp only [List.mem_singleton] at hp; subst hp; exact hr
  obtain ⟨used, e1, c1, -, he, hinv⟩ := Rn.call_conserve (Kind.re [(0, r)]) hk W evs st hI
  obtain ⟨h1, -, -⟩ := callKind_eq_ncall (Kind.re [(0, r)]) W evs st hI
  simp only [Kind.sr] at e1 c1 he hinv h1
  unfold expectList
  rw [hres]
  rcases hc : call (reSr [(0, r)]) W st evs with ⟨o, st', rr⟩
  rw [hc] at e1 c1 he hinv h1
  simp only at e1 c1 he hinv h1 ⊢
  refine ⟨used, e1, hinv, ?_, ?_, ?_⟩
  · intro i b a hf
    cases o with
    | hit i' b' a' =>
      simp only [finish, Final.idx.injEq, AfterV.text.injEq] at hf
      obtain ⟨rfl, rfl, rfl⟩ := hf
      refine ⟨ncall_hit_from _ W P hP evs st.B _ _ _ h1.symm, ?_⟩
      simpa [handed] using c1.symm
    | eof b' => simp only [finish] at hf; split at hf <;> simp at hf
    | timeout b' => simp only [finish] at hf; split at hf <;> simp at hf
  · intro i b hf
    cases o with
    | hit i' b' a' => simp [finish] at hf
    | eof b' =>
      simp only [finish] at hf
      split at hf
      · simp only [Final.idx.injEq] at hf
        obtain ⟨-, rfl, -⟩ := hf
        obtain ⟨hB, hb⟩ := he b' rfl
        exact ⟨hb, hB⟩
      · cases hf
    | timeout b' => simp only [finish] at hf; split at hf <;> simp at hf
  · intro i b hf
    cases o with
    | hit i' b' a' => simp [finish] at hf
    | eof b' => simp only [finish] at hf; split at hf <;> simp at hf
    | timeout b' =>
      simp only [finish] at hf
      have : timeoutIndex ([.re r, .eof] : List (Pat α)) = none := rfl
      rw [this] at hf
      cases hf

def readNVal : Final α → RVal α
  | .idx 0 _ (.text a) => .value a
  | .idx _ b _ => .value b
  | f => .raised f

theorem readN_eq (n : Nat) (st : St α) (evs : List (Ev α)) :
    readN n st evs = (readNVal (expectList [.re (dotN n), .eof] 0 st evs).1, (expectList [.re (dotN n), .eof] 0 st evs).2) := by
  unfold readN readNVal
  rcases expectList [.re (dotN n), .eof] 0 st evs with ⟨f, st', r⟩
  split <;> simp_all

def readlineVal (crlf : List α) : Final α → RVal α
  | .idx 0 b _ => .value (b ++ crlf)
  | .idx _ b _ => .value b
  | f => .raised f

theorem readline_eq (crlf : List α) (W : Nat) (st : St α) (evs : List (Ev α)) :
    readline crlf W st evs = (readlineVal crlf (expectList [.re (litRe crlf), .eof] W st evs).1, (expectList [.re (litRe crlf), .eof] W st evs).2) := by
  unfold readline readlineVal
  rcases expectList [.re (litRe crlf), .eof] W st evs with ⟨f, st', r⟩
  split <;> simp_all

/-- **read_returns_handed**: a `read(n)` that returns `v` removed exactly `v` from the front of the stream —
    `v ++ pending' = pending ++ data read` — and `v` has `n` characters unless the stream ended first -/
theorem read_returns_handed (n : Nat) (st : St α) (evs : List (Ev α)) (hI : Inv st) (v : List α)
    (h : (readN n st evs).1 = .value v) :
    ∃ used, evs = used ++ (readN n st evs).2.2 ∧ Inv (readN n st evs).2.1 ∧
      v ++ (readN n st evs).2.1.B = st.B ++ dataOf used ∧ (v.length = n ∨ (readN n st evs).2.1.B = []) := by
  obtain ⟨used, e1, hinv, hhit, heof, hto⟩ := reader_call (dotN n) (dotN_wf n) 0 st evs hI
    (fun i b a => i = 0 ∧ b = [] ∧ a.length = n) (fun B i b a rest hh => nsearch_dotN n B i b a rest hh)
  rw [readN_eq] at h ⊢
  simp only [] at h ⊢
  rcases hc : expectList [.re (dotN n), .eof] 0 st evs with ⟨f, st', r⟩
  rw [hc] at h e1 hinv hhit heof hto
  simp only at h e1 hinv hhit heof hto ⊢
  cases f with
  | raisedEOF b => simp [readNVal] at h
  | raisedTIMEOUT b => simp [readNVal] at h
  | idx i b af =>
    cases af with
    | text a =>
      obtain ⟨⟨rfl, rfl, hlen⟩, hcons⟩ := hhit i b a rfl
      simp only [readNVal, RVal.value.injEq] at h; subst h
      exact ⟨used, e1, hinv, by simpa using hcons, Or.inl hlen⟩
    | eofCls =>
      obtain ⟨hb, hB⟩ := heof i b rfl
      have : v = b := by cases i <;> simpa [readNVal] using h.symm
      subst this
      exact ⟨used, e1, hinv, by simp [hb, hB], Or.inr hB⟩
    | timeoutCls => exact absurd rfl (hto i b)

/-- **readline_returns_handed**: what `readline()` returns is what it removed from the stream; a returned line
    ends with CR LF unless the stream ended -/
theorem readline_returns_handed (crlf : List α) (W : Nat) (st : St α) (evs : List (Ev α)) (hI : Inv st) (v : List α)
    (h : (readline crlf W st evs).1 = .value v) :
    ∃ used, evs = used ++ (readline crlf W st evs).2.2 ∧ Inv (readline crlf W st evs).2.1 ∧
      v ++ (readline crlf W st evs).2.1.B = st.B ++ dataOf used ∧
      (crlf <:+ v ∨ (readline crlf W st evs).2.1.B = []) := by
  obtain ⟨used, e1, hinv, hhit, heof, hto⟩ := reader_call (litRe crlf) (litRe_wf crlf) W st evs hI
    (fun i _ a => i = 0 ∧ a = crlf) (fun B i b a rest hh => nsearch_litRe crlf W B i b a rest hh)
  rw [readline_eq] at h ⊢
  simp only [] at h ⊢
  rcases hc : expectList [.re (litRe crlf), .eof] W st evs with ⟨f, st', r⟩
  rw [hc] at h e1 hinv hhit heof hto
  simp only at h e1 hinv hhit heof hto ⊢
  cases f with
  | raisedEOF b => simp [readlineVal] at h
  | raisedTIMEOUT b => simp [readlineVal] at h
  | idx i b af =>
    cases af with
    | text a =>
      obtain ⟨⟨rfl, rfl⟩, hcons⟩ := hhit i b a rfl
      simp only [readlineVal, RVal.value.injEq] at h; subst h
      exact ⟨used, e1, hinv, hcons, Or.inl (List.suffix_append _ _)⟩
    | eofCls =>
      obtain ⟨hb, hB⟩ := heof i b rfl
      -- index 0 is the CR LF pattern, so an EOF outcome carries the index of the EOF entry (1)
      cases i with
      | zero =>
        exfalso
        unfold expectList at hc
        rcases hcall : call (reSr (resFrom 0 [.re (litRe crlf), .eof])) W st evs with ⟨o, s2, r2⟩
        rw [hcall] at hc
        simp only [Prod.mk.injEq] at hc
        cases o with
        | hit i' b' a' => simp [finish] at hc
        | timeout b' => simp only [finish] at hc; have : timeoutIndex ([.re (litRe crlf), .eof] : List (Pat α)) = none := rfl; rw [this] at hc; simp at hc
        | eof b' =>
          simp only [finish] at hc
          have : eofIndex ([.re (litRe crlf), .eof] : List (Pat α)) = some 1 := rfl
          rw [this] at hc
          simp at hc
      | succ i =>
        simp only [readlineVal, RVal.value.injEq] at h; subst h
        exact ⟨used, e1, hinv, by simp [hb, hB], Or.inr hB⟩
    | timeoutCls => exact absurd rfl (hto i b)

/-- **readlines_returns_handed** (also iteration): the lines returned, concatenated, followed by what is still
    pending, are the old pending text plus all data read; no returned line is empty -/
theorem readlines_returns_handed (crlf : List α) (W : Nat) (fuel : Nat) (st : St α) (evs : List (Ev α)) (hI : Inv st)
    (acc lines : List (List α)) (h : (readlines crlf W fuel st evs acc).1 = some lines) :
    ∃ used new, evs = used ++ (readlines crlf W fuel st evs acc).2.2 ∧ lines = acc ++ new ∧ (∀ l ∈ new, l ≠ []) ∧
      new.flatten ++ (readlines crlf W fuel st evs acc).2.1.B = st.B ++ dataOf used := by
  induction fuel generalizing st evs acc with
  | zero =>
    simp only [readlines, Option.some.injEq] at h
    exact ⟨[], [], by simp [readlines], by simp [h], by simp, by simp [readlines, dataOf]⟩
  | succ fuel ih =>
    simp only [readlines] at h ⊢
    rcases hr : readline crlf W st evs with ⟨rv, st', r⟩
    rw [hr] at h
    cases rv with
    | raised f => simp at h
    | value l =>
      obtain ⟨u1, e1, hinv, c1, -⟩ := readline_returns_handed crlf W st evs hI l (by rw [hr])
      rw [hr] at e1 hinv c1
      simp only at e1 hinv c1
      cases l with
      | nil =>
        simp only [Option.some.injEq] at h
        exact ⟨u1, [], e1, by simp [h], by simp, by simpa using c1⟩
      | cons c t =>
        simp only [] at h ⊢
        obtain ⟨u2, new, e2, hl, hne, c2⟩ := ih st' r hinv (acc ++ [c :: t]) h
        refine ⟨u1 ++ u2, (c :: t) :: new, by rw [List.append_assoc, ← e2]; exact e1, by rw [hl]; simp, ?_, ?_⟩
        · intro x hx
          rcases List.mem_cons.mp hx with rfl | hx
          · simp
          · exact hne x hx
        · rw [Rn.dataOf_append, ← List.append_assoc, ← c1]
          simp only [List.flatten_cons, List.append_assoc]
          rw [c2]

end Ra
