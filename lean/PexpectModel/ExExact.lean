import PexpectModel.ExLoop
/-! scratch: the read-boundary-straddling lemma for the exact searcher (W = None) -/
namespace Ex
open Py
variable {α : Type} [DecidableEq α]

theorem findFrom_some {pat s : List α} {k j : Nat} (h : findFrom pat s k = some j) :
    k ≤ j ∧ occAt pat s j ∧ ∀ j', k ≤ j' → j' < j → ¬ occAt pat s j' := by
  unfold findFrom at h
  split at h
  · rename_i hk
    cases hf : find pat (s.drop k) with
    | none => simp [hf] at h
    | some n =>
      simp [hf] at h
      subst h
      obtain ⟨⟨hn, hp⟩, hmin⟩ := find_some hf
      refine ⟨by omega, ⟨?_, ?_⟩, ?_⟩
      · simp at hn; omega
      · rw [List.drop_drop] at hp; rwa [Nat.add_comm]
      · intro j' hj' hlt ⟨hl, hp'⟩
        apply hmin (j' - k) (by omega)
        refine ⟨by simp; omega, ?_⟩
        rw [List.drop_drop]
        have : k + (j' - k) = j' := by omega
        rwa [this]
  · simp at h

theorem findFrom_none {pat s : List α} {k : Nat} (hk : k ≤ s.length) (h : findFrom pat s k = none) :
    ∀ j, k ≤ j → ¬ occAt pat s j := by
  unfold findFrom at h
  simp only [hk, if_true] at h
  cases hf : find pat (s.drop k) with
  | some n => simp [hf] at h
  | none =>
    intro j hj ⟨hl, hp⟩
    apply find_none hf (j - k)
    refine ⟨by simp; omega, ?_⟩
    rw [List.drop_drop]
    have : k + (j - k) = j := by omega
    rwa [this]

/-- occurrences inside a suffix are the occurrences of the whole text, shifted -/
theorem occAt_suffix {pat w T : List α} (hw : w <:+ T) (j : Nat) :
    occAt pat T (T.length - w.length + j) ↔ occAt pat w j := by
  obtain ⟨pre, rfl⟩ := hw
  have hoff : (pre ++ w).length - w.length = pre.length := by simp
  rw [hoff]
  unfold occAt
  have hd : (pre ++ w).drop (pre.length + j) = w.drop j := by
    rw [← List.drop_drop, List.drop_left]
  rw [hd]
  simp only [List.length_append]
  constructor
  · rintro ⟨h1, h2⟩; exact ⟨by omega, h2⟩
  · rintro ⟨h1, h2⟩; exact ⟨by omega, h2⟩

/-- an occurrence that ends inside the old text is an occurrence of the old text -/
theorem occAt_old {pat B d : List α} {i : Nat} (h : occAt pat (B ++ d) i) (hi : i + pat.length ≤ B.length) :
    occAt pat B i := by
  obtain ⟨_, hp⟩ := h
  refine ⟨by omega, ?_⟩
  rw [List.drop_append_of_le_length (by omega)] at hp
  exact List.prefix_of_prefix_length_le hp (List.prefix_append _ _) (by simp; omega)

def NoOcc (pat B : List α) : Prop := ∀ i, ¬ occAt pat B i

/-- **the straddling lemma**: searching only `look-back ++ fresh data` from the source's offset finds
    exactly the leftmost occurrence in the whole pending text -/
theorem incremental_find_eq_full (pat B d w : List α)
    (hno : NoOcc pat B) (hw : w <:+ B ++ d)
    (hlen : d.length + min pat.length B.length ≤ w.length) :
    (findFrom pat w (w.length - (d.length + pat.length))).map (· + ((B ++ d).length - w.length))
      = find pat (B ++ d) := by
  have hwl : w.length ≤ (B ++ d).length := hw.length_le
  have hk : w.length - (d.length + pat.length) ≤ w.length := by omega
  -- every occurrence in the whole text lies in the searched part of the window
  have key : ∀ i, occAt pat (B ++ d) i →
      (B ++ d).length - w.length + (w.length - (d.length + pat.length)) ≤ i := by
    intro i hocc
    by_cases hi : i + pat.length ≤ B.length
    · exact absurd (occAt_old hocc hi) (hno i)
    · simp only [List.length_append] at hwl ⊢; omega
  cases hT : find pat (B ++ d) with
  | none =>
    have hnone := find_none hT
    cases hf : findFrom pat w (w.length - (d.length + pat.length)) with
    | none => rfl
    | some j =>
      obtain ⟨_, hocc, _⟩ := findFrom_some hf
      exact absurd ((occAt_suffix hw j).2 hocc) (hnone _)
  | some i =>
    obtain ⟨hocc, hmin⟩ := find_some hT
    have hge := key i hocc
    have hiw : occAt pat w (i - ((B ++ d).length - w.length)) := by
      apply (occAt_suffix hw _).1
      have : (B ++ d).length - w.length + (i - ((B ++ d).length - w.length)) = i := by omega
      rwa [this]
    cases hf : findFrom pat w (w.length - (d.length + pat.length)) with
    | none =>
      exact absurd hiw (findFrom_none hk hf _ (by omega))
    | some j =>
      obtain ⟨hkj, hoccj, hminj⟩ := findFrom_some hf
      simp only [Option.map_some, Option.some.injEq]
      have hjT := (occAt_suffix hw j).2 hoccj
      -- minimality on both sides
      by_cases hlt : (B ++ d).length - w.length + j < i
      · exact absurd hjT (hmin _ hlt)
      · by_cases hgt : i < (B ++ d).length - w.length + j
        · exact absurd hiw (hminj _ (by omega) (by omega))
        · omega

end Ex
