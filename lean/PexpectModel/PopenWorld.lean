import PexpectModel.PipeWorld
/-! `PopenSpawn`: a reader thread moves ≤ 1024-byte chunks from the pipe into a queue and finally puts `None`;
    `read_nonblocking` drains the queue without blocking into the carry-over `_buf` and hands out `buf[:size]`.
    The schedule interleaves peer actions, thread steps and the reader's own `get_nowait` calls arbitrarily. -/
namespace PopenW
open PipeW

structure St where
  w : World
  queue : List (Option (List Byte))
  threadDone : Bool
  buf : List Byte            -- `_buf`
  reachedEof : Bool          -- `_read_reached_eof`

/-- one iteration of `_read_incoming`: a blocking `os.read(fileno, 1024)` that returned (only scheduled when readable) -/
def threadStep (nbytes : Nat) (s : St) : St :=
  if s.threadDone then s
  else if !readable s.w then s                       -- still blocked in os.read
  else if s.w.kbuf.isEmpty then { s with queue := s.queue ++ [none], threadDone := true }
  else
    let n := max 1 (min nbytes (min 1024 s.w.kbuf.length))
    { s with w := { s.w with kbuf := s.w.kbuf.drop n }, queue := s.queue ++ [some (s.w.kbuf.take n)] }

/-- a scheduler decision before each `get_nowait`: peer actions and thread steps, interleaved as listed -/
inductive Bg | peer | thread (nbytes : Nat)

def bgStep (s : St) : Bg → St
  | .peer => { s with w := peerStep s.w }
  | .thread n => threadStep n s

def bgSteps (s : St) (l : List Bg) : St := l.foldl bgStep s

/-- one slot of the schedule for one loop iteration: what happens in the background, and whether
    `time.time() - t0 < timeout` still holds when the loop condition is evaluated -/
structure Slot where
  bg : List Bg
  timeLeft : Bool

def nextSlot : List Slot → Slot × List Slot
  | [] => (⟨[], false⟩, [])
  | s :: r => (s, r)

/-- the `while` loop of `read_nonblocking` (repaired: the queue is looked at once before the clock is consulted) -/
def fill (size : Nat) : Nat → Bool → St → List Slot → St × List Slot
  | 0, _, s, sc => (s, sc)
  | fuel+1, first, s, sc =>
    let (sl, sc) := nextSlot sc
    let s := bgSteps s sl.bg
    if (first || sl.timeLeft) && size != 0 && s.buf.length < size then
      match s.queue with
      | [] => (s, sc)                                              -- Empty: break
      | none :: q => ({ s with queue := q, reachedEof := true }, sc)
      | some c :: q => fill size fuel false { s with queue := q, buf := s.buf ++ c } sc
    else (s, sc)

inductive Out | data (bs : List Byte) | eof
deriving DecidableEq

/-- `PopenSpawn.read_nonblocking(size, timeout)` — never blocks; may return an empty string -/
def readNonblocking (size : Nat) (fuel : Nat) (s : St) (sc : List Slot) : Out × St × List Slot :=
  if s.reachedEof then
    if s.buf ≠ [] then (.data (s.buf.take size), { s with buf := s.buf.drop size }, sc)
    else (.eof, s, sc)
  else
    let r := fill size fuel true s sc
    (.data (r.1.buf.take size), { r.1 with buf := r.1.buf.drop size }, r.2)

def qdata : List (Option (List Byte)) → List Byte
  | [] => []
  | none :: r => qdata r
  | some c :: r => c ++ qdata r

theorem qdata_append (a b : List (Option (List Byte))) : qdata (a ++ b) = qdata a ++ qdata b := by
  induction a with
  | nil => rfl
  | cons x t ih => cases x <;> simp [qdata, ih]

/-- delivered ++ carry-over ++ queued ++ still in the pipe = everything the peer wrote -/
def Conserve (d : List Byte) (s : St) : Prop := d ++ s.buf ++ qdata s.queue ++ s.w.kbuf = s.w.written

/-- `None` is only ever the last queue entry, is put exactly when the thread saw end of stream, and once the
    reader has taken it nothing is left anywhere -/
def Inv (s : St) : Prop :=
  (s.threadDone = true → s.w.kbuf = [] ∧ s.w.open_ = false) ∧
  (∀ pre post, s.queue = pre ++ none :: post → post = [] ∧ s.threadDone = true) ∧
  (s.reachedEof = true → s.queue = [] ∧ s.threadDone = true)

theorem threadStep_conserve (n : Nat) (d : List Byte) (s : St) (h : Conserve d s) : Conserve d (threadStep n s) := by
  unfold threadStep
  split
  · exact h
  · split
    · exact h
    · split
      · simp only [Conserve, qdata_append, qdata, List.append_nil] at h ⊢; exact h
      · simp only [Conserve, qdata_append, qdata, List.append_nil] at h ⊢
        rw [← h]
        simp only [List.append_assoc, List.take_append_drop]

theorem bgStep_conserve (d : List Byte) (s : St) (b : Bg) (h : Conserve d s) : Conserve d (bgStep s b) := by
  cases b with
  | peer =>
    simp only [bgStep, Conserve] at h ⊢
    have := peerStep_conserve (d ++ s.buf ++ qdata s.queue) s.w (by simpa [PipeW.Conserve] using h)
    simpa [PipeW.Conserve] using this
  | thread n => exact threadStep_conserve n d s h

theorem bgSteps_conserve (d : List Byte) (l : List Bg) (s : St) (h : Conserve d s) : Conserve d (bgSteps s l) := by
  induction l generalizing s with
  | nil => exact h
  | cons b t ih => exact ih _ (bgStep_conserve d s b h)

theorem threadStep_inv (n : Nat) (s : St) (h : Inv s) (hre : s.reachedEof = false ∨ True) : Inv (threadStep n s) := by
  obtain ⟨h1, h2, h3⟩ := h
  unfold threadStep
  by_cases hd : s.threadDone = true
  · rw [if_pos hd]; exact ⟨h1, h2, h3⟩
  · rw [if_neg hd]
    have hnot : s.reachedEof = false := by
      cases hr : s.reachedEof with
      | false => rfl
      | true => exact absurd (h3 hr).2 hd
    split
    · exact ⟨h1, h2, h3⟩
    · rename_i hrd
      have hrd' : readable s.w = true := by simpa using hrd
      split
      · rename_i hk
        refine ⟨?_, ?_, ?_⟩
        · intro _
          have hk' : s.w.kbuf = [] := by simpa using hk
          exact ⟨hk', by simpa [readable, hk'] using hrd'⟩
        · intro pre post hq
          simp only at hq
          -- the only `none` is the one just appended
          by_cases hpost : post = []
          · exact ⟨hpost, rfl⟩
          · exfalso
            -- then `none` already occurred in the old queue, so the thread was done
            have : ∃ post', post = post' ++ [none] ∧ s.queue = pre ++ none :: post' := by
              have hl := congrArg List.getLast? hq
              obtain ⟨p', x, hpx⟩ : ∃ p' x, post = p' ++ [x] := ⟨post.dropLast, post.getLast hpost, (List.dropLast_concat_getLast hpost).symm⟩
              subst hpx
              have hq' : s.queue ++ [none] = (pre ++ none :: p') ++ [x] := by simpa [List.append_assoc] using hq
              have := List.append_inj' hq' rfl
              obtain ⟨e1, e2⟩ := this
              simp only [List.cons.injEq, and_true] at e2
              subst e2
              exact ⟨p', rfl, e1⟩
            obtain ⟨post', _, hq0⟩ := this
            exact hd (h2 pre post' hq0).2
        · intro hr; simp only at hr; rw [hnot] at hr; cases hr
      · refine ⟨?_, ?_, ?_⟩
        · intro hdd; exact absurd hdd hd
        · intro pre post hq
          simp only at hq
          exfalso
          -- a `none` inside `queue ++ [some _]` lies in the old queue
          by_cases hpost : post = []
          · subst hpost
            have := congrArg List.getLast? hq
            simp at this
          · obtain ⟨p', x, hpx⟩ : ∃ p' x, post = p' ++ [x] := ⟨post.dropLast, post.getLast hpost, (List.dropLast_concat_getLast hpost).symm⟩
            subst hpx
            have hq' : s.queue ++ [some (List.take (max 1 (min n (min 1024 s.w.kbuf.length))) s.w.kbuf)] = (pre ++ none :: p') ++ [x] := by
              simpa [List.append_assoc] using hq
            have := (List.append_inj' hq' rfl).1
            exact hd (h2 pre p' this).2
        · intro hr; simp only at hr; rw [hnot] at hr; cases hr

theorem threadStep_reachedEof (n : Nat) (s : St) : (threadStep n s).reachedEof = s.reachedEof := by
  unfold threadStep
  by_cases h1 : s.threadDone = true
  · rw [if_pos h1]
  · rw [if_neg h1]
    by_cases h2 : (!readable s.w) = true
    · rw [if_pos h2]
    · rw [if_neg h2]
      by_cases h3 : s.w.kbuf.isEmpty = true
      · rw [if_pos h3]
      · rw [if_neg h3]

theorem bgSteps_reachedEof (l : List Bg) (s : St) : (bgSteps s l).reachedEof = s.reachedEof := by
  induction l generalizing s with
  | nil => rfl
  | cons b t iht =>
    show (bgSteps (bgStep s b) t).reachedEof = s.reachedEof
    rw [iht]
    cases b with
    | peer => rfl
    | thread n => exact threadStep_reachedEof n s

theorem bgStep_inv (s : St) (b : Bg) (h : Inv s) : Inv (bgStep s b) := by
  cases b with
  | thread n => exact threadStep_inv n s h (Or.inr trivial)
  | peer =>
    obtain ⟨h1, h2, h3⟩ := h
    refine ⟨?_, h2, h3⟩
    intro hd
    obtain ⟨hk, ho⟩ := h1 hd
    obtain ⟨a, b⟩ := peerStep_closed s.w ho
    exact ⟨by simp only [bgStep]; rw [b]; exact hk, a⟩

theorem bgSteps_inv (l : List Bg) (s : St) (h : Inv s) : Inv (bgSteps s l) := by
  induction l generalizing s with
  | nil => exact h
  | cons b t ih => exact ih _ (bgStep_inv s b h)

theorem fill_facts (size : Nat) (d : List Byte) :
    ∀ (fuel : Nat) (first : Bool) (s : St) (sc : List Slot), Inv s → Conserve d s → s.reachedEof = false →
      Inv (fill size fuel first s sc).1 ∧ Conserve d (fill size fuel first s sc).1 := by
  intro fuel
  induction fuel with
  | zero => intro first s sc h1 h2 _; exact ⟨h1, h2⟩
  | succ fuel ih =>
    intro first s sc h1 h2 h3
    unfold fill
    simp only
    have hi := bgSteps_inv (nextSlot sc).1.bg s h1
    have hc := bgSteps_conserve d (nextSlot sc).1.bg s h2
    have hre : (bgSteps s (nextSlot sc).1.bg).reachedEof = false := by
      rw [bgSteps_reachedEof]; exact h3
    generalize bgSteps s (nextSlot sc).1.bg = s1 at hi hc hre
    split
    · cases hq : s1.queue with
      | nil => exact ⟨hi, hc⟩
      | cons x q =>
        cases x with
        | none =>
          simp only
          obtain ⟨i1, i2, i3⟩ := hi
          obtain ⟨hp, hdone⟩ := i2 [] q (by simpa using hq)
          refine ⟨⟨i1, ?_, ?_⟩, ?_⟩
          · intro pre post hq'; simp only at hq'; subst hp; cases pre <;> simp at hq'
          · intro _; exact ⟨hp, hdone⟩
          · simp only [Conserve, hq, qdata] at hc ⊢; exact hc
        | some c =>
          simp only
          apply ih
          · obtain ⟨i1, i2, i3⟩ := hi
            refine ⟨i1, ?_, ?_⟩
            · intro pre post hq'
              simp only at hq'
              exact i2 (some c :: pre) post (by rw [hq, hq']; rfl)
            · intro hr; simp only at hr; rw [hre] at hr; cases hr
          · simp only [Conserve, hq, qdata] at hc ⊢
            rw [← hc]; simp only [List.append_assoc]
          · exact hre
    · exact ⟨hi, hc⟩

/-- **PopenSpawn, one read**: the stream is conserved (what is returned plus the carry-over, the queue and the
    pipe is what the peer wrote), at most `size` characters are returned, and EOF is reported only when the
    reader thread has seen end of stream and the carry-over, the queue and the pipe are all empty -/
theorem readNonblocking_post (size fuel : Nat) (s : St) (sc : List Slot) (d : List Byte) (hi : Inv s) (hc : Conserve d s) :
    let r := readNonblocking size fuel s sc
    Inv r.2.1 ∧
    (∀ bs, r.1 = .data bs → Conserve (d ++ bs) r.2.1 ∧ bs.length ≤ size) ∧
    (r.1 = .eof → Conserve d r.2.1 ∧ r.2.1.buf = [] ∧ r.2.1.queue = [] ∧ r.2.1.w.kbuf = [] ∧ r.2.1.w.open_ = false) := by
  unfold readNonblocking
  by_cases hre : s.reachedEof = true
  · rw [if_pos hre]
    by_cases hb : s.buf ≠ []
    · rw [if_pos hb]
      refine ⟨hi, ?_, by intro h; cases h⟩
      intro bs h
      simp only [Out.data.injEq] at h
      subst h
      refine ⟨?_, by simp only [List.length_take]; omega⟩
      simp only [Conserve] at hc ⊢
      rw [← hc]; simp only [List.append_assoc]
      rw [← List.append_assoc (List.take size s.buf), List.take_append_drop]
    · rw [if_neg hb]
      have hb' : s.buf = [] := by simpa using hb
      obtain ⟨hq, hd⟩ := hi.2.2 hre
      obtain ⟨hk, ho⟩ := hi.1 hd
      exact ⟨hi, by intro bs h; simp at h, fun _ => ⟨hc, hb', hq, hk, ho⟩⟩
  · rw [if_neg hre]
    have hre' : s.reachedEof = false := by simpa using hre
    obtain ⟨fi, fc⟩ := fill_facts size d fuel true s sc hi hc hre'
    simp only
    refine ⟨⟨fi.1, fi.2.1, fi.2.2⟩, ?_, by intro h; cases h⟩
    intro bs h
    simp only [Out.data.injEq] at h
    subst h
    refine ⟨?_, by simp only [List.length_take]; omega⟩
    simp only [Conserve] at fc ⊢
    rw [← fc]; simp only [List.append_assoc]
    rw [← List.append_assoc (List.take size _), List.take_append_drop]

def s0 (script : List Act) : St := ⟨⟨[], true, script, []⟩, [], false, [], false⟩

theorem s0_ok (script : List Act) : Inv (s0 script) ∧ Conserve [] (s0 script) := by
  refine ⟨⟨fun h => by simp [s0] at h, ?_, fun h => by simp [s0] at h⟩, by simp [Conserve, s0, qdata]⟩
  intro pre post h
  simp [s0] at h

/-- the defect that was repaired: with `timeout = 0` the clock test failed before the queue was looked at -/
def fillPre (size : Nat) (timeLeft : Bool) (s : St) : St :=
  if timeLeft && size != 0 && s.buf.length < size then
    match s.queue with
    | some c :: q => { s with queue := q, buf := s.buf ++ c }
    | _ => s
  else s

example : (fillPre 10 false { (s0 []) with queue := [some [1, 2]] }).buf = [] := by decide
example : (fill 10 3 true { (s0 []) with queue := [some [1, 2]] } []).1.buf = [1, 2] := by decide

end PopenW
