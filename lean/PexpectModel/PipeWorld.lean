/-! The pipe / socket world (a FIFO with an end-of-stream mark) and the three transports that read from it:
    `fdspawn.read_nonblocking`, `SocketSpawn.read_nonblocking`, and `PopenSpawn` (reader thread → queue → `_buf`).
    As in the pty world the schedule decides, before every reader step, how many peer actions happen and how
    many bytes the kernel hands over. -/
namespace PipeW

abbrev Byte := Nat

inductive Act | write (bs : List Byte) | close
deriving Repr, DecidableEq

structure World where
  kbuf : List Byte          -- written by the peer, not yet read
  open_ : Bool              -- the peer still holds its end
  script : List Act
  written : List Byte       -- ghost: everything the peer wrote
deriving Repr

def peerStep (w : World) : World :=
  match w.script with
  | [] => w
  | .write bs :: r =>
      if w.open_ then { w with kbuf := w.kbuf ++ bs, written := w.written ++ bs, script := r } else { w with script := r }
  | .close :: r => { w with open_ := false, script := r }

def peerSteps : Nat → World → World
  | 0, w => w
  | n+1, w => peerSteps n (peerStep w)

structure Step where
  acts : Nat
  nbytes : Nat
deriving Repr

abbrev Sched := List Step

def nextStep : Sched → Step × Sched
  | [] => (⟨0, 1000000⟩, [])
  | s :: r => (s, r)

def readable (w : World) : Bool := !w.kbuf.isEmpty || !w.open_

/-- `select(timeout)`: peer actions one at a time until readable or the scheduled count is used up -/
def selectT (w : World) (sc : Sched) : Bool × World × Sched :=
  let (s, sc) := nextStep sc
  let rec go : Nat → World → Bool × World
    | 0, w => (readable w, w)
    | n+1, w => if readable w then (true, w) else go n (peerStep w)
  let (r, w) := go s.acts w
  (r, w, sc)

inductive Out | data (bs : List Byte) | eof | timeout
deriving Repr, DecidableEq

/-- `os.read(fd, size)` / `sock.recv(size)` on a readable descriptor: a non-empty prefix, or b'' at end of stream -/
def osRead (size : Nat) (w : World) (sc : Sched) : Out × World × Sched :=
  let (s, sc) := nextStep sc
  let w := peerSteps s.acts w
  if w.kbuf.isEmpty then (.eof, w, sc)
  else
    let n := max 1 (min s.nbytes (min size w.kbuf.length))
    (.data (w.kbuf.take n), { w with kbuf := w.kbuf.drop n }, sc)

/-- `fdspawn.read_nonblocking(size, timeout)` -/
def fdRead (size : Nat) (w : World) (sc : Sched) : Out × World × Sched :=
  let r := selectT w sc
  if r.1 then osRead size r.2.1 r.2.2 else (.timeout, r.2.1, r.2.2)

/-- the socket object's own timeout setting -/
structure Sock where
  timeout : Option Nat
deriving Repr, DecidableEq

/-- `SocketSpawn.read_nonblocking(size, timeout)`: `with self._timeout(timeout): recv` — the setting is restored
    in a `finally`, whatever the outcome -/
def sockRead (size : Nat) (t : Option Nat) (s : Sock) (w : World) (sc : Sched) : Out × Sock × World × Sched :=
  let saved := s.timeout
  let s1 : Sock := { timeout := t }
  let r := fdRead size w sc
  let _used := s1
  (r.1, { timeout := saved }, r.2.1, r.2.2)

def Conserve (d : List Byte) (w : World) : Prop := d ++ w.kbuf = w.written
def Drained (w : World) : Prop := w.kbuf = [] ∧ w.open_ = false

theorem peerStep_conserve (d : List Byte) (w : World) (h : Conserve d w) : Conserve d (peerStep w) := by
  unfold peerStep
  split
  · exact h
  · split
    · simp only [Conserve] at *; rw [← List.append_assoc, h]
    · exact h
  · exact h

theorem peerSteps_conserve (n : Nat) (d : List Byte) (w : World) (h : Conserve d w) : Conserve d (peerSteps n w) := by
  induction n generalizing w with
  | zero => exact h
  | succ n ih => exact ih _ (peerStep_conserve d w h)

theorem peerStep_closed (w : World) (h : w.open_ = false) : (peerStep w).open_ = false ∧ (peerStep w).kbuf = w.kbuf := by
  unfold peerStep
  split <;> simp_all

theorem peerSteps_closed (n : Nat) (w : World) (h : w.open_ = false) : (peerSteps n w).open_ = false ∧ (peerSteps n w).kbuf = w.kbuf := by
  induction n generalizing w with
  | zero => exact ⟨h, rfl⟩
  | succ n ih =>
    obtain ⟨h1, h2⟩ := peerStep_closed w h
    obtain ⟨h3, h4⟩ := ih _ h1
    exact ⟨h3, by show (peerSteps n (peerStep w)).kbuf = w.kbuf; rw [h4, h2]⟩

theorem peerStep_kbuf_mono (w : World) (h : w.kbuf ≠ []) : (peerStep w).kbuf ≠ [] := by
  unfold peerStep
  split <;> try exact h
  split <;> simp_all

theorem peerSteps_kbuf_mono (n : Nat) (w : World) (h : w.kbuf ≠ []) : (peerSteps n w).kbuf ≠ [] := by
  induction n generalizing w with
  | zero => exact h
  | succ n ih => exact ih _ (peerStep_kbuf_mono w h)

theorem selectT_go_facts (n : Nat) (w : World) (d : List Byte) (hc : Conserve d w) :
    Conserve d (selectT.go n w).2 ∧ (selectT.go n w).1 = readable (selectT.go n w).2 := by
  induction n generalizing w with
  | zero => exact ⟨hc, rfl⟩
  | succ n ih =>
    unfold selectT.go
    by_cases hr : readable w = true
    · rw [if_pos hr]; exact ⟨hc, hr.symm⟩
    · rw [if_neg hr]; exact ih (peerStep w) (peerStep_conserve d w hc)

def Post (d : List Byte) (size : Nat) (o : Out) (w : World) : Prop :=
  match o with
  | .data bs => Conserve (d ++ bs) w ∧ bs.length ≤ size ∧ bs ≠ []
  | .eof => Drained w ∧ Conserve d w
  | .timeout => Conserve d w

theorem osRead_post (size : Nat) (hsize : 1 ≤ size) (w : World) (sc : Sched) (d : List Byte) (hr : readable w = true)
    (hc : Conserve d w) : Post d size (osRead size w sc).1 (osRead size w sc).2.1 := by
  unfold osRead
  simp only
  have hc1 := peerSteps_conserve (nextStep sc).1.acts d w hc
  by_cases hk : (peerSteps (nextStep sc).1.acts w).kbuf.isEmpty = true
  · simp only [hk, if_true, Post]
    refine ⟨⟨by simpa using hk, ?_⟩, hc1⟩
    by_cases hkb : w.kbuf = []
    · have : w.open_ = false := by simpa [readable, hkb] using hr
      exact (peerSteps_closed _ w this).1
    · exact absurd (by simpa using hk) (peerSteps_kbuf_mono _ w hkb)
  · simp only [hk, Bool.false_eq_true, if_false, Post]
    have hne : (peerSteps (nextStep sc).1.acts w).kbuf ≠ [] := by simpa using hk
    have hlen : 0 < (peerSteps (nextStep sc).1.acts w).kbuf.length := List.length_pos_iff.mpr hne
    refine ⟨?_, ?_, ?_⟩
    · simp only [Conserve] at hc1 ⊢
      rw [List.append_assoc, List.take_append_drop]; exact hc1
    · simp only [List.length_take]; omega
    · intro h
      have := congrArg List.length h
      simp only [List.length_take, List.length_nil] at this
      omega

/-- **fdspawn / SocketSpawn, one read**: data conserves the stream and is at most `size` bytes, EOF only when the
    stream is drained and closed, TIMEOUT consumes nothing -/
theorem fdRead_post (size : Nat) (hsize : 1 ≤ size) (w : World) (sc : Sched) (d : List Byte) (hc : Conserve d w) :
    Post d size (fdRead size w sc).1 (fdRead size w sc).2.1 := by
  unfold fdRead selectT
  simp only
  obtain ⟨h1, h2⟩ := selectT_go_facts (nextStep sc).1.acts w d hc
  by_cases hr : (selectT.go (nextStep sc).1.acts w).1 = true
  · rw [if_pos hr]
    exact osRead_post size hsize _ _ d (by rw [← h2]; exact hr) h1
  · rw [if_neg hr]; exact h1

theorem socket_timeout_restored (size : Nat) (t : Option Nat) (s : Sock) (w : World) (sc : Sched) :
    (sockRead size t s w sc).2.1 = s := rfl

theorem sockRead_post (size : Nat) (hsize : 1 ≤ size) (t : Option Nat) (s : Sock) (w : World) (sc : Sched) (d : List Byte)
    (hc : Conserve d w) : Post d size (sockRead size t s w sc).1 (sockRead size t s w sc).2.2.1 :=
  fdRead_post size hsize w sc d hc

/-- sticky EOF: once drained and closed every later read is EOF again, at once -/
theorem fd_eof_again (size : Nat) (w : World) (sc : Sched) (hd : Drained w) : (fdRead size w sc).1 = .eof := by
  obtain ⟨hk, hcl⟩ := hd
  unfold fdRead selectT
  simp only
  have hgo : ∀ n, selectT.go n w = (true, w) := by
    intro n
    cases n with
    | zero => simp [selectT.go, readable, hcl]
    | succ n => simp [selectT.go, readable, hcl]
  rw [hgo]
  simp only [if_true]
  unfold osRead
  simp only
  obtain ⟨a, b⟩ := peerSteps_closed (nextStep (nextStep sc).2).1.acts w hcl
  have : (peerSteps (nextStep (nextStep sc).2).1.acts w).kbuf.isEmpty = true := by rw [b, hk]; rfl
  simp [this]

end PipeW
