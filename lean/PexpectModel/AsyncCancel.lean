import PexpectModel.Async
/-! # Awaited calls abandoned by their caller, and output delivered while nobody waits

`expect_async` pauses the read transport when a call ends by a match, by EOF or by its own timer.  When the *caller*
gives the call up (`asyncio.wait_for(...)` around it, `task.cancel()`), the future is cancelled and nothing pauses the
transport: the loop keeps reading and hands every chunk to `PatternWaiter.data_received`, whose "future already done"
branch appends it to `_before` and `_buffer` (`doneData`) — it is not searched, not reported, and it is there for the
next call.  Histories here are made of calls, abandoned calls and such idle deliveries, over one stream of loop
events. -/
namespace Ex
open Py
variable {α : Type} [DecidableEq α]

inductive HOp (α : Type) where
  | call (k : Kind α) (W : Nat)         -- blocking or awaited, ends by a hit, EOF or its own timer
  | abandoned (k : Kind α) (W : Nat)    -- awaited; the caller gives up at the `.timeoutFired` marker of its events
  | idle                                -- the next loop event is delivered while no call is outstanding

/-- what the caller of one step gets: a call's outcome; nothing for an abandoned call that found nothing (CancelledError) and
    nothing for an idle delivery -/
def hrun : St α → List (HOp α) → List (AEv α) → List (Option (Out α)) × St α × List (AEv α)
  | st, [], evs => ([], st, evs)
  | st, .call k W :: ops, evs =>
      let r := acall k.sr W st evs
      let t := hrun r.2.1 ops r.2.2
      (some r.1 :: t.1, t.2.1, t.2.2)
  | st, .abandoned k W :: ops, evs =>
      let r := acall k.sr W st evs
      let t := hrun r.2.1 ops r.2.2
      ((match r.1 with | .timeout _ => none | o => some o) :: t.1, t.2.1, t.2.2)
  | st, .idle :: ops, .dataReceived d :: evs =>
      let t := hrun (doneData st d) ops evs
      (none :: t.1, t.2.1, t.2.2)
  | st, .idle :: ops, evs =>
      let t := hrun st ops evs          -- nothing to deliver (or not a data event): the step is void
      (none :: t.1, t.2.1, t.2.2)

def handedOpt : List (Option (Out α)) → List α
  | [] => []
  | none :: r => handedOpt r
  | some o :: r => handed o ++ handedOpt r

def HOp.WF : HOp α → Prop
  | .call k _ => k.WF
  | .abandoned k _ => k.WF
  | .idle => True

/-- the awaited loop consumes a prefix of its events -/
theorem aloop_prefix (sr : Searcher α) (W : Nat) (evs : List (AEv α)) (st : St α) :
    ∃ used, evs = used ++ (aloop sr W st evs).2.2 := by
  induction evs generalizing st with
  | nil => exact ⟨[], by simp [aloop]⟩
  | cons e r ih =>
    cases e with
    | eofReceived => exact ⟨[.eofReceived], by simp [aloop]⟩
    | connLostEIO => exact ⟨[.connLostEIO], by simp [aloop]⟩
    | timeoutFired => exact ⟨[.timeoutFired], by simp [aloop]⟩
    | dataReceived d =>
      simp only [aloop]
      rcases hnd : newData sr W st d with ⟨st', r'⟩
      cases r' with
      | hit i b a => exact ⟨[.dataReceived d], by simp⟩
      | miss =>
        obtain ⟨u, hu⟩ := ih st'
        exact ⟨.dataReceived d :: u, by simp only [List.cons_append]; rw [← hu]⟩

theorem acall_prefix (sr : Searcher α) (W : Nat) (evs : List (AEv α)) (st : St α) :
    ∃ used, evs = used ++ (acall sr W st evs).2.2 := by
  unfold acall
  rcases existingData sr W st with ⟨st', r'⟩
  cases r' with
  | hit i b a => exact ⟨[], by simp⟩
  | miss => exact aloop_prefix sr W evs st'

/-- one awaited call, on AEv lists: the consumed prefix, conservation, the invariant -/
theorem acall_conserve (k : Kind α) (hk : k.WF) (W : Nat) (evs : List (AEv α)) (st : St α) (hI : Inv st) :
    ∃ used, evs = used ++ (acall k.sr W st evs).2.2 ∧
      st.B ++ dataOf (used.map AEv.toEv) = handed (acall k.sr W st evs).1 ++ (acall k.sr W st evs).2.1.B ∧
      Inv (acall k.sr W st evs).2.1 := by
  obtain ⟨used, hu⟩ := acall_prefix k.sr W evs st
  obtain ⟨a1, a2, a3⟩ := acall_eq_call k.sr W evs st
  obtain ⟨c1, c2, c3⟩ := callKind_eq_ncall k W (evs.map AEv.toEv) st hI
  obtain ⟨u', e1, e2, -, -⟩ := ncall_conserve k.sr (k.sr_wf hk) W (evs.map AEv.toEv) st.B
  refine ⟨used, hu, ?_, ?_⟩
  · -- the consumed prefix, mapped, is the prefix the blocking call consumes
    have hm : evs.map AEv.toEv = used.map AEv.toEv ++ (acall k.sr W st evs).2.2.map AEv.toEv := by
      conv => lhs; rw [hu]
      simp
    rw [a3, c3] at hm
    have : u' = used.map AEv.toEv := List.append_cancel_right (e1.symm.trans hm)
    rw [← this, a1, a2, c1, c2]
    exact e2
  · rw [a2]; exact call_inv k.sr W _ st hI

theorem dataOf_append (a b : List (Ev α)) : dataOf (a ++ b) = dataOf a ++ dataOf b := by
  induction a with
  | nil => rfl
  | cons e r ih => cases e <;> simp [dataOf, ih]

/-- **histories with abandoned calls conserve the stream**: over calls, calls given up by their caller and deliveries
    with nobody waiting, (what the calls handed back) ++ (what is pending) = (what was pending) ++ (all data the loop
    delivered so far) — an abandoned call hands back nothing and loses nothing, idle output is kept for the next call -/
theorem hrun_conserves (ops : List (HOp α)) (hwf : ∀ op ∈ ops, op.WF) (evs : List (AEv α)) (st : St α) (hI : Inv st) :
    ∃ used, evs = used ++ (hrun st ops evs).2.2 ∧
      st.B ++ dataOf (used.map AEv.toEv) = handedOpt (hrun st ops evs).1 ++ (hrun st ops evs).2.1.B ∧
      Inv (hrun st ops evs).2.1 := by
  induction ops generalizing st evs with
  | nil => exact ⟨[], by simp [hrun], by simp [hrun, dataOf, handedOpt], hI⟩
  | cons op ops ih =>
    have hrest : ∀ o ∈ ops, o.WF := fun o h => hwf o (by simp [h])
    cases op with
    | call k W =>
      have hk : k.WF := hwf (.call k W) (by simp)
      obtain ⟨u1, e1, c1, i1⟩ := acall_conserve k hk W evs st hI
      obtain ⟨u2, e2, c2, i2⟩ := ih hrest (acall k.sr W st evs).2.2 (acall k.sr W st evs).2.1 i1
      refine ⟨u1 ++ u2, ?_, ?_, ?_⟩
      · simp only [hrun]; rw [List.append_assoc, ← e2]; exact e1
      · simp only [hrun, handedOpt, List.map_append, dataOf_append]
        rw [← List.append_assoc, c1, List.append_assoc, c2, List.append_assoc]
      · simpa only [hrun] using i2
    | abandoned k W =>
      have hk : k.WF := hwf (.abandoned k W) (by simp)
      obtain ⟨u1, e1, c1, i1⟩ := acall_conserve k hk W evs st hI
      obtain ⟨u2, e2, c2, i2⟩ := ih hrest (acall k.sr W st evs).2.2 (acall k.sr W st evs).2.1 i1
      refine ⟨u1 ++ u2, ?_, ?_, ?_⟩
      · simp only [hrun]; rw [List.append_assoc, ← e2]; exact e1
      · simp only [hrun, List.map_append, dataOf_append]
        have hh : handedOpt ((match (acall k.sr W st evs).1 with | .timeout _ => none | o => some o) :: (hrun (acall k.sr W st evs).2.1 ops (acall k.sr W st evs).2.2).1)
            = handed (acall k.sr W st evs).1 ++ handedOpt (hrun (acall k.sr W st evs).2.1 ops (acall k.sr W st evs).2.2).1 := by
          cases (acall k.sr W st evs).1 <;> simp [handedOpt, handed]
        rw [hh, ← List.append_assoc, c1, List.append_assoc, c2, List.append_assoc]
      · simpa only [hrun] using i2
    | idle =>
      cases evs with
      | nil =>
        obtain ⟨u2, e2, c2, i2⟩ := ih hrest [] st hI
        exact ⟨u2, by simpa only [hrun] using e2, by simpa only [hrun, handedOpt] using c2, by simpa only [hrun] using i2⟩
      | cons e r =>
        cases e with
        | dataReceived d =>
          obtain ⟨u2, e2, c2, i2⟩ := ih hrest r (doneData st d) (doneData_inv st d hI)
          refine ⟨.dataReceived d :: u2, ?_, ?_, ?_⟩
          · simp only [hrun, List.cons_append]; rw [← e2]
          · simp only [hrun, handedOpt, List.map_cons, AEv.toEv, dataOf]
            rw [← List.append_assoc]
            simpa [doneData] using c2
          · simpa only [hrun] using i2
        | eofReceived =>
          obtain ⟨u2, e2, c2, i2⟩ := ih hrest (.eofReceived :: r) st hI
          exact ⟨u2, by simpa only [hrun] using e2, by simpa only [hrun, handedOpt] using c2, by simpa only [hrun] using i2⟩
        | connLostEIO =>
          obtain ⟨u2, e2, c2, i2⟩ := ih hrest (.connLostEIO :: r) st hI
          exact ⟨u2, by simpa only [hrun] using e2, by simpa only [hrun, handedOpt] using c2, by simpa only [hrun] using i2⟩
        | timeoutFired =>
          obtain ⟨u2, e2, c2, i2⟩ := ih hrest (.timeoutFired :: r) st hI
          exact ⟨u2, by simpa only [hrun] using e2, by simpa only [hrun, handedOpt] using c2, by simpa only [hrun] using i2⟩

/-- an abandoned call that found nothing leaves exactly the old pending text plus what arrived during it -/
theorem abandoned_consumes_nothing (k : Kind α) (hk : k.WF) (W : Nat) (evs : List (AEv α)) (st : St α) (hI : Inv st)
    (b : List α) (h : (acall k.sr W st evs).1 = .timeout b) :
    ∃ used, evs = used ++ (acall k.sr W st evs).2.2 ∧ (acall k.sr W st evs).2.1.B = st.B ++ dataOf (used.map AEv.toEv) := by
  obtain ⟨u, e, c, -⟩ := acall_conserve k hk W evs st hI
  refine ⟨u, e, ?_⟩
  rw [h] at c
  simpa [handed] using c.symm

/-- output delivered while nobody waits is pending — and searchable — for the next call, in order -/
theorem idle_output_kept (st : St α) (d : List α) (hI : Inv st) :
    (doneData st d).B = st.B ++ d ∧ (doneData st d).S = st.S ++ d ∧ Inv (doneData st d) :=
  ⟨rfl, rfl, doneData_inv st d hI⟩

end Ex
