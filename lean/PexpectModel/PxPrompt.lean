import PexpectModel.Repl
import PexpectModel.Generated.PxsshTable
/-! # pxssh.prompt(): `expect([self.PROMPT, TIMEOUT])` with the unique prompt

`PROMPT = r"\[PEXPECT\][\$\#] "` denotes exactly two strings, `[PEXPECT]$ ` and `[PEXPECT]# `.  The compiled
pattern is modelled as the leftmost search for one of them (`promptRe`); CPython's `re` is trusted to agree
(validated by the harness on the same streams).  With that, `prompt()` on a shell that answers each command
with `output ++ prompt` returns True with `before` = the command's output, for every cutting into reads. -/
namespace PxP
open Ex Py Rp

def dollar : List Nat := [91, 80, 69, 88, 80, 69, 67, 84, 93, 36, 32]     -- "[PEXPECT]$ "
def hash : List Nat := [91, 80, 69, 88, 80, 69, 67, 84, 93, 35, 32]       -- "[PEXPECT]# "

/-- the two prompt strings as a `Cfg`: "prompt" = the `$` form, "continuation" = the `#` form -/
def cfg : Cfg Nat := { prompt := dollar, cont := hash }

/-- the regex source read from the live object (`PxGen.uniquePrompt`) is the one this file interprets -/
theorem unique_prompt_source : PxGen.uniquePrompt = [92, 91, 80, 69, 88, 80, 69, 67, 84, 92, 93, 91, 92, 36, 92, 35, 93, 32] := by decide

/-- `re.compile(PROMPT).search(w, pos)` -/
def promptRe : ReFn Nat :=
  { search := fun w pos =>
      if pos ≤ w.length then
        (searchString cfg.strings (w.drop pos) (w.drop pos).length 0).map (fun sp => (sp.start + pos, sp.stop + pos))
      else none }

def pats : List (Pat Nat) := [.re promptRe, .timeout]

/-- `prompt()`'s expect call -/
def promptCall (st : St Nat) (evs : List (Ev Nat)) : Final Nat × St Nat × List (Ev Nat) := expectList pats 0 st evs

theorem promptRe_wf : promptRe.WF := by
  intro w pos s e h
  simp only [promptRe] at h
  split at h
  case isFalse => cases h
  rename_i hpos
  simp only [Option.map_eq_some_iff, Prod.mk.injEq] at h
  obtain ⟨sp, hsp, rfl, rfl⟩ := h
  obtain ⟨h1, h2⟩ := searchString_wf _ _ _ _ sp hsp
  simp only [List.length_drop] at h2
  omega

theorem nsearch_prompt (B : List Nat) :
    nsearch (reSr [(0, promptRe)]) 0 B = (nsearch (exactOf cfg.strings) 0 B).map (fun t => (0, t.2.1, t.2.2.1, t.2.2.2)) := by
  unfold nsearch
  simp only [win, if_true, reSr, searchRe, List.foldl_cons, List.foldl_nil, stepRe, promptRe, List.drop_zero, Nat.add_zero,
    exactOf, exactSr, Nat.zero_le]
  cases searchString cfg.strings B B.length 0 with
  | none => simp
  | some sp => simp [keep]

/-- outcomes of the regex searcher = outcomes of the two-string exact searcher with the index forgotten -/
def zeroIdx : Out Nat → Out Nat
  | .hit _ b a => .hit 0 b a
  | o => o

theorem nloop_prompt (B : List Nat) (evs : List (Ev Nat)) :
    nloop (reSr [(0, promptRe)]) 0 B evs =
      (zeroIdx (nloop (exactOf cfg.strings) 0 B evs).1, (nloop (exactOf cfg.strings) 0 B evs).2.1, (nloop (exactOf cfg.strings) 0 B evs).2.2) := by
  induction evs generalizing B with
  | nil => simp [nloop, zeroIdx]
  | cons e r ih =>
    cases e with
    | data d =>
      simp only [nloop, nsearch_prompt]
      cases hn : nsearch (exactOf cfg.strings) 0 (B ++ d) with
      | none => simp only [Option.map_none]; exact ih (B ++ d)
      | some t => obtain ⟨i, b, a, rest⟩ := t; simp [zeroIdx]
    | eofExc => simp [nloop, zeroIdx]
    | timeoutExc => simp [nloop, zeroIdx]
    | expired => simp [nloop, zeroIdx]

theorem ncall_prompt (B : List Nat) (evs : List (Ev Nat)) :
    ncall (reSr [(0, promptRe)]) 0 B evs =
      (zeroIdx (ncall (exactOf cfg.strings) 0 B evs).1, (ncall (exactOf cfg.strings) 0 B evs).2.1, (ncall (exactOf cfg.strings) 0 B evs).2.2) := by
  unfold ncall
  rw [nsearch_prompt]
  cases hn : nsearch (exactOf cfg.strings) 0 B with
  | none => simp only [Option.map_none]; exact nloop_prompt B evs
  | some t => obtain ⟨i, b, a, rest⟩ := t; simp [zeroIdx]

/-- **prompt_delimits**: after login with the unique prompt set, with nothing pending, a shell that answers a command
    with `o ++ "[PEXPECT]$ "` (or the `#` form) where the prompt string is not completed anywhere earlier: for every
    cutting of that answer into reads, `prompt()` matches (index 0, i.e. returns True) with `before = o`, and leaves
    nothing pending -/
theorem prompt_delimits (s : Seg Nat) (h : s.Clean cfg) (init : List (List Nat)) (last : List Nat) (hl : last ≠ [])
    (hT : init.flatten ++ last = s.text cfg) (rest : List (Ev Nat)) :
    promptCall { B := [], S := [] } (init.map .data ++ .data last :: rest) =
      (.idx 0 s.o (.text (s.p cfg)), { B := [], S := [] }, rest) := by
  unfold promptCall expectList
  have hres : resFrom 0 pats = [(0, promptRe)] := rfl
  rw [hres]
  have hI : Inv ({ B := [], S := [] } : St Nat) := List.suffix_refl _
  obtain ⟨h1, h2, h3⟩ := callRe_eq_ncall [(0, promptRe)] 0 (init.map .data ++ .data last :: rest) { B := [], S := [] } hI
  have hinv := call_inv (reSr [(0, promptRe)]) 0 (init.map .data ++ .data last :: rest) { B := [], S := [] } hI
  have hx : ncall (exactOf cfg.strings) 0 [] (init.map .data ++ .data last :: rest) = (.hit s.idx s.o (s.p cfg), [], rest) := by
    unfold ncall
    have : nsearch (exactOf cfg.strings) 0 ([] : List Nat) = none := nsearch_prefix cfg s h [] (s.text cfg) (by simp) h.2.2
    rw [this]
    exact nloop_segment cfg s h init last hl [] (by simpa using hT) rest
  have hn : ncall (reSr [(0, promptRe)]) 0 [] (init.map .data ++ .data last :: rest) = (.hit 0 s.o (s.p cfg), [], rest) := by
    rw [ncall_prompt, hx]; rfl
  rw [hn] at h1 h2 h3
  rcases hc : call (reSr [(0, promptRe)]) 0 { B := [], S := [] } (init.map .data ++ .data last :: rest) with ⟨o, st', r⟩
  rw [hc] at h1 h2 h3 hinv
  simp only at h1 h2 h3 hinv
  subst h1 h3
  have hS : st'.S = [] := by
    obtain ⟨pre, hpre⟩ := hinv
    rw [h2] at hpre
    simpa using (List.append_eq_nil_iff.mp hpre).2
  have : st' = { B := [], S := [] } := by cases st'; simp_all
  subst this
  simp only [hc, finish]

/-- a sequence of commands: the k-th `prompt()` returns exactly the k-th command's output -/
def promptSeq : Nat → St Nat → List (Ev Nat) → List (Final Nat) × St Nat × List (Ev Nat)
  | 0, st, evs => ([], st, evs)
  | n+1, st, evs =>
      let r := promptCall st evs
      let t := promptSeq n r.2.1 r.2.2
      (r.1 :: t.1, t.2.1, t.2.2)

theorem prompt_sequence (es : List (SegEv Nat)) (h : ∀ e ∈ es, e.OK cfg) (rest : List (Ev Nat)) :
    promptSeq es.length { B := [], S := [] } (evsOf es ++ rest) =
      (es.map (fun e => .idx 0 e.seg.o (.text (e.seg.p cfg))), { B := [], S := [] }, rest) := by
  induction es with
  | nil => simp [promptSeq, evsOf]
  | cons e es ih =>
    obtain ⟨h1, h2, h3⟩ := h e (by simp)
    simp only [List.length_cons, promptSeq, evsOf, List.flatMap_cons, List.append_assoc, List.map_cons]
    have := prompt_delimits e.seg h1 e.init e.last h2 h3 (List.flatMap SegEv.evs es ++ rest)
    simp only [SegEv.evs, List.append_assoc, List.singleton_append] at this ⊢
    rw [this]
    simp only []
    have ih' := ih (fun x hx => h x (by simp [hx]))
    simp only [evsOf] at ih'
    rw [ih']

/-! non-vacuity: "hi\r\n" then the `$` prompt, cut inside the prompt -/
example : (⟨[104, 105, 13, 10], false⟩ : Seg Nat).Clean cfg := cleanB_sound _ _ (by decide)
example : (promptCall { B := [], S := [] } [.data [104, 105, 13, 10, 91, 80, 69], .data [88, 80, 69, 67, 84, 93, 36], .data [32]]).1 =
    .idx 0 [104, 105, 13, 10] (.text dollar) := by decide

end PxP
