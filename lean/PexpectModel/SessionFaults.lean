import PexpectModel.Session
/-! # Sends on a descriptor that does not take what it is offered

`spawn.send` / `fdspawn.send` log the request, encode it and hand the bytes to one `os.write`.  On a non-blocking descriptor
(`expect(async_=True)` leaves it that way) that write can fail with EAGAIN or take only the first bytes.  Whatever it does,
the request was logged - once - before, and the encoder has consumed it. -/
namespace Sess
open Cd
variable {σd σe : Type}

/-- what the descriptor does with the one write of a send -/
inductive WFault | ok | refuse | short (k : Nat) deriving Repr, DecidableEq

/-- `send(s)` with the write's fate given: logged and encoded exactly as `doSend`; the peer gets what the descriptor took; a refused write
    raises (no return value) -/
def doSendF (enc : IncEncoder σe) (st : St σd σe) (s : List Nat) (f : WFault) : St σd σe :=
  let st := logBoth st .send s
  let r := enc.feed st.enc s
  match f with
  | .ok => { st with enc := r.1, peer := st.peer ++ r.2, returned := st.returned ++ [r.2.length] }
  | .refuse => { st with enc := r.1 }
  | .short k => { st with enc := r.1, peer := st.peer ++ r.2.take k, returned := st.returned ++ [min k r.2.length] }

def stepF (dec : IncDecoder σd Nat) (enc : IncEncoder σe) (cfg : Cfg) (st : St σd σe) : Op × WFault → St σd σe
  | (.send s, f) => doSendF enc st s f
  | (.sendline s, f) => doSendF enc st (s ++ cfg.linesep) f
  | (op, _) => step dec enc cfg st op

def runF (dec : IncDecoder σd Nat) (enc : IncEncoder σe) (cfg : Cfg) (st : St σd σe) (ops : List (Op × WFault)) : St σd σe :=
  ops.foldl (stepF dec enc cfg) st

/-- everything but the wire: decoder, encoder, what was delivered, the three logs -/
def offWire (st : St σd σe) : St σd σe := { st with peer := [], returned := [] }

theorem offWire_logBoth (st : St σd σe) (d : Dir) (s : List Nat) : offWire (logBoth st d s) = logBoth (offWire st) d s := by
  cases d <;> rfl

theorem offWire_doSend (enc : IncEncoder σe) (st : St σd σe) (s : List Nat) :
    offWire (doSend enc st s) = offWire (doSend enc (offWire st) s) := by
  cases st; simp [doSend, offWire, logBoth]

theorem offWire_doSendF (enc : IncEncoder σe) (st : St σd σe) (s : List Nat) (f : WFault) :
    offWire (doSendF enc st s f) = offWire (doSend enc (offWire st) s) := by
  cases st; cases f <;> simp [doSendF, doSend, offWire, logBoth]

theorem offWire_foldl_doSend (enc : IncEncoder σe) (ss : List (List Nat)) (st : St σd σe) :
    offWire (ss.foldl (doSend enc) st) = offWire (ss.foldl (doSend enc) (offWire st)) := by
  induction ss generalizing st with
  | nil => simp [offWire]
  | cons s t ih =>
    simp only [List.foldl_cons]
    rw [ih (doSend enc st s), ih (doSend enc (offWire st) s), offWire_doSend]

theorem offWire_doControl (st : St σd σe) (b : Option Nat) :
    offWire (doControl st b) = offWire (doControl (offWire st) b) := by
  cases st; cases b <;> simp [doControl, offWire, logBoth]

theorem offWire_step (dec : IncDecoder σd Nat) (enc : IncEncoder σe) (cfg : Cfg) (st : St σd σe) (op : Op) :
    offWire (step dec enc cfg st op) = offWire (step dec enc cfg (offWire st) op) := by
  cases op with
  | read c => cases st; simp [step, offWire, logBoth]
  | send s => exact offWire_doSend enc st s
  | sendline s => exact offWire_doSend enc st _
  | writelines ss => exact offWire_foldl_doSend enc ss st
  | sendcontrol c => exact offWire_doControl st _
  | sendeof => exact offWire_doControl st _
  | sendintr => exact offWire_doControl st _

theorem offWire_stepF (dec : IncDecoder σd Nat) (enc : IncEncoder σe) (cfg : Cfg) (st : St σd σe) (o : Op × WFault) :
    offWire (stepF dec enc cfg st o) = offWire (step dec enc cfg (offWire st) o.1) := by
  obtain ⟨op, f⟩ := o
  cases op with
  | send s => exact offWire_doSendF enc st s f
  | sendline s => exact offWire_doSendF enc st _ f
  | read c => exact offWire_step dec enc cfg st _
  | writelines ss => exact offWire_step dec enc cfg st _
  | sendcontrol c => exact offWire_step dec enc cfg st _
  | sendeof => exact offWire_step dec enc cfg st _
  | sendintr => exact offWire_step dec enc cfg st _

/-- **write faults do not reach the books**: over any history and any fate of every write, decoder, encoder, delivered text and the three log
    files are those of the fault-free history of the same requests -/
theorem runF_offWire (dec : IncDecoder σd Nat) (enc : IncEncoder σe) (cfg : Cfg) (ops : List (Op × WFault)) (a b : St σd σe)
    (h : offWire a = offWire b) :
    offWire (runF dec enc cfg a ops) = offWire (run dec enc cfg b (ops.map (·.1))) := by
  induction ops generalizing a b with
  | nil => simpa [runF, run] using h
  | cons o r ih =>
    simp only [runF, run, List.foldl_cons, List.map_cons]
    apply ih
    rw [offWire_stepF, offWire_step dec enc cfg b, h]

/-- one faulty send: the peer has received a prefix of the request's encoding, nothing else -/
theorem doSendF_peer_prefix (enc : IncEncoder σe) (st : St σd σe) (s : List Nat) (f : WFault) :
    ∃ k, (doSendF enc st s f).peer = st.peer ++ ((enc.feed st.enc s).2).take k := by
  have hp := (logBoth_fields st .send s).2.2.2.1
  have he := (logBoth_fields st .send s).2.1
  cases f with
  | ok => exact ⟨((enc.feed st.enc s).2).length, by simp [doSendF, hp, he]⟩
  | refuse => exact ⟨0, by simp [doSendF, hp]⟩
  | short k => exact ⟨k, by simp [doSendF, hp, he]⟩

end Sess
