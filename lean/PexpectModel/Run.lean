import PexpectModel.ExOutcome
/-! # `pexpect.run()` — the event loop of run.py:113-142 over the Expecter model

The child is an event stream (`List (Ev α)`): every theorem quantifies over all of them, which covers
every reactive child and every read splitting.  Callbacks are an oracle `cb id count` (the callback
registered under `id`, invoked with `event_count = count`); every theorem quantifies over the oracle.
`run()` can loop forever in the real code (a zero-width pattern with a string response, a TIMEOUT
event that never stops), so the model takes fuel = number of loop iterations, and the theorems hold
for every fuel, i.e. for every prefix of an execution. -/
namespace Rn
open Ex Py
variable {α : Type} [DecidableEq α]

/-- what a callback returns: a string to send, a true value (stop), anything false (continue) -/
inductive CbRes (α : Type) where
  | send (s : List α) | stop | cont

/-- a response of the event table: a string, a function / bound method, anything else -/
inductive Resp (α : Type) where
  | str (s : List α) | fn (id : Nat) | bad

/-- one handled event: which pattern index matched, what `after` was, what was done about it -/
inductive Act (α : Type) where
  | sent (s : List α) | cbSent (id count : Nat) (s : List α) | cbCont (id count : Nat) | cbStop (id count : Nat) | typeError

structure Disp (α : Type) where
  idx : Nat
  after : AfterV α
  act : Act α

structure Cfg (α : Type) where
  events : List (Pat α × Resp α)      -- `events` as a list of pairs (a dict is its item list)
  W : Nat                              -- searchwindowsize of the spawn (0 = None)
  cb : Nat → Nat → CbRes α

/-- run.py:101-106 -/
def Cfg.pats (c : Cfg α) : List (Pat α) := c.events.map Prod.fst
def Cfg.resps (c : Cfg α) : List (Resp α) := c.events.map Prod.snd

inductive Stop where
  | eofExc | timeoutExc | cbStop (onTimeout : Bool) | typeError | outOfFuel
deriving DecidableEq, Repr

structure RS (α : Type) where
  acc : List α                 -- ''.join(child_result_list)
  sent : List (List α)         -- arguments of child.send, in order
  log : List (Disp α)          -- handled events, in order
  finals : List (Final α)      -- ghost: what each child.expect() call reported
  count : Nat                  -- event_count
  st : St α
  evs : List (Ev α)

/-- run.py:116-124: what a returned index adds to the result list -/
def accAfter (acc b : List α) : AfterV α → List α
  | .text a => acc ++ (b ++ a)
  | .eofCls => acc ++ b
  | .timeoutCls => acc

/-- one iteration of `while True:` -/
def step (c : Cfg α) (s : RS α) : Sum (RS α) (Stop × RS α) :=
  match expectList c.pats c.W s.st s.evs with
  | (f, st', evs') =>
    let s0 := { s with st := st', evs := evs', finals := s.finals ++ [f] }
    match f with
    | .raisedEOF b => .inr (.eofExc, { s0 with acc := s.acc ++ b })
    | .raisedTIMEOUT b => .inr (.timeoutExc, { s0 with acc := s.acc ++ b })
    | .idx i b after =>
      let s1 := { s0 with acc := accAfter s.acc b after }
      match c.resps[i]? with
      | some (.str r) =>
          .inl { s1 with sent := s.sent ++ [r], log := s.log ++ [⟨i, after, .sent r⟩], count := s.count + 1 }
      | some (.fn id) =>
          match c.cb id s.count with
          | .send r => .inl { s1 with sent := s.sent ++ [r], log := s.log ++ [⟨i, after, .cbSent id s.count r⟩], count := s.count + 1 }
          | .cont => .inl { s1 with log := s.log ++ [⟨i, after, .cbCont id s.count⟩], count := s.count + 1 }
          | .stop =>
              let acc2 := if after = .timeoutCls then s1.acc ++ b else s1.acc
              .inr (.cbStop (decide (after = .timeoutCls)), { s1 with acc := acc2, log := s.log ++ [⟨i, after, .cbStop id s.count⟩] })
      | _ => .inr (.typeError, { s1 with log := s.log ++ [⟨i, after, .typeError⟩] })

def run : Nat → Cfg α → RS α → Stop × RS α
  | 0, _, s => (.outOfFuel, s)
  | n+1, c, s =>
    match step c s with
    | .inl s' => run n c s'
    | .inr r => r

def RS.init (evs : List (Ev α)) : RS α :=
  { acc := [], sent := [], log := [], finals := [], count := 0, st := { B := [], S := [] }, evs := evs }

/-- does the stop leave the consumed-but-unreturned tail in the spawn's pending text?
    (a true callback on a text match; a TypeError; running out of fuel) -/
def Stop.keepsPending : Stop → Bool
  | .eofExc | .timeoutExc | .cbStop true => false
  | _ => true

/-! ### per-call facts imported from the Expecter theorems -/

theorem kindRe_wf (pats : List (Pat α)) (hp : ∀ p ∈ pats, ∀ r, p = .re r → r.WF) : (Kind.re (resFrom 0 pats)).WF := by
  intro p hmem
  obtain ⟨i, r⟩ := p
  obtain ⟨_, hlt, hget⟩ := resFrom_mem pats 0 i r hmem
  exact hp _ (List.getElem_mem _) r hget

/-- conservation of one `expect` call of the real procedure (via `callKind_eq_ncall` + `ncall_conserve`) -/
theorem call_conserve (k : Kind α) (hk : k.WF) (W : Nat) (evs : List (Ev α)) (st : St α) (hI : Inv st) :
    ∃ used, evs = used ++ (call k.sr W st evs).2.2 ∧
      st.B ++ dataOf used = handed (call k.sr W st evs).1 ++ (call k.sr W st evs).2.1.B ∧
      (∀ b, (call k.sr W st evs).1 = .timeout b → b = (call k.sr W st evs).2.1.B ∧ b = st.B ++ dataOf used) ∧
      (∀ b, (call k.sr W st evs).1 = .eof b → (call k.sr W st evs).2.1.B = [] ∧ b = st.B ++ dataOf used) ∧
      Inv (call k.sr W st evs).2.1 := by
  obtain ⟨h1, h2, h3⟩ := callKind_eq_ncall k W evs st hI
  obtain ⟨used, e1, c1, ht, he⟩ := ncall_conserve k.sr (k.sr_wf hk) W evs st.B
  refine ⟨used, by rw [h3]; exact e1, by rw [h1, h2]; exact c1, ?_, ?_, call_inv _ _ _ _ hI⟩
  · intro b hb; rw [h1] at hb; rw [h2]; exact ht b hb
  · intro b hb; rw [h1] at hb; rw [h2]; exact he b hb

theorem dataOf_append (u1 u2 : List (Ev α)) : dataOf (u1 ++ u2) = dataOf u1 ++ dataOf u2 := by
  induction u1 with
  | nil => rfl
  | cons e r ih => cases e <;> simp [dataOf, ih]

/-- the run-level reading of one call: what the call adds to the result (`accAfter`) plus what stays
    pending equals what was pending plus the data read — except that a TIMEOUT index adds nothing and
    an exception adds everything -/
theorem expectList_conserve (pats : List (Pat α)) (hp : ∀ p ∈ pats, ∀ r, p = .re r → r.WF) (W : Nat)
    (evs : List (Ev α)) (st : St α) (hI : Inv st) :
    ∃ used, evs = used ++ (expectList pats W st evs).2.2 ∧ Inv (expectList pats W st evs).2.1 ∧
      (∀ i b af, (expectList pats W st evs).1 = .idx i b af →
          accAfter [] b af ++ (expectList pats W st evs).2.1.B = st.B ++ dataOf used ∧
          (af = .timeoutCls → b = st.B ++ dataOf used)) ∧
      (∀ b, (expectList pats W st evs).1 = .raisedEOF b → b = st.B ++ dataOf used) ∧
      (∀ b, (expectList pats W st evs).1 = .raisedTIMEOUT b → b = st.B ++ dataOf used) := by
  obtain ⟨used, e1, c1, ht, he, hinv⟩ := call_conserve (Kind.re (resFrom 0 pats)) (kindRe_wf pats hp) W evs st hI
  simp only [Kind.sr] at e1 c1 ht he hinv
  unfold expectList
  rcases hc : call (reSr (resFrom 0 pats)) W st evs with ⟨o, st', r⟩
  rw [hc] at e1 c1 ht he hinv
  simp only at e1 c1 ht he hinv ⊢
  refine ⟨used, e1, hinv, ?_, ?_, ?_⟩
  · intro i b af hf
    cases o with
    | hit i' b' a' =>
      simp only [finish, Final.idx.injEq] at hf
      obtain ⟨-, rfl, rfl⟩ := hf
      refine ⟨?_, by intro h; cases h⟩
      simp only [accAfter, handed, List.nil_append] at c1 ⊢
      rw [c1]
    | eof b' =>
      simp only [finish] at hf
      split at hf
      · simp only [Final.idx.injEq] at hf
        obtain ⟨-, rfl, rfl⟩ := hf
        obtain ⟨hB, hb⟩ := he b' rfl
        refine ⟨?_, by intro h; cases h⟩
        simp only [accAfter, List.nil_append, hB, List.append_nil]; exact hb
      · cases hf
    | timeout b' =>
      simp only [finish] at hf
      split at hf
      · simp only [Final.idx.injEq] at hf
        obtain ⟨-, rfl, rfl⟩ := hf
        obtain ⟨hB, hb⟩ := ht b' rfl
        refine ⟨?_, fun _ => hb⟩
        simp only [accAfter, List.nil_append]; rw [← hB]; exact hb
      · cases hf
  · intro b hf
    cases o with
    | hit i' b' a' => simp [finish] at hf
    | eof b' =>
      simp only [finish] at hf
      split at hf
      · cases hf
      · simp only [Final.raisedEOF.injEq] at hf; subst hf; exact (he b' rfl).2
    | timeout b' =>
      simp only [finish] at hf
      split at hf <;> cases hf
  · intro b hf
    cases o with
    | hit i' b' a' => simp [finish] at hf
    | eof b' =>
      simp only [finish] at hf
      split at hf <;> cases hf
    | timeout b' =>
      simp only [finish] at hf
      split at hf
      · cases hf
      · simp only [Final.raisedTIMEOUT.injEq] at hf; subst hf; exact (ht b' rfl).2

theorem accAfter_acc (acc b : List α) (af : AfterV α) : accAfter acc b af = acc ++ accAfter [] b af := by
  cases af <;> simp [accAfter]

/-! ### the loop invariant: result so far ++ pending = everything read so far -/

/-- **step, continuing**: the invariant `acc ++ pending = D` moves to `D ++ data read by this call` -/
theorem step_inl (c : Cfg α) (hp : ∀ p ∈ c.pats, ∀ r, p = .re r → r.WF) (s s' : RS α) (hI : Inv s.st)
    (h : step c s = .inl s') :
    ∃ used, s.evs = used ++ s'.evs ∧ Inv s'.st ∧ s'.acc ++ s'.st.B = s.acc ++ s.st.B ++ dataOf used ∧
      s'.count = s.count + 1 := by
  obtain ⟨used, e1, hinv, hidx, -, -⟩ := expectList_conserve c.pats hp c.W s.evs s.st hI
  unfold step at h
  rcases hc : expectList c.pats c.W s.st s.evs with ⟨f, st', evs'⟩
  rw [hc] at h e1 hinv hidx
  simp only at h e1 hinv hidx
  cases f with
  | raisedEOF b => simp at h
  | raisedTIMEOUT b => simp at h
  | idx i b af =>
    obtain ⟨hcons, -⟩ := hidx i b af rfl
    have key : accAfter s.acc b af ++ st'.B = s.acc ++ s.st.B ++ dataOf used := by
      rw [accAfter_acc, List.append_assoc, hcons, List.append_assoc]
    simp only at h
    split at h
    · simp only [Sum.inl.injEq] at h; subst h; exact ⟨used, e1, hinv, key, rfl⟩
    · split at h
      · simp only [Sum.inl.injEq] at h; subst h; exact ⟨used, e1, hinv, key, rfl⟩
      · simp only [Sum.inl.injEq] at h; subst h; exact ⟨used, e1, hinv, key, rfl⟩
      · simp at h
    · simp at h

/-- **step, stopping** -/
theorem step_inr (c : Cfg α) (hp : ∀ p ∈ c.pats, ∀ r, p = .re r → r.WF) (s s' : RS α) (stop : Stop) (hI : Inv s.st)
    (h : step c s = .inr (stop, s')) :
    ∃ used, s.evs = used ++ s'.evs ∧ Inv s'.st ∧
      s'.acc ++ (if stop.keepsPending then s'.st.B else []) = s.acc ++ s.st.B ++ dataOf used := by
  obtain ⟨used, e1, hinv, hidx, heof, hto⟩ := expectList_conserve c.pats hp c.W s.evs s.st hI
  unfold step at h
  rcases hc : expectList c.pats c.W s.st s.evs with ⟨f, st', evs'⟩
  rw [hc] at h e1 hinv hidx heof hto
  simp only at h e1 hinv hidx heof hto
  cases f with
  | raisedEOF b =>
    simp only [Sum.inr.injEq, Prod.mk.injEq] at h
    obtain ⟨rfl, rfl⟩ := h
    refine ⟨used, e1, hinv, ?_⟩
    simp only [Stop.keepsPending, Bool.false_eq_true, if_false, List.append_nil, heof b rfl, List.append_assoc]
  | raisedTIMEOUT b =>
    simp only [Sum.inr.injEq, Prod.mk.injEq] at h
    obtain ⟨rfl, rfl⟩ := h
    refine ⟨used, e1, hinv, ?_⟩
    simp only [Stop.keepsPending, Bool.false_eq_true, if_false, List.append_nil, hto b rfl, List.append_assoc]
  | idx i b af =>
    obtain ⟨hcons, htb⟩ := hidx i b af rfl
    have key : accAfter s.acc b af ++ st'.B = s.acc ++ s.st.B ++ dataOf used := by
      rw [accAfter_acc, List.append_assoc, hcons, List.append_assoc]
    simp only at h
    split at h
    · simp at h
    · split at h
      · simp at h
      · simp at h
      · simp only [Sum.inr.injEq, Prod.mk.injEq] at h
        obtain ⟨rfl, rfl⟩ := h
        refine ⟨used, e1, hinv, ?_⟩
        by_cases haf : af = .timeoutCls
        · subst haf
          simp only [decide_true, Stop.keepsPending, Bool.false_eq_true, if_false, if_true, accAfter,
            List.append_nil, htb rfl, List.append_assoc]
        · simp only [haf, decide_false, Stop.keepsPending, if_true, if_false]; exact key
    · simp only [Sum.inr.injEq, Prod.mk.injEq] at h
      obtain ⟨rfl, rfl⟩ := h
      refine ⟨used, e1, hinv, ?_⟩
      simp only [Stop.keepsPending, if_true]; exact key

theorem run_succ_inl (n : Nat) (c : Cfg α) (s s' : RS α) (h : step c s = .inl s') : run (n+1) c s = run n c s' := by
  simp only [run, h]

theorem run_succ_inr (n : Nat) (c : Cfg α) (s : RS α) (r : Stop × RS α) (h : step c s = .inr r) : run (n+1) c s = r := by
  simp only [run, h]

/-- **run_conserves**: for every fuel, event table, callback oracle, event stream and consistent start
    state: the returned text (plus, when the stop leaves it there, the still-pending tail) is exactly
    what was there at the start plus all data read, each piece once, in order. -/
theorem run_conserves (c : Cfg α) (hp : ∀ p ∈ c.pats, ∀ r, p = .re r → r.WF) (n : Nat) (s : RS α) (hI : Inv s.st) :
    ∃ used, s.evs = used ++ (run n c s).2.evs ∧ Inv (run n c s).2.st ∧
      (run n c s).2.acc ++ (if (run n c s).1.keepsPending then (run n c s).2.st.B else []) =
        s.acc ++ s.st.B ++ dataOf used := by
  induction n generalizing s with
  | zero => exact ⟨[], by simp [run], by simpa [run] using hI, by simp [run, Stop.keepsPending, dataOf]⟩
  | succ n ih =>
    cases hs : step c s with
    | inl s' =>
      rw [run_succ_inl n c s s' hs]
      obtain ⟨u1, e1, hinv, c1, -⟩ := step_inl c hp s s' hI hs
      obtain ⟨u2, e2, hinv2, c2⟩ := ih s' hinv
      refine ⟨u1 ++ u2, by rw [List.append_assoc, ← e2]; exact e1, hinv2, ?_⟩
      rw [c2, c1, dataOf_append]; simp only [List.append_assoc]
    | inr r =>
      rw [run_succ_inr n c s r hs]
      obtain ⟨stop, s'⟩ := r
      exact step_inr c hp s s' stop hI hs

/-! ### the dispatch log is a function of what the successive `expect` calls reported -/

/-- run.py:125-138 for one reported index: which response is used and what it does -/
def dispatch (c : Cfg α) (count i : Nat) : Act α :=
  match c.resps[i]? with
  | some (.str r) => .sent r
  | some (.fn id) =>
      match c.cb id count with
      | .send r => .cbSent id count r
      | .cont => .cbCont id count
      | .stop => .cbStop id count
  | _ => .typeError

/-- the log that a list of call results must produce: one entry per reported index, in order -/
def logOf (c : Cfg α) : Nat → List (Final α) → List (Disp α)
  | _, [] => []
  | k, .idx i _ af :: fs => ⟨i, af, dispatch c k i⟩ :: logOf c (k+1) fs
  | k, _ :: fs => logOf c k fs

def Act.text : Act α → Option (List α)
  | .sent s => some s
  | .cbSent _ _ s => some s
  | _ => none

def sentOf (l : List (Disp α)) : List (List α) := l.filterMap (fun d => d.act.text)

def Act.continues : Act α → Bool
  | .sent _ | .cbSent _ _ _ | .cbCont _ _ => true
  | _ => false

/-- the successive `child.expect(patterns)` calls form a history on one spawn object: each call starts
    from the state and the unread events the previous one left -/
inductive Chain (pats : List (Pat α)) (W : Nat) : St α → List (Ev α) → List (Final α) → St α → List (Ev α) → Prop
  | nil (st evs) : Chain pats W st evs [] st evs
  | cons (st evs f st1 evs1 fs st' evs') (h : expectList pats W st evs = (f, st1, evs1))
      (t : Chain pats W st1 evs1 fs st' evs') : Chain pats W st evs (f :: fs) st' evs'

theorem logOf_append (c : Cfg α) (k : Nat) (f1 f2 : List (Final α)) :
    logOf c k (f1 ++ f2) = logOf c k f1 ++ logOf c (k + (logOf c k f1).length) f2 := by
  induction f1 generalizing k with
  | nil => simp [logOf]
  | cons f fs ih =>
    cases f with
    | idx i b af => simp only [List.cons_append, logOf, ih, List.length_cons]; congr 3; omega
    | raisedEOF b => simp only [List.cons_append, logOf, ih]
    | raisedTIMEOUT b => simp only [List.cons_append, logOf, ih]

/-- what one iteration does to the observable fields, whatever branch it takes -/
theorem step_trace (c : Cfg α) (s : RS α) :
    ∃ f st1 evs1, expectList c.pats c.W s.st s.evs = (f, st1, evs1) ∧
      (∀ s', step c s = .inl s' →
          s'.finals = s.finals ++ [f] ∧ s'.st = st1 ∧ s'.evs = evs1 ∧ s'.log = s.log ++ logOf c s.count [f] ∧
          s'.sent = s.sent ++ sentOf (logOf c s.count [f]) ∧ s'.count = s.count + 1 ∧ (logOf c s.count [f]).length = 1 ∧
          (∀ d ∈ logOf c s.count [f], d.act.continues = true)) ∧
      (∀ stop s', step c s = .inr (stop, s') →
          s'.finals = s.finals ++ [f] ∧ s'.st = st1 ∧ s'.evs = evs1 ∧ s'.log = s.log ++ logOf c s.count [f] ∧
          s'.sent = s.sent ∧ (∀ d ∈ logOf c s.count [f], d.act.continues = false) ∧
          (stop = .eofExc ↔ ∃ b, f = .raisedEOF b) ∧ (stop = .timeoutExc ↔ ∃ b, f = .raisedTIMEOUT b) ∧
          (∀ t, stop = .cbStop t → ∃ i b af id, f = .idx i b af ∧ c.resps[i]? = some (.fn id) ∧ c.cb id s.count = .stop ∧
              (t = true ↔ af = .timeoutCls))) := by
  rcases hc : expectList c.pats c.W s.st s.evs with ⟨f, st1, evs1⟩
  refine ⟨f, st1, evs1, rfl, ?_, ?_⟩
  · intro s' h
    unfold step at h
    rw [hc] at h
    simp only at h
    cases f with
    | raisedEOF b => simp at h
    | raisedTIMEOUT b => simp at h
    | idx i b af =>
      simp only at h
      split at h
      · rename_i r hr
        simp only [Sum.inl.injEq] at h; subst h
        simp [logOf, dispatch, hr, sentOf, Act.text, Act.continues]
      · rename_i id hr
        split at h
        · rename_i r hcb
          simp only [Sum.inl.injEq] at h; subst h
          simp [logOf, dispatch, hr, hcb, sentOf, Act.text, Act.continues]
        · rename_i hcb
          simp only [Sum.inl.injEq] at h; subst h
          simp [logOf, dispatch, hr, hcb, sentOf, Act.text, Act.continues]
        · simp at h
      · simp at h
  · intro stop s' h
    unfold step at h
    rw [hc] at h
    simp only at h
    cases f with
    | raisedEOF b =>
      simp only [Sum.inr.injEq, Prod.mk.injEq] at h
      obtain ⟨rfl, rfl⟩ := h
      simp [logOf]
    | raisedTIMEOUT b =>
      simp only [Sum.inr.injEq, Prod.mk.injEq] at h
      obtain ⟨rfl, rfl⟩ := h
      simp [logOf]
    | idx i b af =>
      simp only at h
      split at h
      · simp at h
      · rename_i id hr
        split at h
        · simp at h
        · simp at h
        · rename_i hcb
          simp only [Sum.inr.injEq, Prod.mk.injEq] at h
          obtain ⟨rfl, rfl⟩ := h
          simp [logOf, dispatch, hr, hcb, Act.continues]
          exact ⟨i, b, af, ⟨rfl, rfl, rfl⟩, id, hr, hcb, Iff.rfl⟩
      · rename_i hstr hfn
        simp only [Sum.inr.injEq, Prod.mk.injEq] at h
        obtain ⟨rfl, rfl⟩ := h
        have hd : dispatch c s.count i = .typeError := by
          unfold dispatch
          split
          · rename_i r h1; exact absurd h1 (hstr r)
          · rename_i id h1; exact absurd h1 (hfn id)
          · rfl
        simp [logOf, hd, Act.continues]

theorem sentOf_append (a b : List (Disp α)) : sentOf (a ++ b) = sentOf a ++ sentOf b := by
  simp [sentOf, List.filterMap_append]

/-- **run_trace**: for every fuel, table, oracle and stream, the calls made by `run()` are a history of
    `expect` calls on one object (so C01–C04 apply to them), and the handled-event log and the strings
    sent are exactly what `logOf` prescribes for the indices those calls reported: one dispatch per
    reported index, in order, numbered by `event_count`. -/
theorem run_trace (c : Cfg α) (n : Nat) (s : RS α) :
    ∃ fs, (run n c s).2.finals = s.finals ++ fs ∧
      Chain c.pats c.W s.st s.evs fs (run n c s).2.st (run n c s).2.evs ∧
      (run n c s).2.log = s.log ++ logOf c s.count fs ∧
      (run n c s).2.sent = s.sent ++ sentOf (logOf c s.count fs) := by
  induction n generalizing s with
  | zero => exact ⟨[], by simp [run], by simpa [run] using Chain.nil _ _, by simp [run, logOf], by simp [run, logOf, sentOf]⟩
  | succ n ih =>
    obtain ⟨f, st1, evs1, hc, hl, hr⟩ := step_trace c s
    cases hs : step c s with
    | inl s' =>
      rw [run_succ_inl n c s s' hs]
      obtain ⟨h1, h2, h3, h4, h5, h6, h7, -⟩ := hl s' hs
      obtain ⟨fs, g1, g2, g3, g4⟩ := ih s'
      refine ⟨f :: fs, ?_, ?_, ?_, ?_⟩
      · rw [g1, h1]; simp
      · rw [h2, h3] at g2; exact Chain.cons _ _ _ _ _ _ _ _ hc g2
      · rw [g3, h4, h6, List.append_assoc]; congr 1
        have := logOf_append c s.count [f] fs
        rw [h7] at this; exact this.symm
      · rw [g4, h5, h6, List.append_assoc]; congr 1
        have := logOf_append c s.count [f] fs
        rw [h7] at this
        show _ = sentOf (logOf c s.count ([f] ++ fs))
        rw [this, sentOf_append]
    | inr r =>
      rw [run_succ_inr n c s r hs]
      obtain ⟨stop, s'⟩ := r
      obtain ⟨h1, h2, h3, h4, h5, h6, -⟩ := hr stop s' hs
      refine ⟨[f], h1, ?_, h4, ?_⟩
      · rw [h2, h3]; exact Chain.cons _ _ _ _ _ _ _ _ hc (Chain.nil _ _)
      · rw [h5]
        have : sentOf (logOf c s.count [f]) = [] := by
          unfold sentOf
          rw [List.filterMap_eq_nil_iff]
          intro d hd
          have := h6 d hd
          cases hd2 : d.act <;> simp [hd2, Act.continues, Act.text] at this ⊢
        rw [this, List.append_nil]

/-- **run_stops_only_when**: the loop ends only on an EOF exception, a TIMEOUT exception, a callback that
    returned a true value (or an invalid response object); in each case the last call reported it. -/
theorem run_stop_reason (c : Cfg α) (n : Nat) (s : RS α) :
    ((run n c s).1 = .eofExc → ∃ b, (run n c s).2.finals.getLast? = some (.raisedEOF b)) ∧
    ((run n c s).1 = .timeoutExc → ∃ b, (run n c s).2.finals.getLast? = some (.raisedTIMEOUT b)) ∧
    (∀ t, (run n c s).1 = .cbStop t → ∃ i b af id k, (run n c s).2.finals.getLast? = some (.idx i b af) ∧
        c.resps[i]? = some (.fn id) ∧ c.cb id k = .stop ∧ (t = true ↔ af = .timeoutCls)) := by
  induction n generalizing s with
  | zero => simp [run]
  | succ n ih =>
    obtain ⟨f, st1, evs1, hc, hl, hr⟩ := step_trace c s
    cases hs : step c s with
    | inl s' => rw [run_succ_inl n c s s' hs]; exact ih s'
    | inr r =>
      rw [run_succ_inr n c s r hs]
      obtain ⟨stop, s'⟩ := r
      obtain ⟨h1, -, -, -, -, -, he, ht, hcb⟩ := hr stop s' hs
      simp only [h1, List.getLast?_append, List.getLast?_singleton, Option.some_or, Option.some.injEq]
      refine ⟨fun h => ?_, fun h => ?_, fun t h => ?_⟩
      · obtain ⟨b, hb⟩ := he.mp h; exact ⟨b, hb⟩
      · obtain ⟨b, hb⟩ := ht.mp h; exact ⟨b, hb⟩
      · obtain ⟨i, b, af, id, hf, h2, h3, h4⟩ := hcb t h
        exact ⟨i, b, af, id, s.count, hf, h2, h3, h4⟩

/-- run.py:101-106: the response used for index `i` is the one listed with pattern `i` -/
theorem events_split (c : Cfg α) (i : Nat) :
    c.pats[i]? = (c.events[i]?).map Prod.fst ∧ c.resps[i]? = (c.events[i]?).map Prod.snd := by
  simp [Cfg.pats, Cfg.resps]

end Rn
