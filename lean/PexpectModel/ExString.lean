import PexpectModel.ExExact
import PexpectModel.ExConserve
/-! scratch: the concrete exact searcher and its equivalence with full re-search (W = None) -/
namespace Ex
open Py
variable {α : Type} [DecidableEq α]

def candStart (wlen f W slen : Nat) : Nat := if W = 0 then wlen - (f + slen) else wlen - W

def better (best : Option Span) (idx slen n : Nat) : Option Span :=
  match best with
  | none => some ⟨idx, n, n + slen⟩
  | some b => if n < b.start then some ⟨idx, n, n + slen⟩ else some b

def stepStr (w : List α) (f W : Nat) (best : Option Span) (p : Nat × List α) : Option Span :=
  match findFrom p.2 w (candStart w.length f W p.2.length) with
  | some n => better best p.1 p.2.length n
  | none => best

/-- `searcher_string.search` -/
def searchString (strings : List (Nat × List α)) (w : List α) (f W : Nat) : Option Span :=
  strings.foldl (stepStr w f W) none

def shift (off : Nat) (sp : Span) : Span := ⟨sp.idx, sp.start + off, sp.stop + off⟩

theorem better_shift (off : Nat) (best : Option Span) (idx slen n : Nat) :
    (better best idx slen n).map (shift off) = better (best.map (shift off)) idx slen (n + off) := by
  cases best with
  | none => simp [better, shift]; omega
  | some b =>
    simp only [better, Option.map_some, shift]
    by_cases h : n < b.start
    · have : n + off < b.start + off := by omega
      simp [h, this, shift]; omega
    · have : ¬ n + off < b.start + off := by omega
      simp [h, this, shift]

theorem findFrom_zero (pat s : List α) : findFrom pat s 0 = find pat s := by
  simp [findFrom]

/-- searching `look-back ++ data` with the source's offsets = searching all pending text, shifted -/
theorem searchString_incremental (strings : List (Nat × List α)) (B d w : List α)
    (hw : w <:+ B ++ d)
    (hno : ∀ p ∈ strings, NoOcc p.2 B)
    (hlen : ∀ p ∈ strings, d.length + min p.2.length B.length ≤ w.length)
    (best : Option Span) :
    (strings.foldl (stepStr w d.length 0) best).map (shift ((B ++ d).length - w.length))
      = strings.foldl (stepStr (B ++ d) (B ++ d).length 0) (best.map (shift ((B ++ d).length - w.length))) := by
  induction strings generalizing best with
  | nil => rfl
  | cons p t ih =>
    simp only [List.foldl_cons]
    rw [ih (fun q hq => hno q (by simp [hq])) (fun q hq => hlen q (by simp [hq]))]
    congr 1
    have hinc := incremental_find_eq_full p.2 B d w (hno p (by simp)) hw (hlen p (by simp))
    have hfull : findFrom p.2 (B ++ d) (candStart (B ++ d).length (B ++ d).length 0 p.2.length) = find p.2 (B ++ d) := by
      have : candStart (B ++ d).length (B ++ d).length 0 p.2.length = 0 := by simp [candStart]
      rw [this, findFrom_zero]
    unfold stepStr
    rw [hfull, ← hinc]
    have : candStart w.length d.length 0 p.2.length = w.length - (d.length + p.2.length) := by simp [candStart]
    rw [this]
    cases findFrom p.2 w (w.length - (d.length + p.2.length)) with
    | none => simp
    | some n => simp [better_shift]

/-- a miss of the full search means no listed string occurs anywhere -/
theorem searchString_none_noOcc (strings : List (Nat × List α)) (T : List α)
    (h : searchString strings T T.length 0 = none) : ∀ p ∈ strings, NoOcc p.2 T := by
  unfold searchString at h
  -- once `best` is `some`, it stays `some`
  have stays : ∀ (l : List (Nat × List α)) (b : Span), ∃ b', l.foldl (stepStr T T.length 0) (some b) = some b' := by
    intro l
    induction l with
    | nil => intro b; exact ⟨b, rfl⟩
    | cons q t ih =>
      intro b
      simp only [List.foldl_cons]
      unfold stepStr
      cases findFrom q.2 T (candStart T.length T.length 0 q.2.length) with
      | none => exact ih b
      | some n =>
        simp only [better]
        split <;> exact ih _
  induction strings with
  | nil => intro p hp; simp at hp
  | cons q t ih =>
    simp only [List.foldl_cons] at h
    have hq : findFrom q.2 T (candStart T.length T.length 0 q.2.length) = none := by
      cases hf : findFrom q.2 T (candStart T.length T.length 0 q.2.length) with
      | none => rfl
      | some n =>
        have hstep : stepStr T T.length 0 none q = some ⟨q.1, n, n + q.2.length⟩ := by
          simp [stepStr, hf, better]
        rw [hstep] at h
        obtain ⟨b', hb'⟩ := stays t ⟨q.1, n, n + q.2.length⟩
        rw [hb'] at h; cases h
    have h' : t.foldl (stepStr T T.length 0) none = none := by
      have hstep : stepStr T T.length 0 none q = none := by simp [stepStr, hq]
      rw [hstep] at h
      exact h
    intro p hp
    simp only [List.mem_cons] at hp
    rcases hp with rfl | hp
    · have : candStart T.length T.length 0 p.2.length = 0 := by simp [candStart]
      rw [this, findFrom_zero] at hq
      exact find_none hq
    · exact ih h' p hp

end Ex
