import PexpectModel.Generated.AnsiTable
namespace AnsiOK
open AnsiGen

/-- stack-depth contract of a parser state: `exact n` or `atLeast n` numeric parameters on the stack -/
inductive Depth | exact (n : Nat) | atLeast (n : Nat) deriving DecidableEq, Repr

def depth : S → Depth
  | .INIT | .ESC | .ELB | .G0SCS | .G1SCS | .GRAPHICS_POUND | .MODECRAP => .exact 0
  | .MODECRAP_NUM | .NUMBER_1 | .SEMICOLON => .exact 1
  | .NUMBER_2 => .exact 2
  | .SEMICOLON_X => .atLeast 2
  | .NUMBER_X => .atLeast 3

def isDigit (c : Nat) : Bool := 48 ≤ c && c ≤ 57

/-- does running an action with effect `e` from a state with contract `d` land inside contract `d'`? -/
def fits (d : Depth) (e : Eff) (d' : Depth) : Bool :=
  match e, d, d' with
  | .reset, _, .exact 0 => true
  | .reset, _, .atLeast 0 => true
  | .keep, .exact n, .exact m => n == m
  | .keep, .exact n, .atLeast m => m ≤ n
  | .keep, .atLeast n, .atLeast m => m ≤ n
  | .push, .exact n, .exact m => n + 1 == m
  | .push, .exact n, .atLeast m => m ≤ n + 1
  | .push, .atLeast n, .atLeast m => m ≤ n + 1
  | .build, .exact n, .exact m => 1 ≤ n && n == m
  | .build, .atLeast n, .atLeast m => 1 ≤ n && m ≤ n
  | .pop k, .exact n, .exact m => k ≤ n && n - k == m
  | .pop k, .exact n, .atLeast m => k ≤ n && m ≤ n - k
  | _, _, _ => false

def TableOK : Bool :=
  explicit.all (fun (c, s, a, s') =>
      fits (depth s) (eff a) (depth s') &&
      -- numbers are only ever built from digits
      ((eff a != .push && eff a != .build) || isDigit c)) &&
  anyT.all (fun (s, a, s') => fits (depth s) (eff a) (depth s') && eff a != .push && eff a != .build) &&
  (let (a, s') := dflt
   [S.INIT, .ESC, .ELB, .G0SCS, .G1SCS, .GRAPHICS_POUND, .MODECRAP, .MODECRAP_NUM, .NUMBER_1, .SEMICOLON,
    .NUMBER_2, .SEMICOLON_X, .NUMBER_X].all (fun s => fits (depth s) (eff a) (depth s')) &&
   eff a != .push && eff a != .build)

theorem tableOK : TableOK = true := by decide

end AnsiOK
