import PexpectModel.ScreenLemmas
/-! Pointwise ("reference grid") characterisation of every grid-changing screen operation. -/
namespace Scr

theorem mem_rangeI (a b x : Int) : x ∈ rangeI a b ↔ a ≤ x ∧ x ≤ b := by
  unfold rangeI
  simp only [List.mem_map, List.mem_range]
  constructor
  · rintro ⟨k, hk, rfl⟩; omega
  · rintro ⟨h1, h2⟩
    exact ⟨(x - a).toNat, by omega, by omega⟩

theorem mem_downRange (hi lo x : Int) : x ∈ downRange hi lo ↔ lo < x ∧ x ≤ hi := by
  unfold downRange
  simp only [List.mem_map, List.mem_range]
  constructor
  · rintro ⟨k, hk, rfl⟩; omega
  · rintro ⟨h1, h2⟩
    exact ⟨(hi - x).toNat, by omega, by omega⟩

/-- writing at an on-screen coordinate: exactly that cell changes -/
theorem putAbs_cells {R C : Nat} (s : Screen) (h : Inv R C s) (r c : Int) (ch : Nat)
    (hr : 1 ≤ r ∧ r ≤ R) (hc : 1 ≤ c ∧ c ≤ C) (i j : Nat) :
    getCell (putAbs s r c ch).w i j = if (i : Int) = r - 1 ∧ (j : Int) = c - 1 then ch else getCell s.w i j := by
  unfold putAbs
  simp only
  rw [h.rows_eq, h.cols_eq, idx_of_mem hr.1 hr.2, idx_of_mem hc.1 hc.2]
  rw [getCell_setCell s.w R C _ _ i j ch h.shape (by omega) (by omega)]
  have e1 : (i = (r - 1).toNat) ↔ ((i : Int) = r - 1) := by omega
  have e2 : (j = (c - 1).toNat) ↔ ((j : Int) = c - 1) := by omega
  simp only [e1, e2]

/-- `put_abs` with any coordinates writes the cell at the nearest edge -/
theorem putAbs_clamps {R C : Nat} (s : Screen) (h : Inv R C s) (r c : Int) (ch : Nat) :
    putAbs s r c ch = putAbs s (constrain r 1 R) (constrain c 1 C) ch := by
  have hr := @constrain_range r 1 R (by have := h.rpos; omega)
  have hc := @constrain_range c 1 C (by have := h.cpos; omega)
  unfold putAbs idx
  rw [h.rows_eq, h.cols_eq, constrain_id hr.1 hr.2, constrain_id hc.1 hc.2]

theorem colFold_cells {R C : Nat} (cs : List Int) (hcs : ∀ c ∈ cs, 1 ≤ c ∧ c ≤ C) (r : Int) (hr : 1 ≤ r ∧ r ≤ R) (ch : Nat)
    (s : Screen) (h : Inv R C s) (i j : Nat) :
    getCell (cs.foldl (fun s c => putAbs s r c ch) s).w i j =
      if (i : Int) = r - 1 ∧ ((j : Int) + 1) ∈ cs then ch else getCell s.w i j := by
  induction cs generalizing s with
  | nil => simp
  | cons c t ih =>
    simp only [List.foldl_cons]
    rw [ih (fun x hx => hcs x (by simp [hx])) _ (putAbs_inv s r c ch h)]
    rw [putAbs_cells s h r c ch hr (hcs c (by simp))]
    simp only [List.mem_cons]
    by_cases h1 : (i : Int) = r - 1
    · by_cases h2 : (j : Int) + 1 ∈ t
      · simp [h1, h2]
      · by_cases h3 : (j : Int) = c - 1
        · have : (j : Int) + 1 = c := by omega
          simp [h1, h2, h3, this]
        · have : ¬ ((j : Int) + 1 = c) := by omega
          simp [h1, h2, h3, this]
    · simp [h1]

theorem colFold_inv {R C : Nat} (cs : List Int) (r : Int) (ch : Nat) (s : Screen) (h : Inv R C s) :
    Inv R C (cs.foldl (fun s c => putAbs s r c ch) s) :=
  foldl_inv _ (fun s c hs => putAbs_inv s r c ch hs) cs s h

theorem rowFold_cells {R C : Nat} (rs cs : List Int) (hrs : ∀ r ∈ rs, 1 ≤ r ∧ r ≤ R) (hcs : ∀ c ∈ cs, 1 ≤ c ∧ c ≤ C) (ch : Nat)
    (s : Screen) (h : Inv R C s) (i j : Nat) :
    getCell (rs.foldl (fun s r => cs.foldl (fun s c => putAbs s r c ch) s) s).w i j =
      if ((i : Int) + 1) ∈ rs ∧ ((j : Int) + 1) ∈ cs then ch else getCell s.w i j := by
  induction rs generalizing s with
  | nil => simp
  | cons r t ih =>
    simp only [List.foldl_cons]
    rw [ih (fun x hx => hrs x (by simp [hx])) _ (colFold_inv cs r ch s h)]
    rw [colFold_cells cs hcs r (hrs r (by simp)) ch s h]
    simp only [List.mem_cons]
    by_cases h2 : (j : Int) + 1 ∈ cs
    · by_cases h1 : (i : Int) + 1 ∈ t
      · simp [h1, h2]
      · by_cases h3 : (i : Int) = r - 1
        · have : (i : Int) + 1 = r := by omega
          simp [h1, h2, h3, this]
        · have : ¬ ((i : Int) + 1 = r) := by omega
          simp [h1, h2, h3, this]
    · simp [h2]

/-- the normalised corners lie on the screen, in order -/
theorem corners_ok {R C : Nat} (s : Screen) (h : Inv R C s) (rs cs re ce : Int) :
    let k := corners s rs cs re ce
    1 ≤ k.1 ∧ k.1 ≤ k.2.2.1 ∧ k.2.2.1 ≤ R ∧ 1 ≤ k.2.1 ∧ k.2.1 ≤ k.2.2.2 ∧ k.2.2.2 ≤ C := by
  have hR := h.rpos; have hC := h.cpos
  have a := @constrain_range rs 1 R (by omega)
  have b := @constrain_range re 1 R (by omega)
  have c := @constrain_range cs 1 C (by omega)
  have d := @constrain_range ce 1 C (by omega)
  simp only [corners, h.rows_eq, h.cols_eq]
  split <;> split <;> simp only <;> omega

/-- **fill_region**: exactly the cells of the (clamped, corner-normalised) rectangle take the character;
    every other cell keeps its value -/
theorem fillRegion_cells {R C : Nat} (s : Screen) (h : Inv R C s) (rs cs re ce : Int) (ch : Nat) (i j : Nat) :
    getCell (fillRegion s rs cs re ce ch).w i j =
      let k := corners s rs cs re ce
      if (k.1 ≤ (i : Int) + 1 ∧ (i : Int) + 1 ≤ k.2.2.1) ∧ (k.2.1 ≤ (j : Int) + 1 ∧ (j : Int) + 1 ≤ k.2.2.2)
      then ch else getCell s.w i j := by
  have hk := corners_ok s h rs cs re ce
  unfold fillRegion
  rcases hcor : corners s rs cs re ce with ⟨a, b, c, d⟩
  rw [hcor] at hk
  simp only at hk ⊢
  rw [rowFold_cells (rangeI a c) (rangeI b d)
        (fun r hr => by rw [mem_rangeI] at hr; omega) (fun x hx => by rw [mem_rangeI] at hx; omega) ch s h]
  simp only [mem_rangeI]

/-! ### scrolling -/

theorem scrollUpRows_row (w : Grid) (s e i : Nat) (hse : s ≤ e) (he : e < w.length) :
    (scrollUpRows w s e).getD i [] = if s ≤ i ∧ i < e then w.getD (i + 1) [] else w.getD i [] := by
  unfold scrollUpRows
  rw [if_pos hse]
  simp only [List.getD_eq_getElem?_getD]
  by_cases h1 : i < s
  · have : ¬ (s ≤ i ∧ i < e) := by omega
    rw [if_neg this, List.append_assoc, List.getElem?_append_left (by simp; omega), List.getElem?_take_of_lt h1]
  · by_cases h2 : i < e
    · rw [if_pos ⟨by omega, h2⟩, List.append_assoc, List.getElem?_append_right (by simp; omega)]
      have hl : (List.take s w).length = s := by simp; omega
      rw [hl, List.getElem?_append_left (by simp; omega), List.getElem?_take_of_lt (by omega), List.getElem?_drop]
      congr 2; omega
    · have : ¬ (s ≤ i ∧ i < e) := by omega
      rw [if_neg this, List.getElem?_append_right (by simp; omega)]
      have hl : (List.take s w ++ List.take (e - s) (List.drop (s + 1) w)).length = e := by simp; omega
      rw [hl, List.getElem?_drop]
      congr 2; omega

theorem scrollDownRows_row (w : Grid) (s e i : Nat) (hse : s ≤ e) (he : e < w.length) :
    (scrollDownRows w s e).getD i [] = if s < i ∧ i ≤ e then w.getD (i - 1) [] else w.getD i [] := by
  unfold scrollDownRows
  rw [if_pos hse]
  simp only [List.getD_eq_getElem?_getD]
  by_cases h1 : i ≤ s
  · have : ¬ (s < i ∧ i ≤ e) := by omega
    rw [if_neg this, List.append_assoc, List.getElem?_append_left (by simp; omega), List.getElem?_take_of_lt (by omega)]
  · by_cases h2 : i ≤ e
    · rw [if_pos ⟨by omega, h2⟩, List.append_assoc, List.getElem?_append_right (by simp; omega)]
      have hl : (List.take (s + 1) w).length = s + 1 := by simp; omega
      rw [hl, List.getElem?_append_left (by simp; omega), List.getElem?_take_of_lt (by omega), List.getElem?_drop]
      congr 2; omega
    · have : ¬ (s < i ∧ i ≤ e) := by omega
      rw [if_neg this, List.getElem?_append_right (by simp; omega)]
      have hl : (List.take (s + 1) w ++ List.take (e - s) (List.drop s w)).length = e + 1 := by simp; omega
      rw [hl, List.getElem?_drop]
      congr 2; omega

/-- **scroll_up**: inside the scroll region every row takes the content of the row below it, the last
    row of the region and all rows outside it are untouched; an inverted region scrolls nothing -/
theorem scrollUp_cells {R C : Nat} (s : Screen) (h : Inv R C s) (i j : Nat) :
    getCell (scrollUp s).w i j =
      if s.scrS ≤ (i : Int) + 1 ∧ (i : Int) + 1 < s.scrE then getCell s.w (i + 1) j else getCell s.w i j := by
  have hreg := h.reg
  simp only [OnScreen] at hreg
  unfold scrollUp getCell
  simp only
  by_cases hse : (s.scrS - 1).toNat ≤ (s.scrE - 1).toNat
  · rw [scrollUpRows_row _ _ _ i hse (by rw [h.shape.1]; omega)]
    have e1 : ((s.scrS - 1).toNat ≤ i ∧ i < (s.scrE - 1).toNat) ↔ (s.scrS ≤ (i : Int) + 1 ∧ (i : Int) + 1 < s.scrE) := by omega
    simp only [e1]
    split <;> rfl
  · have : ¬ (s.scrS ≤ (i : Int) + 1 ∧ (i : Int) + 1 < s.scrE) := by omega
    rw [if_neg this]
    unfold scrollUpRows
    rw [if_neg hse]

theorem scrollDown_cells {R C : Nat} (s : Screen) (h : Inv R C s) (i j : Nat) :
    getCell (scrollDown s).w i j =
      if s.scrS < (i : Int) + 1 ∧ (i : Int) + 1 ≤ s.scrE then getCell s.w (i - 1) j else getCell s.w i j := by
  have hreg := h.reg
  simp only [OnScreen] at hreg
  unfold scrollDown getCell
  simp only
  by_cases hse : (s.scrS - 1).toNat ≤ (s.scrE - 1).toNat
  · rw [scrollDownRows_row _ _ _ i hse (by rw [h.shape.1]; omega)]
    have e1 : ((s.scrS - 1).toNat < i ∧ i ≤ (s.scrE - 1).toNat) ↔ (s.scrS < (i : Int) + 1 ∧ (i : Int) + 1 ≤ s.scrE) := by omega
    simp only [e1]
    split <;> rfl
  · have : ¬ (s.scrS < (i : Int) + 1 ∧ (i : Int) + 1 ≤ s.scrE) := by omega
    rw [if_neg this]
    unfold scrollDownRows
    rw [if_neg hse]

end Scr

namespace Scr

theorem downRange_step (hi lo : Int) (h : lo < hi) : downRange hi lo = hi :: downRange (hi - 1) lo := by
  unfold downRange
  have e : (hi - lo).toNat = (hi - 1 - lo).toNat + 1 := by omega
  rw [e, List.range_succ_eq_map]
  simp only [List.map_cons, List.map_map, Int.natCast_zero, Int.sub_zero, List.cons.injEq, true_and]
  apply List.map_congr_left
  intro k _
  simp only [Function.comp]
  omega

theorem downRange_nil (hi lo : Int) (h : hi ≤ lo) : downRange hi lo = [] := by
  unfold downRange
  have : (hi - lo).toNat = 0 := by omega
  rw [this]; rfl

theorem getAbs_on {R C : Nat} (s : Screen) (h : Inv R C s) (r c : Int) (hr : 1 ≤ r ∧ r ≤ R) (hc : 1 ≤ c ∧ c ≤ C) :
    getAbs s r c = getCell s.w (r - 1).toNat (c - 1).toNat := by
  unfold getAbs
  rw [h.rows_eq, h.cols_eq, idx_of_mem hr.1 hr.2, idx_of_mem hc.1 hc.2]

/-- the right-to-left copy loop of `insert_abs` shifts the cells `lo … hi-1` (0-based) one to the right -/
theorem shiftFold_cells {R C : Nat} (r : Int) (hr : 1 ≤ r ∧ r ≤ R) (lo : Int) (hlo : 1 ≤ lo) :
    ∀ (n : Nat) (hi : Int), (hi - lo).toNat = n → hi ≤ C → ∀ s, Inv R C s → ∀ i j : Nat,
    getCell ((downRange hi lo).foldl (fun s ci => putAbs s r ci (getAbs s r (ci - 1))) s).w i j =
      if (i : Int) = r - 1 ∧ lo ≤ (j : Int) ∧ (j : Int) + 1 ≤ hi then getCell s.w i (j - 1) else getCell s.w i j := by
  intro n
  induction n with
  | zero =>
    intro hi hn hC s h i j
    rw [downRange_nil hi lo (by omega)]
    have : ¬ ((i : Int) = r - 1 ∧ lo ≤ (j : Int) ∧ (j : Int) + 1 ≤ hi) := by omega
    simp [this]
  | succ n ih =>
    intro hi hn hC s h i j
    have hlt : lo < hi := by omega
    rw [downRange_step hi lo hlt, List.foldl_cons]
    have hinv1 := putAbs_inv s r hi (getAbs s r (hi - 1)) h
    rw [ih (hi - 1) (by omega) (by omega) _ hinv1 i j]
    have hhi : 1 ≤ hi ∧ hi ≤ (C : Int) := ⟨by omega, hC⟩
    rw [putAbs_cells s h r hi _ hr hhi, putAbs_cells s h r hi _ hr hhi]
    rw [getAbs_on s h r (hi - 1) hr ⟨by omega, by omega⟩]
    have e0 : ∀ a b c d : Nat, a = c → b = d → getCell s.w a b = getCell s.w c d := by
      intro a b c d h1 h2; rw [h1, h2]
    repeat' split
    all_goals first
      | rfl
      | (exfalso; omega)
      | (apply e0 <;> omega)

end Scr

namespace Scr

theorem shiftFold_inv {R C : Nat} (r : Int) (l : List Int) (s : Screen) (h : Inv R C s) :
    Inv R C (l.foldl (fun s ci => putAbs s r ci (getAbs s r (ci - 1))) s) :=
  foldl_inv _ (fun s ci hs => putAbs_inv s r ci _ hs) l s h

/-- **insert_abs**: at the (clamped) position the character is written, everything to its right in that
    row moves one cell to the right (the last character is lost), every other cell is untouched -/
theorem insertAbs_cells {R C : Nat} (s : Screen) (h : Inv R C s) (r c : Int) (ch : Nat) (i j : Nat) :
    getCell (insertAbs s r c ch).w i j =
      let r' := constrain r 1 R
      let c' := constrain c 1 C
      if (i : Int) = r' - 1 then
        (if (j : Int) = c' - 1 then ch
         else if c' ≤ (j : Int) ∧ (j : Int) + 1 ≤ C then getCell s.w i (j - 1) else getCell s.w i j)
      else getCell s.w i j := by
  have hr := @constrain_range r 1 R (by have := h.rpos; omega)
  have hc := @constrain_range c 1 C (by have := h.cpos; omega)
  unfold insertAbs
  simp only [h.rows_eq, h.cols_eq]
  rw [putAbs_cells _ (shiftFold_inv _ _ s h) _ _ ch hr hc]
  rw [shiftFold_cells (constrain r 1 R) hr (constrain c 1 C) hc.1 _ (C : Int) rfl (Int.le_refl _) s h]
  repeat' split
  all_goals first
    | rfl
    | (exfalso; omega)

/-! ### the erase family and line feed, as corollaries -/

theorem corners_row {R C : Nat} (s : Screen) (h : Inv R C s) (c1 c2 : Int) (h1 : 1 ≤ c1) (h2 : c1 ≤ c2) (h3 : c2 ≤ C) :
    corners s s.curR c1 s.curR c2 = (s.curR, c1, s.curR, c2) := by
  have hcur := h.cur
  simp only [OnScreen] at hcur
  simp only [corners, h.rows_eq, h.cols_eq]
  rw [constrain_id hcur.1 hcur.2.1, constrain_id h1 (by omega), constrain_id (by omega) h3]
  rw [if_neg (by omega), if_neg (by omega)]

/-- erase_end_of_line: the cursor cell and everything right of it on the cursor row become blank -/
theorem eraseEndOfLine_cells {R C : Nat} (s : Screen) (h : Inv R C s) (i j : Nat) :
    getCell (eraseEndOfLine s).w i j =
      if (i : Int) + 1 = s.curR ∧ s.curC ≤ (j : Int) + 1 ∧ (j : Int) + 1 ≤ C then SPACE else getCell s.w i j := by
  have hcur := h.cur
  simp only [OnScreen] at hcur
  unfold eraseEndOfLine
  rw [fillRegion_cells s h, h.cols_eq, corners_row s h s.curC C hcur.2.2.1 hcur.2.2.2 (Int.le_refl _)]
  simp only
  repeat' split
  all_goals first
    | rfl
    | (exfalso; omega)

theorem eraseStartOfLine_cells {R C : Nat} (s : Screen) (h : Inv R C s) (i j : Nat) :
    getCell (eraseStartOfLine s).w i j =
      if (i : Int) + 1 = s.curR ∧ (j : Int) + 1 ≤ s.curC then SPACE else getCell s.w i j := by
  have hcur := h.cur
  simp only [OnScreen] at hcur
  unfold eraseStartOfLine
  rw [fillRegion_cells s h, corners_row s h 1 s.curC (Int.le_refl _) hcur.2.2.1 hcur.2.2.2]
  simp only
  repeat' split
  all_goals first
    | rfl
    | (exfalso; omega)

theorem eraseLine_cells {R C : Nat} (s : Screen) (h : Inv R C s) (i j : Nat) (hj : j < C) :
    getCell (eraseLine s).w i j = if (i : Int) + 1 = s.curR then SPACE else getCell s.w i j := by
  have hcur := h.cur
  have hC := h.cpos
  simp only [OnScreen] at hcur
  unfold eraseLine
  rw [fillRegion_cells s h, h.cols_eq, corners_row s h 1 C (Int.le_refl _) (by omega) (Int.le_refl _)]
  simp only
  repeat' split
  all_goals first
    | rfl
    | (exfalso; omega)

/-- the accessors all read the same grid -/
theorem get_eq_getAbs_cursor (s : Screen) : get s = getAbs s s.curR s.curC := rfl

theorem getAbs_clamps {R C : Nat} (s : Screen) (h : Inv R C s) (r c : Int) :
    getAbs s r c = getCell s.w (constrain r 1 R - 1).toNat (constrain c 1 C - 1).toNat := by
  unfold getAbs idx
  rw [h.rows_eq, h.cols_eq]

theorem dump_eq (s : Screen) : dump s = s.w.flatten := rfl
theorem toStr_eq (s : Screen) : toStr s = List.intercalate [10] s.w := rfl

theorem getRegion_rows {R C : Nat} (s : Screen) (h : Inv R C s) (rs cs re ce : Int) :
    let k := corners s rs cs re ce
    getRegion s rs cs re ce = (rangeI k.1 k.2.2.1).map (fun r => (rangeI k.2.1 k.2.2.2).map (fun c => getAbs s r c)) := by
  unfold getRegion
  rcases corners s rs cs re ce with ⟨a, b, c, d⟩
  rfl

end Scr
