/-! The clock skeleton of `Expecter.expect_loop` and of `spawn.waitnoecho` (C05).  Time is integer ticks.
    One loop iteration (read_nonblocking + delayafterread + new_data + reading the clock) is one event with a
    duration; the transport contract bounds that duration by the timeout it was given plus `eps`. -/
namespace Dl

inductive Kind | hit | miss | eof | timeoutExc
deriving DecidableEq, Repr

structure Ev where
  dt : Nat
  k : Kind
deriving Repr

inductive Res | hit | eof | timeout | blocked
deriving DecidableEq, Repr

/-- the `while True:` loop; `tmo` is the local variable `timeout` (`none` = no deadline) -/
def loop (endT : Int) : Option Int → Int → List Ev → Res × Int
  | tmo, now, evs =>
    if (match tmo with | some t => decide (t < 0) | none => false) then (.timeout, now)
    else match evs with
      | [] => (.blocked, now)
      | ev :: r =>
        let now' := now + ev.dt
        match ev.k with
        | .hit => (.hit, now')
        | .eof => (.eof, now')
        | .timeoutExc => (.timeout, now')
        | .miss => loop endT (tmo.map (fun _ => endT - now')) now' r

/-- `expect_loop(timeout=T)` started at `start`: `end_time` is fixed first, `existing_data` takes `d0` ticks -/
def expectLoop (T : Option Int) (start : Int) (d0 : Nat) (hit0 : Bool) (evs : List Ev) : Res × Int :=
  if hit0 then (.hit, start + d0)
  else loop (start + T.getD 0) T (start + d0) evs

/-- the transport contract for one read given timeout `tmo`: it returns within `tmo + eps`; it raises TIMEOUT
    only after `tmo` has passed, and never when `tmo` is `None` -/
def evOk (eps : Nat) (tmo : Option Int) (ev : Ev) : Prop :=
  match tmo with
  | some t => (ev.dt : Int) ≤ t + eps ∧ (ev.k = .timeoutExc → t ≤ ev.dt)
  | none => ev.k ≠ .timeoutExc

/-- the contract holds for every read the loop performs -/
def runOk (eps : Nat) (endT : Int) : Option Int → Int → List Ev → Prop
  | _, _, [] => True
  | tmo, now, ev :: r =>
    (match tmo with | some t => t < 0 | none => False) ∨
    (evOk eps tmo ev ∧ (ev.k = .miss → runOk eps endT (tmo.map (fun _ => endT - (now + ev.dt))) (now + ev.dt) r))

theorem loop_deadline (eps : Nat) (endT : Int) (evs : List Ev) :
    ∀ (t now : Int), now ≤ endT + eps → (0 ≤ t → now + t ≤ endT + eps) → runOk eps endT (some t) now evs →
      (loop endT (some t) now evs).2 ≤ endT + 2 * eps := by
  induction evs with
  | nil =>
    intro t now h1 _ _
    unfold loop
    by_cases ht : t < 0
    · simp only [ht, decide_true, if_true]; omega
    · simp only [ht, decide_false, Bool.false_eq_true, if_false]; omega
  | cons ev r ih =>
    intro t now h1 h2 hok
    unfold loop
    by_cases ht : t < 0
    · simp only [ht, decide_true, if_true]; omega
    · simp only [ht, decide_false, Bool.false_eq_true, if_false]
      simp only [runOk] at hok
      rcases hok with hneg | ⟨hev, hrest⟩
      · exact absurd hneg ht
      · simp only [evOk] at hev
        have hnow' : now + (ev.dt : Int) ≤ endT + 2 * eps := by have := h2 (by omega); omega
        cases hk : ev.k with
        | hit => simp only; exact hnow'
        | eof => simp only; exact hnow'
        | timeoutExc => simp only; exact hnow'
        | miss =>
          simp only [Option.map_some]
          have hr := hrest hk
          simp only [Option.map_some] at hr
          by_cases hneg : endT - (now + ev.dt) < 0
          · -- the next check fires
            unfold loop
            simp only [hneg, decide_true, if_true]
            exact hnow'
          · exact ih (endT - (now + ev.dt)) (now + ev.dt) (by omega) (by intro _; omega) hr

/-- **expect_deadline**: with a finite timeout `T ≥ 0` the call finishes by `start + T + 2·eps`, whatever the child
    does (silence, a trickle of non-matching output, hang-up), as long as every read honours the transport contract -/
theorem expect_deadline (eps : Nat) (T : Int) (hT : 0 ≤ T) (start : Int) (d0 : Nat) (hd0 : d0 ≤ eps) (hit0 : Bool) (evs : List Ev)
    (hok : runOk eps (start + T) (some T) (start + d0) evs) :
    (expectLoop (some T) start d0 hit0 evs).2 ≤ start + T + 2 * eps := by
  unfold expectLoop
  split
  · simp only; omega
  · simp only [Option.getD_some]
    exact loop_deadline eps (start + T) evs T (start + d0) (by omega) (by intro _; omega) hok

theorem loop_not_early (eps : Nat) (endT : Int) (evs : List Ev) :
    ∀ (t now : Int), endT ≤ now + t → runOk eps endT (some t) now evs → 0 ≤ t →
      (loop endT (some t) now evs).1 = .timeout → endT ≤ (loop endT (some t) now evs).2 := by
  induction evs with
  | nil =>
    intro t now _ _ ht hres
    unfold loop at hres ⊢
    have : ¬ t < 0 := by omega
    simp only [this, decide_false, Bool.false_eq_true, if_false] at hres
    cases hres
  | cons ev r ih =>
    intro t now h1 hok ht hres
    unfold loop at hres ⊢
    have hnt : ¬ t < 0 := by omega
    simp only [hnt, decide_false, Bool.false_eq_true, if_false] at hres ⊢
    simp only [runOk] at hok
    rcases hok with hneg | ⟨hev, hrest⟩
    · exact absurd hneg hnt
    · simp only [evOk] at hev
      cases hk : ev.k with
      | hit => rw [hk] at hres; simp at hres
      | eof => rw [hk] at hres; simp at hres
      | timeoutExc =>
        simp only
        have := hev.2 hk
        omega
      | miss =>
        rw [hk] at hres
        simp only [Option.map_some] at hres ⊢
        have hr := hrest hk
        simp only [Option.map_some] at hr
        by_cases hneg : endT - (now + ev.dt) < 0
        · unfold loop
          simp only [hneg, decide_true, if_true]
          omega
        · exact ih (endT - (now + ev.dt)) (now + ev.dt) (by omega) hr (by omega) hres

/-- **no_early_timeout**: a TIMEOUT outcome is never reported before `T` has elapsed -/
theorem no_early_timeout (eps : Nat) (T : Int) (hT : 0 ≤ T) (start : Int) (d0 : Nat) (hit0 : Bool) (evs : List Ev)
    (hok : runOk eps (start + T) (some T) (start + d0) evs)
    (hres : (expectLoop (some T) start d0 hit0 evs).1 = .timeout) :
    start + T ≤ (expectLoop (some T) start d0 hit0 evs).2 := by
  unfold expectLoop at hres ⊢
  split at hres
  · simp at hres
  · rename_i hh
    simp only [hh, Bool.false_eq_true, if_false, Option.getD_some] at hres ⊢
    exact loop_not_early eps (start + T) evs T (start + d0) (by omega) hok hT hres

theorem loop_none (eps : Nat) (endT : Int) (evs : List Ev) :
    ∀ now, runOk eps endT none now evs → (loop endT none now evs).1 ≠ .timeout := by
  induction evs with
  | nil => intro now _; unfold loop; simp
  | cons ev r ih =>
    intro now hok
    unfold loop
    simp only [Bool.false_eq_true, if_false]
    simp only [runOk] at hok
    rcases hok with hf | ⟨hev, hrest⟩
    · exact absurd hf (by simp)
    · simp only [evOk] at hev
      cases hk : ev.k with
      | hit => simp
      | eof => simp
      | timeoutExc => exact absurd hk hev
      | miss =>
        simp only [Option.map_none]
        have := hrest hk
        simp only [Option.map_none] at this
        exact ih _ this

/-- **none_never_times_out** -/
theorem none_never_times_out (eps : Nat) (start : Int) (d0 : Nat) (hit0 : Bool) (evs : List Ev)
    (hok : runOk eps (start + 0) none (start + d0) evs) : (expectLoop none start d0 hit0 evs).1 ≠ .timeout := by
  unfold expectLoop
  split
  · simp
  · simp only [Option.getD_none]; exact loop_none eps _ evs _ hok

/-- **zero_still_examines**: with `timeout = 0` the pending text is searched, and if it does not match, one read is
    attempted (so whatever is immediately readable is examined) before TIMEOUT can be reported -/
theorem zero_still_examines (start : Int) (d0 : Nat) (ev : Ev) (r : List Ev) :
    (expectLoop (some 0) start d0 true (ev :: r)).1 = .hit ∧
    (ev.k = .hit → (expectLoop (some 0) start d0 false (ev :: r)).1 = .hit) ∧
    (ev.k = .eof → (expectLoop (some 0) start d0 false (ev :: r)).1 = .eof) := by
  refine ⟨by simp [expectLoop], ?_, ?_⟩ <;> intro hk <;> simp [expectLoop, loop, hk]

/-- a negative timeout means "already expired": pending text is still searched, nothing is read -/
theorem negative_expires_at_once (T : Int) (hT : T < 0) (start : Int) (d0 : Nat) (evs : List Ev) :
    expectLoop (some T) start d0 false evs = (.timeout, start + d0) := by
  unfold expectLoop loop
  simp [hT]

/-- `-1` means the instance default, at every entry point that documents it -/
def resolve (arg dflt : Option Int) : Option Int := if arg = some (-1) then dflt else arg

theorem resolve_default (dflt : Option Int) : resolve (some (-1)) dflt = dflt := by simp [resolve]
theorem resolve_explicit (arg dflt : Option Int) (h : arg ≠ some (-1)) : resolve arg dflt = arg := by simp [resolve, h]

/-! ### waitnoecho -/

/-- one iteration of the polling loop: is echo still on, how long did the iteration's bookkeeping take -/
structure WEv where
  echoOn : Bool
  dt : Nat

/-- `waitnoecho`: check echo; if `timeout < 0` give up; recompute `timeout`; sleep `S` -/
def waitnoecho (S : Nat) (endT : Int) : Option Int → Int → List WEv → Option Bool × Int
  | _, now, [] => (none, now)
  | tmo, now, ev :: r =>
    let now1 := now + ev.dt
    if !ev.echoOn then (some true, now1)
    else if (match tmo with | some t => decide (t < 0) | none => false) then (some false, now1)
    else waitnoecho S endT (tmo.map (fun _ => endT - now1)) (now1 + S) r

/-- **waitnoecho_bound**: whatever the terminal does, `waitnoecho(T)` returns by `T + 2` sleeps (+ bookkeeping) -/
theorem waitnoecho_bound (S eps : Nat) (endT : Int) (evs : List WEv) (hdt : ∀ ev ∈ evs, ev.dt ≤ eps) :
    ∀ (t now : Int), (0 ≤ t → now ≤ endT + S) → (t < 0 → now ≤ endT + 2 * S + eps) →
      (waitnoecho S endT (some t) now evs).2 ≤ endT + 2 * S + 2 * eps := by
  induction evs with
  | nil =>
    intro t now h1 h2
    simp only [waitnoecho]
    by_cases ht : 0 ≤ t
    · have := h1 ht; omega
    · have := h2 (by omega); omega
  | cons ev r ih =>
    intro t now h1 h2
    have hd := hdt ev (by simp)
    unfold waitnoecho
    simp only
    split
    · simp only
      by_cases ht : 0 ≤ t
      · have := h1 ht; omega
      · have := h2 (by omega); omega
    · by_cases ht : t < 0
      · simp only [ht, decide_true, if_true]; have := h2 ht; omega
      · simp only [ht, decide_false, Bool.false_eq_true, if_false, Option.map_some]
        have hn := h1 (by omega)
        apply ih (fun e he => hdt e (by simp [he]))
        · intro _; omega
        · intro _; omega

/-- it gives up (returns False) only after `T` has elapsed -/
theorem waitnoecho_not_early (S : Nat) (endT : Int) (evs : List WEv) :
    ∀ (t now : Int), (t < 0 → endT < now) →
      (waitnoecho S endT (some t) now evs).1 = some false → endT < (waitnoecho S endT (some t) now evs).2 := by
  induction evs with
  | nil => intro t now _ h; simp [waitnoecho] at h
  | cons ev r ih =>
    intro t now h1 h
    unfold waitnoecho at h ⊢
    simp only at h ⊢
    split at h
    · simp at h
    · rename_i he
      simp only [he, Bool.false_eq_true, if_false]
      by_cases ht : t < 0
      · simp only [ht, decide_true, if_true]; have := h1 ht; omega
      · simp only [ht, decide_false, Bool.false_eq_true, if_false, Option.map_some] at h ⊢
        exact ih _ _ (by intro _; omega) h

/-- `waitnoecho(None)` never gives up -/
theorem waitnoecho_none (S : Nat) (endT : Int) (evs : List WEv) : ∀ now, (waitnoecho S endT none now evs).1 ≠ some false := by
  induction evs with
  | nil => intro now; simp [waitnoecho]
  | cons ev r ih =>
    intro now
    unfold waitnoecho
    simp only
    split
    · simp
    · simp only [Bool.false_eq_true, if_false, Option.map_none]; exact ih _

end Dl
