import PexpectModel.ExLoop
/-! scratch: conservation (C01) at call level, via the naive procedure -/
namespace Ex
open Py
variable {α : Type} [DecidableEq α]

def dataOf : List (Ev α) → List α
  | [] => []
  | .data d :: r => d ++ dataOf r
  | _ :: r => dataOf r

/-- text a call hands back to the caller -/
def handed : Out α → List α
  | .hit _ b a => b ++ a
  | .eof b => b
  | .timeout _ => []

theorem win_suffix (W : Nat) (B : List α) : win W B <:+ B := by
  unfold win; split
  · exact List.suffix_refl _
  · exact lastN_suffix _ _

theorem nsearch_conserve (sr : Searcher α) (hwf : sr.WF) (W : Nat) (B : List α) (i : Nat) (b a rest : List α)
    (h : nsearch sr W B = some (i, b, a, rest)) : b ++ a ++ rest = B := by
  unfold nsearch at h
  simp only at h
  cases hs : sr.search (win W B) (win W B).length W with
  | none => simp [hs] at h
  | some sp =>
    simp only [hs, Option.some.injEq, Prod.mk.injEq] at h
    obtain ⟨-, rfl, rfl, rfl⟩ := h
    obtain ⟨h1, h2⟩ := hwf _ _ _ _ hs
    obtain ⟨pre, hpre⟩ := win_suffix W B
    generalize win W B = w at *
    subst hpre
    have e0 : (pre ++ w).length - (w.length - sp.start) = pre.length + sp.start := by
      simp only [List.length_append]; omega
    rw [e0, List.take_append]
    simp only [List.take_of_length_le (Nat.le_add_right _ _), Nat.add_sub_cancel_left]
    rw [List.drop_take]
    have e1 : w.take sp.start ++ (w.drop sp.start).take (sp.stop - sp.start) = w.take sp.stop := by
      rw [← List.take_add]; congr 1; omega
    simp only [List.append_assoc]
    rw [← List.append_assoc (List.take sp.start w), e1, List.take_append_drop]

/-- per-call conservation for the naive procedure: pending ++ data read = handed back ++ new pending;
    a TIMEOUT hands back nothing and its `before` is the whole pending text; an EOF hands back everything -/
theorem nloop_conserve (sr : Searcher α) (hwf : sr.WF) (W : Nat) (evs : List (Ev α)) (B : List α) :
    ∃ used, evs = used ++ (nloop sr W B evs).2.2 ∧
      B ++ dataOf used = handed (nloop sr W B evs).1 ++ (nloop sr W B evs).2.1 ∧
      (∀ b, (nloop sr W B evs).1 = .timeout b → b = (nloop sr W B evs).2.1) ∧
      (∀ b, (nloop sr W B evs).1 = .eof b → (nloop sr W B evs).2.1 = []) := by
  induction evs generalizing B with
  | nil => exact ⟨[], by simp [nloop, dataOf, handed]⟩
  | cons e r ih =>
    cases e with
    | eofExc => exact ⟨[.eofExc], by simp [nloop, dataOf, handed]⟩
    | timeoutExc => exact ⟨[.timeoutExc], by simp [nloop, dataOf, handed]⟩
    | expired => exact ⟨[.expired], by simp [nloop, dataOf, handed]⟩
    | data d =>
      cases hn : nsearch sr W (B ++ d) with
      | some t =>
        obtain ⟨i, b, a, rest⟩ := t
        have hc := nsearch_conserve sr hwf W (B ++ d) i b a rest hn
        refine ⟨[.data d], ?_⟩
        simp [nloop, hn, dataOf, handed, hc]
      | none =>
        obtain ⟨used, h1, h2, h3, h4⟩ := ih (B ++ d)
        refine ⟨.data d :: used, ?_⟩
        simp only [nloop, hn]
        refine ⟨by simp; exact h1, ?_, h3, h4⟩
        simp only [dataOf]
        rw [← List.append_assoc]; exact h2

end Ex
