import PexpectModel.ExStringLoop
/-! The two concrete searchers of `expect.py` (`searcher_re`, `searcher_string`), the `pick`
    characterisation shared by both ("strict `<` keeps the first listed"), and their specs (C02). -/
namespace Ex
open Py
variable {α : Type} [DecidableEq α]

/-- a compiled regular expression as pexpect uses it: `pattern.search(buffer, pos)` -/
structure ReFn (α : Type) where
  search : List α → Nat → Option (Nat × Nat)

/-- what CPython's `re` guarantees about a returned match object -/
def ReFn.WF (r : ReFn α) : Prop :=
  ∀ w pos s e, r.search w pos = some (s, e) → pos ≤ s ∧ s ≤ e ∧ e ≤ w.length

/-- `if first_match is None or n < first_match` -/
def keep (best : Option Span) (idx s e : Nat) : Option Span :=
  match best with
  | none => some ⟨idx, s, e⟩
  | some b => if s < b.start then some ⟨idx, s, e⟩ else some b

theorem better_eq_keep (best : Option Span) (idx slen n : Nat) :
    better best idx slen n = keep best idx n (n + slen) := by
  cases best <;> rfl

def stepRe (w : List α) (W : Nat) (best : Option Span) (p : Nat × ReFn α) : Option Span :=
  match p.2.search w (if W = 0 then 0 else w.length - W) with
  | some (s, e) => keep best p.1 s e
  | none => best

/-- `searcher_re.search` (the `freshlen` argument is ignored by the source as well) -/
def searchRe (res : List (Nat × ReFn α)) (w : List α) (_f W : Nat) : Option Span :=
  res.foldl (stepRe w W) none

/-- `searcher_re` has no `longest_string`, so the Expecter's look-back is off -/
def reSr (res : List (Nat × ReFn α)) : Searcher α := { search := searchRe res, lookback := 0 }

theorem reSr_freshIndep (res : List (Nat × ReFn α)) (W : Nat) : FreshIndep (reSr res) W :=
  fun _ _ _ => rfl

theorem exactSr_freshIndep (strings : List (Nat × List α)) (L W : Nat) (hW : W ≠ 0) :
    FreshIndep (exactSr strings L) W := by
  intro w f f'
  have : stepStr w f W = stepStr w f' W := by
    funext best p; simp [stepStr, candStart, hW]
  simp [exactSr, searchString, this]

/-! ### `pick`: the fold both searchers perform over their candidates -/

/-- candidates in list order → the one kept by the source's strict comparison -/
def pickFrom (best : Option Span) (cands : List Span) : Option Span :=
  cands.foldl (fun b c => keep b c.idx c.start c.stop) best

def pick (cands : List Span) : Option Span := pickFrom none cands

theorem keep_some (b : Span) (i s e : Nat) :
    keep (some b) i s e = if s < b.start then some ⟨i, s, e⟩ else some b := rfl

theorem pickFrom_some_spec (cands : List Span) (b sp : Span) (h : pickFrom (some b) cands = some sp) :
    (sp = b ∧ ∀ c ∈ cands, b.start ≤ c.start) ∨
    (∃ pre post, cands = pre ++ sp :: post ∧ sp.start < b.start ∧
       (∀ c ∈ pre, sp.start < c.start) ∧ (∀ c ∈ post, sp.start ≤ c.start)) := by
  induction cands generalizing b with
  | nil =>
    simp only [pickFrom, List.foldl_nil, Option.some.injEq] at h
    exact Or.inl ⟨h.symm, by simp⟩
  | cons c t ih =>
    simp only [pickFrom, List.foldl_cons, keep_some] at h
    by_cases hc : c.start < b.start
    · rw [if_pos hc] at h
      have hc' : (⟨c.idx, c.start, c.stop⟩ : Span) = c := rfl
      rw [hc'] at h
      rcases ih c h with ⟨rfl, hall⟩ | ⟨pre, post, rfl, hlt, hpre, hpost⟩
      · exact Or.inr ⟨[], t, rfl, hc, by simp, hall⟩
      · refine Or.inr ⟨c :: pre, post, rfl, by omega, ?_, hpost⟩
        intro x hx
        simp only [List.mem_cons] at hx
        rcases hx with rfl | hx
        · exact hlt
        · exact hpre x hx
    · rw [if_neg hc] at h
      rcases ih b h with ⟨rfl, hall⟩ | ⟨pre, post, rfl, hlt, hpre, hpost⟩
      · refine Or.inl ⟨rfl, ?_⟩
        intro x hx
        simp only [List.mem_cons] at hx
        rcases hx with rfl | hx
        · omega
        · exact hall x hx
      · refine Or.inr ⟨c :: pre, post, rfl, hlt, ?_, hpost⟩
        intro x hx
        simp only [List.mem_cons] at hx
        rcases hx with rfl | hx
        · omega
        · exact hpre x hx

/-- **pick_spec** (C02): the candidate reported is a member of the candidate list, no candidate starts
    earlier, and every candidate listed before it starts strictly later (first listed wins ties). -/
theorem pick_spec (cands : List Span) (sp : Span) (h : pick cands = some sp) :
    ∃ pre post, cands = pre ++ sp :: post ∧
      (∀ c ∈ pre, sp.start < c.start) ∧ (∀ c ∈ post, sp.start ≤ c.start) := by
  cases cands with
  | nil => simp [pick, pickFrom] at h
  | cons c t =>
    have h' : pickFrom (some c) t = some sp := by
      simpa [pick, pickFrom, keep] using h
    rcases pickFrom_some_spec t c sp h' with ⟨rfl, hall⟩ | ⟨pre, post, rfl, hlt, hpre, hpost⟩
    · exact ⟨[], t, rfl, by simp, hall⟩
    · refine ⟨c :: pre, post, rfl, ?_, hpost⟩
      intro x hx
      simp only [List.mem_cons] at hx
      rcases hx with rfl | hx
      · exact hlt
      · exact hpre x hx

theorem pick_none (cands : List Span) (h : pick cands = none) : cands = [] := by
  cases cands with
  | nil => rfl
  | cons c t =>
    exfalso
    have stays : ∀ (l : List Span) (b : Span), ∃ b', pickFrom (some b) l = some b' := by
      intro l
      induction l with
      | nil => intro b; exact ⟨b, rfl⟩
      | cons q t ih =>
        intro b
        simp only [pickFrom, List.foldl_cons, keep_some]
        split <;> exact ih _
    obtain ⟨b', hb'⟩ := stays t c
    have : pick (c :: t) = pickFrom (some c) t := by simp [pick, pickFrom, keep]
    rw [this, hb'] at h; cases h

/-! ### both searchers are `pick` over their per-pattern results -/

def strCands (strings : List (Nat × List α)) (w : List α) (f W : Nat) : List Span :=
  strings.filterMap (fun p =>
    (findFrom p.2 w (candStart w.length f W p.2.length)).map (fun n => ⟨p.1, n, n + p.2.length⟩))

theorem searchString_eq_pick (strings : List (Nat × List α)) (w : List α) (f W : Nat) :
    searchString strings w f W = pick (strCands strings w f W) := by
  unfold searchString pick
  generalize (none : Option Span) = best
  induction strings generalizing best with
  | nil => rfl
  | cons p t ih =>
    simp only [List.foldl_cons, strCands, List.filterMap_cons]
    unfold stepStr
    cases hf : findFrom p.2 w (candStart w.length f W p.2.length) with
    | none => simp only [Option.map_none]; exact ih best
    | some n =>
      simp only [Option.map_some, pickFrom, List.foldl_cons]
      rw [better_eq_keep]
      exact ih _

def reCands (res : List (Nat × ReFn α)) (w : List α) (W : Nat) : List Span :=
  res.filterMap (fun p =>
    (p.2.search w (if W = 0 then 0 else w.length - W)).map (fun se => ⟨p.1, se.1, se.2⟩))

theorem searchRe_eq_pick (res : List (Nat × ReFn α)) (w : List α) (f W : Nat) :
    searchRe res w f W = pick (reCands res w W) := by
  unfold searchRe pick
  generalize (none : Option Span) = best
  induction res generalizing best with
  | nil => rfl
  | cons p t ih =>
    simp only [List.foldl_cons, reCands, List.filterMap_cons]
    unfold stepRe
    cases hf : p.2.search w (if W = 0 then 0 else w.length - W) with
    | none => simp only [Option.map_none]; exact ih best
    | some se =>
      obtain ⟨s, e⟩ := se
      simp only [Option.map_some, pickFrom, List.foldl_cons]
      exact ih _

theorem searchRe_wf (res : List (Nat × ReFn α)) (hres : ∀ p ∈ res, p.2.WF) (w : List α) (f W : Nat)
    (sp : Span) (h : searchRe res w f W = some sp) : sp.start ≤ sp.stop ∧ sp.stop ≤ w.length := by
  rw [searchRe_eq_pick] at h
  obtain ⟨pre, post, hc, -, -⟩ := pick_spec _ _ h
  have hm : sp ∈ reCands res w W := by rw [hc]; simp
  simp only [reCands, List.mem_filterMap] at hm
  obtain ⟨p, hp, hq⟩ := hm
  cases hs : p.2.search w (if W = 0 then 0 else w.length - W) with
  | none => simp [hs] at hq
  | some se =>
    obtain ⟨s, e⟩ := se
    simp only [hs, Option.map_some, Option.some.injEq] at hq
    subst hq
    have := hres p hp _ _ _ _ hs
    exact ⟨this.2.1, this.2.2⟩

theorem reSr_wf (res : List (Nat × ReFn α)) (hres : ∀ p ∈ res, p.2.WF) : (reSr res).WF := by
  intro w f W sp h; exact searchRe_wf res hres w f W sp h

/-! ### the specifications the property talks about -/

/-- **searchString_spec** (C02, exact search of a whole window): the reported span is an occurrence of
    the string listed at `idx`, no listed string occurs at a smaller position of the searched text, and
    any string listed earlier does not occur at the same position. -/
theorem searchString_spec (strings : List (Nat × List α)) (w : List α) (sp : Span)
    (h : searchString strings w w.length 0 = some sp) :
    ∃ pre p post, strings = pre ++ p :: post ∧ p.1 = sp.idx ∧
      occAt p.2 w sp.start ∧ sp.stop = sp.start + p.2.length ∧
      (∀ q ∈ strings, ∀ j, j < sp.start → ¬ occAt q.2 w j) ∧
      (∀ q ∈ pre, ¬ occAt q.2 w sp.start) := by
  have hz : ∀ n, candStart w.length w.length 0 n = 0 := by intro n; simp [candStart]
  rw [searchString_eq_pick] at h
  obtain ⟨cpre, cpost, hc, hpre, hpost⟩ := pick_spec _ _ h
  -- every candidate is the leftmost occurrence of its string
  have cand_of : ∀ c ∈ strCands strings w w.length 0, ∃ q ∈ strings, q.1 = c.idx ∧
      find q.2 w = some c.start ∧ c.stop = c.start + q.2.length := by
    intro c hcm
    simp only [strCands, List.mem_filterMap, hz, findFrom_zero] at hcm
    obtain ⟨q, hq, hqc⟩ := hcm
    cases hf : find q.2 w with
    | none => simp [hf] at hqc
    | some n =>
      simp only [hf, Option.map_some, Option.some.injEq] at hqc
      subst hqc
      exact ⟨q, hq, rfl, hf, rfl⟩
  -- a string whose leftmost occurrence is at `n` contributes a candidate starting at `n`
  have has_cand : ∀ q ∈ strings, ∀ n, find q.2 w = some n →
      (⟨q.1, n, n + q.2.length⟩ : Span) ∈ strCands strings w w.length 0 := by
    intro q hq n hf
    simp only [strCands, List.mem_filterMap, hz, findFrom_zero]
    exact ⟨q, hq, by simp [hf]⟩
  have all_ge : ∀ c ∈ strCands strings w w.length 0, sp.start ≤ c.start := by
    intro c hcm
    rw [hc] at hcm
    simp only [List.mem_append, List.mem_cons] at hcm
    rcases hcm with hcm | rfl | hcm
    · exact Nat.le_of_lt (hpre c hcm)
    · exact Nat.le_refl _
    · exact hpost c hcm
  -- locate the pattern in `strings` that produced `sp`, with the split of `strings`
  have split : ∀ (l : List (Nat × List α)) (cp : List Span) (cq : List Span),
      l.filterMap (fun p => (findFrom p.2 w (candStart w.length w.length 0 p.2.length)).map
        (fun n => (⟨p.1, n, n + p.2.length⟩ : Span))) = cp ++ sp :: cq →
      ∃ pre p post, l = pre ++ p :: post ∧ p.1 = sp.idx ∧ find p.2 w = some sp.start ∧
        sp.stop = sp.start + p.2.length ∧
        (∀ q ∈ pre, ∀ n, find q.2 w = some n → (⟨q.1, n, n + q.2.length⟩ : Span) ∈ cp) := by
    intro l
    induction l with
    | nil => intro cp cq h; simp at h
    | cons q t ih =>
      intro cp cq h
      simp only [List.filterMap_cons, hz, findFrom_zero] at h
      cases hf : find q.2 w with
      | none =>
        simp only [hf, Option.map_none] at h
        simp only [hz, findFrom_zero] at ih
        obtain ⟨pre, p, post, rfl, h1, h2, h3, h4⟩ := ih cp cq h
        refine ⟨q :: pre, p, post, rfl, h1, h2, h3, ?_⟩
        intro x hx n hn
        simp only [List.mem_cons] at hx
        rcases hx with rfl | hx
        · rw [hf] at hn; cases hn
        · exact h4 x hx n hn
      | some n =>
        simp only [hf, Option.map_some] at h
        cases cp with
        | nil =>
          simp only [List.nil_append, List.cons.injEq] at h
          obtain ⟨hsp, -⟩ := h
          subst hsp
          exact ⟨[], q, t, rfl, rfl, hf, rfl, by simp⟩
        | cons c0 cp' =>
          simp only [List.cons_append, List.cons.injEq] at h
          obtain ⟨hc0, h⟩ := h
          simp only [hz, findFrom_zero] at ih
          obtain ⟨pre, p, post, rfl, h1, h2, h3, h4⟩ := ih cp' cq h
          refine ⟨q :: pre, p, post, rfl, h1, h2, h3, ?_⟩
          intro x hx m hm
          simp only [List.mem_cons] at hx
          rcases hx with rfl | hx
          · rw [hf] at hm; cases hm; simp [← hc0]
          · exact List.mem_cons_of_mem _ (h4 x hx m hm)
  obtain ⟨pre, p, post, hs, hidx, hfind, hstop, hprecands⟩ := split strings cpre cpost hc
  obtain ⟨hocc, hmin⟩ := find_some hfind
  refine ⟨pre, p, post, hs, hidx, hocc, hstop, ?_, ?_⟩
  · intro q hq j hj hoccj
    -- `q` occurs at `j < sp.start`, so its leftmost occurrence `n ≤ j` is a candidate with start < sp.start
    cases hfq : find q.2 w with
    | none => exact find_none hfq j hoccj
    | some n =>
      obtain ⟨_, hminq⟩ := find_some hfq
      have hn : n ≤ j := by
        by_cases hle : n ≤ j
        · exact hle
        · exact absurd hoccj (hminq j (by omega))
      have := all_ge _ (has_cand q hq n hfq)
      simp only at this
      omega
  · intro q hq hoccq
    cases hfq : find q.2 w with
    | none => exact find_none hfq _ hoccq
    | some n =>
      obtain ⟨_, hminq⟩ := find_some hfq
      have hmem := hprecands q hq n hfq
      have hlt := hpre _ hmem
      simp only at hlt
      exact hminq _ hlt hoccq

/-- what it means for an abstract regex to report leftmost matches of a relation `M w s e`
    ("the pattern matches `w[s:e]` at `s`") -/
def ReFn.Leftmost (r : ReFn α) (M : List α → Nat → Nat → Prop) : Prop :=
  (∀ w pos s e, r.search w pos = some (s, e) → M w s e ∧ ∀ s' e', pos ≤ s' → s' < s → ¬ M w s' e') ∧
  (∀ w pos, r.search w pos = none → ∀ s' e', pos ≤ s' → ¬ M w s' e')

/-- **searchRe_spec** (C02, regex search of a whole window): the reported span is a match of the
    pattern listed at `idx`; no listed pattern matches at a smaller position of the searched text; any
    pattern listed earlier does not match at that position. -/
theorem searchRe_spec (res : List (Nat × ReFn α)) (M : Nat → List α → Nat → Nat → Prop)
    (hM : ∀ p ∈ res, p.2.Leftmost (M p.1)) (w : List α) (f : Nat) (sp : Span)
    (h : searchRe res w f 0 = some sp) :
    ∃ pre p post, res = pre ++ p :: post ∧ p.1 = sp.idx ∧ M p.1 w sp.start sp.stop ∧
      (∀ q ∈ res, ∀ s' e', s' < sp.start → ¬ M q.1 w s' e') ∧
      (∀ q ∈ pre, ∀ e', ¬ M q.1 w sp.start e') := by
  rw [searchRe_eq_pick] at h
  obtain ⟨cpre, cpost, hc, hpre, hpost⟩ := pick_spec _ _ h
  have all_ge : ∀ c ∈ reCands res w 0, sp.start ≤ c.start := by
    intro c hcm
    rw [hc] at hcm
    simp only [List.mem_append, List.mem_cons] at hcm
    rcases hcm with hcm | rfl | hcm
    · exact Nat.le_of_lt (hpre c hcm)
    · exact Nat.le_refl _
    · exact hpost c hcm
  have split : ∀ (l : List (Nat × ReFn α)) (cp cq : List Span),
      l.filterMap (fun p => (p.2.search w 0).map (fun se => (⟨p.1, se.1, se.2⟩ : Span))) = cp ++ sp :: cq →
      ∃ pre p post, l = pre ++ p :: post ∧ p.1 = sp.idx ∧ p.2.search w 0 = some (sp.start, sp.stop) ∧
        (∀ q ∈ pre, ∀ s e, q.2.search w 0 = some (s, e) → (⟨q.1, s, e⟩ : Span) ∈ cp) := by
    intro l
    induction l with
    | nil => intro cp cq h; simp at h
    | cons q t ih =>
      intro cp cq h
      simp only [List.filterMap_cons] at h
      cases hf : q.2.search w 0 with
      | none =>
        simp only [hf, Option.map_none] at h
        obtain ⟨pre, p, post, rfl, h1, h2, h4⟩ := ih cp cq h
        refine ⟨q :: pre, p, post, rfl, h1, h2, ?_⟩
        intro x hx s e hn
        simp only [List.mem_cons] at hx
        rcases hx with rfl | hx
        · rw [hf] at hn; cases hn
        · exact h4 x hx s e hn
      | some se =>
        obtain ⟨s0, e0⟩ := se
        simp only [hf, Option.map_some] at h
        cases cp with
        | nil =>
          simp only [List.nil_append, List.cons.injEq] at h
          obtain ⟨hsp, -⟩ := h
          subst hsp
          exact ⟨[], q, t, rfl, rfl, hf, by simp⟩
        | cons c0 cp' =>
          simp only [List.cons_append, List.cons.injEq] at h
          obtain ⟨hc0, h⟩ := h
          obtain ⟨pre, p, post, rfl, h1, h2, h4⟩ := ih cp' cq h
          refine ⟨q :: pre, p, post, rfl, h1, h2, ?_⟩
          intro x hx s e hm
          simp only [List.mem_cons] at hx
          rcases hx with rfl | hx
          · rw [hf] at hm; cases hm; simp [← hc0]
          · exact List.mem_cons_of_mem _ (h4 x hx s e hm)
  have hc' : res.filterMap (fun p => (p.2.search w 0).map (fun se => (⟨p.1, se.1, se.2⟩ : Span)))
      = cpre ++ sp :: cpost := by
    simpa [reCands] using hc
  obtain ⟨pre, p, post, hs, hidx, hsearch, hprecands⟩ := split res cpre cpost hc'
  have hp : p ∈ res := by rw [hs]; simp
  obtain ⟨hMp, _⟩ := (hM p hp).1 w 0 _ _ hsearch
  refine ⟨pre, p, post, hs, hidx, hMp, ?_, ?_⟩
  · intro q hq s' e' hlt hMq
    cases hfq : q.2.search w 0 with
    | none => exact (hM q hq).2 w 0 hfq s' e' (Nat.zero_le _) hMq
    | some se =>
      obtain ⟨s, e⟩ := se
      have hcm : (⟨q.1, s, e⟩ : Span) ∈ reCands res w 0 := by
        simp only [reCands, List.mem_filterMap]
        exact ⟨q, hq, by simp [hfq]⟩
      have hge := all_ge _ hcm
      simp only at hge
      exact ((hM q hq).1 w 0 s e hfq).2 s' e' (Nat.zero_le _) (by omega) hMq
  · intro q hq e' hMq
    have hqr : q ∈ res := by rw [hs]; simp [hq]
    cases hfq : q.2.search w 0 with
    | none => exact (hM q hqr).2 w 0 hfq _ e' (Nat.zero_le _) hMq
    | some se =>
      obtain ⟨s, e⟩ := se
      have hlt := hpre _ (hprecands q hq s e hfq)
      simp only at hlt
      exact ((hM q hqr).1 w 0 s e hfq).2 _ e' (Nat.zero_le _) hlt hMq

end Ex
