import PexpectModel.ExHistory
/-! Pattern lists with EOF / TIMEOUT markers (`searcher_re.__init__`, `searcher_string.__init__`) and what
    `Expecter.eof()` / `Expecter.timeout()` turn an end of stream / expiry into (C04). -/
namespace Ex
open Py
variable {α : Type} [DecidableEq α]

inductive Pat (α : Type) where
  | eof | timeout | str (s : List α) | re (r : ReFn α)

def Pat.isEof : Pat α → Bool | .eof => true | _ => false
def Pat.isTimeout : Pat α → Bool | .timeout => true | _ => false

/-- `enumerate(patterns)` filtered to the text patterns: indices are positions in the *given* list -/
def stringsFrom (n : Nat) : List (Pat α) → List (Nat × List α)
  | [] => []
  | .str s :: t => (n, s) :: stringsFrom (n + 1) t
  | _ :: t => stringsFrom (n + 1) t

def resFrom (n : Nat) : List (Pat α) → List (Nat × ReFn α)
  | [] => []
  | .re r :: t => (n, r) :: resFrom (n + 1) t
  | _ :: t => resFrom (n + 1) t

/-- `self.eof_index = n` inside the loop: the last listed marker wins -/
def markFrom (isM : Pat α → Bool) (n : Nat) (acc : Option Nat) : List (Pat α) → Option Nat
  | [] => acc
  | p :: t => markFrom isM (n + 1) (if isM p then some n else acc) t

def eofIndex (pats : List (Pat α)) : Option Nat := markFrom Pat.isEof 0 none pats
def timeoutIndex (pats : List (Pat α)) : Option Nat := markFrom Pat.isTimeout 0 none pats

theorem stringsFrom_mem (pats : List (Pat α)) (n i : Nat) (s : List α) (h : (i, s) ∈ stringsFrom n pats) :
    n ≤ i ∧ ∃ hlt : i - n < pats.length, pats[i - n] = .str s := by
  induction pats generalizing n with
  | nil => simp [stringsFrom] at h
  | cons p t ih =>
    cases p with
    | str s' =>
      simp only [stringsFrom, List.mem_cons, Prod.mk.injEq] at h
      rcases h with ⟨rfl, rfl⟩ | h
      · exact ⟨Nat.le_refl _, by simp⟩
      · obtain ⟨h1, h2, h3⟩ := ih (n + 1) h
        have e : i - n = (i - (n + 1)) + 1 := by omega
        refine ⟨by omega, by simp; omega, ?_⟩
        simp only [e, List.getElem_cons_succ]; exact h3
    | eof | timeout | re _ =>
      simp only [stringsFrom] at h
      obtain ⟨h1, h2, h3⟩ := ih (n + 1) h
      have e : i - n = (i - (n + 1)) + 1 := by omega
      refine ⟨by omega, by simp; omega, ?_⟩
      simp only [e, List.getElem_cons_succ]; exact h3

theorem resFrom_mem (pats : List (Pat α)) (n i : Nat) (r : ReFn α) (h : (i, r) ∈ resFrom n pats) :
    n ≤ i ∧ ∃ hlt : i - n < pats.length, pats[i - n] = .re r := by
  induction pats generalizing n with
  | nil => simp [resFrom] at h
  | cons p t ih =>
    cases p with
    | re r' =>
      simp only [resFrom, List.mem_cons, Prod.mk.injEq] at h
      rcases h with ⟨rfl, rfl⟩ | h
      · exact ⟨Nat.le_refl _, by simp⟩
      · obtain ⟨h1, h2, h3⟩ := ih (n + 1) h
        have e : i - n = (i - (n + 1)) + 1 := by omega
        refine ⟨by omega, by simp; omega, ?_⟩
        simp only [e, List.getElem_cons_succ]; exact h3
    | eof | timeout | str _ =>
      simp only [resFrom] at h
      obtain ⟨h1, h2, h3⟩ := ih (n + 1) h
      have e : i - n = (i - (n + 1)) + 1 := by omega
      refine ⟨by omega, by simp; omega, ?_⟩
      simp only [e, List.getElem_cons_succ]; exact h3

theorem markFrom_spec (isM : Pat α → Bool) (pats : List (Pat α)) (n : Nat) (acc : Option Nat) :
    (markFrom isM n acc pats = acc ∧ ∀ p ∈ pats, isM p = false) ∨
    (∃ i, markFrom isM n acc pats = some i ∧ n ≤ i ∧ ∃ hlt : i - n < pats.length, isM pats[i - n] = true) := by
  induction pats generalizing n acc with
  | nil => exact Or.inl ⟨rfl, by simp⟩
  | cons p t ih =>
    simp only [markFrom]
    by_cases hp : isM p = true
    · rw [if_pos hp]
      rcases ih (n + 1) (some n) with ⟨h1, h2⟩ | ⟨i, h1, h2, h3, h4⟩
      · exact Or.inr ⟨n, h1, Nat.le_refl _, by simp, by simpa using hp⟩
      · have e : i - n = (i - (n + 1)) + 1 := by omega
        refine Or.inr ⟨i, h1, by omega, by simp; omega, ?_⟩
        simp only [e, List.getElem_cons_succ]; exact h4
    · rw [if_neg hp]
      rcases ih (n + 1) acc with ⟨h1, h2⟩ | ⟨i, h1, h2, h3, h4⟩
      · refine Or.inl ⟨h1, ?_⟩
        intro q hq
        simp only [List.mem_cons] at hq
        rcases hq with rfl | hq
        · simpa using hp
        · exact h2 q hq
      · have e : i - n = (i - (n + 1)) + 1 := by omega
        refine Or.inr ⟨i, h1, by omega, by simp; omega, ?_⟩
        simp only [e, List.getElem_cons_succ]; exact h4

/-- the marker index refers to a marker of that kind in the given list, and is absent iff none is listed -/
theorem eofIndex_spec (pats : List (Pat α)) :
    (eofIndex pats = none ∧ ∀ p ∈ pats, p.isEof = false) ∨
    (∃ i, eofIndex pats = some i ∧ ∃ hlt : i < pats.length, pats[i].isEof = true) := by
  rcases markFrom_spec Pat.isEof pats 0 none with h | ⟨i, h1, _, h3, h4⟩
  · exact Or.inl h
  · exact Or.inr ⟨i, h1, by simpa using h3, by simpa using h4⟩

theorem timeoutIndex_spec (pats : List (Pat α)) :
    (timeoutIndex pats = none ∧ ∀ p ∈ pats, p.isTimeout = false) ∨
    (∃ i, timeoutIndex pats = some i ∧ ∃ hlt : i < pats.length, pats[i].isTimeout = true) := by
  rcases markFrom_spec Pat.isTimeout pats 0 none with h | ⟨i, h1, _, h3, h4⟩
  · exact Or.inl h
  · exact Or.inr ⟨i, h1, by simpa using h3, by simpa using h4⟩

/-- the `after` attribute -/
inductive AfterV (α : Type) where
  | text (t : List α) | eofCls | timeoutCls
deriving DecidableEq

/-- what the caller of an expect-family method observes -/
inductive Final (α : Type) where
  | idx (i : Nat) (before : List α) (after : AfterV α)
  | raisedEOF (before : List α)
  | raisedTIMEOUT (before : List α)
deriving DecidableEq

/-- `Expecter.eof()` / `Expecter.timeout()` / a hit -/
def finish (pats : List (Pat α)) : Out α → Final α
  | .hit i b a => .idx i b (.text a)
  | .eof b => match eofIndex pats with
      | some i => .idx i b .eofCls
      | none => .raisedEOF b
  | .timeout b => match timeoutIndex pats with
      | some i => .idx i b .timeoutCls
      | none => .raisedTIMEOUT b

/-- `spawn.expect_list(pats, …)` -/
def expectList (pats : List (Pat α)) (W : Nat) (st : St α) (evs : List (Ev α)) : Final α × St α × List (Ev α) :=
  let (o, st', r) := call (reSr (resFrom 0 pats)) W st evs
  (finish pats o, st', r)

/-- `spawn.expect_exact(pats, …)` -/
def expectExact (pats : List (Pat α)) (W : Nat) (st : St α) (evs : List (Ev α)) : Final α × St α × List (Ev α) :=
  let (o, st', r) := call (exactOf (stringsFrom 0 pats)) W st evs
  (finish pats o, st', r)

theorem eof_outcome (pats : List (Pat α)) (b : List α) :
    (∀ i, eofIndex pats = some i → finish pats (.eof b) = .idx i b .eofCls) ∧
    (eofIndex pats = none → finish pats (.eof b) = .raisedEOF b) := by
  constructor
  · intro i h; simp [finish, h]
  · intro h; simp [finish, h]

theorem timeout_outcome (pats : List (Pat α)) (b : List α) :
    (∀ i, timeoutIndex pats = some i → finish pats (.timeout b) = .idx i b .timeoutCls) ∧
    (timeoutIndex pats = none → finish pats (.timeout b) = .raisedTIMEOUT b) := by
  constructor
  · intro i h; simp [finish, h]
  · intro h; simp [finish, h]

/-- an occurrence already present in the searchable pending text wins, whatever the transport or the
    clock would do next — end of stream, expiry (timeout 0 included), anything -/
theorem pending_match_beats_eof_timeout (k : Kind α) (W : Nat) (st : St α) (hI : Inv st) (evs : List (Ev α))
    (i : Nat) (b a rest : List α) (h : nsearch k.sr W st.B = some (i, b, a, rest)) :
    (call k.sr W st evs).1 = .hit i b a ∧ (call k.sr W st evs).2.1.B = rest ∧ (call k.sr W st evs).2.2 = evs := by
  obtain ⟨h1, h2, h3⟩ := callKind_eq_ncall k W evs st hI
  rw [h1, h2, h3]
  simp [ncall, h]

/-- no occurrence pending and the stream ends / the time is up before anything is read -/
theorem no_match_then_eof_or_timeout (k : Kind α) (W : Nat) (st : St α) (hI : Inv st) (r : List (Ev α))
    (h : nsearch k.sr W st.B = none) :
    (call k.sr W st (.eofExc :: r)).1 = .eof st.B ∧ (call k.sr W st (.eofExc :: r)).2.1.B = [] ∧
    (call k.sr W st (.expired :: r)).1 = .timeout st.B ∧ (call k.sr W st (.expired :: r)).2.1.B = st.B ∧
    (call k.sr W st (.timeoutExc :: r)).1 = .timeout st.B ∧ (call k.sr W st (.timeoutExc :: r)).2.1.B = st.B := by
  obtain ⟨a1, a2, _⟩ := callKind_eq_ncall k W (.eofExc :: r) st hI
  obtain ⟨b1, b2, _⟩ := callKind_eq_ncall k W (.expired :: r) st hI
  obtain ⟨c1, c2, _⟩ := callKind_eq_ncall k W (.timeoutExc :: r) st hI
  rw [a1, a2, b1, b2, c1, c2]
  simp [ncall, h, nloop]

/-- after an EOF outcome both buffers are empty -/
theorem loop_eof_clears (sr : Searcher α) (W : Nat) (evs : List (Ev α)) (st : St α) (b : List α)
    (h : (loop sr W st evs).1 = .eof b) : (loop sr W st evs).2.1 = { B := [], S := [] } := by
  induction evs generalizing st with
  | nil => simp [loop] at h
  | cons e r ih =>
    cases e with
    | eofExc => simp [loop]
    | timeoutExc => simp [loop] at h
    | expired => simp [loop] at h
    | data d =>
      simp only [loop] at h ⊢
      rcases hnd : newData sr W st d with ⟨st2, r2⟩
      rw [hnd] at h
      cases r2 with
      | hit i b' a => simp at h
      | miss => exact ih st2 h

theorem eof_clears (sr : Searcher α) (W : Nat) (st : St α) (evs : List (Ev α)) (b : List α)
    (h : (call sr W st evs).1 = .eof b) : (call sr W st evs).2.1 = { B := [], S := [] } := by
  unfold call at h ⊢
  rcases hed : existingData sr W st with ⟨st', r'⟩
  rw [hed] at h
  cases r' with
  | hit i b' a => simp at h
  | miss => exact loop_eof_clears sr W evs st' b h

end Ex
