import PexpectModel.ScreenCells
/-! The straightforward reference grid: every grid-changing operation defined cell by cell
    (`build rows cols (fun i j => …)`), and the theorem that the loop/slice model equals it. -/
namespace Scr

def build (r c : Nat) (f : Nat → Nat → Nat) : Grid :=
  (List.range r).map (fun i => (List.range c).map (fun j => f i j))

theorem build_shape (r c : Nat) (f : Nat → Nat → Nat) : Shape (build r c f) r c := by
  constructor
  · simp [build]
  · intro row hrow
    simp only [build, List.mem_map, List.mem_range] at hrow
    obtain ⟨i, _, rfl⟩ := hrow
    simp

theorem getCell_build (r c : Nat) (f : Nat → Nat → Nat) (i j : Nat) (hi : i < r) (hj : j < c) :
    getCell (build r c f) i j = f i j := by
  simp [getCell, build, hi, hj]

/-- two grids of the same shape with the same cells are the same grid -/
theorem grid_ext (w1 w2 : Grid) (r c : Nat) (h1 : Shape w1 r c) (h2 : Shape w2 r c)
    (h : ∀ i j, i < r → j < c → getCell w1 i j = getCell w2 i j) : w1 = w2 := by
  apply List.ext_getElem
  · rw [h1.1, h2.1]
  · intro i hi1 hi2
    have hir : i < r := by rw [← h1.1]; exact hi1
    have l1 : w1[i].length = c := h1.2 _ (List.getElem_mem hi1)
    have l2 : w2[i].length = c := h2.2 _ (List.getElem_mem hi2)
    apply List.ext_getElem
    · rw [l1, l2]
    · intro j hj1 hj2
      have hjc : j < c := by rw [← l1]; exact hj1
      have := h i j hir hjc
      simpa [getCell, hi1, hi2, hj1, hj2] using this

theorem eq_build {R C : Nat} (w : Grid) (h : Shape w R C) (f : Nat → Nat → Nat)
    (hf : ∀ i j, i < R → j < C → getCell w i j = f i j) : w = build R C f :=
  grid_ext w _ R C h (build_shape R C f) (fun i j hi hj => by rw [hf i j hi hj, getCell_build R C f i j hi hj])

/-! ### the non-grid fields are untouched by the grid operations -/

def SameFields (s s' : Screen) : Prop :=
  s'.rows = s.rows ∧ s'.cols = s.cols ∧ s'.curR = s.curR ∧ s'.curC = s.curC ∧ s'.savR = s.savR ∧ s'.savC = s.savC ∧
  s'.scrS = s.scrS ∧ s'.scrE = s.scrE

theorem SameFields.refl (s : Screen) : SameFields s s := ⟨rfl, rfl, rfl, rfl, rfl, rfl, rfl, rfl⟩
theorem SameFields.trans {a b c : Screen} (h1 : SameFields a b) (h2 : SameFields b c) : SameFields a c := by
  obtain ⟨a1, a2, a3, a4, a5, a6, a7, a8⟩ := h1
  obtain ⟨b1, b2, b3, b4, b5, b6, b7, b8⟩ := h2
  exact ⟨b1.trans a1, b2.trans a2, b3.trans a3, b4.trans a4, b5.trans a5, b6.trans a6, b7.trans a7, b8.trans a8⟩

theorem putAbs_same (s : Screen) (r c : Int) (ch : Nat) : SameFields s (putAbs s r c ch) := SameFields.refl s

theorem foldl_same {β : Type} (f : Screen → β → Screen) (hf : ∀ s x, SameFields s (f s x)) (l : List β) (s : Screen) :
    SameFields s (l.foldl f s) := by
  induction l generalizing s with
  | nil => exact SameFields.refl s
  | cons x t ih => exact (hf s x).trans (ih _)

theorem fillRegion_same (s : Screen) (rs cs re ce : Int) (ch : Nat) : SameFields s (fillRegion s rs cs re ce ch) := by
  unfold fillRegion
  exact foldl_same _ (fun s r => foldl_same _ (fun s c => putAbs_same s r c ch) _ s) _ s

theorem insertAbs_same (s : Screen) (r c : Int) (ch : Nat) : SameFields s (insertAbs s r c ch) := by
  unfold insertAbs
  exact (foldl_same _ (fun s ci => putAbs_same s _ _ _) _ s).trans (putAbs_same _ _ _ _)

theorem screen_ext (s s' : Screen) (h : SameFields s s') (hw : s'.w = s.w) : s' = s := by
  obtain ⟨a1, a2, a3, a4, a5, a6, a7, a8⟩ := h
  cases s; cases s'; simp_all

/-! ### reference operations -/

def refPutAbs (s : Screen) (r c : Int) (ch : Nat) : Screen :=
  { s with w := build s.rows s.cols (fun i j =>
      if (i : Int) = constrain r 1 s.rows - 1 ∧ (j : Int) = constrain c 1 s.cols - 1 then ch else getCell s.w i j) }

def refFillRegion (s : Screen) (rs cs re ce : Int) (ch : Nat) : Screen :=
  { s with w := build s.rows s.cols (fun i j =>
      let k := corners s rs cs re ce
      if (k.1 ≤ (i : Int) + 1 ∧ (i : Int) + 1 ≤ k.2.2.1) ∧ (k.2.1 ≤ (j : Int) + 1 ∧ (j : Int) + 1 ≤ k.2.2.2)
      then ch else getCell s.w i j) }

def refInsertAbs (s : Screen) (r c : Int) (ch : Nat) : Screen :=
  { s with w := build s.rows s.cols (fun i j =>
      let r' := constrain r 1 s.rows
      let c' := constrain c 1 s.cols
      if (i : Int) = r' - 1 then
        (if (j : Int) = c' - 1 then ch
         else if c' ≤ (j : Int) ∧ (j : Int) + 1 ≤ s.cols then getCell s.w i (j - 1) else getCell s.w i j)
      else getCell s.w i j) }

def refScrollUp (s : Screen) : Screen :=
  { s with w := build s.rows s.cols (fun i j =>
      if s.scrS ≤ (i : Int) + 1 ∧ (i : Int) + 1 < s.scrE then getCell s.w (i + 1) j else getCell s.w i j) }

def refScrollDown (s : Screen) : Screen :=
  { s with w := build s.rows s.cols (fun i j =>
      if s.scrS < (i : Int) + 1 ∧ (i : Int) + 1 ≤ s.scrE then getCell s.w (i - 1) j else getCell s.w i j) }

theorem putAbs_eq_ref {R C : Nat} (s : Screen) (h : Inv R C s) (r c : Int) (ch : Nat) : putAbs s r c ch = refPutAbs s r c ch := by
  have hr := @constrain_range r 1 R (by have := h.rpos; omega)
  have hc := @constrain_range c 1 C (by have := h.cpos; omega)
  have hw : (putAbs s r c ch).w = (refPutAbs s r c ch).w := by
    simp only [refPutAbs, h.rows_eq, h.cols_eq]
    apply eq_build _ (putAbs_inv s r c ch h).shape
    intro i j _ _
    rw [putAbs_clamps s h, putAbs_cells s h _ _ ch hr hc]
  exact screen_ext _ _ (SameFields.refl _) hw

theorem fillRegion_eq_ref {R C : Nat} (s : Screen) (h : Inv R C s) (rs cs re ce : Int) (ch : Nat) :
    fillRegion s rs cs re ce ch = refFillRegion s rs cs re ce ch := by
  have hw : (fillRegion s rs cs re ce ch).w = (refFillRegion s rs cs re ce ch).w := by
    simp only [refFillRegion, h.rows_eq, h.cols_eq]
    apply eq_build _ (fillRegion_inv s rs cs re ce ch h).shape
    intro i j _ _
    exact fillRegion_cells s h rs cs re ce ch i j
  exact screen_ext _ _ (fillRegion_same s rs cs re ce ch) hw

theorem insertAbs_eq_ref {R C : Nat} (s : Screen) (h : Inv R C s) (r c : Int) (ch : Nat) :
    insertAbs s r c ch = refInsertAbs s r c ch := by
  have hw : (insertAbs s r c ch).w = (refInsertAbs s r c ch).w := by
    simp only [refInsertAbs, h.rows_eq, h.cols_eq]
    apply eq_build _ (insertAbs_inv s r c ch h).shape
    intro i j _ _
    exact insertAbs_cells s h r c ch i j
  exact screen_ext _ _ (insertAbs_same s r c ch) hw

theorem scrollUp_eq_ref {R C : Nat} (s : Screen) (h : Inv R C s) : scrollUp s = refScrollUp s := by
  have hw : (scrollUp s).w = (refScrollUp s).w := by
    simp only [refScrollUp, h.rows_eq, h.cols_eq]
    apply eq_build _ (scrollUp_inv s h).shape
    intro i j _ _
    exact scrollUp_cells s h i j
  exact screen_ext _ _ (SameFields.refl _) hw

theorem scrollDown_eq_ref {R C : Nat} (s : Screen) (h : Inv R C s) : scrollDown s = refScrollDown s := by
  have hw : (scrollDown s).w = (refScrollDown s).w := by
    simp only [refScrollDown, h.rows_eq, h.cols_eq]
    apply eq_build _ (scrollDown_inv s h).shape
    intro i j _ _
    exact scrollDown_cells s h i j
  exact screen_ext _ _ (SameFields.refl _) hw

/-- the reference semantics of every operation: grid changes are the cell-wise definitions above,
    composite operations are compositions of them, cursor operations are plain arithmetic -/
def refApply : SOp → Screen → Screen
  | .putAbs r c ch, s => refPutAbs s r c ch
  | .put ch, s => refPutAbs s s.curR s.curC ch
  | .insertAbs r c ch, s => refInsertAbs s r c ch
  | .insert ch, s => refInsertAbs s s.curR s.curC ch
  | .fill ch, s => refFillRegion s 1 1 s.rows s.cols ch
  | .fillRegion rs cs re ce ch, s => refFillRegion s rs cs re ce ch
  | .scrollUp, s => refScrollUp s
  | .scrollDown, s => refScrollDown s
  | .cursorUpReverse, s =>
      let s1 := cursorUp s 1
      if s.curR = s1.curR then refScrollUp s1 else s1
  | .eraseEndOfLine, s => refFillRegion s s.curR s.curC s.curR s.cols SPACE
  | .eraseStartOfLine, s => refFillRegion s s.curR 1 s.curR s.curC SPACE
  | .eraseLine, s => refFillRegion s s.curR 1 s.curR s.cols SPACE
  | .eraseDown, s =>
      let s1 := refFillRegion s s.curR s.curC s.curR s.cols SPACE
      if s1.curR < s1.rows then refFillRegion s1 (s1.curR + 1) 1 s1.rows s1.cols SPACE else s1
  | .eraseUp, s =>
      let s1 := refFillRegion s s.curR 1 s.curR s.curC SPACE
      if s1.curR > 1 then refFillRegion s1 (s1.curR - 1) 1 1 s1.cols SPACE else s1
  | .eraseScreen, s => refFillRegion s 1 1 s.rows s.cols SPACE
  | .lf, s =>
      let s1 := cursorDown s 1
      if s.curR = s1.curR then (let s2 := refScrollUp s1; refFillRegion s2 s2.curR 1 s2.curR s2.cols SPACE) else s1
  | .crlf, s =>
      let s0 := cr s
      let s1 := cursorDown s0 1
      if s0.curR = s1.curR then (let s2 := refScrollUp s1; refFillRegion s2 s2.curR 1 s2.curR s2.cols SPACE) else s1
  | op, s => apply op s      -- cursor / region bookkeeping: already plain arithmetic

/-- **apply_eq_ref**: every operation of the model equals its reference-grid definition -/
theorem apply_eq_ref {R C : Nat} (op : SOp) (s : Screen) (h : Inv R C s) : apply op s = refApply op s := by
  cases op with
  | putAbs r c ch => exact putAbs_eq_ref s h r c ch
  | put ch => exact putAbs_eq_ref s h _ _ ch
  | insertAbs r c ch => exact insertAbs_eq_ref s h r c ch
  | insert ch => exact insertAbs_eq_ref s h _ _ ch
  | fill ch => exact fillRegion_eq_ref s h _ _ _ _ ch
  | fillRegion rs cs re ce ch => exact fillRegion_eq_ref s h rs cs re ce ch
  | scrollUp => exact scrollUp_eq_ref s h
  | scrollDown => exact scrollDown_eq_ref s h
  | cursorUpReverse =>
    simp only [apply, refApply, cursorUpReverse]
    split
    · exact scrollUp_eq_ref _ (cursorUp_inv s 1 h)
    · rfl
  | eraseEndOfLine => exact fillRegion_eq_ref s h _ _ _ _ _
  | eraseStartOfLine => exact fillRegion_eq_ref s h _ _ _ _ _
  | eraseLine => exact fillRegion_eq_ref s h _ _ _ _ _
  | eraseDown =>
    have e1 : eraseEndOfLine s = refFillRegion s s.curR s.curC s.curR s.cols SPACE := fillRegion_eq_ref s h _ _ _ _ _
    have hi : Inv R C (refFillRegion s s.curR s.curC s.curR s.cols SPACE) := e1 ▸ eraseEndOfLine_inv s h
    show eraseDown s = _
    unfold eraseDown
    simp only [e1, refApply]
    split
    · exact fillRegion_eq_ref _ hi _ _ _ _ _
    · rfl
  | eraseUp =>
    have e1 : eraseStartOfLine s = refFillRegion s s.curR 1 s.curR s.curC SPACE := fillRegion_eq_ref s h _ _ _ _ _
    have hi : Inv R C (refFillRegion s s.curR 1 s.curR s.curC SPACE) := e1 ▸ eraseStartOfLine_inv s h
    show eraseUp s = _
    unfold eraseUp
    simp only [e1, refApply]
    split
    · exact fillRegion_eq_ref _ hi _ _ _ _ _
    · rfl
  | eraseScreen => exact fillRegion_eq_ref s h _ _ _ _ _
  | lf =>
    have h1 := cursorDown_inv s 1 h
    have e1 : scrollUp (cursorDown s 1) = refScrollUp (cursorDown s 1) := scrollUp_eq_ref _ h1
    have hi : Inv R C (refScrollUp (cursorDown s 1)) := e1 ▸ scrollUp_inv _ h1
    show lf s = _
    unfold lf eraseLine
    simp only [e1, refApply]
    split
    · exact fillRegion_eq_ref _ hi _ _ _ _ _
    · rfl
  | crlf =>
    have h0 := cr_inv s h
    have h1 := cursorDown_inv (cr s) 1 h0
    have e1 : scrollUp (cursorDown (cr s) 1) = refScrollUp (cursorDown (cr s) 1) := scrollUp_eq_ref _ h1
    have hi : Inv R C (refScrollUp (cursorDown (cr s) 1)) := e1 ▸ scrollUp_inv _ h1
    show crlf s = _
    unfold crlf lf eraseLine
    simp only [e1, refApply]
    split
    · exact fillRegion_eq_ref _ hi _ _ _ _ _
    · rfl
  | cursorHome r c => rfl
  | cursorBack n => rfl
  | cursorDown n => rfl
  | cursorForward n => rfl
  | cursorUp n => rfl
  | cursorSave => rfl
  | cursorRestore => rfl
  | scrollScreen => rfl
  | scrollScreenRows rs re => rfl
  | cr => rfl

/-- **ops_refine_reference**: any sequence of operations on any reachable screen yields the same screen
    as the reference grid -/
theorem ops_refine_reference {R C : Nat} (ops : List SOp) (s : Screen) (h : Inv R C s) :
    ops.foldl (fun s op => apply op s) s = ops.foldl (fun s op => refApply op s) s := by
  induction ops generalizing s with
  | nil => rfl
  | cons op t ih =>
    simp only [List.foldl_cons]
    rw [← apply_eq_ref op s h]
    exact ih _ (apply_inv op s h)

end Scr
