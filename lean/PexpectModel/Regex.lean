/-! scratch: backtracking regex engine (model of a subset of CPython `re`) -/
namespace Rx

inductive Re where
  | chr (c : Nat) | any | cls (neg : Bool) (ranges : List (Nat × Nat))
  | seq (a b : Re) | alt (a b : Re) | star (a : Re) | plus (a : Re) | opt (a : Re)
  | bol | eol | eos | empty | look (a : Re)
deriving Repr

structure Flags where
  icase : Bool := false
  dotall : Bool := false
  multiline : Bool := false

def lower (c : Nat) : Nat := if 65 ≤ c ∧ c ≤ 90 then c + 32 else c
def eqc (fl : Flags) (a b : Nat) : Bool := if fl.icase then lower a == lower b else a == b
def inCls (fl : Flags) (rs : List (Nat × Nat)) (c : Nat) : Bool :=
  rs.any (fun (lo, hi) => (lo ≤ c && c ≤ hi) || (fl.icase && ((lo ≤ lower c && lower c ≤ hi) || (lo ≤ c - 32 && c - 32 ≤ hi && 97 ≤ c && c ≤ 122))))

/-- `m fuel r i k`: match `r` at `i`, then continue with `k`; returns the end of the overall match -/
def m (fl : Flags) (t : Array Nat) : Nat → Re → Nat → (Nat → Option Nat) → Option Nat
  | 0, _, _, _ => none
  | fuel+1, r, i, k =>
    match r with
    | .chr c => if h : i < t.size then (if eqc fl t[i] c then k (i+1) else none) else none
    | .any => if h : i < t.size then (if fl.dotall || t[i] != 10 then k (i+1) else none) else none
    | .cls neg rs => if h : i < t.size then (if inCls fl rs t[i] != neg then k (i+1) else none) else none
    | .seq a b => m fl t fuel a i (fun j => m fl t fuel b j k)
    | .alt a b => match m fl t fuel a i k with
                  | some e => some e
                  | none => m fl t fuel b i k
    | .star a => match m fl t fuel a i (fun j => if j > i then m fl t fuel (.star a) j k else none) with
                 | some e => some e
                 | none => k i
    | .plus a => m fl t fuel a i (fun j => m fl t fuel (.star a) j k)
    | .opt a => match m fl t fuel a i k with
                | some e => some e
                | none => k i
    | .bol => if i = 0 || (fl.multiline && t[i-1]! == 10) then k i else none
    | .eol => if i = t.size || (i + 1 = t.size && t[i]! == 10) || (fl.multiline && i < t.size && t[i]! == 10) then k i else none
    | .eos => if i = t.size then k i else none
    | .empty => k i
    | .look a => match m fl t fuel a i (fun j => some j) with
                 | some _ => k i
                 | none => none

def size : Re → Nat
  | .seq a b | .alt a b => size a + size b + 1
  | .star a | .plus a | .opt a | .look a => size a + 1
  | _ => 1

/-- `pattern.search(text, pos)`: leftmost start, then the engine's preferred end -/
def search (fl : Flags) (r : Re) (text : List Nat) (pos : Nat) : Option (Nat × Nat) :=
  let t := text.toArray
  let fuel := (t.size + 2) * (size r + 2) + 8
  let rec go : Nat → Nat → Option (Nat × Nat)
    | 0, _ => none
    | n+1, i => match m fl t fuel r i some with
                | some e => some (i, e)
                | none => if i < t.size then go n (i+1) else none
  go (t.size + 1 - pos) pos

def s (x : String) : List Nat := x.toList.map Char.toNat
#eval search {} (.seq (.plus (.chr 97)) (.chr 98)) (s "xaaab") 0        -- a+b  -> (1,5)
#eval search {} (.seq (.star (.any)) (.chr 98)) (s "ab\nab") 0         -- .*b  -> (0,2)
#eval search {dotall := true} (.seq (.star (.any)) (.chr 98)) (s "ab\nab") 0  -- (0,5)
#eval search {} (.eol) (s "abc") 0                                      -- (3,3)
#eval search {} (.alt (.seq (.chr 97) (.chr 98)) (.chr 97)) (s "zab") 0 -- (1,3)
#eval search {icase := true} (.seq (.plus (.chr 65)) (.chr 98)) (s "xaXb\nab") 0 -- (5,7)
end Rx
