import PexpectModel.Basic
/-! scratch: Expecter core model (of the repaired code) -/
namespace Ex
open Py
variable {α : Type} [DecidableEq α]

structure Span where
  idx : Nat
  start : Nat
  stop : Nat
deriving Repr, DecidableEq

/-- what `searcher.search(window, freshlen, W)` returns; W = 0 encodes None -/
structure Searcher (α : Type) where
  search : List α → Nat → Nat → Option Span
  lookback : Nat

structure St (α : Type) where
  B : List α
  S : List α
deriving Repr

inductive Res (α : Type) where
  | hit (idx : Nat) (before after : List α)
  | miss
deriving Repr

def doSearch (sr : Searcher α) (W : Nat) (st : St α) (window : List α) (freshlen : Nat) : St α × Res α :=
  match sr.search window (min freshlen window.length) W with
  | some sp =>
      let rest := window.drop sp.stop
      ({ B := rest, S := rest },
       .hit sp.idx (st.B.take (st.B.length - (window.length - sp.start))) ((window.take sp.stop).drop sp.start))
  | none =>
      let maintain := if W ≠ 0 then W else sr.lookback
      if maintain ≠ 0 ∧ st.S.length > maintain then ({ st with S := lastN window maintain }, .miss)
      else (st, .miss)

def existingData (sr : Searcher α) (W : Nat) (st : St α) : St α × Res α :=
  let bl := st.B.length
  let sl := st.S.length
  if bl > sl then
    if W = 0 then doSearch sr W { st with S := st.B } st.B bl
    else if sl < W then
      let w := st.B.drop (bl - W)
      doSearch sr W { st with S := w } w bl
    else doSearch sr W st (st.S.drop (sl - W)) bl
  else
    if W ≠ 0 then doSearch sr W st (st.S.drop (sl - W)) bl
    else doSearch sr W st st.S bl

def newData (sr : Searcher α) (W : Nat) (st : St α) (data : List α) : St α × Res α :=
  let st := { st with B := st.B ++ data }
  if W = 0 then
    if sr.lookback ≠ 0 then
      let old := st.S.length
      let S' := st.S ++ data
      doSearch sr W { st with S := S' } (S'.drop (old - sr.lookback)) data.length
    else
      let S' := st.S ++ data
      doSearch sr W { st with S := S' } S' data.length
  else
    if data.length ≥ W ∨ st.S.length = 0 then
      let w := lastN data W
      doSearch sr W { st with S := w } w data.length
    else
      let S' := st.S ++ data
      doSearch sr W { st with S := S' } (S'.drop (S'.length - W)) data.length

/-- well-formed search results: Python's re / str.find guarantee -/
def Searcher.WF (sr : Searcher α) : Prop :=
  ∀ w f W sp, sr.search w f W = some sp → sp.start ≤ sp.stop ∧ sp.stop ≤ w.length

theorem doSearch_hit (sr : Searcher α) (hwf : sr.WF) (W : Nat) (st st' : St α) (window : List α) (f i : Nat)
    (b a : List α) (hw : window <:+ st.B) (h : doSearch sr W st window f = (st', .hit i b a)) :
    b ++ a ++ st'.B = st.B ∧ st'.S = st'.B := by
  unfold doSearch at h
  split at h
  · rename_i sp hs
    obtain ⟨h1, h2⟩ := hwf _ _ _ _ hs
    obtain ⟨pre, hpre⟩ := hw
    simp only [Prod.mk.injEq, Res.hit.injEq] at h
    obtain ⟨rfl, -, rfl, rfl⟩ := h
    refine ⟨?_, rfl⟩
    have hlen : st.B.length = pre.length + window.length := by rw [← hpre]; simp
    have e0 : st.B.length - (window.length - sp.start) = pre.length + sp.start := by omega
    rw [e0, ← hpre]
    rw [List.take_append]
    simp only [List.take_of_length_le (Nat.le_add_right _ _), Nat.add_sub_cancel_left]
    rw [List.drop_take]
    have e1 : window.take sp.start ++ (window.drop sp.start).take (sp.stop - sp.start) = window.take sp.stop := by
      rw [← List.take_add]; congr 1; omega
    simp only [List.append_assoc]
    rw [← List.append_assoc (List.take sp.start window), e1, List.take_append_drop]
  · simp only [] at h
    split at h <;> split at h <;> simp at h

theorem doSearch_miss (sr : Searcher α) (W : Nat) (st st' : St α) (window : List α) (f : Nat)
    (h : doSearch sr W st window f = (st', .miss)) : st'.B = st.B := by
  unfold doSearch at h
  split at h
  · simp at h
  · simp only [] at h
    split at h <;> split at h <;> simp at h <;> (try (obtain ⟨rfl⟩ := h; rfl)) <;> (try (rw [← h]))

end Ex
