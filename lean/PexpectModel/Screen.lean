/-! `pexpect/screen.py` (repaired) as an executable model: the grid is a list of rows of code points,
    loops are folds, slice assignments are take/drop.  Model only — lemmas are in `ScreenLemmas.lean`. -/
namespace Scr

abbrev Grid := List (List Nat)

def SPACE : Nat := 32

def constrain (n lo hi : Int) : Int := if n < lo then lo else if n > hi then hi else n

structure Screen where
  rows : Nat
  cols : Nat
  w : Grid
  curR : Int
  curC : Int
  savR : Int
  savC : Int
  scrS : Int
  scrE : Int
deriving Repr, DecidableEq

/-- `screen(r, c)` -/
def blank (r c : Nat) : Screen :=
  { rows := r, cols := c, w := List.replicate r (List.replicate c SPACE),
    curR := 1, curC := 1, savR := 1, savC := 1, scrS := 1, scrE := r }

/-- `w[i][j] = ch` (0-based) -/
def setCell (w : Grid) (i j : Nat) (ch : Nat) : Grid := w.set i ((w.getD i []).set j ch)

/-- `w[i][j]` (0-based) -/
def getCell (w : Grid) (i j : Nat) : Nat := (w.getD i []).getD j SPACE

/-- 0-based index of a 1-based coordinate after `constrain` -/
def idx (n : Int) (hi : Nat) : Nat := (constrain n 1 hi - 1).toNat

def putAbs (s : Screen) (r c : Int) (ch : Nat) : Screen :=
  { s with w := setCell s.w (idx r s.rows) (idx c s.cols) ch }

def getAbs (s : Screen) (r c : Int) : Nat := getCell s.w (idx r s.rows) (idx c s.cols)

def put (s : Screen) (ch : Nat) : Screen := putAbs s s.curR s.curC ch
def get (s : Screen) : Nat := getAbs s s.curR s.curC

/-- `range(a, b+1)` -/
def rangeI (a b : Int) : List Int := (List.range (b + 1 - a).toNat).map (fun (k : Nat) => a + (k : Int))

/-- the corner normalisation shared by `fill_region` and `get_region` -/
def corners (s : Screen) (rs cs re ce : Int) : Int × Int × Int × Int :=
  let rs := constrain rs 1 s.rows
  let re := constrain re 1 s.rows
  let cs := constrain cs 1 s.cols
  let ce := constrain ce 1 s.cols
  let (rs, re) := if rs > re then (re, rs) else (rs, re)
  let (cs, ce) := if cs > ce then (ce, cs) else (cs, ce)
  (rs, cs, re, ce)

def fillRegion (s : Screen) (rs cs re ce : Int) (ch : Nat) : Screen :=
  let (rs, cs, re, ce) := corners s rs cs re ce
  (rangeI rs re).foldl (fun s r => (rangeI cs ce).foldl (fun s c => putAbs s r c ch) s) s

def fill (s : Screen) (ch : Nat) : Screen := fillRegion s 1 1 s.rows s.cols ch

def getRegion (s : Screen) (rs cs re ce : Int) : List (List Nat) :=
  let (rs, cs, re, ce) := corners s rs cs re ce
  (rangeI rs re).map (fun r => (rangeI cs ce).map (fun c => getAbs s r c))

/-- `range(cols, c, -1)` -/
def downRange (hi lo : Int) : List Int := (List.range (hi - lo).toNat).map (fun (k : Nat) => hi - (k : Int))

def insertAbs (s : Screen) (r c : Int) (ch : Nat) : Screen :=
  let r := constrain r 1 s.rows
  let c := constrain c 1 s.cols
  let s1 := (downRange s.cols c).foldl (fun s ci => putAbs s r ci (getAbs s r (ci - 1))) s
  putAbs s1 r c ch

def insert (s : Screen) (ch : Nat) : Screen := insertAbs s s.curR s.curC ch

def cursorConstrain (s : Screen) : Screen :=
  { s with curR := constrain s.curR 1 s.rows, curC := constrain s.curC 1 s.cols }

def cursorHome (s : Screen) (r c : Int) : Screen := cursorConstrain { s with curR := r, curC := c }
def cursorBack (s : Screen) (n : Int) : Screen := cursorConstrain { s with curC := s.curC - n }
def cursorDown (s : Screen) (n : Int) : Screen := cursorConstrain { s with curR := s.curR + n }
def cursorForward (s : Screen) (n : Int) : Screen := cursorConstrain { s with curC := s.curC + n }
def cursorUp (s : Screen) (n : Int) : Screen := cursorConstrain { s with curR := s.curR - n }

def cursorSave (s : Screen) : Screen := { s with savR := s.curR, savC := s.curC }
def cursorRestore (s : Screen) : Screen := cursorHome s s.savR s.savC

def scrollScreen (s : Screen) : Screen := { s with scrS := 1, scrE := s.rows }
def scrollScreenRows (s : Screen) (rs re : Int) : Screen :=
  { s with scrS := constrain rs 1 s.rows, scrE := constrain re 1 s.rows }

/-- Python's `w[s:e] = w[s+1:e+1]` for 0 ≤ s, e < rows -/
def scrollUpRows (w : Grid) (s e : Nat) : Grid :=
  if s ≤ e then w.take s ++ (w.drop (s + 1)).take (e - s) ++ w.drop e else w

/-- Python's `w[s+1:e+1] = w[s:e]` -/
def scrollDownRows (w : Grid) (s e : Nat) : Grid :=
  if s ≤ e then w.take (s + 1) ++ (w.drop s).take (e - s) ++ w.drop (e + 1) else w

def scrollUp (s : Screen) : Screen := { s with w := scrollUpRows s.w (s.scrS - 1).toNat (s.scrE - 1).toNat }
def scrollDown (s : Screen) : Screen := { s with w := scrollDownRows s.w (s.scrS - 1).toNat (s.scrE - 1).toNat }

def cursorUpReverse (s : Screen) : Screen :=
  let s1 := cursorUp s 1
  if s.curR = s1.curR then scrollUp s1 else s1

def eraseEndOfLine (s : Screen) : Screen := fillRegion s s.curR s.curC s.curR s.cols SPACE
def eraseStartOfLine (s : Screen) : Screen := fillRegion s s.curR 1 s.curR s.curC SPACE
def eraseLine (s : Screen) : Screen := fillRegion s s.curR 1 s.curR s.cols SPACE
def eraseDown (s : Screen) : Screen :=
  let s1 := eraseEndOfLine s
  if s1.curR < s1.rows then fillRegion s1 (s1.curR + 1) 1 s1.rows s1.cols SPACE else s1
def eraseUp (s : Screen) : Screen :=
  let s1 := eraseStartOfLine s
  if s1.curR > 1 then fillRegion s1 (s1.curR - 1) 1 1 s1.cols SPACE else s1
def eraseScreen (s : Screen) : Screen := fill s SPACE

def cr (s : Screen) : Screen := cursorHome s s.curR 1
def lf (s : Screen) : Screen :=
  let s1 := cursorDown s 1
  if s.curR = s1.curR then eraseLine (scrollUp s1) else s1
def crlf (s : Screen) : Screen := lf (cr s)

def dump (s : Screen) : List Nat := s.w.flatten
/-- `str(screen)`: rows joined by newline -/
def toStr (s : Screen) : List Nat := List.intercalate [10] s.w
/-- `pretty()` -/
def pretty (s : Screen) : List Nat :=
  let topBot := [43] ++ List.replicate s.cols 45 ++ [43, 10]
  topBot ++ List.intercalate [10] (s.w.map (fun line => [124] ++ line ++ [124])) ++ [10] ++ topBot

inductive SOp where
  | putAbs (r c : Int) (ch : Nat) | put (ch : Nat) | insertAbs (r c : Int) (ch : Nat) | insert (ch : Nat)
  | fill (ch : Nat) | fillRegion (rs cs re ce : Int) (ch : Nat)
  | cursorHome (r c : Int) | cursorBack (n : Int) | cursorDown (n : Int) | cursorForward (n : Int) | cursorUp (n : Int)
  | cursorUpReverse | cursorSave | cursorRestore
  | scrollScreen | scrollScreenRows (rs re : Int) | scrollUp | scrollDown
  | eraseEndOfLine | eraseStartOfLine | eraseLine | eraseDown | eraseUp | eraseScreen
  | cr | lf | crlf
deriving Repr

def apply : SOp → Screen → Screen
  | .putAbs r c ch, s => putAbs s r c ch
  | .put ch, s => put s ch
  | .insertAbs r c ch, s => insertAbs s r c ch
  | .insert ch, s => insert s ch
  | .fill ch, s => fill s ch
  | .fillRegion rs cs re ce ch, s => fillRegion s rs cs re ce ch
  | .cursorHome r c, s => cursorHome s r c
  | .cursorBack n, s => cursorBack s n
  | .cursorDown n, s => cursorDown s n
  | .cursorForward n, s => cursorForward s n
  | .cursorUp n, s => cursorUp s n
  | .cursorUpReverse, s => cursorUpReverse s
  | .cursorSave, s => cursorSave s
  | .cursorRestore, s => cursorRestore s
  | .scrollScreen, s => scrollScreen s
  | .scrollScreenRows rs re, s => scrollScreenRows s rs re
  | .scrollUp, s => scrollUp s
  | .scrollDown, s => scrollDown s
  | .eraseEndOfLine, s => eraseEndOfLine s
  | .eraseStartOfLine, s => eraseStartOfLine s
  | .eraseLine, s => eraseLine s
  | .eraseDown, s => eraseDown s
  | .eraseUp, s => eraseUp s
  | .eraseScreen, s => eraseScreen s
  | .cr, s => cr s
  | .lf, s => lf s
  | .crlf, s => crlf s

end Scr
