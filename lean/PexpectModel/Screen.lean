/-! scratch: screen.py (repaired) as a list-of-lists model; shape and frame lemmas -/
namespace Scr

def constrain (n lo hi : Int) : Int := if n < lo then lo else if n > hi then hi else n

theorem constrain_range {n lo hi : Int} (h : lo ≤ hi) : lo ≤ constrain n lo hi ∧ constrain n lo hi ≤ hi := by
  unfold constrain; split
  · omega
  · split <;> omega

structure Screen where
  rows : Nat
  cols : Nat
  w : List (List Char)
  curR : Int
  curC : Int
  savR : Int
  savC : Int
  scrS : Int
  scrE : Int

def Shape (s : Screen) : Prop := s.w.length = s.rows ∧ ∀ row ∈ s.w, row.length = s.cols

/-- `w[i][j] = ch` (0-based); out-of-range indices are Python IndexErrors and never happen under `Shape` -/
def setCell (w : List (List Char)) (i j : Nat) (ch : Char) : List (List Char) :=
  w.set i ((w.getD i []).set j ch)

def getCell (w : List (List Char)) (i j : Nat) : Char := (w.getD i []).getD j ' '

theorem setCell_length (w : List (List Char)) (i j : Nat) (ch : Char) : (setCell w i j ch).length = w.length := by
  simp [setCell]

theorem setCell_rows (w : List (List Char)) (i j : Nat) (ch : Char) (n : Nat)
    (h : ∀ row ∈ w, row.length = n) : ∀ row ∈ setCell w i j ch, row.length = n := by
  intro row hrow
  unfold setCell at hrow
  rcases List.mem_or_eq_of_mem_set hrow with h1 | h1
  · exact h row h1
  · subst h1
    simp only [List.length_set]
    by_cases hi : i < w.length
    · have : w.getD i [] = w[i] := by simp [List.getD, hi]
      rw [this]; exact h _ (List.getElem_mem hi)
    · -- then `set` did nothing and `row` cannot be new; but length of getD default [] = 0
      have : (w.set i ((w.getD i []).set j ch)) = w := by
        apply List.set_eq_of_length_le; omega
      rw [this] at hrow
      have := h _ hrow
      simpa using this

theorem getCell_setCell (w : List (List Char)) (i j i' j' : Nat) (ch : Char)
    (hi : i < w.length) (hj : j < (w.getD i []).length) :
    getCell (setCell w i j ch) i' j' = if i' = i ∧ j' = j then ch else getCell w i' j' := by
  unfold getCell setCell
  by_cases h1 : i' = i
  · subst h1
    simp only [List.getD_eq_getElem?_getD, List.getElem?_set_self hi, Option.getD_some, true_and]
    by_cases h2 : j' = j
    · subst h2
      simp [List.getElem?_set_self (by simpa [List.getD_eq_getElem?_getD] using hj)]
    · simp [h2, List.getElem?_set_ne (Ne.symm h2)]
  · simp [h1, List.getElem?_set_ne (Ne.symm h1)]

def putAbs (s : Screen) (r c : Int) (ch : Char) : Screen :=
  let r' := constrain r 1 s.rows
  let c' := constrain c 1 s.cols
  { s with w := setCell s.w (r' - 1).toNat (c' - 1).toNat ch }

theorem putAbs_shape (s : Screen) (r c : Int) (ch : Char) (h : Shape s) : Shape (putAbs s r c ch) := by
  obtain ⟨h1, h2⟩ := h
  exact ⟨by simp [putAbs, setCell_length, h1], setCell_rows _ _ _ _ _ h2⟩

/-- Python's `w[s:e] = w[s+1:e+1]` for 0 ≤ s, e < rows -/
def scrollUpRows (w : List (List Char)) (s e : Nat) : List (List Char) :=
  if s ≤ e then w.take s ++ (w.drop (s + 1)).take (e - s) ++ w.drop e else w

/-- Python's `w[s+1:e+1] = w[s:e]` -/
def scrollDownRows (w : List (List Char)) (s e : Nat) : List (List Char) :=
  if s ≤ e then w.take (s + 1) ++ (w.drop s).take (e - s) ++ w.drop (e + 1) else w

def scrollUp (s : Screen) : Screen := { s with w := scrollUpRows s.w (s.scrS - 1).toNat (s.scrE - 1).toNat }
def scrollDown (s : Screen) : Screen := { s with w := scrollDownRows s.w (s.scrS - 1).toNat (s.scrE - 1).toNat }

/-- the repaired `scroll_constrain` keeps both ends on the screen -/
def RegionOK (s : Screen) : Prop := 1 ≤ s.scrS ∧ s.scrS ≤ s.rows ∧ 1 ≤ s.scrE ∧ s.scrE ≤ s.rows

def scrollScreenRows (s : Screen) (rs re : Int) : Screen :=
  { s with scrS := constrain rs 1 s.rows, scrE := constrain re 1 s.rows }

theorem scrollScreenRows_ok (s : Screen) (rs re : Int) (hr : 1 ≤ s.rows) : RegionOK (scrollScreenRows s rs re) := by
  have h1 := @constrain_range rs 1 s.rows (by omega)
  have h2 := @constrain_range re 1 s.rows (by omega)
  exact ⟨h1.1, h1.2, h2.1, h2.2⟩

theorem scrollUp_shape (s : Screen) (h : Shape s) (hr : RegionOK s) : Shape (scrollUp s) := by
  obtain ⟨h1, h2⟩ := h
  obtain ⟨a, b, c, d⟩ := hr
  unfold scrollUp scrollUpRows
  constructor
  · simp only
    split
    · simp only [List.length_append, List.length_take, List.length_drop, h1]; omega
    · exact h1
  · intro row hrow
    simp only at hrow
    split at hrow
    · simp only [List.mem_append] at hrow
      rcases hrow with (hm | hm) | hm
      · exact h2 row (List.mem_of_mem_take hm)
      · exact h2 row (List.mem_of_mem_drop (List.mem_of_mem_take hm))
      · exact h2 row (List.mem_of_mem_drop hm)
    · exact h2 row hrow

theorem scrollDown_shape (s : Screen) (h : Shape s) (hr : RegionOK s) : Shape (scrollDown s) := by
  obtain ⟨h1, h2⟩ := h
  obtain ⟨a, b, c, d⟩ := hr
  unfold scrollDown scrollDownRows
  constructor
  · simp only
    split
    · simp only [List.length_append, List.length_take, List.length_drop, h1]; omega
    · exact h1
  · intro row hrow
    simp only at hrow
    split at hrow
    · simp only [List.mem_append] at hrow
      rcases hrow with (hm | hm) | hm
      · exact h2 row (List.mem_of_mem_take hm)
      · exact h2 row (List.mem_of_mem_drop (List.mem_of_mem_take hm))
      · exact h2 row (List.mem_of_mem_drop hm)
    · exact h2 row hrow

/-- the defect, as a kernel-checked witness: with the unrepaired region `end = 0`, `w[0:-1] = w[1:0]`
    deletes rows; modelled with Python's negative-index slice -/
def scrollUpRowsPre (w : List (List Char)) (s : Nat) (e : Int) : List (List Char) :=
  let e' : Nat := if e < 0 then (w.length : Int) + e |>.toNat else e.toNat       -- slice end normalisation
  let e1 : Nat := if e + 1 < 0 then ((w.length : Int) + e + 1).toNat else (e + 1).toNat
  w.take s ++ (w.drop (s + 1)).take (e1 - (s + 1)) ++ w.drop (max s e')

example : (scrollUpRowsPre [['a'], ['b'], ['c'], ['d']] 0 (-1)).length = 1 := by decide

end Scr
