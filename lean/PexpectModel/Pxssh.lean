import PexpectModel.Generated.PxsshTable
/-! # pxssh: login(), sync_original_prompt(), set_unique_prompt() as interpreters of the table that
T-pxssh regenerates from pexpect/pxssh.py on every run.

The server is the environment: it decides what every `expect` call answers (`Ans`) and what every
`try_read_prompt` collects.  Every theorem quantifies over all environments, i.e. over all server
dialogues, and over all option sets. -/
namespace Px

/-- result of one `self.expect(...)` call, chosen by the environment (the server dialogue) -/
inductive Ans | idx (n : Nat) | raisedEOF | raisedTIMEOUT deriving DecidableEq, Repr
inductive Res | ok | pxsshError | eofError | timeoutError deriving DecidableEq, Repr
inductive Fail | eof | timeout deriving DecidableEq, Repr
def Fail.res : Fail → Res | .eof => .eofError | .timeout => .timeoutError

/-- everything the session sends; a first-phase send remembers the index the expect just before it returned
    and which expect call that was (0 = the one over `initArr`) -/
inductive Sent
  | first (w : What) (afterIdx : Nat) (callNo : Nat)
  | enter | unsetPromptCommand | setPrompt (s : Shell)
deriving DecidableEq, Repr

structure Opts where
  syncOriginalPrompt : Bool
  autoPromptReset : Bool
deriving DecidableEq, Repr

/-- the server as login() sees it -/
structure Env where
  first : Ans                          -- answer of the expect over session_init_regex_array
  answers : List Ans                   -- answers of the later expect(session_regex_array) calls
  reads : List (Option (List Nat))     -- what each try_read_prompt collects (none: EOF raised inside)
  resetAnswers : List Ans              -- answers of expect([TIMEOUT, PROMPT]) in set_unique_prompt

structure Out where
  res : Res
  sent : List Sent
  closed : Bool
  expects : Nat        -- expect calls made
  reads : Nat          -- try_read_prompt calls made
deriving DecidableEq, Repr

/-- first phase: walk the `if i==K: sendline(X); i = expect(arr)` chain; returns the final index -/
def firstPhase : List (Nat × What) → Nat → Nat → List Ans → List Sent → (Except Fail Nat) × List Sent × List Ans × Nat
  | [], i, n, ans, sent => (.ok i, sent, ans, n)
  | (k, wh) :: rest, i, n, ans, sent =>
    if i = k then
      let sent := sent ++ [.first wh i n]
      match ans with
      | [] => (.error .timeout, sent, [], n + 1)       -- environment exhausted: treated like a raised TIMEOUT
      | .idx j :: ans' => firstPhase rest j (n + 1) ans' sent
      | .raisedEOF :: ans' => (.error .eof, sent, ans', n + 1)
      | .raisedTIMEOUT :: ans' => (.error .timeout, sent, ans', n + 1)
    else firstPhase rest i n ans sent

def verdict (t : Table) (i : Nat) : Verdict :=
  match t.second.find? (fun p => p.1 == i) with
  | some p => p.2
  | none => t.secondElse

/-- pxssh.levenshtein_distance: the rolling-row algorithm of the source -/
def levRow (ai : Nat) (b : List Nat) (prev : List Nat) (i : Nat) : List Nat :=
  -- current[0] = i; current[j] = min(previous[j]+1, current[j-1]+1, previous[j-1] + (a[j-1] != b[i-1]))
  let rec go : List Nat → List Nat → Nat → Nat → List Nat
    | [], _, _, _ => []
    | aj :: as, pj :: ps, pjm1, cjm1 =>
        let cj := min (min (pj + 1) (cjm1 + 1)) (pjm1 + (if aj = ai then 0 else 1))
        cj :: go as ps pj cj
    | _ :: _, [], _, _ => []
  i :: go b (prev.drop 1) (prev.headD 0) i

def lev (a b : List Nat) : Nat :=
  let (a, b) := if a.length > b.length then (b, a) else (a, b)
  let init := List.range (a.length + 1)
  let rec rows : List Nat → List Nat → Nat → List Nat
    | [], cur, _ => cur
    | bi :: bs, cur, i => rows bs (levRow bi a cur i) (i + 1)
  ((rows b init 1).getLast?).getD 0

/-- the final test of sync_original_prompt on the last two responses -/
def similar (a b : List Nat) : Bool := a.length != 0 && decide (5 * lev a b < 2 * a.length)

/-- sync_original_prompt: four Enters, four reads; the first two responses are discarded -/
def syncPrompt (reads : List (Option (List Nat))) (sent : List Sent) : (Except Fail Bool) × List Sent × Nat :=
  match reads with
  | some _ :: some _ :: some a :: some b :: _ => (.ok (similar a b), sent ++ [.enter, .enter, .enter, .enter], 4)
  | some _ :: some _ :: some _ :: _ => (.error .eof, sent ++ [.enter, .enter, .enter, .enter], 4)
  | some _ :: some _ :: _ => (.error .eof, sent ++ [.enter, .enter, .enter], 3)
  | some _ :: _ => (.error .eof, sent ++ [.enter, .enter], 2)
  | _ => (.error .eof, sent ++ [.enter], 1)

/-- set_unique_prompt: `expect([TIMEOUT, PROMPT])` answers 0 for TIMEOUT, 1 for the prompt -/
def ladder : List Shell → List Ans → List Sent → Nat → (Except Fail Bool) × List Sent × Nat
  | [], _, sent, n => (.ok false, sent, n)
  | s :: rest, ans, sent, n =>
    let sent := sent ++ [.setPrompt s]
    match ans with
    | [] => (.error .timeout, sent, n + 1)
    | .idx 0 :: ans' => ladder rest ans' sent (n + 1)
    | .idx _ :: _ => (.ok true, sent, n + 1)
    | .raisedEOF :: _ => (.error .eof, sent, n + 1)
    | .raisedTIMEOUT :: _ => (.error .timeout, sent, n + 1)

def setUniquePrompt (t : Table) (ans : List Ans) (sent : List Sent) : (Except Fail Bool) × List Sent × Nat :=
  ladder t.ladder ans (sent ++ [.unsetPromptCommand]) 0

/-- the guarded checks before `return True`, in table order -/
def postChecks (t : Table) (o : Opts) (e : Env) : List Post → List Sent → Nat → Nat → Out
  | [], sent, ne, nr => ⟨.ok, sent, false, ne, nr⟩
  | .sync :: rest, sent, ne, nr =>
    if o.syncOriginalPrompt then
      match syncPrompt e.reads sent with
      | (.error f, sent, k) => ⟨f.res, sent, false, ne, nr + k⟩
      | (.ok false, sent, k) => ⟨.pxsshError, sent, true, ne, nr + k⟩
      | (.ok true, sent, k) => postChecks t o e rest sent ne (nr + k)
    else postChecks t o e rest sent ne nr
  | .reset :: rest, sent, ne, nr =>
    if o.autoPromptReset then
      match setUniquePrompt t e.resetAnswers sent with
      | (.error f, sent, k) => ⟨f.res, sent, false, ne + k, nr⟩
      | (.ok false, sent, k) => ⟨.pxsshError, sent, true, ne + k, nr⟩
      | (.ok true, sent, k) => postChecks t o e rest sent (ne + k) nr
    else postChecks t o e rest sent ne nr

def login (t : Table) (o : Opts) (e : Env) : Out :=
  match e.first with
  | .raisedEOF => ⟨.eofError, [], false, 1, 0⟩
  | .raisedTIMEOUT => ⟨.timeoutError, [], false, 1, 0⟩
  | .idx i0 =>
    match firstPhase t.first i0 0 e.answers [] with
    | (.error f, sent, _, n) => ⟨f.res, sent, false, n + 1, 0⟩
    | (.ok i, sent, _, n) =>
      if i = t.failIdx then ⟨.pxsshError, sent, t.failCloses, n + 1, 0⟩
      else match verdict t i with
        | .closeRaise => ⟨.pxsshError, sent, true, n + 1, 0⟩
        | .raiseOnly => ⟨.pxsshError, sent, false, n + 1, 0⟩
        | .pass => postChecks t o e t.post sent (n + 1) 0

/-! ## theorems, generic in the table -/

def Sent.isFirst : Sent → Option (Nat × What)
  | .first w i _ => some (i, w)
  | _ => none

/-- every send of the first phase answers exactly the index its table entry names, and the sends are a
    sub-sequence of the table in order (so each item is sent at most as often as the table lists it) -/
theorem firstPhase_sent (tbl : List (Nat × What)) (i n : Nat) (ans : List Ans) (sent0 : List Sent) :
    ∃ extra, (firstPhase tbl i n ans sent0).2.1 = sent0 ++ extra ∧
      (extra.filterMap Sent.isFirst).Sublist tbl ∧ extra.filterMap Sent.isFirst = extra.map (fun s => s.isFirst.getD (0, .yes)) ∧
      (∀ s ∈ extra, ∃ w i c, s = .first w i c) := by
  induction tbl generalizing i n ans sent0 with
  | nil => exact ⟨[], by simp [firstPhase], by simp, by simp, by simp⟩
  | cons kw rest ih =>
    obtain ⟨k, wh⟩ := kw
    unfold firstPhase
    by_cases hik : i = k
    · subst hik
      simp only [if_true]
      cases ans with
      | nil => exact ⟨[.first wh i n], by simp, by simp [Sent.isFirst], by simp [Sent.isFirst], by simp⟩
      | cons a ans' =>
        cases a with
        | idx j =>
          obtain ⟨extra, h1, h2, h3, h4⟩ := ih j (n + 1) ans' (sent0 ++ [.first wh i n])
          refine ⟨.first wh i n :: extra, by simp [h1], ?_, ?_, ?_⟩
          · simp only [List.filterMap_cons, Sent.isFirst]; exact List.Sublist.cons_cons _ h2
          · simp only [List.filterMap_cons, Sent.isFirst, List.map_cons, Option.getD_some, h3]
          · intro s hs
            rcases List.mem_cons.mp hs with rfl | hs
            · exact ⟨_, _, _, rfl⟩
            · exact h4 s hs
        | raisedEOF => exact ⟨[.first wh i n], by simp, by simp [Sent.isFirst], by simp [Sent.isFirst], by simp⟩
        | raisedTIMEOUT => exact ⟨[.first wh i n], by simp, by simp [Sent.isFirst], by simp [Sent.isFirst], by simp⟩
    · simp only [hik, if_false]
      obtain ⟨extra, h1, h2, h3, h4⟩ := ih i n ans sent0
      exact ⟨extra, h1, List.Sublist.cons _ h2, h3, h4⟩

end Px

namespace Px

theorem syncPrompt_sent (reads : List (Option (List Nat))) (sent : List Sent) :
    ∃ extra, (syncPrompt reads sent).2.1 = sent ++ extra ∧ (∀ s ∈ extra, s = .enter) ∧ (syncPrompt reads sent).2.2 ≤ 4 ∧
      (syncPrompt reads sent).1 = (syncPrompt reads []).1 := by
  unfold syncPrompt
  split <;> exact ⟨_, rfl, by simp, by simp, rfl⟩

theorem ladder_sent (l : List Shell) (ans : List Ans) (sent : List Sent) (n : Nat) :
    ∃ extra, (ladder l ans sent n).2.1 = sent ++ extra ∧ (∀ s ∈ extra, ∃ shl, s = .setPrompt shl) ∧
      (ladder l ans sent n).2.2 ≤ n + l.length ∧ (ladder l ans sent n).1 = (ladder l ans [] 0).1 := by
  induction l generalizing ans sent n with
  | nil => exact ⟨[], by simp [ladder], by simp, by simp [ladder], rfl⟩
  | cons s rest ih =>
    unfold ladder
    cases ans with
    | nil => exact ⟨[.setPrompt s], rfl, by simp, by simp, rfl⟩
    | cons a ans' =>
      cases a with
      | idx j =>
        cases j with
        | zero =>
          obtain ⟨extra, h1, h2, h3, h4⟩ := ih ans' (sent ++ [.setPrompt s]) (n + 1)
          obtain ⟨_, _, _, _, h4'⟩ := ih ans' ([] ++ [.setPrompt s]) (0 + 1)
          refine ⟨.setPrompt s :: extra, by simp [h1], ?_, by simp only [List.length_cons]; omega, by simp only []; rw [h4, h4']⟩
          intro x hx
          rcases List.mem_cons.mp hx with rfl | hx
          · exact ⟨s, rfl⟩
          · exact h2 x hx
        | succ j => exact ⟨[.setPrompt s], rfl, by simp, by simp, rfl⟩
      | raisedEOF => exact ⟨[.setPrompt s], rfl, by simp, by simp, rfl⟩
      | raisedTIMEOUT => exact ⟨[.setPrompt s], rfl, by simp, by simp, rfl⟩

/-- what the two checks answer, independently of what was sent before -/
def syncOk (reads : List (Option (List Nat))) : Bool := match (syncPrompt reads []).1 with | .ok true => true | _ => false
def resetOk (t : Table) (ans : List Ans) : Bool := match (ladder t.ladder ans [] 0).1 with | .ok true => true | _ => false

theorem syncOk_iff (reads : List (Option (List Nat))) :
    syncOk reads = true ↔ ∃ x y a b rest, reads = some x :: some y :: some a :: some b :: rest ∧ a ≠ [] ∧ 5 * lev a b < 2 * a.length := by
  unfold syncOk syncPrompt
  constructor
  · intro h
    split at h
    · rename_i heq
      split at heq
      · rename_i x y a b rest
        simp only [Except.ok.injEq] at heq
        refine ⟨_, _, a, b, rest, rfl, ?_⟩
        simp only [similar, Bool.and_eq_true, bne_iff_ne, ne_eq, decide_eq_true_eq, List.length_eq_zero_iff] at heq
        exact heq
      all_goals simp at heq
    · simp at h
  · rintro ⟨x, y, a, b, rest, rfl, ha, hl⟩
    have hne : (a.length != 0) = true := by simp [ha]
    simp [similar, hne, hl]

theorem ladder_ok_true (l : List Shell) (ans : List Ans) :
    (ladder l ans [] 0).1 = .ok true ↔
      ∃ k j, k < l.length ∧ ans[k]? = some (.idx (j + 1)) ∧ ∀ m, m < k → ans[m]? = some (.idx 0) := by
  suffices H : ∀ (sent : List Sent) (n : Nat), (ladder l ans sent n).1 = .ok true ↔
      ∃ k j, k < l.length ∧ ans[k]? = some (.idx (j + 1)) ∧ ∀ m, m < k → ans[m]? = some (.idx 0) from H [] 0
  induction l generalizing ans with
  | nil => intro sent n; simp [ladder]
  | cons s rest ih =>
    intro sent n
    unfold ladder
    cases ans with
    | nil => simp
    | cons a ans' =>
      cases a with
      | idx j =>
        cases j with
        | zero =>
          simp only []
          rw [ih ans' _ _]
          constructor
          · rintro ⟨k, j, hk, hj, hm⟩
            refine ⟨k + 1, j, by simp; omega, by simpa using hj, ?_⟩
            intro m hmk
            cases m with
            | zero => rfl
            | succ m => simpa using hm m (by omega)
          · rintro ⟨k, j, hk, hj, hm⟩
            cases k with
            | zero => simp at hj
            | succ k =>
              refine ⟨k, j, by simp at hk; omega, by simpa using hj, ?_⟩
              intro m hmk
              simpa using hm (m + 1) (by omega)
        | succ j =>
          simp only [true_iff]
          exact ⟨0, j, by simp, rfl, by intro m hm; omega⟩
      | raisedEOF =>
        simp only [reduceCtorEq, false_iff, not_exists, not_and]
        intro k j hk hj hm
        cases k with
        | zero => simp at hj
        | succ k => have := hm 0 (by omega); simp at this
      | raisedTIMEOUT =>
        simp only [reduceCtorEq, false_iff, not_exists, not_and]
        intro k j hk hj hm
        cases k with
        | zero => simp at hj
        | succ k => have := hm 0 (by omega); simp at this

theorem verdict_mem (t : Table) (i : Nat) : (∃ k, (k, verdict t i) ∈ t.second) ∨ verdict t i = t.secondElse := by
  unfold verdict
  split
  · rename_i p hp
    exact Or.inl ⟨p.1, List.mem_of_find?_eq_some hp⟩
  · exact Or.inr rfl

end Px

namespace Px

/-- case analysis of `login` (one hypothesis per return / raise site of the source) -/
theorem login_cases (t : Table) (o : Opts) (e : Env) (P : Out → Prop)
    (h1 : e.first = .raisedEOF → P ⟨.eofError, [], false, 1, 0⟩)
    (h2 : e.first = .raisedTIMEOUT → P ⟨.timeoutError, [], false, 1, 0⟩)
    (h3 : ∀ i0 f sent a n, e.first = .idx i0 → firstPhase t.first i0 0 e.answers [] = (.error f, sent, a, n) →
        P ⟨f.res, sent, false, n + 1, 0⟩)
    (h4 : ∀ i0 i sent a n, e.first = .idx i0 → firstPhase t.first i0 0 e.answers [] = (.ok i, sent, a, n) → i = t.failIdx →
        P ⟨.pxsshError, sent, t.failCloses, n + 1, 0⟩)
    (h5 : ∀ i0 i sent a n, e.first = .idx i0 → firstPhase t.first i0 0 e.answers [] = (.ok i, sent, a, n) → i ≠ t.failIdx →
        verdict t i = .closeRaise → P ⟨.pxsshError, sent, true, n + 1, 0⟩)
    (h6 : ∀ i0 i sent a n, e.first = .idx i0 → firstPhase t.first i0 0 e.answers [] = (.ok i, sent, a, n) → i ≠ t.failIdx →
        verdict t i = .raiseOnly → P ⟨.pxsshError, sent, false, n + 1, 0⟩)
    (h7 : ∀ i0 i sent a n, e.first = .idx i0 → firstPhase t.first i0 0 e.answers [] = (.ok i, sent, a, n) → i ≠ t.failIdx →
        verdict t i = .pass → P (postChecks t o e t.post sent (n + 1) 0)) :
    P (login t o e) := by
  unfold login
  cases hf : e.first with
  | raisedEOF => exact h1 hf
  | raisedTIMEOUT => exact h2 hf
  | idx i0 =>
    simp only []
    rcases hfp : firstPhase t.first i0 0 e.answers [] with ⟨r, sent, a, n⟩
    cases r with
    | error f => exact h3 i0 f sent a n hf hfp
    | ok i =>
      simp only []
      by_cases hi : i = t.failIdx
      · rw [if_pos hi]; exact h4 i0 i sent a n hf hfp hi
      · rw [if_neg hi]
        cases hv : verdict t i with
        | closeRaise => exact h5 i0 i sent a n hf hfp hi hv
        | raiseOnly => exact h6 i0 i sent a n hf hfp hi hv
        | pass => exact h7 i0 i sent a n hf hfp hi hv

/-- the reset check alone -/
theorem reset_cases (t : Table) (o : Opts) (e : Env) (sent : List Sent) (ne nr : Nat) (P : Out → Prop)
    (h0 : o.autoPromptReset = false → P ⟨.ok, sent, false, ne, nr⟩)
    (h1 : ∀ f s k, o.autoPromptReset = true → setUniquePrompt t e.resetAnswers sent = (.error f, s, k) → P ⟨f.res, s, false, ne + k, nr⟩)
    (h2 : ∀ s k, o.autoPromptReset = true → setUniquePrompt t e.resetAnswers sent = (.ok false, s, k) → P ⟨.pxsshError, s, true, ne + k, nr⟩)
    (h3 : ∀ s k, o.autoPromptReset = true → setUniquePrompt t e.resetAnswers sent = (.ok true, s, k) → P ⟨.ok, s, false, ne + k, nr⟩) :
    P (postChecks t o e [.reset] sent ne nr) := by
  unfold postChecks
  cases ho : o.autoPromptReset with
  | false => simp only [Bool.false_eq_true, if_false, postChecks]; exact h0 ho
  | true =>
    simp only [if_true]
    rcases hs : setUniquePrompt t e.resetAnswers sent with ⟨r, s, k⟩
    cases r with
    | error f => exact h1 f s k ho hs
    | ok b =>
      cases b with
      | false => exact h2 s k ho hs
      | true => simp only [postChecks]; exact h3 s k ho hs

/-- the two checks in the order sync, reset -/
theorem post_cases (t : Table) (o : Opts) (e : Env) (sent : List Sent) (ne nr : Nat) (P : Out → Prop)
    (h1 : ∀ f s k, o.syncOriginalPrompt = true → syncPrompt e.reads sent = (.error f, s, k) → P ⟨f.res, s, false, ne, nr + k⟩)
    (h2 : ∀ s k, o.syncOriginalPrompt = true → syncPrompt e.reads sent = (.ok false, s, k) → P ⟨.pxsshError, s, true, ne, nr + k⟩)
    (h3 : ∀ s k, o.syncOriginalPrompt = true → syncPrompt e.reads sent = (.ok true, s, k) → P (postChecks t o e [.reset] s ne (nr + k)))
    (h4 : o.syncOriginalPrompt = false → P (postChecks t o e [.reset] sent ne nr)) :
    P (postChecks t o e [.sync, .reset] sent ne nr) := by
  unfold postChecks
  cases ho : o.syncOriginalPrompt with
  | false => simp only [Bool.false_eq_true, if_false]; exact h4 ho
  | true =>
    simp only [if_true]
    rcases hs : syncPrompt e.reads sent with ⟨r, s, k⟩
    cases r with
    | error f => exact h1 f s k ho hs
    | ok b =>
      cases b with
      | false => exact h2 s k ho hs
      | true => exact h3 s k ho hs

theorem firstPhase_calls (tbl : List (Nat × What)) (i n : Nat) (ans : List Ans) (s : List Sent) :
    (firstPhase tbl i n ans s).2.2.2 ≤ n + tbl.length := by
  induction tbl generalizing i n ans s with
  | nil => simp [firstPhase]
  | cons kw rest ih =>
    obtain ⟨k, wh⟩ := kw
    unfold firstPhase
    by_cases hik : i = k
    · simp only [hik, if_true]
      cases ans with
      | nil => simp
      | cons a ans' =>
        cases a with
        | idx j => have := ih j (n + 1) ans' (s ++ [.first wh k n]); simp only [List.length_cons]; omega
        | raisedEOF => simp
        | raisedTIMEOUT => simp
    · simp only [hik, if_false]
      have := ih i n ans s
      simp only [List.length_cons]; omega

end Px
