/-! scratch: pxssh.login as the interpreter of a table extracted from its AST (T-pxssh) -/
namespace Px

inductive PatName | hostkey | origPrompt | passwordRe | denied | termType | timeout | connClosed | eof
deriving DecidableEq, Repr
inductive What | yes | password | termType deriving DecidableEq, Repr
inductive Verdict | pass | fail deriving DecidableEq, Repr

structure Table where
  initArr : List PatName
  arr : List PatName
  first : List (Nat × What)
  failIdx : Nat
  second : List (Nat × Verdict)
  secondElse : Verdict

/-- what T-pxssh extracts from the pinned tree -/
def gen : Table :=
  { initArr := [.hostkey, .origPrompt, .passwordRe, .denied, .termType, .timeout, .connClosed, .eof]
    arr := [.hostkey, .origPrompt, .passwordRe, .denied, .termType, .timeout]
    first := [(0, .yes), (2, .password), (4, .termType)]
    failIdx := 7
    second := [(0, .fail), (1, .pass), (2, .fail), (3, .fail), (4, .fail), (5, .pass), (6, .fail)]
    secondElse := .fail }

/-- result of one `self.expect(...)` call, chosen by the environment (the server dialogue) -/
inductive Ans | idx (n : Nat) | raisedEOF | raisedTIMEOUT deriving DecidableEq, Repr
inductive Res | ok | pxsshError | eofError | timeoutError deriving DecidableEq, Repr
inductive Fail | eof | timeout deriving DecidableEq, Repr
def Fail.res : Fail → Res | .eof => .eofError | .timeout => .timeoutError

/-- a send, remembered together with the index the preceding expect returned -/
structure Sent where
  what : What
  afterIdx : Nat
  callNo : Nat          -- which expect call (0 = the first, over initArr)
deriving DecidableEq, Repr

/-- first phase: walk the `if i==K: sendline(X); i = expect(arr)` chain -/
def firstPhase : List (Nat × What) → Nat → Nat → List Ans → List Sent → (Except Fail Nat) × List Sent × List Ans × Nat
  | [], i, n, ans, sent => (.ok i, sent, ans, n)
  | (k, wh) :: rest, i, n, ans, sent =>
    if i = k then
      let sent := sent ++ [⟨wh, i, n⟩]
      match ans with
      | [] => (.error .timeout, sent, [], n)           -- dialogue exhausted: treat as timeout raise
      | .idx j :: ans' => firstPhase rest j (n + 1) ans' sent
      | .raisedEOF :: ans' => (.error .eof, sent, ans', n + 1)
      | .raisedTIMEOUT :: ans' => (.error .timeout, sent, ans', n + 1)
    else firstPhase rest i n ans sent

def verdict (t : Table) (i : Nat) : Verdict :=
  match t.second.find? (fun p => p.1 == i) with
  | some p => p.2
  | none => t.secondElse

structure Opts where
  syncOriginalPrompt : Bool
  autoPromptReset : Bool

/-- `syncOk`, `resetOk` are what sync_original_prompt() / set_unique_prompt() return in this dialogue -/
def login (t : Table) (o : Opts) (first : Nat) (ans : List Ans) (syncOk resetOk : Bool) : Res × List Sent :=
  match firstPhase t.first first 0 ans [] with
  | (.error e, sent, _, _) => (e.res, sent)
  | (.ok i, sent, _, _) =>
    if i = t.failIdx then (.pxsshError, sent)
    else match verdict t i with
      | .fail => (.pxsshError, sent)
      | .pass =>
        if o.syncOriginalPrompt && !syncOk then (.pxsshError, sent)
        else if o.autoPromptReset && !resetOk then (.pxsshError, sent)
        else (.ok, sent)

/-- table facts, decided on the generated data -/
theorem gen_password_once : (gen.first.filter (fun p => p.2 = .password)).length = 1 := by decide
theorem gen_password_idx : ∀ p ∈ gen.first, p.2 = .password → gen.initArr[p.1]? = some .passwordRe ∧ gen.arr[p.1]? = some .passwordRe := by decide
theorem gen_yes_idx : ∀ p ∈ gen.first, p.2 = .yes → gen.initArr[p.1]? = some .hostkey ∧ gen.arr[p.1]? = some .hostkey := by decide
theorem gen_pass_only : ∀ p ∈ gen.second, p.2 = .pass → gen.arr[p.1]? = some .origPrompt ∨ gen.arr[p.1]? = some .timeout := by decide

/-- every send in the first phase answers exactly the index its table entry names, and the sends are a
    sub-sequence of the table in order (so each `What` is sent at most as often as it is listed) -/
theorem firstPhase_sent (tbl : List (Nat × What)) (i n : Nat) (ans : List Ans) (sent0 : List Sent) :
    ∃ extra, (firstPhase tbl i n ans sent0).2.1 = sent0 ++ extra ∧
      (extra.map (fun s => (s.afterIdx, s.what))).Sublist tbl := by
  induction tbl generalizing i n ans sent0 with
  | nil => exact ⟨[], by simp [firstPhase], by simp⟩
  | cons kw rest ih =>
    obtain ⟨k, wh⟩ := kw
    unfold firstPhase
    by_cases hik : i = k
    · subst hik
      simp only [if_true]
      cases ans with
      | nil => exact ⟨[⟨wh, i, n⟩], by simp, by simp⟩
      | cons a ans' =>
        cases a with
        | idx j =>
          obtain ⟨extra, h1, h2⟩ := ih j (n + 1) ans' (sent0 ++ [⟨wh, i, n⟩])
          refine ⟨⟨wh, i, n⟩ :: extra, by simp [h1], ?_⟩
          simp only [List.map_cons]
          exact List.Sublist.cons_cons _ h2
        | raisedEOF => exact ⟨[⟨wh, i, n⟩], by simp, by simp⟩
        | raisedTIMEOUT => exact ⟨[⟨wh, i, n⟩], by simp, by simp⟩
    · simp only [hik, if_false]
      obtain ⟨extra, h1, h2⟩ := ih i n ans sent0
      exact ⟨extra, h1, List.Sublist.cons _ h2⟩

/-- C17: the password is sent at most once, and only right after the password/passphrase pattern matched;
    'yes' only right after the host-key question matched -/
theorem login_sends (o : Opts) (first : Nat) (ans : List Ans) (syncOk resetOk : Bool) :
    let sent := (login gen o first ans syncOk resetOk).2
    (sent.filter (fun s => s.what = .password)).length ≤ 1 ∧
    (∀ s ∈ sent, s.what = .password → s.afterIdx = 2) ∧
    (∀ s ∈ sent, s.what = .yes → s.afterIdx = 0) := by
  intro sent
  obtain ⟨extra, h1, h2⟩ := firstPhase_sent gen.first first 0 ans []
  have hsent : sent = extra := by
    simp only [sent, login]
    rcases hfp : firstPhase gen.first first 0 ans [] with ⟨r, s, a, m⟩
    rw [hfp] at h1
    simp only [List.nil_append] at h1
    cases r with
    | error e => simp [h1]
    | ok i => simp only; split <;> (try split) <;> (try split) <;> (try split) <;> simp [h1]
  rw [hsent]
  have hsub : (extra.map (fun s => (s.afterIdx, s.what))).Sublist [(0, What.yes), (2, .password), (4, .termType)] := h2
  have hmem : ∀ s ∈ extra, (s.afterIdx, s.what) ∈ [(0, What.yes), (2, What.password), (4, What.termType)] :=
    fun s hs => hsub.subset (List.mem_map.mpr ⟨s, hs, rfl⟩)
  refine ⟨?_, ?_, ?_⟩
  · have hl := (hsub.filter (fun p => p.2 = What.password)).length_le
    have : ((extra.map (fun s => (s.afterIdx, s.what))).filter (fun p => p.2 = What.password)).length
        = (extra.filter (fun s => s.what = .password)).length := by
      rw [List.filter_map]; simp [Function.comp_def]
    rw [this] at hl
    exact hl
  · intro s hs hw
    have := hmem s hs
    simp only [List.mem_cons, Prod.mk.injEq, List.mem_nil_iff, or_false] at this
    rcases this with ⟨h, h'⟩ | ⟨h, h'⟩ | ⟨h, h'⟩ <;> simp_all
  · intro s hs hw
    have := hmem s hs
    simp only [List.mem_cons, Prod.mk.injEq, List.mem_nil_iff, or_false] at this
    rcases this with ⟨h, h'⟩ | ⟨h, h'⟩ | ⟨h, h'⟩ <;> simp_all

/-- the full-strength claim "True only if a shell prompt was reached" is FALSE: a silent server (every
    expect times out, index 5) with both checks switched off logs in "successfully" -/
example : (login gen ⟨false, false⟩ 5 [] false false).1 = .ok := by decide

/-- the partial theorem: with at least one check enabled, success implies that check succeeded -/
theorem login_ok_partial (o : Opts) (first : Nat) (ans : List Ans) (syncOk resetOk : Bool)
    (h : (login gen o first ans syncOk resetOk).1 = .ok) :
    (o.syncOriginalPrompt = true → syncOk = true) ∧ (o.autoPromptReset = true → resetOk = true) := by
  unfold login at h
  rcases hfp : firstPhase gen.first first 0 ans [] with ⟨r, s, a, m⟩
  rw [hfp] at h
  cases r with
  | error e => cases e <;> simp [Fail.res] at h
  | ok i =>
    simp only at h
    split at h
    · simp at h
    · split at h
      · simp at h
      · split at h
        · simp at h
        · split at h
          · simp at h
          · rename_i h1 h2
            constructor
            · intro ho; cases syncOk <;> simp_all
            · intro ho; cases resetOk <;> simp_all

end Px
