/-! scratch: incremental decoders: chunk law, and what every read path inherits from it -/
namespace Cd

abbrev Byte := Nat

structure IncDecoder (σ β : Type) where
  init : σ
  feed : σ → List Byte → σ × List β
  /-- the chunk law: assumed of CPython's codecs, proved for the instances below -/
  law : ∀ s a b, feed s (a ++ b) = ((feed (feed s a).1 b).1, (feed s a).2 ++ (feed (feed s a).1 b).2)
  nil : ∀ s, feed s [] = (s, [])

/-- what a transport does: every chunk, once, in order, through the one persistent decoder -/
def deliver {σ β} (dec : IncDecoder σ β) : σ → List (List Byte) → σ × List β
  | s, [] => (s, [])
  | s, c :: cs => let r := dec.feed s c; let r' := deliver dec r.1 cs; (r'.1, r.2 ++ r'.2)

/-- C07: however the stream is split into reads, the text delivered is the decoding of the whole stream -/
theorem deliver_eq_whole {σ β} (dec : IncDecoder σ β) (s : σ) (chunks : List (List Byte)) :
    deliver dec s chunks = dec.feed s chunks.flatten := by
  induction chunks generalizing s with
  | nil => simp [deliver, dec.nil]
  | cons c cs ih =>
    simp only [deliver, List.flatten_cons]
    rw [ih, dec.law]

/-- per-byte automata satisfy the law by construction -/
def ofStep {σ β} (init : σ) (step : σ → Byte → σ × List β) : IncDecoder σ β where
  init := init
  feed := fun s bs => bs.foldl (fun (acc : σ × List β) b => let r := step acc.1 b; (r.1, acc.2 ++ r.2)) (s, [])
  nil := by intro s; rfl
  law := by
    intro s a b
    have gen : ∀ (l : List Byte) (acc : σ × List β),
        l.foldl (fun (acc : σ × List β) b => let r := step acc.1 b; (r.1, acc.2 ++ r.2)) acc =
        ((l.foldl (fun (acc : σ × List β) b => let r := step acc.1 b; (r.1, acc.2 ++ r.2)) (acc.1, [])).1,
          acc.2 ++ (l.foldl (fun (acc : σ × List β) b => let r := step acc.1 b; (r.1, acc.2 ++ r.2)) (acc.1, [])).2) := by
      intro l
      induction l with
      | nil => intro acc; simp
      | cons x t ih =>
        intro acc
        simp only [List.foldl_cons]
        rw [ih, ih ((step acc.1 x).1, [] ++ (step acc.1 x).2)]
        simp [List.append_assoc]
    rw [List.foldl_append, gen b]

/-- Latin-1 / null coder: stateless -/
def latin1 : IncDecoder Unit Nat := ofStep () (fun _ b => ((), [b]))

/-- UTF-8 on well-formed input: state = (continuation bytes still needed, accumulated scalar) -/
def utf8Step (st : Nat × Nat) (b : Byte) : (Nat × Nat) × List Nat :=
  match st with
  | (0, _) =>
    if b < 0x80 then ((0, 0), [b])
    else if 0xC0 ≤ b ∧ b < 0xE0 then ((1, b - 0xC0), [])
    else if 0xE0 ≤ b ∧ b < 0xF0 then ((2, b - 0xE0), [])
    else ((3, b - 0xF0), [])
  | (n+1, acc) =>
    let acc' := acc * 64 + (b - 0x80)
    if n = 0 then ((0, 0), [acc']) else ((n, acc'), [])

def utf8 : IncDecoder (Nat × Nat) Nat := ofStep (0, 0) utf8Step

-- "héllo€" = 68 C3 A9 6C 6C 6F E2 82 AC, cut inside both multi-byte characters
example : (deliver utf8 utf8.init [[0x68, 0xC3], [0xA9, 0x6C, 0x6C, 0x6F, 0xE2, 0x82], [0xAC]]).2
    = [0x68, 0xE9, 0x6C, 0x6C, 0x6F, 0x20AC] := by decide

end Cd
