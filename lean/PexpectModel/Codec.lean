/-! scratch: incremental decoders: chunk law, and what every read path inherits from it -/
namespace Cd

abbrev Byte := Nat

structure IncDecoder (σ β : Type) where
  init : σ
  feed : σ → List Byte → σ × List β
  /-- the chunk law: assumed of CPython's codecs, proved for the instances below -/
  law : ∀ s a b, feed s (a ++ b) = ((feed (feed s a).1 b).1, (feed s a).2 ++ (feed (feed s a).1 b).2)
  nil : ∀ s, feed s [] = (s, [])

/-- what a transport does: every chunk, once, in order, through the one persistent decoder -/
def deliver {σ β} (dec : IncDecoder σ β) : σ → List (List Byte) → σ × List β
  | s, [] => (s, [])
  | s, c :: cs => let r := dec.feed s c; let r' := deliver dec r.1 cs; (r'.1, r.2 ++ r'.2)

/-- C07: however the stream is split into reads, the text delivered is the decoding of the whole stream -/
theorem deliver_eq_whole {σ β} (dec : IncDecoder σ β) (s : σ) (chunks : List (List Byte)) :
    deliver dec s chunks = dec.feed s chunks.flatten := by
  induction chunks generalizing s with
  | nil => simp [deliver, dec.nil]
  | cons c cs ih =>
    simp only [deliver, List.flatten_cons]
    rw [ih, dec.law]

/-- per-byte automata satisfy the law by construction -/
def ofStep {σ β} (init : σ) (step : σ → Byte → σ × List β) : IncDecoder σ β where
  init := init
  feed := fun s bs => bs.foldl (fun (acc : σ × List β) b => let r := step acc.1 b; (r.1, acc.2 ++ r.2)) (s, [])
  nil := by intro s; rfl
  law := by
    intro s a b
    have gen : ∀ (l : List Byte) (acc : σ × List β),
        l.foldl (fun (acc : σ × List β) b => let r := step acc.1 b; (r.1, acc.2 ++ r.2)) acc =
        ((l.foldl (fun (acc : σ × List β) b => let r := step acc.1 b; (r.1, acc.2 ++ r.2)) (acc.1, [])).1,
          acc.2 ++ (l.foldl (fun (acc : σ × List β) b => let r := step acc.1 b; (r.1, acc.2 ++ r.2)) (acc.1, [])).2) := by
      intro l
      induction l with
      | nil => intro acc; simp
      | cons x t ih =>
        intro acc
        simp only [List.foldl_cons]
        rw [ih, ih ((step acc.1 x).1, [] ++ (step acc.1 x).2)]
        simp [List.append_assoc]
    rw [List.foldl_append, gen b]

/-- Latin-1 / null coder: stateless -/
def latin1 : IncDecoder Unit Nat := ofStep () (fun _ b => ((), [b]))

/-- UTF-8 on well-formed input: state = (continuation bytes still needed, accumulated scalar) -/
def utf8Step (st : Nat × Nat) (b : Byte) : (Nat × Nat) × List Nat :=
  match st with
  | (0, _) =>
    if b < 0x80 then ((0, 0), [b])
    else if 0xC0 ≤ b ∧ b < 0xE0 then ((1, b - 0xC0), [])
    else if 0xE0 ≤ b ∧ b < 0xF0 then ((2, b - 0xE0), [])
    else ((3, b - 0xF0), [])
  | (n+1, acc) =>
    let acc' := acc * 64 + (b - 0x80)
    if n = 0 then ((0, 0), [acc']) else ((n, acc'), [])

def utf8 : IncDecoder (Nat × Nat) Nat := ofStep (0, 0) utf8Step

-- "héllo€" = 68 C3 A9 6C 6C 6F E2 82 AC, cut inside both multi-byte characters
example : (deliver utf8 utf8.init [[0x68, 0xC3], [0xA9, 0x6C, 0x6C, 0x6F, 0xE2, 0x82], [0xAC]]).2
    = [0x68, 0xE9, 0x6C, 0x6C, 0x6F, 0x20AC] := by decide

end Cd

namespace Cd

/-- UTF-8 encoding of one scalar value (< 0x110000) -/
def utf8Encode (c : Nat) : List Byte :=
  if c < 0x80 then [c]
  else if c < 0x800 then [0xC0 + c / 64, 0x80 + c % 64]
  else if c < 0x10000 then [0xE0 + c / 4096, 0x80 + (c / 64) % 64, 0x80 + c % 64]
  else [0xF0 + c / 262144, 0x80 + (c / 4096) % 64, 0x80 + (c / 64) % 64, 0x80 + c % 64]

theorem utf8_one (c : Nat) (hc : c < 0x110000) (acc : List Nat) :
    (utf8Encode c).foldl (fun (a : (Nat × Nat) × List Nat) b => let r := utf8Step a.1 b; (r.1, a.2 ++ r.2)) ((0, 0), acc)
      = ((0, 0), acc ++ [c]) := by
  unfold utf8Encode
  by_cases h1 : c < 0x80
  · simp [h1, utf8Step]
  · by_cases h2 : c < 0x800
    · simp only [h1, h2, if_false, if_true, List.foldl_cons, List.foldl_nil, utf8Step]
      have a1 : ¬ (0xC0 + c / 64 < 0x80) := by omega
      have a2 : (0xC0 ≤ 0xC0 + c / 64 ∧ 0xC0 + c / 64 < 0xE0) := by omega
      simp only [a1, a2, if_false, if_true, and_self, List.append_nil]
      simp; omega
    · by_cases h3 : c < 0x10000
      · simp only [h1, h2, h3, if_false, if_true, List.foldl_cons, List.foldl_nil, utf8Step]
        have a1 : ¬ (0xE0 + c / 4096 < 0x80) := by omega
        have a2 : ¬ (0xC0 ≤ 0xE0 + c / 4096 ∧ 0xE0 + c / 4096 < 0xE0) := by omega
        have a3 : (0xE0 ≤ 0xE0 + c / 4096 ∧ 0xE0 + c / 4096 < 0xF0) := by omega
        simp only [a1, a2, a3, if_false, if_true, List.append_nil]
        simp; omega
      · simp only [h1, h2, h3, if_false, List.foldl_cons, List.foldl_nil, utf8Step]
        have a1 : ¬ (0xF0 + c / 262144 < 0x80) := by omega
        have a2 : ¬ (0xC0 ≤ 0xF0 + c / 262144 ∧ 0xF0 + c / 262144 < 0xE0) := by omega
        have a3 : ¬ (0xE0 ≤ 0xF0 + c / 262144 ∧ 0xF0 + c / 262144 < 0xF0) := by omega
        simp only [a1, a2, a3, if_false, List.append_nil]
        simp; omega

/-- decoding the UTF-8 encoding of a text gives the text back and leaves the decoder in its initial state -/
theorem utf8_decode_encode (cps : List Nat) (h : ∀ c ∈ cps, c < 0x110000) :
    utf8.feed (0, 0) (cps.flatMap utf8Encode) = ((0, 0), cps) := by
  have gen : ∀ (l : List Nat) (acc : List Nat), (∀ c ∈ l, c < 0x110000) →
      (l.flatMap utf8Encode).foldl (fun (a : (Nat × Nat) × List Nat) b => let r := utf8Step a.1 b; (r.1, a.2 ++ r.2)) ((0, 0), acc)
        = ((0, 0), acc ++ l) := by
    intro l
    induction l with
    | nil => intro acc _; simp
    | cons c t ih =>
      intro acc hl
      simp only [List.flatMap_cons, List.foldl_append]
      rw [utf8_one c (hl c (by simp)) acc, ih _ (fun x hx => hl x (by simp [hx]))]
      simp
  have := gen cps [] h
  simpa [utf8, ofStep] using this

/-- **a multi-byte character cut by a read boundary is never corrupted**: any chunking of a well-formed UTF-8
    stream delivers exactly the text, and the decoder ends in its initial state -/
theorem utf8_any_chunking (cps : List Nat) (h : ∀ c ∈ cps, c < 0x110000) (chunks : List (List Byte))
    (hc : chunks.flatten = cps.flatMap utf8Encode) : deliver utf8 (0, 0) chunks = ((0, 0), cps) := by
  rw [deliver_eq_whole, hc]
  exact utf8_decode_encode cps h

end Cd
