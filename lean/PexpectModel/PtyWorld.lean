/-! The pty world (kernel buffer, slave side, child process with a script) and `pty_spawn.read_nonblocking`
    under an adversarial schedule: before every reader system call the schedule says how many child actions
    happen, and for `read` how many bytes the kernel hands over. -/
namespace PtyW

abbrev Byte := Nat

inductive Act | write (bs : List Byte) | closeTty | exit (code : Nat)
deriving Repr, DecidableEq

inductive Proc | running | zombie (code : Nat) | reaped (code : Nat)
deriving Repr, DecidableEq

structure World where
  kbuf : List Byte          -- written by the child, not yet read by the master
  slaveOpen : Bool
  proc : Proc
  script : List Act         -- what the child will still do
  written : List Byte       -- ghost: everything the child has written so far
deriving Repr

/-- one child action -/
def childStep (w : World) : World :=
  match w.script with
  | [] => w
  | .write bs :: r =>
      if w.slaveOpen then { w with kbuf := w.kbuf ++ bs, written := w.written ++ bs, script := r }
      else { w with script := r }
  | .closeTty :: r => { w with slaveOpen := false, script := r }
  | .exit c :: _ => { w with slaveOpen := false, proc := .zombie c, script := [] }

def childSteps : Nat → World → World
  | 0, w => w
  | n+1, w => childSteps n (childStep w)

/-- schedule: before each reader syscall, how many child actions happen; for read, how many bytes -/
structure Step where
  acts : Nat
  nbytes : Nat   -- bytes the kernel returns (clamped to 1..min size |kbuf|)
deriving Repr

abbrev Sched := List Step

def nextStep : Sched → Step × Sched
  | [] => (⟨0, 1000000⟩, [])
  | s :: r => (s, r)

def readable (w : World) : Bool := !w.kbuf.isEmpty || !w.slaveOpen

/-- select(0) -/
def select0 (w : World) (sc : Sched) : Bool × World × Sched :=
  let (s, sc) := nextStep sc
  let w := childSteps s.acts w
  (readable w, w, sc)

/-- select(t), t>0 or None: child acts one at a time until readable or the scheduled count is exhausted
    (then the timeout expires) -/
def selectT (w : World) (sc : Sched) : Bool × World × Sched :=
  let (s, sc) := nextStep sc
  let rec go : Nat → World → Bool × World
    | 0, w => (readable w, w)
    | n+1, w => if readable w then (true, w) else go n (childStep w)
  let (r, w) := go s.acts w
  (r, w, sc)

inductive RdRes | data (bs : List Byte) | eio
deriving Repr, DecidableEq

/-- os.read(fd, size); only called when readable -/
def osRead (size : Nat) (w : World) (sc : Sched) : RdRes × World × Sched :=
  let (s, sc) := nextStep sc
  let w := childSteps s.acts w
  if w.kbuf.isEmpty then (.eio, w, sc)
  else
    let n := max 1 (min s.nbytes (min size w.kbuf.length))
    (.data (w.kbuf.take n), { w with kbuf := w.kbuf.drop n }, sc)

/-- waitpid(WNOHANG)-based isalive (flag_eof = false case) -/
def isalive (w : World) (sc : Sched) : Bool × World × Sched :=
  let (s, sc) := nextStep sc
  let w := childSteps s.acts w
  match w.proc with
  | .running => (true, w, sc)
  | .zombie c => (false, { w with proc := .reaped c }, sc)
  | .reaped _ => (false, w, sc)

inductive Out | data (bs : List Byte) | eof | timeout
deriving Repr, DecidableEq

/-- drain loop `while len(incoming) < size and select(0)` with fuel -/
def drain (size : Nat) : Nat → List Byte → World → Sched → List Byte × World × Sched
  | 0, inc, w, sc => (inc, w, sc)
  | fuel+1, inc, w, sc =>
    if inc.length < size then
      let (r, w, sc) := select0 w sc
      if r then
        match osRead (size - inc.length) w sc with
        | (.data bs, w, sc) => drain size fuel (inc ++ bs) w sc
        | (.eio, w, sc) => (inc, w, sc)       -- isalive() then return incoming
      else (inc, w, sc)
    else (inc, w, sc)

/-- `super().read_nonblocking(size)` after a positive poll: data, or EIO → EOF -/
def readOnce (size : Nat) (w : World) (sc : Sched) : Out × World × Sched :=
  match osRead size w sc with
  | (.eio, w, sc) => (.eof, w, sc)
  | (.data bs, w, sc) => (.data bs, w, sc)

/-- poll once more and read, else report EOF (the two dead-child branches of the repaired code) -/
def pollRead (size : Nat) (w : World) (sc : Sched) : Out × World × Sched :=
  let r := select0 w sc
  if r.1 then readOnce size r.2.1 r.2.2 else (.eof, r.2.1, r.2.2)

/-- `pty_spawn.spawn.read_nonblocking` (repaired); `timed = false` is `timeout == 0` -/
def readNonblocking (size : Nat) (timed : Bool) (w : World) (sc : Sched) : Out × World × Sched :=
  let r := select0 w sc
  if r.1 then
    match osRead size r.2.1 r.2.2 with
    | (.eio, w, sc) => (.eof, w, sc)
    | (.data bs, w, sc) =>
      let d := drain size size bs w sc
      (.data d.1, d.2.1, d.2.2)
  else
    let a := isalive r.2.1 r.2.2
    if !a.1 then pollRead size a.2.1 a.2.2
    else
      let t := if timed then selectT a.2.1 a.2.2 else (false, a.2.1, a.2.2)
      if t.1 then readOnce size t.2.1 t.2.2
      else
        let a2 := isalive t.2.1 t.2.2
        if !a2.1 then pollRead size a2.2.1 a2.2.2
        else (.timeout, a2.2.1, a2.2.2)

/-- the code before the repair: after the timed wait a dead child means EOF at once -/
def readNonblockingPre (size : Nat) (timed : Bool) (w : World) (sc : Sched) : Out × World × Sched :=
  let r := select0 w sc
  if r.1 then
    match osRead size r.2.1 r.2.2 with
    | (.eio, w, sc) => (.eof, w, sc)
    | (.data bs, w, sc) =>
      let d := drain size size bs w sc
      (.data d.1, d.2.1, d.2.2)
  else
    let a := isalive r.2.1 r.2.2
    if !a.1 then pollRead size a.2.1 a.2.2
    else
      let t := if timed then selectT a.2.1 a.2.2 else (false, a.2.1, a.2.2)
      if t.1 then readOnce size t.2.1 t.2.2
      else
        let a2 := isalive t.2.1 t.2.2
        if !a2.1 then (.eof, a2.2.1, a2.2.2)
        else (.timeout, a2.2.1, a2.2.2)

def w0 (script : List Act) : World := ⟨[], true, .running, script, []⟩

/-- the defect that was repaired, as a kernel-checked witness: EOF raised while a byte is unread -/
example :
    let r := readNonblockingPre 10 true (w0 [.write [7], .exit 0]) [⟨0,1⟩, ⟨0,1⟩, ⟨0,1⟩, ⟨2,1⟩]
    r.1 = .eof ∧ r.2.1.kbuf = [7] := by decide

example :
    let r := readNonblocking 10 true (w0 [.write [7], .exit 0]) [⟨0,1⟩, ⟨0,1⟩, ⟨0,1⟩, ⟨2,1⟩]
    r.1 = .data [7] ∧ r.2.1.kbuf = [] := by decide

/-- ghost invariant: delivered ++ kbuf = written -/
def Conserve (delivered : List Byte) (w : World) : Prop := delivered ++ w.kbuf = w.written

theorem childStep_conserve (d : List Byte) (w : World) (h : Conserve d w) : Conserve d (childStep w) := by
  unfold childStep
  split
  · exact h
  · split
    · simp only [Conserve] at *; rw [← List.append_assoc, h]
    · exact h
  · exact h
  · exact h

theorem childSteps_conserve (n : Nat) (d : List Byte) (w : World) (h : Conserve d w) :
    Conserve d (childSteps n w) := by
  induction n generalizing w with
  | zero => exact h
  | succ n ih => exact ih _ (childStep_conserve d w h)


/-! ### EOF only when drained -/

def WInv (w : World) : Prop := w.proc ≠ .running → w.slaveOpen = false ∧ w.script = []

theorem childStep_winv (w : World) (h : WInv w) : WInv (childStep w) := by
  unfold childStep
  split
  · exact h
  · rename_i bs r hs
    split <;> (intro hp; have := h hp; simp_all)
  · rename_i r hs
    intro hp; have := h hp; simp_all
  · intro _; simp

theorem childSteps_winv (n : Nat) (w : World) (h : WInv w) : WInv (childSteps n w) := by
  induction n generalizing w with
  | zero => exact h
  | succ n ih => exact ih _ (childStep_winv w h)

theorem childStep_closed (w : World) (h : w.slaveOpen = false) :
    (childStep w).slaveOpen = false ∧ (childStep w).kbuf = w.kbuf := by
  unfold childStep
  split <;> simp_all

theorem childSteps_closed (n : Nat) (w : World) (h : w.slaveOpen = false) :
    (childSteps n w).slaveOpen = false ∧ (childSteps n w).kbuf = w.kbuf := by
  induction n generalizing w with
  | zero => exact ⟨h, rfl⟩
  | succ n ih =>
    obtain ⟨h1, h2⟩ := childStep_closed w h
    obtain ⟨h3, h4⟩ := ih _ h1
    exact ⟨h3, by show (childSteps n (childStep w)).kbuf = w.kbuf; rw [h4, h2]⟩

theorem childStep_kbuf_mono (w : World) (h : w.kbuf ≠ []) : (childStep w).kbuf ≠ [] := by
  unfold childStep
  split <;> try exact h
  split <;> simp_all

theorem childSteps_kbuf_mono (n : Nat) (w : World) (h : w.kbuf ≠ []) : (childSteps n w).kbuf ≠ [] := by
  induction n generalizing w with
  | zero => exact h
  | succ n ih => exact ih _ (childStep_kbuf_mono w h)

end PtyW
