import PexpectModel.Codec
/-! One spawn object's I/O bookkeeping (C07, C08, C11): every transport read passes its chunk through the one
    persistent incremental decoder, logs the text and returns it; every send coerces, logs, encodes through the
    one persistent incremental encoder and writes.  Transport specifics (how the byte stream is chunked into
    reads, C06) are a parameter: the op list. -/
namespace Sess
open Cd

/-- incremental encoder with the same chunk law (UTF-16's BOM is why it has state) -/
structure IncEncoder (σ : Type) where
  init : σ
  feed : σ → List Nat → σ × List Byte
  law : ∀ s a b, feed s (a ++ b) = ((feed (feed s a).1 b).1, (feed s a).2 ++ (feed (feed s a).1 b).2)
  nil : ∀ s, feed s [] = (s, [])

/-- a stateless encoder that maps each code point to its bytes (utf-8, latin-1, ascii: what `codecs.getincrementalencoder`
    gives for the stateless codecs) -/
def mapEnc (f : Nat → List Byte) : IncEncoder Unit where
  init := ()
  feed := fun s a => (s, a.flatMap f)
  law := by intro s a b; simp
  nil := by intro s; rfl

inductive Dir | read | send deriving DecidableEq, Repr

/-- a log file sees `write(s)` then `flush()` -/
inductive LogEv | write (d : Dir) (s : List Nat) | flush deriving DecidableEq, Repr

/-- the control characters `sendcontrol` knows: a–z ↦ 1–26 and the punctuation table of ptyprocess -/
def controlByte (c : Nat) : Option Nat :=
  let c := if 65 ≤ c ∧ c ≤ 90 then c + 32 else c          -- char.lower()
  if 97 ≤ c ∧ c ≤ 122 then some (c - 96)
  else if c = 64 ∨ c = 96 then some 0
  else if c = 91 ∨ c = 123 then some 27
  else if c = 92 ∨ c = 124 then some 28
  else if c = 93 ∨ c = 125 then some 29
  else if c = 94 ∨ c = 126 then some 30
  else if c = 95 then some 31
  else if c = 63 then some 127
  else none

inductive Op where
  | read (chunk : List Byte)            -- one transport read returned these bytes
  | send (s : List Nat)                 -- send / write with an already coerced string
  | sendline (s : List Nat)
  | writelines (ss : List (List Nat))
  | sendcontrol (c : Nat)
  | sendeof | sendintr
deriving Repr

structure Cfg where
  linesep : List Nat
  eofByte : Nat
  intrByte : Nat

structure St (σd σe : Type) where
  dec : σd
  enc : σe
  delivered : List (List Nat)      -- what each read returned to the caller / the Expecter, in order
  peer : List Byte                 -- every byte written to the peer, in order
  logfile : List LogEv
  logRead : List LogEv
  logSend : List LogEv
  returned : List Nat              -- return values of the send-family calls (bytes written)

variable {σd σe : Type}

def logBoth (st : St σd σe) (d : Dir) (s : List Nat) : St σd σe :=
  let ev := [LogEv.write d s, LogEv.flush]
  match d with
  | .read => { st with logfile := st.logfile ++ ev, logRead := st.logRead ++ ev }
  | .send => { st with logfile := st.logfile ++ ev, logSend := st.logSend ++ ev }

/-- `send(s)`: `_log(s, 'send')`, `b = encoder.encode(s)`, `os.write(fd, b)` -/
def doSend (enc : IncEncoder σe) (st : St σd σe) (s : List Nat) : St σd σe :=
  let st := logBoth st .send s
  let r := enc.feed st.enc s
  { st with enc := r.1, peer := st.peer ++ r.2, returned := st.returned ++ [r.2.length] }

/-- control bytes bypass the encoder (`ptyproc._writeb`) and are logged afterwards (decoded in unicode mode) -/
def doControl (st : St σd σe) (b : Option Nat) : St σd σe :=
  match b with
  | some b => let st := { st with peer := st.peer ++ [b], returned := st.returned ++ [1] }; logBoth st .send [b]
  | none => let st := { st with returned := st.returned ++ [0] }; logBoth st .send []

def step (dec : IncDecoder σd Nat) (enc : IncEncoder σe) (cfg : Cfg) (st : St σd σe) : Op → St σd σe
  | .read chunk =>
      let r := dec.feed st.dec chunk
      let st := { st with dec := r.1, delivered := st.delivered ++ [r.2] }
      logBoth st .read r.2
  | .send s => doSend enc st s
  | .sendline s => doSend enc st (s ++ cfg.linesep)
  | .writelines ss => ss.foldl (doSend enc) st
  | .sendcontrol c => doControl st (controlByte c)
  | .sendeof => doControl st (some cfg.eofByte)
  | .sendintr => doControl st (some cfg.intrByte)

def run (dec : IncDecoder σd Nat) (enc : IncEncoder σe) (cfg : Cfg) (st : St σd σe) (ops : List Op) : St σd σe :=
  ops.foldl (step dec enc cfg) st

def init (dec : IncDecoder σd Nat) (enc : IncEncoder σe) : St σd σe :=
  ⟨dec.init, enc.init, [], [], [], [], [], []⟩

/-! ### what was read -/

def readBytes : List Op → List Byte
  | [] => []
  | .read c :: r => c ++ readBytes r
  | _ :: r => readBytes r

/-- the text every send-family op asks to send (after coercion), in order; control bytes are not text -/
def sendText (cfg : Cfg) : List Op → List Nat
  | [] => []
  | .send s :: r => s ++ sendText cfg r
  | .sendline s :: r => s ++ cfg.linesep ++ sendText cfg r
  | .writelines ss :: r => ss.flatten ++ sendText cfg r
  | _ :: r => sendText cfg r

theorem logBoth_fields (st : St σd σe) (d : Dir) (s : List Nat) :
    (logBoth st d s).dec = st.dec ∧ (logBoth st d s).enc = st.enc ∧ (logBoth st d s).delivered = st.delivered ∧
    (logBoth st d s).peer = st.peer ∧ (logBoth st d s).returned = st.returned := by
  cases d <;> simp [logBoth]

theorem doSend_dec (enc : IncEncoder σe) (st : St σd σe) (s : List Nat) :
    (doSend enc st s).dec = st.dec ∧ (doSend enc st s).delivered = st.delivered := by
  simp [doSend, (logBoth_fields st .send s).1, (logBoth_fields st .send s).2.2.1]

theorem foldl_doSend_dec (enc : IncEncoder σe) (ss : List (List Nat)) (st : St σd σe) :
    (ss.foldl (doSend enc) st).dec = st.dec ∧ (ss.foldl (doSend enc) st).delivered = st.delivered := by
  induction ss generalizing st with
  | nil => exact ⟨rfl, rfl⟩
  | cons s t ih =>
    simp only [List.foldl_cons]
    rw [(ih _).1, (ih _).2, (doSend_dec enc st s).1, (doSend_dec enc st s).2]
    exact ⟨rfl, rfl⟩

theorem doControl_dec (st : St σd σe) (b : Option Nat) :
    (doControl st b).dec = st.dec ∧ (doControl st b).delivered = st.delivered := by
  cases b <;> simp [doControl, logBoth]

/-- **C07**: the text delivered by the reads, concatenated, is the decoding of the concatenated chunks by the one
    persistent decoder — for every chunking and every interleaving with sends -/
theorem delivered_eq_decode_whole (dec : IncDecoder σd Nat) (enc : IncEncoder σe) (cfg : Cfg) (ops : List Op) (st : St σd σe) :
    (run dec enc cfg st ops).delivered.flatten = st.delivered.flatten ++ (dec.feed st.dec (readBytes ops)).2 ∧
    (run dec enc cfg st ops).dec = (dec.feed st.dec (readBytes ops)).1 := by
  induction ops generalizing st with
  | nil => simp [run, readBytes, dec.nil]
  | cons op r ih =>
    simp only [run, List.foldl_cons]
    have ih' := ih (step dec enc cfg st op)
    simp only [run] at ih'
    cases op with
    | read c =>
      simp only [readBytes]
      rw [ih'.1, ih'.2, dec.law]
      simp only [step]
      have hf := logBoth_fields ({ st with dec := (dec.feed st.dec c).1, delivered := st.delivered ++ [(dec.feed st.dec c).2] } : St σd σe) .read (dec.feed st.dec c).2
      rw [hf.1, hf.2.2.1]
      simp
    | send s =>
      simp only [readBytes]; rw [ih'.1, ih'.2]; simp only [step]
      rw [(doSend_dec enc st s).1, (doSend_dec enc st s).2]; exact ⟨rfl, rfl⟩
    | sendline s =>
      simp only [readBytes]; rw [ih'.1, ih'.2]; simp only [step]
      rw [(doSend_dec enc st _).1, (doSend_dec enc st _).2]; exact ⟨rfl, rfl⟩
    | writelines ss =>
      simp only [readBytes]; rw [ih'.1, ih'.2]; simp only [step]
      rw [(foldl_doSend_dec enc ss st).1, (foldl_doSend_dec enc ss st).2]; exact ⟨rfl, rfl⟩
    | sendcontrol c =>
      simp only [readBytes]; rw [ih'.1, ih'.2]; simp only [step]
      rw [(doControl_dec st _).1, (doControl_dec st _).2]; exact ⟨rfl, rfl⟩
    | sendeof =>
      simp only [readBytes]; rw [ih'.1, ih'.2]; simp only [step]
      rw [(doControl_dec st _).1, (doControl_dec st _).2]; exact ⟨rfl, rfl⟩
    | sendintr =>
      simp only [readBytes]; rw [ih'.1, ih'.2]; simp only [step]
      rw [(doControl_dec st _).1, (doControl_dec st _).2]; exact ⟨rfl, rfl⟩

/-- bytes mode: the null decoder passes bytes through unchanged -/
def nullDec : IncDecoder Unit Nat := latin1

theorem bytes_mode_identity (bs : List Byte) : (nullDec.feed () bs).2 = bs := by
  unfold nullDec latin1 ofStep
  simp only
  have : ∀ (l : List Byte) (acc : List Nat),
      (l.foldl (fun (a : Unit × List Nat) b => (((), [b]) : Unit × List Nat).1 |> fun u => (u, a.2 ++ [b])) ((), acc)).2 = acc ++ l := by
    intro l
    induction l with
    | nil => intro acc; simp
    | cons x t ih => intro acc; simp only [List.foldl_cons]; rw [ih]; simp
  simpa using this bs []

end Sess

namespace Sess
open Cd
variable {σd σe : Type}

/-! ### what the peer receives (C08) -/

/-- bytes each op puts on the wire, with the encoder state threaded through the text ops -/
def peerSpec (enc : IncEncoder σe) (cfg : Cfg) : σe → List Op → List Byte
  | _, [] => []
  | e, .read _ :: r => peerSpec enc cfg e r
  | e, .send s :: r => (enc.feed e s).2 ++ peerSpec enc cfg (enc.feed e s).1 r
  | e, .sendline s :: r => (enc.feed e (s ++ cfg.linesep)).2 ++ peerSpec enc cfg (enc.feed e (s ++ cfg.linesep)).1 r
  | e, .writelines ss :: r => (enc.feed e ss.flatten).2 ++ peerSpec enc cfg (enc.feed e ss.flatten).1 r
  | e, .sendcontrol c :: r => (match controlByte c with | some b => [b] | none => []) ++ peerSpec enc cfg e r
  | e, .sendeof :: r => [cfg.eofByte] ++ peerSpec enc cfg e r
  | e, .sendintr :: r => [cfg.intrByte] ++ peerSpec enc cfg e r

theorem doSend_peer (enc : IncEncoder σe) (st : St σd σe) (s : List Nat) :
    (doSend enc st s).peer = st.peer ++ (enc.feed st.enc s).2 ∧ (doSend enc st s).enc = (enc.feed st.enc s).1 := by
  simp [doSend, (logBoth_fields st .send s).2.1, (logBoth_fields st .send s).2.2.2.1]

theorem foldl_doSend_peer (enc : IncEncoder σe) (ss : List (List Nat)) (st : St σd σe) :
    (ss.foldl (doSend enc) st).peer = st.peer ++ (enc.feed st.enc ss.flatten).2 ∧
    (ss.foldl (doSend enc) st).enc = (enc.feed st.enc ss.flatten).1 := by
  induction ss generalizing st with
  | nil => simp [enc.nil]
  | cons s t ih =>
    simp only [List.foldl_cons, List.flatten_cons]
    rw [(ih _).1, (ih _).2, (doSend_peer enc st s).1, (doSend_peer enc st s).2, enc.law]
    simp

theorem doControl_peer (st : St σd σe) (b : Option Nat) :
    (doControl st b).peer = st.peer ++ (match b with | some b => [b] | none => []) ∧ (doControl st b).enc = st.enc := by
  cases b <;> simp [doControl, logBoth]

/-- **peer_receives_concat** (C08): what the peer receives is, op by op and in call order, the encoding of each
    argument by the one persistent encoder (+ exactly one line separator per `sendline`, exactly one byte per known
    control name / `sendeof` / `sendintr`, nothing for an unknown control name) — and nothing else -/
theorem peer_receives_concat (dec : IncDecoder σd Nat) (enc : IncEncoder σe) (cfg : Cfg) (ops : List Op) (st : St σd σe) :
    (run dec enc cfg st ops).peer = st.peer ++ peerSpec enc cfg st.enc ops := by
  induction ops generalizing st with
  | nil => simp [run, peerSpec]
  | cons op r ih =>
    simp only [run, List.foldl_cons]
    have ih' := ih (step dec enc cfg st op)
    simp only [run] at ih'
    rw [ih']
    cases op with
    | read c =>
      simp only [step, peerSpec]
      have hf := logBoth_fields ({ st with dec := (dec.feed st.dec c).1, delivered := st.delivered ++ [(dec.feed st.dec c).2] } : St σd σe) .read (dec.feed st.dec c).2
      rw [hf.2.1, hf.2.2.2.1]
    | send s => simp only [step, peerSpec]; rw [(doSend_peer enc st s).1, (doSend_peer enc st s).2, List.append_assoc]
    | sendline s => simp only [step, peerSpec]; rw [(doSend_peer enc st _).1, (doSend_peer enc st _).2, List.append_assoc]
    | writelines ss => simp only [step, peerSpec]; rw [(foldl_doSend_peer enc ss st).1, (foldl_doSend_peer enc ss st).2, List.append_assoc]
    | sendcontrol c => simp only [step, peerSpec]; rw [(doControl_peer st _).1, (doControl_peer st _).2, List.append_assoc]
    | sendeof => simp only [step, peerSpec]; rw [(doControl_peer st _).1, (doControl_peer st _).2, List.append_assoc]
    | sendintr => simp only [step, peerSpec]; rw [(doControl_peer st _).1, (doControl_peer st _).2, List.append_assoc]

def Op.isText : Op → Bool
  | .sendcontrol _ | .sendeof | .sendintr => false
  | _ => true

/-- without control ops the peer receives the encoding of the concatenated arguments as one stream
    (so an encoder with state — UTF-16's BOM — emits it once, not per call) -/
theorem text_stream_encoded_once (enc : IncEncoder σe) (cfg : Cfg) (ops : List Op) (h : ∀ op ∈ ops, op.isText = true) (e : σe) :
    peerSpec enc cfg e ops = (enc.feed e (sendText cfg ops)).2 := by
  induction ops generalizing e with
  | nil => simp [peerSpec, sendText, enc.nil]
  | cons op r ih =>
    have hr := fun e' => ih (fun o ho => h o (by simp [ho])) e'
    cases op with
    | read c => simp only [peerSpec, sendText]; exact hr e
    | send s => simp only [peerSpec, sendText]; rw [hr, enc.law]
    | sendline s =>
      simp only [peerSpec, sendText]; rw [hr]
      have := enc.law e (s ++ cfg.linesep) (sendText cfg r)
      rw [this]
    | writelines ss => simp only [peerSpec, sendText]; rw [hr, enc.law]
    | sendcontrol c => have := h (.sendcontrol c) (by simp); simp [Op.isText] at this
    | sendeof => have := h .sendeof (by simp); simp [Op.isText] at this
    | sendintr => have := h .sendintr (by simp); simp [Op.isText] at this

/-- `send` returns the number of bytes it wrote -/
theorem send_returns_written (enc : IncEncoder σe) (st : St σd σe) (s : List Nat) :
    (doSend enc st s).returned = st.returned ++ [(enc.feed st.enc s).2.length] ∧
    (doSend enc st s).peer.length = st.peer.length + (enc.feed st.enc s).2.length := by
  simp [doSend, (logBoth_fields st .send s).2.1, (logBoth_fields st .send s).2.2.2.1, (logBoth_fields st .send s).2.2.2.2]

theorem control_one_byte (st : St σd σe) (b : Nat) : (doControl st (some b)).peer = st.peer ++ [b] :=
  (doControl_peer st (some b)).1
theorem unknown_control_nothing (st : St σd σe) : (doControl st none).peer = st.peer := by
  simpa using (doControl_peer st none).1

/-! ### what the log files receive (C11) -/

/-- the events a log file that accepts directions `which` must have received from these ops -/
def logSpec (dec : IncDecoder σd Nat) (cfg : Cfg) (which : Dir → Bool) : σd → List Op → List LogEv
  | _, [] => []
  | d, .read c :: r =>
      (if which .read then [LogEv.write .read (dec.feed d c).2, .flush] else []) ++ logSpec dec cfg which (dec.feed d c).1 r
  | d, .send s :: r => (if which .send then [LogEv.write .send s, .flush] else []) ++ logSpec dec cfg which d r
  | d, .sendline s :: r => (if which .send then [LogEv.write .send (s ++ cfg.linesep), .flush] else []) ++ logSpec dec cfg which d r
  | d, .writelines ss :: r =>
      (if which .send then ss.flatMap (fun s => [LogEv.write .send s, .flush]) else []) ++ logSpec dec cfg which d r
  | d, .sendcontrol c :: r =>
      (if which .send then [LogEv.write .send (match controlByte c with | some b => [b] | none => []), .flush] else []) ++
        logSpec dec cfg which d r
  | d, .sendeof :: r => (if which .send then [LogEv.write .send [cfg.eofByte], .flush] else []) ++ logSpec dec cfg which d r
  | d, .sendintr :: r => (if which .send then [LogEv.write .send [cfg.intrByte], .flush] else []) ++ logSpec dec cfg which d r

theorem logBoth_logs (st : St σd σe) (d : Dir) (s : List Nat) :
    (logBoth st d s).logfile = st.logfile ++ [LogEv.write d s, .flush] ∧
    (logBoth st d s).logRead = st.logRead ++ (if d = .read then [LogEv.write d s, .flush] else []) ∧
    (logBoth st d s).logSend = st.logSend ++ (if d = .send then [LogEv.write d s, .flush] else []) := by
  cases d <;> simp [logBoth]

theorem doSend_logs (enc : IncEncoder σe) (st : St σd σe) (s : List Nat) :
    (doSend enc st s).logfile = st.logfile ++ [LogEv.write .send s, .flush] ∧
    (doSend enc st s).logRead = st.logRead ∧
    (doSend enc st s).logSend = st.logSend ++ [LogEv.write .send s, .flush] := by
  have := logBoth_logs st .send s
  simp [doSend, this.1, this.2.1, this.2.2]

theorem foldl_doSend_logs (enc : IncEncoder σe) (ss : List (List Nat)) (st : St σd σe) :
    (ss.foldl (doSend enc) st).logfile = st.logfile ++ ss.flatMap (fun s => [LogEv.write .send s, .flush]) ∧
    (ss.foldl (doSend enc) st).logRead = st.logRead ∧
    (ss.foldl (doSend enc) st).logSend = st.logSend ++ ss.flatMap (fun s => [LogEv.write .send s, .flush]) := by
  induction ss generalizing st with
  | nil => simp
  | cons s t ih =>
    simp only [List.foldl_cons, List.flatMap_cons]
    rw [(ih _).1, (ih _).2.1, (ih _).2.2, (doSend_logs enc st s).1, (doSend_logs enc st s).2.1, (doSend_logs enc st s).2.2]
    simp

theorem doControl_logs (st : St σd σe) (b : Option Nat) :
    (doControl st b).logfile = st.logfile ++ [LogEv.write .send (match b with | some b => [b] | none => []), .flush] ∧
    (doControl st b).logRead = st.logRead ∧
    (doControl st b).logSend = st.logSend ++ [LogEv.write .send (match b with | some b => [b] | none => []), .flush] := by
  cases b <;> simp [doControl, logBoth]

/-- **the three log files are an exact transcript** (C11): `logfile` receives every read's delivered text and every
    send's requested text in operation order, `logfile_read` exactly the reads, `logfile_send` exactly the sends;
    every write is followed by a flush -/
theorem logs_are_transcript (dec : IncDecoder σd Nat) (enc : IncEncoder σe) (cfg : Cfg) (ops : List Op) (st : St σd σe) :
    (run dec enc cfg st ops).logfile = st.logfile ++ logSpec dec cfg (fun _ => true) st.dec ops ∧
    (run dec enc cfg st ops).logRead = st.logRead ++ logSpec dec cfg (fun d => d == .read) st.dec ops ∧
    (run dec enc cfg st ops).logSend = st.logSend ++ logSpec dec cfg (fun d => d == .send) st.dec ops := by
  induction ops generalizing st with
  | nil => simp [run, logSpec]
  | cons op r ih =>
    simp only [run, List.foldl_cons]
    have ih' := ih (step dec enc cfg st op)
    simp only [run] at ih'
    rw [ih'.1, ih'.2.1, ih'.2.2]
    cases op with
    | read c =>
      simp only [step, logSpec]
      have hl := logBoth_logs ({ st with dec := (dec.feed st.dec c).1, delivered := st.delivered ++ [(dec.feed st.dec c).2] } : St σd σe) .read (dec.feed st.dec c).2
      have hf := logBoth_fields ({ st with dec := (dec.feed st.dec c).1, delivered := st.delivered ++ [(dec.feed st.dec c).2] } : St σd σe) .read (dec.feed st.dec c).2
      rw [hl.1, hl.2.1, hl.2.2, hf.1]
      simp
    | send s =>
      simp only [step, logSpec]
      rw [(doSend_logs enc st s).1, (doSend_logs enc st s).2.1, (doSend_logs enc st s).2.2, (doSend_dec enc st s).1]; simp
    | sendline s =>
      simp only [step, logSpec]
      rw [(doSend_logs enc st _).1, (doSend_logs enc st _).2.1, (doSend_logs enc st _).2.2, (doSend_dec enc st _).1]; simp
    | writelines ss =>
      simp only [step, logSpec]
      rw [(foldl_doSend_logs enc ss st).1, (foldl_doSend_logs enc ss st).2.1, (foldl_doSend_logs enc ss st).2.2, (foldl_doSend_dec enc ss st).1]; simp
    | sendcontrol c =>
      simp only [step, logSpec]
      rw [(doControl_logs st _).1, (doControl_logs st _).2.1, (doControl_logs st _).2.2, (doControl_dec st _).1]; simp
    | sendeof =>
      simp only [step, logSpec]
      rw [(doControl_logs st _).1, (doControl_logs st _).2.1, (doControl_logs st _).2.2, (doControl_dec st _).1]; simp
    | sendintr =>
      simp only [step, logSpec]
      rw [(doControl_logs st _).1, (doControl_logs st _).2.1, (doControl_logs st _).2.2, (doControl_dec st _).1]; simp

def writesOf : List LogEv → List (Dir × List Nat)
  | [] => []
  | .write d s :: r => (d, s) :: writesOf r
  | .flush :: r => writesOf r

/-- a log is well flushed when it is a sequence of (write, flush) pairs -/
def Flushed : List LogEv → Prop
  | [] => True
  | .write _ _ :: .flush :: r => Flushed r
  | _ => False

theorem Flushed.append {a b : List LogEv} (ha : Flushed a) (hb : Flushed b) : Flushed (a ++ b) := by
  induction a using Flushed.induct with
  | case1 => simpa using hb
  | case2 d s r ih => simp only [List.cons_append, Flushed] at ha ⊢; exact ih ha
  | case3 l h1 h2 => exact absurd ha (by
      cases l with
      | nil => exact absurd rfl h1
      | cons x t =>
        cases x with
        | flush => simp [Flushed]
        | write d s =>
          cases t with
          | nil => simp [Flushed]
          | cons y u =>
            cases y with
            | flush => exact absurd rfl (h2 d s u)
            | write d' s' => simp [Flushed])

theorem flushed_pairs (ss : List (List Nat)) : Flushed (ss.flatMap (fun s => [LogEv.write .send s, .flush])) := by
  induction ss with
  | nil => simp [Flushed]
  | cons s t ih => simpa [Flushed] using ih

/-- **every_write_flushed** -/
theorem logSpec_flushed (dec : IncDecoder σd Nat) (cfg : Cfg) (which : Dir → Bool) (d : σd) (ops : List Op) :
    Flushed (logSpec dec cfg which d ops) := by
  induction ops generalizing d with
  | nil => simp [logSpec, Flushed]
  | cons op r ih =>
    cases op <;> simp only [logSpec] <;> apply Flushed.append <;> (try exact ih _) <;> (split <;> simp [Flushed, flushed_pairs])

/-- what `logfile_read` is asked to write is exactly what the reads delivered, once, in order -/
theorem logRead_eq_delivered (dec : IncDecoder σd Nat) (enc : IncEncoder σe) (cfg : Cfg) (ops : List Op) :
    (writesOf (run dec enc cfg (init dec enc) ops).logRead).map (·.2) = (run dec enc cfg (init dec enc) ops).delivered := by
  have gen : ∀ (ops : List Op) (st : St σd σe), (writesOf st.logRead).map (·.2) = st.delivered →
      (writesOf (run dec enc cfg st ops).logRead).map (·.2) = (run dec enc cfg st ops).delivered := by
    intro ops
    induction ops with
    | nil => intro st h; exact h
    | cons op r ih =>
      intro st h
      simp only [run, List.foldl_cons]
      apply ih
      have wapp : ∀ a b : List LogEv, writesOf (a ++ b) = writesOf a ++ writesOf b := by
        intro a b; induction a with
        | nil => rfl
        | cons x t iht => cases x <;> simp [writesOf, iht]
      cases op with
      | read c =>
        simp only [step]
        have hl := logBoth_logs ({ st with dec := (dec.feed st.dec c).1, delivered := st.delivered ++ [(dec.feed st.dec c).2] } : St σd σe) .read (dec.feed st.dec c).2
        have hf := logBoth_fields ({ st with dec := (dec.feed st.dec c).1, delivered := st.delivered ++ [(dec.feed st.dec c).2] } : St σd σe) .read (dec.feed st.dec c).2
        rw [hl.2.1, hf.2.2.1, wapp]
        simp [writesOf, h]
      | send s => simp only [step]; rw [(doSend_logs enc st s).2.1, (doSend_dec enc st s).2]; exact h
      | sendline s => simp only [step]; rw [(doSend_logs enc st _).2.1, (doSend_dec enc st _).2]; exact h
      | writelines ss => simp only [step]; rw [(foldl_doSend_logs enc ss st).2.1, (foldl_doSend_dec enc ss st).2]; exact h
      | sendcontrol c => simp only [step]; rw [(doControl_logs st _).2.1, (doControl_dec st _).2]; exact h
      | sendeof => simp only [step]; rw [(doControl_logs st _).2.1, (doControl_dec st _).2]; exact h
      | sendintr => simp only [step]; rw [(doControl_logs st _).2.1, (doControl_dec st _).2]; exact h
  exact gen ops (init dec enc) (by simp [init, writesOf])

end Sess

namespace Sess
open Cd
variable {σd σe : Type}

/-! ### interact() takes the stream over (pty_spawn.py `__interact_copy` / `__interact_log`)

While `interact()` runs, every chunk read from the child is written to the user's terminal as the raw bytes and, for the
log files, decoded **by the spawn's own persistent decoder** — the one `read_nonblocking` uses — so a character the last
`expect()` read only the first bytes of is completed by the first chunk `interact()` copies. -/

inductive Op2 where
  | op (o : Op)
  | iread (chunk : List Byte)       -- one chunk copied by interact(): logged (direction read), not delivered to the caller
deriving Repr

def interactRead (dec : IncDecoder σd Nat) (st : St σd σe) (chunk : List Byte) : St σd σe :=
  let r := dec.feed st.dec chunk
  logBoth { st with dec := r.1 } .read r.2

def step2 (dec : IncDecoder σd Nat) (enc : IncEncoder σe) (cfg : Cfg) (st : St σd σe) : Op2 → St σd σe
  | .op o => step dec enc cfg st o
  | .iread c => interactRead dec st c

def run2 (dec : IncDecoder σd Nat) (enc : IncEncoder σe) (cfg : Cfg) (st : St σd σe) (ops : List Op2) : St σd σe :=
  ops.foldl (step2 dec enc cfg) st

/-- every byte that came from the child, whoever read it -/
def childBytes : List Op2 → List Byte
  | [] => []
  | .op (.read c) :: r => c ++ childBytes r
  | .iread c :: r => c ++ childBytes r
  | _ :: r => childBytes r

def readText (l : List LogEv) : List Nat := ((writesOf l).map (·.2)).flatten

theorem writesOf_append (a b : List LogEv) : writesOf (a ++ b) = writesOf a ++ writesOf b := by
  induction a with
  | nil => rfl
  | cons x t iht => cases x <;> simp [writesOf, iht]

theorem readText_append (a b : List LogEv) : readText (a ++ b) = readText a ++ readText b := by
  simp [readText, writesOf_append]

/-- one step: what `logfile_read` gains is the decoding of the child bytes of that step by the state the decoder was in -/
theorem step2_logRead (dec : IncDecoder σd Nat) (enc : IncEncoder σe) (cfg : Cfg) (st : St σd σe) (o : Op2) :
    readText (step2 dec enc cfg st o).logRead = readText st.logRead ++ (dec.feed st.dec (childBytes [o])).2 ∧
    (step2 dec enc cfg st o).dec = (dec.feed st.dec (childBytes [o])).1 := by
  cases o with
  | iread c =>
    simp only [step2, interactRead, childBytes, List.append_nil]
    have hl := logBoth_logs ({ st with dec := (dec.feed st.dec c).1 } : St σd σe) .read (dec.feed st.dec c).2
    have hf := logBoth_fields ({ st with dec := (dec.feed st.dec c).1 } : St σd σe) .read (dec.feed st.dec c).2
    rw [hl.2.1, hf.1, readText_append]
    simp [readText, writesOf]
  | op o =>
    cases o with
    | read c =>
      simp only [step2, step, childBytes, List.append_nil]
      have hl := logBoth_logs ({ st with dec := (dec.feed st.dec c).1, delivered := st.delivered ++ [(dec.feed st.dec c).2] } : St σd σe) .read (dec.feed st.dec c).2
      have hf := logBoth_fields ({ st with dec := (dec.feed st.dec c).1, delivered := st.delivered ++ [(dec.feed st.dec c).2] } : St σd σe) .read (dec.feed st.dec c).2
      rw [hl.2.1, hf.1, readText_append]
      simp [readText, writesOf]
    | send s => simp only [step2, step, childBytes, dec.nil]; rw [(doSend_logs enc st s).2.1, (doSend_dec enc st s).1]; simp
    | sendline s => simp only [step2, step, childBytes, dec.nil]; rw [(doSend_logs enc st _).2.1, (doSend_dec enc st _).1]; simp
    | writelines ss => simp only [step2, step, childBytes, dec.nil]; rw [(foldl_doSend_logs enc ss st).2.1, (foldl_doSend_dec enc ss st).1]; simp
    | sendcontrol c => simp only [step2, step, childBytes, dec.nil]; rw [(doControl_logs st _).2.1, (doControl_dec st _).1]; simp
    | sendeof => simp only [step2, step, childBytes, dec.nil]; rw [(doControl_logs st _).2.1, (doControl_dec st _).1]; simp
    | sendintr => simp only [step2, step, childBytes, dec.nil]; rw [(doControl_logs st _).2.1, (doControl_dec st _).1]; simp

theorem childBytes_cons (o : Op2) (r : List Op2) : childBytes (o :: r) = childBytes [o] ++ childBytes r := by
  cases o with
  | iread c => simp [childBytes]
  | op o => cases o <;> simp [childBytes]

/-- **hand-over**: over any history of expect()-side reads, sends and interact() copies, the text `logfile_read` holds is the
    decoding of the child's whole byte stream by one decoder — wherever reads, and the switch between expect() and
    interact(), cut it -/
theorem logRead_decodes_whole_stream (dec : IncDecoder σd Nat) (enc : IncEncoder σe) (cfg : Cfg) (ops : List Op2) (st : St σd σe) :
    readText (run2 dec enc cfg st ops).logRead = readText st.logRead ++ (dec.feed st.dec (childBytes ops)).2 ∧
    (run2 dec enc cfg st ops).dec = (dec.feed st.dec (childBytes ops)).1 := by
  induction ops generalizing st with
  | nil => simp [run2, childBytes, dec.nil]
  | cons o r ih =>
    have h1 := step2_logRead dec enc cfg st o
    have ih' := ih (step2 dec enc cfg st o)
    simp only [run2, List.foldl_cons] at ih' ⊢
    rw [childBytes_cons o r, dec.law, ih'.1, ih'.2, h1.1, h1.2]
    simp

end Sess
