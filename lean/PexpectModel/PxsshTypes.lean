/-! types shared by the generated pxssh table and the hand-written interpreter -/
namespace Px

inductive PatName | hostkey | origPrompt | passwordRe | denied | termType | timeout | connClosed | eof
deriving DecidableEq, Repr
/-- what login() can send in its first phase -/
inductive What | yes | password | termType deriving DecidableEq, Repr
/-- a second-phase branch: go on, `close(); raise ExceptionPxssh`, or a raise that forgets to close -/
inductive Verdict | pass | closeRaise | raiseOnly deriving DecidableEq, Repr
inductive Post | sync | reset deriving DecidableEq, Repr
inductive Shell | sh | csh | zsh deriving DecidableEq, Repr

structure Table where
  initArr : List PatName          -- session_init_regex_array
  arr : List PatName              -- session_regex_array
  first : List (Nat × What)       -- `if i==K: sendline(X); i = expect(arr)` in source order
  failIdx : Nat                   -- `if i==K: close(); raise` that ends the first phase
  failCloses : Bool
  second : List (Nat × Verdict)   -- the if/elif chain
  secondElse : Verdict
  post : List Post                -- guarded checks before `return True`, in source order
  ladder : List Shell             -- set_unique_prompt: syntaxes tried in order
deriving Repr

end Px
