import PexpectModel.Split
/-! `utils.which` over an abstract file system and `spawn._spawn`'s argument plumbing (C13). -/
namespace Launch

/-- what `which` can observe of the file system and of path syntax -/
structure FS (D F P : Type) where
  join : D → F → P              -- os.path.join(dir, filename)
  asPath : F → P                -- the filename itself used as a path
  hasDirname : F → Bool         -- os.path.dirname(filename) != ''
  isExec : P → Bool             -- is_executable_file
  splitPath : List Char → List D   -- p.split(os.pathsep)

variable {D F P : Type}

/-- `p = env.get('PATH'); if not p: p = os.defpath` -/
def effectivePath (envPath : Option (List Char)) (defpath : List Char) : List Char :=
  match envPath with
  | some (c :: t) => c :: t
  | _ => defpath

def firstExec (fs : FS D F P) (f : F) : List D → Option P
  | [] => none
  | d :: t => if fs.isExec (fs.join d f) then some (fs.join d f) else firstExec fs f t

/-- `which(filename, env)`; `env = none` means `os.environ` -/
def which (fs : FS D F P) (f : F) (env : Option (Option (List Char))) (osEnvPath : Option (List Char))
    (defpath : List Char) : Option P :=
  if fs.hasDirname f && fs.isExec (fs.asPath f) then some (fs.asPath f)
  else
    let envPath := match env with | some e => e | none => osEnvPath
    firstExec fs f (fs.splitPath (effectivePath envPath defpath))

theorem firstExec_some (fs : FS D F P) (f : F) (dirs : List D) (p : P) (h : firstExec fs f dirs = some p) :
    ∃ pre d post, dirs = pre ++ d :: post ∧ p = fs.join d f ∧ fs.isExec p = true ∧
      ∀ d' ∈ pre, fs.isExec (fs.join d' f) = false := by
  induction dirs with
  | nil => simp [firstExec] at h
  | cons d t ih =>
    simp only [firstExec] at h
    by_cases hd : fs.isExec (fs.join d f) = true
    · rw [if_pos hd] at h
      cases h
      exact ⟨[], d, t, rfl, rfl, hd, by simp⟩
    · rw [if_neg hd] at h
      obtain ⟨pre, d', post, rfl, h2, h3, h4⟩ := ih h
      refine ⟨d :: pre, d', post, rfl, h2, h3, ?_⟩
      intro x hx
      simp only [List.mem_cons] at hx
      rcases hx with rfl | hx
      · simpa using hd
      · exact h4 x hx

theorem firstExec_none (fs : FS D F P) (f : F) (dirs : List D) (h : firstExec fs f dirs = none) :
    ∀ d ∈ dirs, fs.isExec (fs.join d f) = false := by
  induction dirs with
  | nil => simp
  | cons d t ih =>
    simp only [firstExec] at h
    by_cases hd : fs.isExec (fs.join d f) = true
    · rw [if_pos hd] at h; cases h
    · rw [if_neg hd] at h
      intro x hx
      simp only [List.mem_cons] at hx
      rcases hx with rfl | hx
      · simpa using hd
      · exact ih h x hx

/-- argv as `_spawn` builds it: `args == []` → the command line is split and `argv[0]` replaced by the
    resolved executable; otherwise `command :: args` with `argv[0]` resolved -/
def argv {α : Type} (cls : α → SplitGen.Cls) (command : List α) (args : List (List α)) (resolved : List α) :
    List (List α) :=
  match args with
  | [] => resolved :: (Split.split cls command).tail
  | a :: t => resolved :: a :: t

end Launch
