import PexpectModel.ExSearchers
/-! Call level for every searcher / window combination, then whole call histories:
    the real procedure refines the naive one (C03) and the naive one conserves the stream (C01). -/
namespace Ex
open Py
variable {α : Type} [DecidableEq α]

/-! ### `Inv` is preserved by everything -/

theorem doSearch_inv (sr : Searcher α) (W : Nat) (st : St α) (window : List α) (f : Nat)
    (hI : Inv st) (hw : window <:+ st.B) : Inv (doSearch sr W st window f).1 := by
  unfold doSearch
  split
  · exact List.suffix_refl _
  · simp only []
    generalize (if W ≠ 0 then W else sr.lookback) = m
    by_cases hc : m ≠ 0 ∧ st.S.length > m
    · rw [if_pos hc]; exact (lastN_suffix _ _).trans hw
    · rw [if_neg hc]; exact hI

theorem doSearch_of_none (sr : Searcher α) (W : Nat) (st : St α) (window : List α) (f : Nat)
    (h : sr.search window (min f window.length) W = none) :
    ∃ st2, doSearch sr W st window f = (st2, .miss) := by
  unfold doSearch
  rw [h]
  simp only []
  generalize (if W ≠ 0 then W else sr.lookback) = m
  by_cases hc : m ≠ 0 ∧ st.S.length > m
  · rw [if_pos hc]; exact ⟨_, rfl⟩
  · rw [if_neg hc]; exact ⟨_, rfl⟩

theorem doSearch_of_some (sr : Searcher α) (W : Nat) (st : St α) (window : List α) (f : Nat) (sp : Span)
    (h : sr.search window (min f window.length) W = some sp) :
    doSearch sr W st window f = ({ B := window.drop sp.stop, S := window.drop sp.stop },
       .hit sp.idx (st.B.take (st.B.length - (window.length - sp.start))) ((window.take sp.stop).drop sp.start)) := by
  unfold doSearch
  rw [h]

theorem nsearch_of_some (sr : Searcher α) (W : Nat) (B : List α) (sp : Span)
    (h : sr.search (win W B) (win W B).length W = some sp) :
    nsearch sr W B = some (sp.idx, B.take (B.length - ((win W B).length - sp.start)),
      ((win W B).take sp.stop).drop sp.start, (win W B).drop sp.stop) := by
  unfold nsearch
  simp only [h]

theorem nsearch_of_none (sr : Searcher α) (W : Nat) (B : List α)
    (h : sr.search (win W B) (win W B).length W = none) : nsearch sr W B = none := by
  unfold nsearch
  simp only [h]

theorem append_suffix_append {S B : List α} (d : List α) (h : S <:+ B) : S ++ d <:+ B ++ d := by
  obtain ⟨pre, hpre⟩ := h; exact ⟨pre, by simp [← hpre]⟩

theorem newData_inv (sr : Searcher α) (W : Nat) (st : St α) (d : List α) (hI : Inv st) :
    Inv (newData sr W st d).1 := by
  unfold newData
  simp only
  split
  · split
    · apply doSearch_inv
      · exact append_suffix_append d hI
      · exact (List.drop_suffix _ _).trans (append_suffix_append d hI)
    · apply doSearch_inv
      · exact append_suffix_append d hI
      · exact append_suffix_append d hI
  · split
    · apply doSearch_inv
      · exact (lastN_suffix _ _).trans (List.suffix_append _ _)
      · exact (lastN_suffix _ _).trans (List.suffix_append _ _)
    · apply doSearch_inv
      · exact append_suffix_append d hI
      · exact (List.drop_suffix _ _).trans (append_suffix_append d hI)

theorem existingData_inv (sr : Searcher α) (W : Nat) (st : St α) (hI : Inv st) :
    Inv (existingData sr W st).1 := by
  obtain ⟨st1, hB, hI1, -, -, heq⟩ := existingData_spec sr W st hI
  rw [heq]
  exact doSearch_inv sr W st1 _ _ hI1 (by rw [hB]; exact win_suffix W st.B)

theorem loop_inv (sr : Searcher α) (W : Nat) (evs : List (Ev α)) (st : St α) (hI : Inv st) :
    Inv (loop sr W st evs).2.1 := by
  induction evs generalizing st with
  | nil => exact hI
  | cons e r ih =>
    cases e with
    | eofExc => exact List.suffix_refl _
    | timeoutExc => exact hI
    | expired => exact hI
    | data d =>
      simp only [loop]
      have := newData_inv sr W st d hI
      rcases hnd : newData sr W st d with ⟨st', r'⟩
      rw [hnd] at this
      cases r' with
      | hit i b a => exact this
      | miss => exact ih st' this

theorem call_inv (sr : Searcher α) (W : Nat) (evs : List (Ev α)) (st : St α) (hI : Inv st) :
    Inv (call sr W st evs).2.1 := by
  unfold call
  have := existingData_inv sr W st hI
  rcases hed : existingData sr W st with ⟨st', r'⟩
  rw [hed] at this
  cases r' with
  | hit i b a => exact this
  | miss => exact loop_inv sr W evs st' this

/-! ### the exact searcher without a window, from the start of a call -/

def longest (strings : List (Nat × List α)) : Nat := strings.foldl (fun m p => max m p.2.length) 0

theorem le_longest (strings : List (Nat × List α)) : ∀ p ∈ strings, p.2.length ≤ longest strings := by
  unfold longest
  have gen : ∀ (l : List (Nat × List α)) (m : Nat),
      m ≤ l.foldl (fun m p => max m p.2.length) m ∧
      ∀ p ∈ l, p.2.length ≤ l.foldl (fun m p => max m p.2.length) m := by
    intro l
    induction l with
    | nil => intro m; simp
    | cons q t ih =>
      intro m
      simp only [List.foldl_cons]
      obtain ⟨h1, h2⟩ := ih (max m q.2.length)
      refine ⟨by omega, ?_⟩
      intro p hp
      simp only [List.mem_cons] at hp
      rcases hp with rfl | hp
      · omega
      · exact h2 p hp
  exact (gen strings 0).2

/-- `searcher_string(strings)` as the Expecter sees it (`lookback = longest_string`) -/
def exactOf (strings : List (Nat × List α)) : Searcher α := exactSr strings (longest strings)

theorem existingData_exact (strings : List (Nat × List α)) (L : Nat) (hL0 : L ≠ 0) (st : St α) (hI : Inv st) :
    (∀ i b a rest, nsearch (exactSr strings L) 0 st.B = some (i, b, a, rest) →
        existingData (exactSr strings L) 0 st = ({ B := rest, S := rest }, .hit i b a)) ∧
    (nsearch (exactSr strings L) 0 st.B = none →
        ∃ st2, existingData (exactSr strings L) 0 st = (st2, .miss) ∧ st2.B = st.B ∧ GoodX strings L st2) := by
  obtain ⟨st1, hB1, hI1, -, hS1, heq⟩ := existingData_spec (exactSr strings L) 0 st hI
  have hS1 := hS1 rfl
  have hwin : win 0 st.B = st.B := by simp [win]
  rw [heq, hwin]
  have hmin : min st.B.length st.B.length = st.B.length := Nat.min_self _
  cases hs : (exactSr strings L).search st.B st.B.length 0 with
  | some sp =>
    have hn := nsearch_of_some (exactSr strings L) 0 st.B sp (by rw [hwin]; exact hs)
    rw [hwin] at hn
    constructor
    · intro i b a rest hn'
      rw [hn] at hn'
      simp only [Option.some.injEq, Prod.mk.injEq] at hn'
      obtain ⟨rfl, rfl, rfl, rfl⟩ := hn'
      rw [doSearch_of_some _ _ _ _ _ sp (by rw [hmin]; exact hs), hB1]
    · intro hn'; rw [hn] at hn'; cases hn'
  | none =>
    have hn := nsearch_of_none (exactSr strings L) 0 st.B (by rw [hwin]; exact hs)
    constructor
    · intro i b a rest hn'; rw [hn] at hn'; cases hn'
    · intro _
      have hT : searchString strings st.B st.B.length 0 = none := hs
      obtain ⟨st2, h2⟩ := doSearch_of_none (exactSr strings L) 0 st1 st.B st.B.length (by rw [hmin]; exact hs)
      refine ⟨st2, h2, ?_⟩
      obtain ⟨hB2, hI2, hm, _⟩ := doSearch_miss_inv (exactSr strings L) 0 st1 st2 st.B st.B.length hI1
        (by rw [hB1]; exact List.suffix_refl _) h2
      refine ⟨by rw [hB2, hB1], hI2, ?_, ?_⟩
      · have := hm (by simp [exactSr, hL0])
        simp only [exactSr, show (if (0:Nat) ≠ 0 then 0 else L) = L from by simp] at this
        rw [hB2, hB1]; rw [hS1] at this; omega
      · rw [hB2, hB1]; exact searchString_none_noOcc strings _ hT

/-- C03 at call level for the exact searcher with no window and a non-empty longest string -/
theorem callX_eq_ncall (strings : List (Nat × List α)) (L : Nat) (hL0 : L ≠ 0)
    (hL : ∀ p ∈ strings, p.2.length ≤ L) (evs : List (Ev α)) (st : St α) (hI : Inv st) :
    (call (exactSr strings L) 0 st evs).1 = (ncall (exactSr strings L) 0 st.B evs).1 ∧
    (call (exactSr strings L) 0 st evs).2.1.B = (ncall (exactSr strings L) 0 st.B evs).2.1 ∧
    (call (exactSr strings L) 0 st evs).2.2 = (ncall (exactSr strings L) 0 st.B evs).2.2 := by
  obtain ⟨hhit, hmiss⟩ := existingData_exact strings L hL0 st hI
  unfold call ncall
  cases hn : nsearch (exactSr strings L) 0 st.B with
  | some t =>
    obtain ⟨i, b, a, rest⟩ := t
    rw [hhit i b a rest hn]
    simp
  | none =>
    obtain ⟨st2, h2, hB2, hG2⟩ := hmiss hn
    rw [h2]
    simp only []
    have := loopX_eq_nloop strings L hL0 hL evs st2 hG2
    rw [hB2] at this
    exact this

/-- with `longest_string = 0` every listed string is empty, so a non-empty list hits at once -/
theorem searchString_empty_hits (strings : List (Nat × List α)) (hne : strings ≠ [])
    (hL : ∀ p ∈ strings, p.2.length ≤ 0) (T : List α) :
    searchString strings T T.length 0 ≠ none := by
  intro h
  have hno := searchString_none_noOcc strings T h
  cases strings with
  | nil => exact hne rfl
  | cons p t =>
    have hp : p.2 = [] := List.eq_nil_of_length_eq_zero (Nat.le_zero.mp (hL p (by simp)))
    apply hno p (by simp) 0
    rw [hp]
    exact ⟨Nat.zero_le _, List.nil_prefix⟩

theorem exactSr_nil_freshIndep (L W : Nat) : FreshIndep (exactSr ([] : List (Nat × List α)) L) W := by
  intro w f f'; rfl

/-- **C03 at call level, exact searcher, every window setting** -/
theorem callExact_eq_ncall (strings : List (Nat × List α)) (W : Nat) (evs : List (Ev α)) (st : St α)
    (hI : Inv st) :
    (call (exactOf strings) W st evs).1 = (ncall (exactOf strings) W st.B evs).1 ∧
    (call (exactOf strings) W st evs).2.1.B = (ncall (exactOf strings) W st.B evs).2.1 ∧
    (call (exactOf strings) W st evs).2.2 = (ncall (exactOf strings) W st.B evs).2.2 := by
  by_cases hW : W = 0
  · subst hW
    by_cases hL0 : longest strings = 0
    · -- all strings empty
      by_cases hne : strings = []
      · subst hne
        exact call_eq_ncall _ 0 (exactSr_nil_freshIndep _ 0) (fun _ => by simp [exactOf, exactSr, longest]) evs st hI
      · -- existing_data hits immediately, in both procedures
        have hL : ∀ p ∈ strings, p.2.length ≤ 0 := by
          intro p hp; have := le_longest strings p hp; omega
        obtain ⟨st1, hB1, hI1, -, hS1, heq⟩ := existingData_spec (exactOf strings) 0 st hI
        have hwin : win 0 st.B = st.B := by simp [win]
        have hmin : min st.B.length st.B.length = st.B.length := Nat.min_self _
        have hne' := searchString_empty_hits strings hne hL st.B
        cases hs : searchString strings st.B st.B.length 0 with
        | none => exact absurd hs hne'
        | some sp =>
          have hs' : (exactOf strings).search st.B st.B.length 0 = some sp := hs
          have hn := nsearch_of_some (exactOf strings) 0 st.B sp (by rw [hwin]; exact hs')
          rw [hwin] at hn
          unfold call ncall
          rw [heq, hwin, hn, doSearch_of_some _ _ _ _ _ sp (by rw [hmin]; exact hs'), hB1]
          simp
    · exact callX_eq_ncall strings (longest strings) hL0 (le_longest strings) evs st hI
  · exact call_eq_ncall _ W (exactSr_freshIndep strings _ W hW) (fun h => absurd h hW) evs st hI

/-- **C03 at call level, regex searcher, every window setting** -/
theorem callRe_eq_ncall (res : List (Nat × ReFn α)) (W : Nat) (evs : List (Ev α)) (st : St α) (hI : Inv st) :
    (call (reSr res) W st evs).1 = (ncall (reSr res) W st.B evs).1 ∧
    (call (reSr res) W st evs).2.1.B = (ncall (reSr res) W st.B evs).2.1 ∧
    (call (reSr res) W st evs).2.2 = (ncall (reSr res) W st.B evs).2.2 :=
  call_eq_ncall _ W (reSr_freshIndep res W) (fun _ => rfl) evs st hI

/-! ### histories -/

inductive Kind (α : Type) where
  | re (res : List (Nat × ReFn α))
  | exact (strings : List (Nat × List α))

def Kind.sr : Kind α → Searcher α
  | .re res => reSr res
  | .exact strings => exactOf strings

def Kind.WF : Kind α → Prop
  | .re res => ∀ p ∈ res, p.2.WF
  | .exact _ => True

theorem Kind.sr_wf (k : Kind α) (h : k.WF) : k.sr.WF := by
  cases k with
  | re res => exact reSr_wf res h
  | exact strings => exact exactSr_wf strings _

/-- one operation on a spawn object: an expect-family call (with its own searcher and window, so the
    pattern list and `searchwindowsize` may change from call to call) or an assignment to `buffer` -/
inductive Op (α : Type) where
  | call (k : Kind α) (W : Nat)
  | setBuffer (v : List α)

/-- `spawn.buffer = v` (repaired: both buffers are replaced) -/
def setBuffer (v : List α) : St α := { B := v, S := v }

/-- run a history against one global stream of transport events; each call consumes a prefix -/
def runOps : St α → List (Op α) → List (Ev α) → List (Out α) × St α × List (Ev α)
  | st, [], evs => ([], st, evs)
  | st, .call k W :: ops, evs =>
      let (o, st', evs') := call k.sr W st evs
      let (os, st'', evs'') := runOps st' ops evs'
      (o :: os, st'', evs'')
  | _, .setBuffer v :: ops, evs => runOps (setBuffer v) ops evs

/-- the same history under the naive procedure: state is just the pending text -/
def nrunOps : List α → List (Op α) → List (Ev α) → List (Out α) × List α × List (Ev α)
  | B, [], evs => ([], B, evs)
  | B, .call k W :: ops, evs =>
      let (o, B', evs') := ncall k.sr W B evs
      let (os, B'', evs'') := nrunOps B' ops evs'
      (o :: os, B'', evs'')
  | _, .setBuffer v :: ops, evs => nrunOps v ops evs

theorem callKind_eq_ncall (k : Kind α) (W : Nat) (evs : List (Ev α)) (st : St α) (hI : Inv st) :
    (call k.sr W st evs).1 = (ncall k.sr W st.B evs).1 ∧
    (call k.sr W st evs).2.1.B = (ncall k.sr W st.B evs).2.1 ∧
    (call k.sr W st evs).2.2 = (ncall k.sr W st.B evs).2.2 := by
  cases k with
  | re res => exact callRe_eq_ncall res W evs st hI
  | exact strings => exact callExact_eq_ncall strings W evs st hI

/-- **history_eq_naive** (C03): for every history — any searcher kind and window per call, any events
    (chunking, empty reads, EOF, TIMEOUT, expiry anywhere), buffer assignments in between — the real
    procedure reports the same outcomes, leaves the same pending text and consumes the same events as
    the naive "search all pending text (or its last W characters) after every read". -/
theorem history_eq_naive (ops : List (Op α)) (evs : List (Ev α)) (st : St α) (hI : Inv st) :
    (runOps st ops evs).1 = (nrunOps st.B ops evs).1 ∧
    (runOps st ops evs).2.1.B = (nrunOps st.B ops evs).2.1 ∧
    (runOps st ops evs).2.2 = (nrunOps st.B ops evs).2.2 ∧
    Inv (runOps st ops evs).2.1 := by
  induction ops generalizing st evs with
  | nil => exact ⟨rfl, rfl, rfl, hI⟩
  | cons op ops ih =>
    cases op with
    | setBuffer v =>
      simp only [runOps, nrunOps]
      exact ih evs (setBuffer v) (List.suffix_refl _)
    | call k W =>
      obtain ⟨h1, h2, h3⟩ := callKind_eq_ncall k W evs st hI
      have hI' := call_inv k.sr W evs st hI
      simp only [runOps, nrunOps]
      rcases hc : call k.sr W st evs with ⟨o, st', evs'⟩
      rcases hn : ncall k.sr W st.B evs with ⟨o2, B', evs2⟩
      rw [hc] at h1 h2 h3 hI'
      rw [hn] at h1 h2 h3
      simp only at h1 h2 h3 hI'
      subst h1 h3
      obtain ⟨i1, i2, i3, i4⟩ := ih evs' st' hI'
      rw [h2] at i1 i2 i3
      simp only []
      exact ⟨by rw [i1], i2, i3, i4⟩

/-! ### conservation of the naive procedure -/

theorem ncall_conserve (sr : Searcher α) (hwf : sr.WF) (W : Nat) (evs : List (Ev α)) (B : List α) :
    ∃ used, evs = used ++ (ncall sr W B evs).2.2 ∧
      B ++ dataOf used = handed (ncall sr W B evs).1 ++ (ncall sr W B evs).2.1 ∧
      (∀ b, (ncall sr W B evs).1 = .timeout b → b = (ncall sr W B evs).2.1 ∧ b = B ++ dataOf used) ∧
      (∀ b, (ncall sr W B evs).1 = .eof b → (ncall sr W B evs).2.1 = [] ∧ b = B ++ dataOf used) := by
  unfold ncall
  cases hn : nsearch sr W B with
  | some t =>
    obtain ⟨i, b, a, rest⟩ := t
    refine ⟨[], by simp, ?_, by simp, by simp⟩
    simp [dataOf, handed, nsearch_conserve sr hwf W B i b a rest hn]
  | none =>
    obtain ⟨used, h1, h2, h3, h4⟩ := nloop_conserve sr hwf W evs B
    refine ⟨used, h1, h2, ?_, ?_⟩
    · intro b hb
      have := h3 b hb
      refine ⟨this, ?_⟩
      rw [hb] at h2; simp only [handed, List.nil_append] at h2
      rw [this, ← h2]
    · intro b hb
      have := h4 b hb
      refine ⟨this, ?_⟩
      rw [hb, this] at h2; simp only [handed, List.append_nil] at h2
      exact h2.symm

def handedAll : List (Out α) → List α
  | [] => []
  | o :: os => handed o ++ handedAll os

def Op.WF : Op α → Prop
  | .call k _ => k.WF
  | .setBuffer _ => True

def Op.isCall : Op α → Bool
  | .call _ _ => true
  | .setBuffer _ => false

/-- conservation over a whole history of calls for the naive procedure -/
theorem nrunOps_conserve (ops : List (Op α)) (hwf : ∀ op ∈ ops, op.WF) (hcalls : ∀ op ∈ ops, op.isCall = true)
    (evs : List (Ev α)) (B : List α) :
    ∃ used, evs = used ++ (nrunOps B ops evs).2.2 ∧
      B ++ dataOf used = handedAll (nrunOps B ops evs).1 ++ (nrunOps B ops evs).2.1 := by
  induction ops generalizing B evs with
  | nil => exact ⟨[], by simp [nrunOps], by simp [nrunOps, dataOf, handedAll]⟩
  | cons op ops ih =>
    cases op with
    | setBuffer v => have := hcalls (.setBuffer v) (by simp); simp [Op.isCall] at this
    | call k W =>
      have hk : k.WF := hwf (.call k W) (by simp)
      obtain ⟨u1, e1, c1, -, -⟩ := ncall_conserve k.sr (k.sr_wf hk) W evs B
      simp only [nrunOps]
      rcases hn : ncall k.sr W B evs with ⟨o, B', evs'⟩
      rw [hn] at e1 c1
      simp only at e1 c1
      obtain ⟨u2, e2, c2⟩ := ih (fun op h => hwf op (by simp [h])) (fun op h => hcalls op (by simp [h])) evs' B'
      refine ⟨u1 ++ u2, ?_, ?_⟩
      · simp only []; rw [List.append_assoc, ← e2]; exact e1
      · simp only [handedAll]
        have hd : dataOf (u1 ++ u2) = dataOf u1 ++ dataOf u2 := by
          clear e1 c1 e2 c2
          induction u1 with
          | nil => rfl
          | cons e r ihr => cases e <;> simp [dataOf, ihr]
        rw [hd, ← List.append_assoc, c1, List.append_assoc, c2, List.append_assoc]

/-- **history_conserves** (C01): for every history of expect-family calls on a fresh or arbitrary
    consistent state, over any event stream: (text handed back by the calls, in call order) ++ (what is
    still pending) = (what was pending at the start) ++ (all data read so far). -/
theorem history_conserves (ops : List (Op α)) (hwf : ∀ op ∈ ops, op.WF) (hcalls : ∀ op ∈ ops, op.isCall = true)
    (evs : List (Ev α)) (st : St α) (hI : Inv st) :
    ∃ used, evs = used ++ (runOps st ops evs).2.2 ∧
      st.B ++ dataOf used = handedAll (runOps st ops evs).1 ++ (runOps st ops evs).2.1.B := by
  obtain ⟨h1, h2, h3, -⟩ := history_eq_naive ops evs st hI
  rw [h1, h2, h3]
  exact nrunOps_conserve ops hwf hcalls evs st.B

/-- a history is conserved piecewise around buffer assignments: an assignment replaces the pending
    text, and what follows behaves exactly like a fresh history started on the assigned value -/
theorem setBuffer_replaces (v : List α) (ops : List (Op α)) (evs : List (Ev α)) (st : St α) :
    runOps st (.setBuffer v :: ops) evs = runOps (setBuffer v) ops evs ∧
    (setBuffer v : St α).B = v ∧ Inv (setBuffer v : St α) :=
  ⟨rfl, rfl, List.suffix_refl _⟩

/-- a call that ends in TIMEOUT hands nothing back: its `before` is all the pending text, which stays
    pending, and equals the old pending text plus exactly the data read during the call -/
theorem timeout_consumes_nothing (k : Kind α) (hk : k.WF) (W : Nat) (evs : List (Ev α)) (st : St α) (hI : Inv st)
    (b : List α) (h : (call k.sr W st evs).1 = .timeout b) :
    ∃ used, evs = used ++ (call k.sr W st evs).2.2 ∧
      (call k.sr W st evs).2.1.B = b ∧ b = st.B ++ dataOf used := by
  obtain ⟨h1, h2, h3⟩ := callKind_eq_ncall k W evs st hI
  obtain ⟨used, e1, -, ht, -⟩ := ncall_conserve k.sr (k.sr_wf hk) W evs st.B
  rw [h1] at h
  obtain ⟨hb1, hb2⟩ := ht b h
  exact ⟨used, by rw [h3]; exact e1, by rw [h2]; exact hb1.symm, hb2⟩

/-- a call that ends in EOF hands back all pending text in `before` and leaves nothing pending -/
theorem eof_hands_back_all (k : Kind α) (hk : k.WF) (W : Nat) (evs : List (Ev α)) (st : St α) (hI : Inv st)
    (b : List α) (h : (call k.sr W st evs).1 = .eof b) :
    ∃ used, evs = used ++ (call k.sr W st evs).2.2 ∧
      (call k.sr W st evs).2.1.B = [] ∧ b = st.B ++ dataOf used := by
  obtain ⟨h1, h2, h3⟩ := callKind_eq_ncall k W evs st hI
  obtain ⟨used, e1, -, -, he⟩ := ncall_conserve k.sr (k.sr_wf hk) W evs st.B
  rw [h1] at h
  obtain ⟨hb1, hb2⟩ := he b h
  exact ⟨used, by rw [h3]; exact e1, by rw [h2]; exact hb1, hb2⟩

end Ex
