import PexpectModel.AnsiOK
/-! scratch: the parser half of the ANSI emulator over the generated table:
    totality (no pop from an empty stack, numbers are digit strings) and "no residue in INIT" -/
namespace AnsiOK
open AnsiGen

/-- exact > any > default, as FSM.get_transition -/
def lookup (c : Nat) (s : S) : A × S :=
  match explicit.find? (fun (c', s', _, _) => c' == c && s' == s) with
  | some (_, _, a, s') => (a, s')
  | none =>
    match anyT.find? (fun (s', _, _) => s' == s) with
    | some (_, a, s') => (a, s')
    | none => dflt

abbrev Stack := List (List Nat)     -- numeric parameters being collected, as digit strings

/-- `none` = the Python action would raise (IndexError on pop, ValueError in int()) -/
def stepStack (e : Eff) (c : Nat) (st : Stack) : Option Stack :=
  match e with
  | .keep => some st
  | .push => if isDigit c then some (st ++ [[c]]) else none
  | .build => match st.getLast? with
              | some top => if isDigit c then some (st.dropLast ++ [top ++ [c]]) else none
              | none => none
  | .pop k => if k ≤ st.length then some (st.take (st.length - k)) else none
  | .reset => some []

def sat : Depth → Nat → Prop
  | .exact n, m => m = n
  | .atLeast n, m => n ≤ m

def Digits (st : Stack) : Prop := ∀ x ∈ st, x ≠ [] ∧ ∀ d ∈ x, isDigit d = true

/-- soundness of the decidable check `fits` (this is what makes `TableOK` mean something) -/
theorem fits_sound (d d' : Depth) (e : Eff) (c : Nat) (st : Stack)
    (hf : fits d e d' = true) (hd : (e = .push ∨ e = .build) → isDigit c = true)
    (hs : sat d st.length) (hdig : Digits st) :
    ∃ st', stepStack e c st = some st' ∧ sat d' st'.length ∧ Digits st' := by
  cases e with
  | keep =>
    refine ⟨st, rfl, ?_, hdig⟩
    cases d <;> cases d' <;> simp_all [fits, sat] <;> omega
  | reset =>
    refine ⟨[], rfl, ?_, by intro x hx; cases hx⟩
    cases d' with
    | exact n => cases n <;> simp_all [fits, sat]
    | atLeast n => cases n <;> simp_all [fits, sat]
  | push =>
    have hc := hd (Or.inl rfl)
    refine ⟨st ++ [[c]], by simp [stepStack, hc], ?_, ?_⟩
    · cases d <;> cases d' <;> simp_all [fits, sat] <;> omega
    · intro x hx
      simp only [List.mem_append, List.mem_singleton] at hx
      rcases hx with hx | rfl
      · exact hdig x hx
      · exact ⟨by simp, by intro d hd'; simp at hd'; subst hd'; exact hc⟩
  | build =>
    have hc := hd (Or.inr rfl)
    have hne : st ≠ [] := by
      intro h; subst h
      cases d <;> cases d' <;> simp [fits, sat] at hf hs <;> omega
    obtain ⟨top, htop⟩ : ∃ top, st.getLast? = some top := by
      cases h : st.getLast? with
      | none => exact absurd (List.getLast?_eq_none_iff.mp h) hne
      | some t => exact ⟨t, rfl⟩
    refine ⟨st.dropLast ++ [top ++ [c]], by simp [stepStack, htop, hc], ?_, ?_⟩
    · have hl : (st.dropLast ++ [top ++ [c]]).length = st.length := by
        simp only [List.length_append, List.length_dropLast, List.length_singleton]
        have : 0 < st.length := List.length_pos_iff.mpr hne
        omega
      rw [hl]
      cases d <;> cases d' <;> simp_all [fits, sat] <;> omega
    · intro x hx
      simp only [List.mem_append, List.mem_singleton] at hx
      rcases hx with hx | rfl
      · exact hdig x (List.dropLast_subset st hx)
      · have htm : top ∈ st := List.mem_of_getLast? htop
        refine ⟨by simp, ?_⟩
        intro d hd'
        simp only [List.mem_append, List.mem_singleton] at hd'
        rcases hd' with hd' | rfl
        · exact (hdig top htm).2 d hd'
        · exact hc
  | pop k =>
    have hk : k ≤ st.length := by
      cases d <;> cases d' <;> simp_all [fits, sat] <;> omega
    refine ⟨st.take (st.length - k), by simp [stepStack, hk], ?_, ?_⟩
    · simp only [List.length_take]
      cases d <;> cases d' <;> simp_all [fits, sat] <;> omega
    · intro x hx; exact hdig x (List.mem_of_mem_take hx)

end AnsiOK

namespace AnsiOK
open AnsiGen

theorem lookup_ok (c : Nat) (s : S) :
    fits (depth s) (eff (lookup c s).1) (depth (lookup c s).2) = true ∧
    ((eff (lookup c s).1 = .push ∨ eff (lookup c s).1 = .build) → isDigit c = true) := by
  have hT := tableOK
  unfold TableOK at hT
  simp only [Bool.and_eq_true, List.all_eq_true] at hT
  obtain ⟨⟨hE, hA⟩, hD⟩ := hT
  unfold lookup
  cases h1 : explicit.find? (fun (c', s', _, _) => c' == c && s' == s) with
  | some t =>
    obtain ⟨c', s', a, s''⟩ := t
    have hm := List.mem_of_find?_eq_some h1
    have hp := List.find?_some h1
    simp only [Bool.and_eq_true, beq_iff_eq] at hp
    obtain ⟨rfl, rfl⟩ := hp
    have := hE _ hm
    simp only [Bool.and_eq_true, Bool.or_eq_true, bne_iff_ne, ne_eq] at this
    refine ⟨this.1, ?_⟩
    intro hpb
    rcases this.2 with h | h
    · rcases hpb with h' | h' <;> simp_all
    · exact h
  | none =>
    simp only
    cases h2 : anyT.find? (fun (s', _, _) => s' == s) with
    | some t =>
      obtain ⟨s', a, s''⟩ := t
      have hm := List.mem_of_find?_eq_some h2
      have hp := List.find?_some h2
      simp only [beq_iff_eq] at hp
      subst hp
      have := hA _ hm
      simp only [Bool.and_eq_true, bne_iff_ne, ne_eq] at this
      refine ⟨this.1.1, ?_⟩
      intro hpb; rcases hpb with h' | h' <;> simp_all
    | none =>
      simp only
      have hD' := hD
      simp only [Bool.and_eq_true, List.all_eq_true, bne_iff_ne, ne_eq] at hD'
      refine ⟨hD'.1.1 s (by cases s <;> simp), ?_⟩
      intro hpb; rcases hpb with h' | h' <;> simp_all

/-- parser state: FSM state + stack of numeric parameters -/
structure P where
  s : S
  st : Stack

def PInv (p : P) : Prop := sat (depth p.s) p.st.length ∧ Digits p.st

def pstep (p : P) (c : Nat) : Option P :=
  let (a, s') := lookup c p.s
  (stepStack (eff a) c p.st).map (fun st' => ⟨s', st'⟩)

/-- **C18, parser half**: from any state satisfying the invariant, any character is processed without
    a Python exception and the invariant holds again -/
theorem pstep_total (p : P) (c : Nat) (h : PInv p) : ∃ p', pstep p c = some p' ∧ PInv p' := by
  obtain ⟨hs, hd⟩ := h
  obtain ⟨hf, hdg⟩ := lookup_ok c p.s
  obtain ⟨st', h1, h2, h3⟩ := fits_sound (depth p.s) (depth (lookup c p.s).2) (eff (lookup c p.s).1) c p.st hf hdg hs hd
  exact ⟨⟨(lookup c p.s).2, st'⟩, by simp [pstep, h1], h2, h3⟩

/-- any input whatsoever: the fold never fails -/
theorem feed_total (cs : List Nat) (p : P) (h : PInv p) : ∃ p', cs.foldlM pstep p = some p' ∧ PInv p' := by
  induction cs generalizing p with
  | nil => exact ⟨p, rfl, h⟩
  | cons c t ih =>
    obtain ⟨p1, h1, hi1⟩ := pstep_total p c h
    obtain ⟨p2, h2, hi2⟩ := ih p1 hi1
    exact ⟨p2, by simp [List.foldlM_cons, h1, h2], hi2⟩

/-- "a completed sequence leaves no parser residue": whenever the parser is back in INIT the stack is empty -/
theorem init_no_residue (p : P) (h : PInv p) (hs : p.s = .INIT) : p.st = [] := by
  have := h.1
  rw [hs] at this
  simp only [depth, sat] at this
  exact List.eq_nil_of_length_eq_zero this

/-- chunk independence of the parser: feeding in two pieces = feeding at once -/
theorem feed_append (a b : List Nat) (p : P) :
    (a ++ b).foldlM pstep p = (a.foldlM pstep p).bind (fun p' => b.foldlM pstep p') := by
  simp [List.foldlM_append]

end AnsiOK
