/-! scratch prototype: python-ish string ops on lists + Expecter core -/
namespace Py
variable {α : Type} [DecidableEq α]

/-- `s[-n:]` for n > 0 (n = 0 never used: Python's `s[-0:]` is the whole string) -/
def lastN (s : List α) (n : Nat) : List α := s.drop (s.length - n)

@[simp] theorem lastN_length (s : List α) (n : Nat) : (lastN s n).length = min n s.length := by
  simp [lastN]; omega

theorem lastN_suffix (s : List α) (n : Nat) : lastN s n <:+ s := List.drop_suffix _ _

/-- leftmost occurrence of `pat` in `s` (index), like `s.find(pat)` -/
def find (pat : List α) : List α → Option Nat
  | [] => if pat = [] then some 0 else none
  | c :: t => if pat.isPrefixOf (c :: t) then some 0 else (find pat t).map (· + 1)

/-- `s.find(pat, start)` for 0 ≤ start -/
def findFrom (pat s : List α) (start : Nat) : Option Nat :=
  if start ≤ s.length then (find pat (s.drop start)).map (· + start) else none

def occAt (pat s : List α) (i : Nat) : Prop := i ≤ s.length ∧ pat <+: s.drop i

theorem find_some {pat : List α} : ∀ {s : List α} {i : Nat}, find pat s = some i →
    occAt pat s i ∧ ∀ j, j < i → ¬ occAt pat s j := by
  intro s
  induction s with
  | nil =>
    intro i h
    simp [find] at h
    obtain ⟨rfl, rfl⟩ := h
    simp [occAt]
  | cons c t ih =>
    intro i h
    simp only [find] at h
    split at h
    · cases h
      rename_i hp
      refine ⟨⟨by simp, by simpa [List.isPrefixOf_iff_prefix] using hp⟩, by omega⟩
    · rename_i hp
      cases hf : find pat t with
      | none => simp [hf] at h
      | some k =>
        simp [hf] at h
        subst h
        obtain ⟨⟨hk, hpre⟩, hmin⟩ := ih hf
        refine ⟨⟨by simp; omega, by simpa using hpre⟩, ?_⟩
        intro j hj ⟨_, hjp⟩
        cases j with
        | zero =>
          apply hp
          simpa [List.isPrefixOf_iff_prefix] using hjp
        | succ j =>
          exact hmin j (by omega) ⟨by simp at *; omega, by simpa using hjp⟩

theorem find_none {pat : List α} : ∀ {s : List α}, find pat s = none → ∀ j, ¬ occAt pat s j := by
  intro s
  induction s with
  | nil =>
    intro h j ⟨hj, hp⟩
    simp [find] at h
    simp at hj; subst hj
    simp at hp
    exact h hp
  | cons c t ih =>
    intro h j ⟨hj, hp⟩
    simp only [find] at h
    split at h
    · cases h
    · rename_i hne
      cases hf : find pat t with
      | some k => simp [hf] at h
      | none =>
        cases j with
        | zero => apply hne; simpa [List.isPrefixOf_iff_prefix] using hp
        | succ j => exact ih hf j ⟨by simp at hj; omega, by simpa using hp⟩

end Py
