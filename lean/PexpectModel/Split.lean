import PexpectModel.Generated.SplitTable
/-! `utils.split_command_line` as the interpreter of the table that T-split extracts from the source
    (`Generated/SplitTable.lean`), and the round-trip theorem over that table. -/
namespace Split

open SplitGen

variable {α : Type} (cls : α → Cls)

structure M (α : Type) where
  q : Q
  arg : List α
  out : List (List α)

def step (m : M α) (c : α) : M α :=
  match tbl m.q (cls c) with
  | (q', .keep) => { m with q := q' }
  | (q', .push) => { m with q := q', arg := m.arg ++ [c] }
  | (q', .flush) => { q := q', arg := [], out := m.out ++ [m.arg] }

def finish (m : M α) : List (List α) := if m.arg ≠ [] then m.out ++ [m.arg] else m.out

def split (s : List α) : List (List α) := finish (s.foldl (step cls) ⟨SplitGen.initial, [], []⟩)

/-- backslash-quote every character -/
def quoteBs (bs : α) (a : List α) : List α := a.flatMap (fun c => [bs, c])

theorem run_quoteBs (bs : α) (hbs : cls bs = .bs) (a : List α) (m : M α)
    (hq : m.q = .basic ∨ m.q = .ws) (ha : a ≠ []) :
    (quoteBs bs a).foldl (step cls) m = { q := .basic, arg := m.arg ++ a, out := m.out } := by
  induction a generalizing m with
  | nil => exact absurd rfl ha
  | cons c t ih =>
    have h1 : step cls (step cls m bs) c = { q := .basic, arg := m.arg ++ [c], out := m.out } := by
      rcases hq with h | h <;> cases hcl : cls c <;> simp [step, hbs, h, tbl, hcl]
    simp only [quoteBs, List.flatMap_cons, List.cons_append, List.nil_append, List.foldl_cons]
    rw [h1]
    by_cases ht : t = []
    · subst ht; simp
    · have := ih { q := .basic, arg := m.arg ++ [c], out := m.out } (Or.inl rfl) ht
      simp only [quoteBs] at this
      rw [this]; simp


/-- characters kept verbatim inside a quoted segment -/
theorem run_inside (Qs : Q) (hQ : Qs = .sq ∨ Qs = .dq) (a : List α)
    (ha : ∀ c ∈ a, (Qs = .sq → cls c ≠ .sq) ∧ (Qs = .dq → cls c ≠ .dq)) (m : M α) (hq : m.q = Qs) :
    a.foldl (step cls) m = { q := Qs, arg := m.arg ++ a, out := m.out } := by
  induction a generalizing m with
  | nil => cases m; simp_all
  | cons c t ih =>
    have hc := ha c (by simp)
    have h1 : step cls m c = { q := Qs, arg := m.arg ++ [c], out := m.out } := by
      rcases hQ with h | h
      · subst h
        have := hc.1 rfl
        cases hcl : cls c <;> simp_all [step, tbl]
      · subst h
        have := hc.2 rfl
        cases hcl : cls c <;> simp_all [step, tbl]
    rw [List.foldl_cons, h1]
    rw [ih (fun c hc => ha c (by simp [hc])) _ rfl]
    simp

def quoteSq (q : α) (a : List α) : List α := [q] ++ a ++ [q]

theorem run_quoteSq (q : α) (hq' : cls q = .sq) (a : List α) (ha : ∀ c ∈ a, cls c ≠ .sq) (m : M α)
    (hq : m.q = .basic ∨ m.q = .ws) :
    (quoteSq q a).foldl (step cls) m = { q := .basic, arg := m.arg ++ a, out := m.out } := by
  unfold quoteSq
  rw [List.foldl_append, List.foldl_append]
  have h1 : [q].foldl (step cls) m = { m with q := .sq } := by
    rcases hq with h | h <;> simp [step, hq', h, tbl]
  rw [h1, run_inside cls .sq (Or.inl rfl) a (fun c hc => ⟨fun _ => ha c hc, fun h => by cases h⟩) _ rfl]
  simp [step, hq', tbl]

theorem run_quoteDq (q : α) (hq' : cls q = .dq) (a : List α) (ha : ∀ c ∈ a, cls c ≠ .dq) (m : M α)
    (hq : m.q = .basic ∨ m.q = .ws) :
    ([q] ++ a ++ [q]).foldl (step cls) m = { q := .basic, arg := m.arg ++ a, out := m.out } := by
  rw [List.foldl_append, List.foldl_append]
  have h1 : [q].foldl (step cls) m = { m with q := .dq } := by
    rcases hq with h | h <;> simp [step, hq', h, tbl]
  rw [h1, run_inside cls .dq (Or.inr rfl) a (fun c hc => ⟨fun h => (by cases h), fun _ => ha c hc⟩) _ rfl]
  simp [step, hq', tbl]

/-- whitespace after a finished argument flushes it once -/
theorem run_ws_after_arg (w : List α) (hw : ∀ c ∈ w, cls c = .sp) (hne : w ≠ []) (m : M α) (hq : m.q = .basic) :
    w.foldl (step cls) m = { q := .ws, arg := [], out := m.out ++ [m.arg] } := by
  cases w with
  | nil => exact absurd rfl hne
  | cons c t =>
    have h1 : step cls m c = { q := .ws, arg := [], out := m.out ++ [m.arg] } := by
      simp [step, hw c (by simp), hq, tbl]
    rw [List.foldl_cons, h1]
    clear h1 hne
    induction t with
    | nil => rfl
    | cons d t ih =>
      rw [List.foldl_cons]
      have : step cls { q := .ws, arg := [], out := m.out ++ [m.arg] } d = { q := .ws, arg := [], out := m.out ++ [m.arg] } := by
        simp [step, hw d (by simp), tbl]
      rw [this]
      exact ih (fun c hc => hw c (by
        simp only [List.mem_cons] at hc ⊢
        rcases hc with h | h
        · exact Or.inl h
        · exact Or.inr (Or.inr h)))

/-- leading whitespace is skipped (this is what the repair of the initial state buys) -/
theorem run_ws_initial (w : List α) (hw : ∀ c ∈ w, cls c = .sp) (m : M α) (hq : m.q = .ws) :
    w.foldl (step cls) m = m := by
  induction w with
  | nil => rfl
  | cons c t ih =>
    have h1 : step cls m c = m := by
      cases m; simp_all [step, tbl]
    rw [List.foldl_cons, h1]
    exact ih (fun c hc => hw c (by simp [hc]))


inductive Style | bs | sq | dq deriving DecidableEq, Repr

structure QArg (α : Type) where
  arg : List α
  style : Style
  sep : List α          -- whitespace that follows this argument

variable (cB cS cD : α)

def quote : Style → List α → List α
  | .bs, a => quoteBs cB a
  | .sq, a => quoteSq cS a
  | .dq, a => [cD] ++ a ++ [cD]

def render (xs : List (QArg α)) : List α := xs.flatMap (fun x => quote cB cS cD x.style x.arg ++ x.sep)

/-- an argument a user can legitimately write in that quoting style -/
def QArg.OK (x : QArg α) : Prop :=
  x.arg ≠ [] ∧ (x.style = .sq → ∀ c ∈ x.arg, cls c ≠ .sq) ∧ (x.style = .dq → ∀ c ∈ x.arg, cls c ≠ .dq) ∧
  (∀ c ∈ x.sep, cls c = .sp)

theorem run_quote (hB : cls cB = .bs) (hS : cls cS = .sq) (hD : cls cD = .dq) (x : QArg α) (hx : x.OK cls)
    (m : M α) (hq : m.q = .basic ∨ m.q = .ws) :
    (quote cB cS cD x.style x.arg).foldl (step cls) m = { q := .basic, arg := m.arg ++ x.arg, out := m.out } := by
  obtain ⟨hne, hsq, hdq, _⟩ := hx
  cases hst : x.style with
  | bs => exact run_quoteBs cls cB hB x.arg m hq hne
  | sq => exact run_quoteSq cls cS hS x.arg (hsq hst) m hq
  | dq => exact run_quoteDq cls cD hD x.arg (hdq hst) m hq

theorem run_args (hB : cls cB = .bs) (hS : cls cS = .sq) (hD : cls cD = .dq) (xs : List (QArg α))
    (hok : ∀ x ∈ xs, x.OK cls) (hsep : ∀ x ∈ xs, x.sep ≠ []) (out : List (List α)) :
    (render cB cS cD xs).foldl (step cls) ⟨.ws, [], out⟩ = ⟨.ws, [], out ++ xs.map (·.arg)⟩ := by
  induction xs generalizing out with
  | nil => simp [render]
  | cons x t ih =>
    simp only [render, List.flatMap_cons, List.foldl_append]
    rw [run_quote cls cB cS cD hB hS hD x (hok x (by simp)) _ (Or.inr rfl)]
    rw [run_ws_after_arg cls x.sep (hok x (by simp)).2.2.2 (hsep x (by simp)) _ rfl]
    have := ih (fun y hy => hok y (by simp [hy])) (fun y hy => hsep y (by simp [hy])) (out ++ [x.arg])
    simp only [render] at this
    simp only [List.nil_append]
    rw [this]
    simp

/-- C13, first sentence: any non-empty arguments, each quoted in any admissible style, joined by any
    non-empty whitespace, with any leading and trailing whitespace, split back into exactly those arguments -/
theorem split_roundtrip (hB : cls cB = .bs) (hS : cls cS = .sq) (hD : cls cD = .dq)
    (lead : List α) (hlead : ∀ c ∈ lead, cls c = .sp)
    (init : List (QArg α)) (last : QArg α)
    (hok : ∀ x ∈ init ++ [last], x.OK cls) (hsep : ∀ x ∈ init, x.sep ≠ []) :
    split cls (lead ++ render cB cS cD (init ++ [last])) = (init ++ [last]).map (·.arg) := by
  unfold split
  have hinit : SplitGen.initial = .ws := by decide
  rw [hinit]
  rw [List.foldl_append, run_ws_initial cls lead hlead _ rfl]
  have hr : render cB cS cD (init ++ [last]) = render cB cS cD init ++ (quote cB cS cD last.style last.arg ++ last.sep) := by
    simp [render]
  rw [hr, List.foldl_append, run_args cls cB cS cD hB hS hD init (fun x hx => hok x (by simp [hx])) hsep []]
  rw [List.foldl_append, run_quote cls cB cS cD hB hS hD last (hok last (by simp)) _ (Or.inr rfl)]
  have hlok := hok last (by simp)
  by_cases hs : last.sep = []
  · simp [hs, finish, hlok.1]
  · rw [run_ws_after_arg cls last.sep hlok.2.2.2 hs _ rfl]
    simp [finish]

end Split
