import PexpectModel.ExString
/-! scratch: C03 for the exact searcher without a window (the incremental tail search) -/
namespace Ex
open Py
variable {α : Type} [DecidableEq α]

def exactSr (strings : List (Nat × List α)) (L : Nat) : Searcher α :=
  { search := searchString strings, lookback := L }

/-- every span produced by the exact searcher lies inside the window -/
theorem searchString_wf (strings : List (Nat × List α)) (w : List α) (f W : Nat) (sp : Span)
    (h : searchString strings w f W = some sp) : sp.start ≤ sp.stop ∧ sp.stop ≤ w.length := by
  unfold searchString at h
  have gen : ∀ (l : List (Nat × List α)) (best : Option Span),
      (∀ b, best = some b → b.start ≤ b.stop ∧ b.stop ≤ w.length) →
      ∀ sp, l.foldl (stepStr w f W) best = some sp → sp.start ≤ sp.stop ∧ sp.stop ≤ w.length := by
    intro l
    induction l with
    | nil => intro best hb sp h; exact hb sp h
    | cons q t ih =>
      intro best hb sp h
      simp only [List.foldl_cons] at h
      refine ih _ ?_ sp h
      intro b hbe
      unfold stepStr at hbe
      cases hf : findFrom q.2 w (candStart w.length f W q.2.length) with
      | none => rw [hf] at hbe; exact hb b hbe
      | some n =>
        rw [hf] at hbe
        obtain ⟨_, ⟨hn, hp⟩, _⟩ := findFrom_some hf
        have hl : q.2.length ≤ (w.drop n).length := hp.length_le
        simp only [List.length_drop] at hl
        cases best with
        | none =>
          simp only [better, Option.some.injEq] at hbe
          subst hbe; simp; omega
        | some b0 =>
          simp only [better] at hbe
          split at hbe
          · simp only [Option.some.injEq] at hbe; subst hbe; simp; omega
          · simp only [Option.some.injEq] at hbe; subst hbe; exact hb b0 rfl
  exact gen strings none (by intro b hb; cases hb) sp h

theorem exactSr_wf (strings : List (Nat × List α)) (L : Nat) : (exactSr strings L).WF := by
  intro w f W sp h; exact searchString_wf strings w f W sp h

/-- invariant inside a call of the exact searcher with no window -/
def GoodX (strings : List (Nat × List α)) (L : Nat) (st : St α) : Prop :=
  Inv st ∧ min L st.B.length ≤ st.S.length ∧ ∀ p ∈ strings, NoOcc p.2 st.B

/-- one `new_data` step of the exact searcher equals one naive full search of `B ++ d` -/
theorem newData_exact (strings : List (Nat × List α)) (L : Nat) (hL0 : L ≠ 0)
    (hL : ∀ p ∈ strings, p.2.length ≤ L) (st : St α) (d : List α) (hG : GoodX strings L st) :
    (∀ i b a rest, nsearch (exactSr strings L) 0 (st.B ++ d) = some (i, b, a, rest) →
        newData (exactSr strings L) 0 st d = ({ B := rest, S := rest }, .hit i b a)) ∧
    (nsearch (exactSr strings L) 0 (st.B ++ d) = none →
        ∃ st2, newData (exactSr strings L) 0 st d = (st2, .miss) ∧ st2.B = st.B ++ d ∧ GoodX strings L st2) := by
  obtain ⟨hI, hS, hno⟩ := hG
  -- the window the source builds
  let w := (st.S ++ d).drop (st.S.length - L)
  have hsuf : (st.S ++ d) <:+ (st.B ++ d) := by
    obtain ⟨pre, hpre⟩ := hI; exact ⟨pre, by simp [← hpre]⟩
  have hw : w <:+ st.B ++ d := (List.drop_suffix _ _).trans hsuf
  have hwl : w.length = min st.S.length L + d.length := by
    simp only [w, List.length_drop, List.length_append]; omega
  have hlen : ∀ p ∈ strings, d.length + min p.2.length st.B.length ≤ w.length := by
    intro p hp; have := hL p hp; omega
  have hnd : newData (exactSr strings L) 0 st d =
      doSearch (exactSr strings L) 0 { B := st.B ++ d, S := st.S ++ d } w d.length := by
    unfold newData; simp [exactSr, hL0, w]
  have hinc := searchString_incremental strings st.B d w hw hno hlen none
  simp only [Option.map_none] at hinc
  have hmin : min d.length w.length = d.length := by omega
  have hTl : w.length ≤ (st.B ++ d).length := hw.length_le
  obtain ⟨pre, hpre⟩ := hw
  have hoff : (st.B ++ d).length - w.length = pre.length := by rw [← hpre]; simp
  constructor
  · intro i b a rest hn
    rw [hnd]
    unfold nsearch at hn
    simp only [win, if_true] at hn
    unfold doSearch
    simp only [exactSr, hmin] at hn ⊢
    change (match searchString strings (st.B ++ d) (st.B ++ d).length 0 with
            | some sp => _ | none => _) = _ at hn
    rw [← show List.foldl (stepStr (st.B ++ d) (st.B ++ d).length 0) none strings
          = searchString strings (st.B ++ d) (st.B ++ d).length 0 from rfl, ← hinc] at hn
    change (match searchString strings w d.length 0 with | some sp => _ | none => _) = _
    cases hs : searchString strings w d.length 0 with
    | none =>
      have : List.foldl (stepStr w d.length 0) none strings = none := hs
      rw [this] at hn; simp at hn
    | some sp =>
      have hsw := searchString_wf strings w d.length 0 sp hs
      have : List.foldl (stepStr w d.length 0) none strings = some sp := hs
      rw [this] at hn
      simp only [Option.map_some, shift, Option.some.injEq, Prod.mk.injEq] at hn
      obtain ⟨rfl, rfl, rfl, rfl⟩ := hn
      simp only [hoff]
      have e1 : (st.B ++ d).length - (w.length - sp.start) = pre.length + sp.start := by
        rw [← hpre]; simp only [List.length_append]; omega
      have e2 : (st.B ++ d).length - ((st.B ++ d).length - (sp.start + pre.length)) = pre.length + sp.start := by
        rw [← hpre]; simp only [List.length_append]; omega
      rw [e1, e2]
      have e3 : List.drop (sp.stop + pre.length) (st.B ++ d) = List.drop sp.stop w := by
        rw [← hpre, Nat.add_comm, ← List.drop_drop, List.drop_left]
      have e4 : List.drop (sp.start + pre.length) (List.take (sp.stop + pre.length) (st.B ++ d))
            = List.drop sp.start (List.take sp.stop w) := by
        rw [← hpre, List.take_append]
        simp only [List.take_of_length_le (Nat.le_add_left _ _), Nat.add_sub_cancel]
        rw [Nat.add_comm, ← List.drop_drop, List.drop_left]
      rw [e3, e4]
  · intro hn
    have hT : searchString strings (st.B ++ d) (st.B ++ d).length 0 = none := by
      unfold nsearch at hn
      simp only [win, if_true, exactSr] at hn
      cases hs : searchString strings (st.B ++ d) (st.B ++ d).length 0 with
      | none => rfl
      | some sp => rw [hs] at hn; simp at hn
    have hwn : searchString strings w d.length 0 = none := by
      have : (List.foldl (stepStr w d.length 0) none strings).map (shift ((st.B ++ d).length - w.length)) = none := by
        rw [hinc]; exact hT
      cases hs : searchString strings w d.length 0 with
      | none => rfl
      | some sp =>
        have hs' : List.foldl (stepStr w d.length 0) none strings = some sp := hs
        rw [hs'] at this; simp at this
    have hds : ∃ st2, doSearch (exactSr strings L) 0 { B := st.B ++ d, S := st.S ++ d } w d.length = (st2, .miss) := by
      unfold doSearch
      simp only [exactSr, hmin, hwn]
      simp only [show (if (0:Nat) ≠ 0 then 0 else L) = L from by simp]
      by_cases hc : L ≠ 0 ∧ (st.S ++ d).length > L
      · rw [if_pos hc]; exact ⟨_, rfl⟩
      · rw [if_neg hc]; exact ⟨_, rfl⟩
    obtain ⟨st2, h2⟩ := hds
    refine ⟨st2, by rw [hnd]; exact h2, ?_⟩
    obtain ⟨hB2, hI2, hm, _⟩ := doSearch_miss_inv (exactSr strings L) 0 { B := st.B ++ d, S := st.S ++ d } st2 w d.length
      hsuf ⟨pre, hpre⟩ h2
    refine ⟨hB2, hI2, ?_, ?_⟩
    · have := hm (by simp [exactSr, hL0])
      simp only [exactSr] at this
      simp only [show (if (0:Nat) ≠ 0 then 0 else L) = L from by simp, List.length_append] at this
      rw [hB2]; simp only [List.length_append]; omega
    · rw [hB2]; exact searchString_none_noOcc strings _ hT

end Ex

namespace Ex
open Py
variable {α : Type} [DecidableEq α]

/-- C03 for the exact searcher with no window: the incremental loop is the naive loop -/
theorem loopX_eq_nloop (strings : List (Nat × List α)) (L : Nat) (hL0 : L ≠ 0)
    (hL : ∀ p ∈ strings, p.2.length ≤ L) (evs : List (Ev α)) (st : St α) (hG : GoodX strings L st) :
    (loop (exactSr strings L) 0 st evs).1 = (nloop (exactSr strings L) 0 st.B evs).1 ∧
    (loop (exactSr strings L) 0 st evs).2.1.B = (nloop (exactSr strings L) 0 st.B evs).2.1 ∧
    (loop (exactSr strings L) 0 st evs).2.2 = (nloop (exactSr strings L) 0 st.B evs).2.2 := by
  induction evs generalizing st with
  | nil => simp [loop, nloop]
  | cons e r ih =>
    cases e with
    | eofExc => simp [loop, nloop]
    | timeoutExc => simp [loop, nloop]
    | expired => simp [loop, nloop]
    | data d =>
      obtain ⟨hhit, hmiss⟩ := newData_exact strings L hL0 hL st d hG
      simp only [loop, nloop]
      cases hn : nsearch (exactSr strings L) 0 (st.B ++ d) with
      | some t =>
        obtain ⟨i, b, a, rest⟩ := t
        rw [hhit i b a rest hn]
        simp
      | none =>
        obtain ⟨st2, h2, hB2, hG2⟩ := hmiss hn
        rw [h2]
        simp only []
        have := ih st2 hG2
        rw [hB2] at this
        exact this

end Ex
