import PexpectModel.Expecter
/-! scratch: invariants and window characterisation -/
namespace Ex
open Py
variable {α : Type} [DecidableEq α]

theorem suffix_eq_of_length_le {S B : List α} (h : S <:+ B) (hl : B.length ≤ S.length) : S = B := by
  exact h.eq_of_length_le hl

theorem lastN_of_suffix {S B : List α} {n : Nat} (h : S <:+ B) (hn : n ≤ S.length) :
    lastN S n = lastN B n := by
  obtain ⟨pre, rfl⟩ := h
  unfold lastN
  simp only [List.length_append]
  rw [List.drop_append]
  have : pre.length + S.length - n - pre.length = S.length - n := by omega
  rw [this]
  have : List.drop (pre.length + S.length - n) pre = [] := by
    apply List.drop_eq_nil_of_le; omega
  rw [this]; simp

theorem lastN_append_data {B d : List α} {n : Nat} (hn : n ≤ d.length) :
    lastN (B ++ d) n = lastN d n := by
  exact (lastN_of_suffix (List.suffix_append B d) hn).symm

theorem lastN_all {s : List α} {n : Nat} (hn : s.length ≤ n) : lastN s n = s := by
  unfold lastN
  have : s.length - n = 0 := by omega
  rw [this]; rfl

/-- the window the naive procedure would search -/
def win (W : Nat) (B : List α) : List α := if W = 0 then B else lastN B W

def Inv (st : St α) : Prop := st.S <:+ st.B

/-- `m` is the source's `maintain` -/
def WinInv (m : Nat) (st : St α) : Prop :=
  if m = 0 then st.S = st.B else min m st.B.length ≤ st.S.length

/-- existing_data always searches exactly the naive window, with everything fresh -/
theorem existingData_spec (sr : Searcher α) (W : Nat) (st : St α) (hI : Inv st) :
    ∃ st1 : St α, st1.B = st.B ∧ Inv st1 ∧
      (W ≠ 0 → min W st.B.length ≤ st1.S.length) ∧ (W = 0 → st1.S = st.B) ∧
      existingData sr W st = doSearch sr W st1 (win W st.B) st.B.length := by
  unfold existingData
  simp only
  by_cases h1 : st.B.length > st.S.length
  · simp only [h1, if_true]
    by_cases hW : W = 0
    · simp only [hW, if_true]
      exact ⟨{ st with S := st.B }, rfl, List.suffix_refl _, by simp, by simp, by simp [win]⟩
    · simp only [hW, if_false]
      by_cases h2 : st.S.length < W
      · simp only [h2, if_true]
        refine ⟨{ st with S := st.B.drop (st.B.length - W) }, rfl, List.drop_suffix _ _, ?_, by simp [hW], ?_⟩
        · intro _; simp; omega
        · simp [win, hW, lastN]
      · simp only [h2, if_false]
        refine ⟨st, rfl, hI, ?_, by simp [hW], ?_⟩
        · intro _; omega
        · have : st.S.drop (st.S.length - W) = lastN st.B W := by
            rw [← lastN_of_suffix hI (by omega)]; rfl
          simp [win, hW, this]
  · simp only [h1, if_false]
    have hSB : st.S = st.B := suffix_eq_of_length_le hI (by omega)
    by_cases hW : W = 0
    · simp only [hW]
      refine ⟨st, rfl, hI, by simp, by simp [hSB], by simp [win, hSB]⟩
    · simp only [hW]
      refine ⟨st, rfl, hI, ?_, by simp [hW], ?_⟩
      · intro _; rw [hSB]; omega
      · simp [win, hW, hSB, lastN]


/-- a miss keeps `B`, keeps `S` a suffix of `B`, and keeps at least `min m |window|` characters -/
theorem doSearch_miss_inv (sr : Searcher α) (W : Nat) (st st' : St α) (window : List α) (f : Nat)
    (hI : Inv st) (hw : window <:+ st.B)
    (h : doSearch sr W st window f = (st', .miss)) :
    st'.B = st.B ∧ Inv st' ∧
      ((if W ≠ 0 then W else sr.lookback) ≠ 0 →
        min (if W ≠ 0 then W else sr.lookback) (min st.S.length window.length) ≤ st'.S.length) ∧
      ((if W ≠ 0 then W else sr.lookback) = 0 → st'.S = st.S) := by
  unfold doSearch at h
  split at h
  · simp at h
  · simp only [] at h
    generalize (if W ≠ 0 then W else sr.lookback) = m at h ⊢
    by_cases hc : m ≠ 0 ∧ st.S.length > m
    · rw [if_pos hc] at h
      have h := (Prod.mk.inj h).1
      subst h
      refine ⟨rfl, (lastN_suffix _ _).trans hw, ?_, ?_⟩
      · intro hm; simp only [lastN_length]; omega
      · intro h0; exact absurd h0 hc.1
    · rw [if_neg hc] at h
      have h := (Prod.mk.inj h).1
      subst h
      refine ⟨rfl, hI, ?_, fun _ => rfl⟩
      intro hm
      omega

/-- new_data under a search window: the searcher sees exactly the last W characters of the pending text -/
theorem newData_spec_W (sr : Searcher α) (W : Nat) (hW : W ≠ 0) (st : St α) (data : List α)
    (hI : Inv st) (hWin : min W st.B.length ≤ st.S.length) :
    ∃ st1 : St α, st1.B = st.B ++ data ∧ Inv st1 ∧ min W (st.B ++ data).length ≤ st1.S.length ∧
      newData sr W st data = doSearch sr W st1 (lastN (st.B ++ data) W) data.length := by
  unfold newData
  simp only [hW, if_false]
  by_cases hc : data.length ≥ W ∨ st.S.length = 0
  · simp only [hc, if_true]
    refine ⟨{ B := st.B ++ data, S := lastN data W }, rfl, ?_, ?_, ?_⟩
    · exact (lastN_suffix _ _).trans (List.suffix_append _ _)
    · simp only [lastN_length, List.length_append]
      rcases hc with hc | hc
      · omega
      · have : st.B.length = 0 := by omega
        omega
    · rcases hc with hc | hc
      · rw [lastN_append_data hc]
      · have hB : st.B = [] := by
          have : st.B.length = 0 := by omega
          exact List.eq_nil_of_length_eq_zero this
        simp [hB]
  · simp only [hc, if_false]
    have hc1 : data.length < W := by omega
    have hc2 : st.S.length ≠ 0 := by omega
    refine ⟨{ B := st.B ++ data, S := st.S ++ data }, rfl, ?_, ?_, ?_⟩
    · obtain ⟨pre, hpre⟩ := hI
      exact ⟨pre, by simp [← hpre]⟩
    · simp only [List.length_append]; omega
    · have hs : (st.S ++ data) <:+ (st.B ++ data) := by
        obtain ⟨pre, hpre⟩ := hI
        exact ⟨pre, by simp [← hpre]⟩
      have : (st.S ++ data).drop ((st.S ++ data).length - W) = lastN (st.B ++ data) W := by
        by_cases hl : W ≤ (st.S ++ data).length
        · rw [← lastN_of_suffix hs hl]; rfl
        · -- S ++ data shorter than W: then S = B
          have h1 : (st.S ++ data).length < W := by omega
          simp only [List.length_append] at h1
          have h2 : st.B.length ≤ st.S.length := by omega
          have hSB : st.S = st.B := suffix_eq_of_length_le hI h2
          rw [hSB]
          unfold lastN; rfl
      rw [this]

end Ex
