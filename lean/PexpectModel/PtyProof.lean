import PexpectModel.PtyWorld
/-! scratch: EOF-only-when-drained and conservation for the repaired pty read_nonblocking -/
namespace PtyW

/-- `w'` is reachable from `w` by child actions only -/
def Evolves (w w' : World) : Prop := ∃ n, w' = childSteps n w

theorem Evolves.refl (w : World) : Evolves w w := ⟨0, rfl⟩

theorem childSteps_add (a b : Nat) (w : World) : childSteps b (childSteps a w) = childSteps (a + b) w := by
  induction a generalizing w with
  | zero => simp [childSteps]
  | succ a ih =>
    have : a + 1 + b = (a + b) + 1 := by omega
    rw [this]
    show childSteps b (childSteps a (childStep w)) = childSteps (a + b) (childStep w)
    exact ih _

theorem Evolves.trans {a b c : World} (h1 : Evolves a b) (h2 : Evolves b c) : Evolves a c := by
  obtain ⟨n, rfl⟩ := h1; obtain ⟨m, rfl⟩ := h2
  exact ⟨n + m, childSteps_add n m a⟩

theorem Evolves.winv {w w' : World} (h : Evolves w w') (hw : WInv w) : WInv w' := by
  obtain ⟨n, rfl⟩ := h; exact childSteps_winv n w hw
theorem Evolves.conserve {w w' : World} (h : Evolves w w') (d : List Byte) (hc : Conserve d w) : Conserve d w' := by
  obtain ⟨n, rfl⟩ := h; exact childSteps_conserve n d w hc
theorem Evolves.closed {w w' : World} (h : Evolves w w') (hc : w.slaveOpen = false) :
    w'.slaveOpen = false ∧ w'.kbuf = w.kbuf := by
  obtain ⟨n, rfl⟩ := h; exact childSteps_closed n w hc
theorem Evolves.kbuf_mono {w w' : World} (h : Evolves w w') (hc : w.kbuf ≠ []) : w'.kbuf ≠ [] := by
  obtain ⟨n, rfl⟩ := h; exact childSteps_kbuf_mono n w hc

/-- drained and hung up: nothing more can ever be read -/
def Drained (w : World) : Prop := w.kbuf = [] ∧ w.slaveOpen = false

theorem readable_then_empty {w w1 : World} (hr : readable w = true) (he : Evolves w w1) (hk : w1.kbuf = []) :
    Drained w1 := by
  refine ⟨hk, ?_⟩
  by_cases hkb : w.kbuf = []
  · have : w.slaveOpen = false := by simpa [readable, hkb] using hr
    exact (he.closed this).1
  · exact absurd hk (he.kbuf_mono hkb)

theorem select0_spec (w : World) (sc : Sched) :
    Evolves w (select0 w sc).2.1 ∧ (select0 w sc).1 = readable (select0 w sc).2.1 := by
  unfold select0; exact ⟨⟨_, rfl⟩, rfl⟩

theorem isalive_spec (w : World) (sc : Sched) (hw : WInv w) :
    let r := isalive w sc
    WInv r.2.1 ∧ r.2.1.kbuf = (childSteps (nextStep sc).1.acts w).kbuf ∧
    r.2.1.slaveOpen = (childSteps (nextStep sc).1.acts w).slaveOpen ∧
    r.2.1.written = (childSteps (nextStep sc).1.acts w).written ∧
    (r.1 = false → r.2.1.slaveOpen = false) := by
  unfold isalive
  simp only
  have hw1 := childSteps_winv (nextStep sc).1.acts w hw
  generalize childSteps (nextStep sc).1.acts w = w1 at *
  cases hp : w1.proc with
  | running => simp [hw1]
  | zombie c =>
    have := hw1 (by simp [hp])
    refine ⟨?_, rfl, rfl, rfl, fun _ => this.1⟩
    intro _; exact this
  | reaped c =>
    have := hw1 (by simp [hp])
    exact ⟨hw1, rfl, rfl, rfl, fun _ => this.1⟩

/-- what one `os.read` after a positive poll does -/
theorem osRead_spec (size : Nat) (w0 w : World) (sc : Sched) (hr : readable w0 = true) (he : Evolves w0 w)
    (d : List Byte) (hc : Conserve d w) :
    (∀ w' sc', osRead size w sc = (.eio, w', sc') → Drained w' ∧ Conserve d w') ∧
    (∀ bs w' sc', osRead size w sc = (.data bs, w', sc') → Conserve (d ++ bs) w' ∧
        w'.slaveOpen = (childSteps (nextStep sc).1.acts w).slaveOpen ∧ w'.proc = (childSteps (nextStep sc).1.acts w).proc ∧
        w'.script = (childSteps (nextStep sc).1.acts w).script) := by
  unfold osRead
  simp only
  have he1 : Evolves w0 (childSteps (nextStep sc).1.acts w) := he.trans ⟨_, rfl⟩
  have hc1 := childSteps_conserve (nextStep sc).1.acts d w hc
  generalize childSteps (nextStep sc).1.acts w = w1 at *
  by_cases hk : w1.kbuf.isEmpty = true
  · simp only [hk, if_true]
    refine ⟨?_, by intro bs w' sc' h; simp at h⟩
    intro w' sc' h
    simp only [Prod.mk.injEq, true_and] at h
    obtain ⟨rfl, -⟩ := h
    exact ⟨readable_then_empty hr he1 (by simpa using hk), hc1⟩
  · simp only [hk]
    refine ⟨by intro w' sc' h; simp at h, ?_⟩
    intro bs w' sc' h
    simp only [Bool.false_eq_true, if_false, Prod.mk.injEq, RdRes.data.injEq] at h
    obtain ⟨rfl, rfl, -⟩ := h
    refine ⟨?_, rfl, rfl, rfl⟩
    simp only [Conserve] at hc1 ⊢
    rw [List.append_assoc, List.take_append_drop]; exact hc1

end PtyW
