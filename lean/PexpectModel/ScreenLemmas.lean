import PexpectModel.Screen
/-! Invariant of the screen model (grid is rows × cols, cursor / saved cursor on the screen, scroll region
    inside the screen) and its preservation by every operation; cell-level frame lemmas. -/
namespace Scr

theorem constrain_range {n lo hi : Int} (h : lo ≤ hi) : lo ≤ constrain n lo hi ∧ constrain n lo hi ≤ hi := by
  unfold constrain; split
  · omega
  · split <;> omega

theorem constrain_id {n lo hi : Int} (h1 : lo ≤ n) (h2 : n ≤ hi) : constrain n lo hi = n := by
  unfold constrain
  rw [if_neg (by omega), if_neg (by omega)]

theorem idx_lt {n : Int} {hi : Nat} (h : 1 ≤ hi) : idx n hi < hi := by
  have := @constrain_range n 1 hi (by omega)
  unfold idx; omega

theorem idx_of_mem {n : Int} {hi : Nat} (h1 : 1 ≤ n) (h2 : n ≤ hi) : idx n hi = (n - 1).toNat := by
  unfold idx; rw [constrain_id h1 h2]

def Shape (w : Grid) (r c : Nat) : Prop := w.length = r ∧ ∀ row ∈ w, row.length = c

def OnScreen (r c : Int) (R C : Nat) : Prop := 1 ≤ r ∧ r ≤ R ∧ 1 ≤ c ∧ c ≤ C

/-- the invariant of every reachable screen of size `R × C` -/
structure Inv (R C : Nat) (s : Screen) : Prop where
  rows_eq : s.rows = R
  cols_eq : s.cols = C
  rpos : 1 ≤ R
  cpos : 1 ≤ C
  shape : Shape s.w R C
  cur : OnScreen s.curR s.curC R C
  sav : OnScreen s.savR s.savC R C
  reg : OnScreen s.scrS s.scrE R R

theorem blank_inv (R C : Nat) (hR : 1 ≤ R) (hC : 1 ≤ C) : Inv R C (blank R C) := by
  refine ⟨rfl, rfl, hR, hC, ⟨by simp [blank], ?_⟩, ?_, ?_, ?_⟩
  · intro row hrow
    simp only [blank, List.mem_replicate] at hrow
    rw [hrow.2]; simp
  · simp only [blank, OnScreen]; omega
  · simp only [blank, OnScreen]; omega
  · simp only [blank, OnScreen]; omega

/-! ### cells -/

theorem setCell_length (w : Grid) (i j ch : Nat) : (setCell w i j ch).length = w.length := by
  simp [setCell]

theorem setCell_rows (w : Grid) (i j ch n : Nat) (h : ∀ row ∈ w, row.length = n) :
    ∀ row ∈ setCell w i j ch, row.length = n := by
  intro row hrow
  unfold setCell at hrow
  rcases List.mem_or_eq_of_mem_set hrow with h1 | h1
  · exact h row h1
  · subst h1
    simp only [List.length_set]
    by_cases hi : i < w.length
    · have : w.getD i [] = w[i] := by simp [List.getD, hi]
      rw [this]; exact h _ (List.getElem_mem hi)
    · have : (w.set i ((w.getD i []).set j ch)) = w := by
        apply List.set_eq_of_length_le; omega
      rw [this] at hrow
      have := h _ hrow
      simpa using this

theorem setCell_shape (w : Grid) (i j ch r c : Nat) (h : Shape w r c) : Shape (setCell w i j ch) r c :=
  ⟨by rw [setCell_length]; exact h.1, setCell_rows w i j ch c h.2⟩

theorem getD_row_length (w : Grid) (r c i : Nat) (h : Shape w r c) (hi : i < r) : (w.getD i []).length = c := by
  have hi' : i < w.length := by rw [h.1]; exact hi
  have : w.getD i [] = w[i] := by simp [List.getD, hi']
  rw [this]; exact h.2 _ (List.getElem_mem hi')

/-- the frame lemma: writing one cell changes that cell and no other -/
theorem getCell_setCell (w : Grid) (r c i j i' j' ch : Nat) (h : Shape w r c) (hi : i < r) (hj : j < c) :
    getCell (setCell w i j ch) i' j' = if i' = i ∧ j' = j then ch else getCell w i' j' := by
  have hi' : i < w.length := by rw [h.1]; exact hi
  have hj' : j < (w.getD i []).length := by rw [getD_row_length w r c i h hi]; exact hj
  unfold getCell setCell
  by_cases h1 : i' = i
  · subst h1
    simp only [List.getD_eq_getElem?_getD, List.getElem?_set_self hi', Option.getD_some, true_and]
    by_cases h2 : j' = j
    · subst h2
      simp [List.getElem?_set_self (by simpa [List.getD_eq_getElem?_getD] using hj')]
    · simp [h2, List.getElem?_set_ne (Ne.symm h2)]
  · simp [h1, List.getElem?_set_ne (Ne.symm h1)]

/-! ### preservation of the invariant -/

theorem putAbs_inv {R C : Nat} (s : Screen) (r c : Int) (ch : Nat) (h : Inv R C s) : Inv R C (putAbs s r c ch) :=
  { h with shape := setCell_shape _ _ _ _ _ _ h.shape }

theorem foldl_inv {β : Type} {R C : Nat} (f : Screen → β → Screen) (hf : ∀ s x, Inv R C s → Inv R C (f s x))
    (l : List β) (s : Screen) (h : Inv R C s) : Inv R C (l.foldl f s) := by
  induction l generalizing s with
  | nil => exact h
  | cons x t ih => exact ih _ (hf s x h)

theorem fillRegion_inv {R C : Nat} (s : Screen) (rs cs re ce : Int) (ch : Nat) (h : Inv R C s) :
    Inv R C (fillRegion s rs cs re ce ch) := by
  unfold fillRegion
  apply foldl_inv _ _ _ _ h
  intro s1 r h1
  apply foldl_inv _ _ _ _ h1
  intro s2 c h2
  exact putAbs_inv s2 r c ch h2

theorem insertAbs_inv {R C : Nat} (s : Screen) (r c : Int) (ch : Nat) (h : Inv R C s) :
    Inv R C (insertAbs s r c ch) := by
  unfold insertAbs
  apply putAbs_inv
  apply foldl_inv _ _ _ _ h
  intro s1 ci h1
  exact putAbs_inv s1 _ _ _ h1

theorem cursorConstrain_inv {R C : Nat} (s : Screen) (hr : s.rows = R) (hc : s.cols = C) (hR : 1 ≤ R) (hC : 1 ≤ C)
    (hsh : Shape s.w R C) (hsav : OnScreen s.savR s.savC R C) (hreg : OnScreen s.scrS s.scrE R R) :
    Inv R C (cursorConstrain s) := by
  have h1 := @constrain_range s.curR 1 s.rows (by omega)
  have h2 := @constrain_range s.curC 1 s.cols (by omega)
  refine ⟨hr, hc, hR, hC, hsh, ?_, hsav, hreg⟩
  simp only [cursorConstrain, OnScreen]
  rw [hr] at h1 ⊢; rw [hc] at h2 ⊢
  exact ⟨h1.1, h1.2, h2.1, h2.2⟩

theorem cursorHome_inv {R C : Nat} (s : Screen) (r c : Int) (h : Inv R C s) : Inv R C (cursorHome s r c) :=
  cursorConstrain_inv _ h.rows_eq h.cols_eq h.rpos h.cpos h.shape h.sav h.reg
theorem cursorBack_inv {R C : Nat} (s : Screen) (n : Int) (h : Inv R C s) : Inv R C (cursorBack s n) :=
  cursorConstrain_inv _ h.rows_eq h.cols_eq h.rpos h.cpos h.shape h.sav h.reg
theorem cursorDown_inv {R C : Nat} (s : Screen) (n : Int) (h : Inv R C s) : Inv R C (cursorDown s n) :=
  cursorConstrain_inv _ h.rows_eq h.cols_eq h.rpos h.cpos h.shape h.sav h.reg
theorem cursorForward_inv {R C : Nat} (s : Screen) (n : Int) (h : Inv R C s) : Inv R C (cursorForward s n) :=
  cursorConstrain_inv _ h.rows_eq h.cols_eq h.rpos h.cpos h.shape h.sav h.reg
theorem cursorUp_inv {R C : Nat} (s : Screen) (n : Int) (h : Inv R C s) : Inv R C (cursorUp s n) :=
  cursorConstrain_inv _ h.rows_eq h.cols_eq h.rpos h.cpos h.shape h.sav h.reg

theorem cursorSave_inv {R C : Nat} (s : Screen) (h : Inv R C s) : Inv R C (cursorSave s) :=
  { h with sav := h.cur }

theorem cursorRestore_inv {R C : Nat} (s : Screen) (h : Inv R C s) : Inv R C (cursorRestore s) :=
  cursorHome_inv s _ _ h

theorem scrollScreen_inv {R C : Nat} (s : Screen) (h : Inv R C s) : Inv R C (scrollScreen s) := by
  refine { h with reg := ?_ }
  simp only [scrollScreen, OnScreen]
  have := h.rows_eq; have := h.rpos
  omega

theorem scrollScreenRows_inv {R C : Nat} (s : Screen) (rs re : Int) (h : Inv R C s) : Inv R C (scrollScreenRows s rs re) := by
  have hR := h.rpos
  have h1 := @constrain_range rs 1 s.rows (by rw [h.rows_eq]; omega)
  have h2 := @constrain_range re 1 s.rows (by rw [h.rows_eq]; omega)
  refine { h with reg := ?_ }
  simp only [scrollScreenRows, OnScreen]
  rw [h.rows_eq] at h1 h2 ⊢
  exact ⟨h1.1, h1.2, h2.1, h2.2⟩

theorem scrollUpRows_shape (w : Grid) (r c s e : Nat) (h : Shape w r c) (he : e < r) : Shape (scrollUpRows w s e) r c := by
  obtain ⟨h1, h2⟩ := h
  unfold scrollUpRows
  split
  · constructor
    · simp only [List.length_append, List.length_take, List.length_drop, h1]; omega
    · intro row hrow
      simp only [List.mem_append] at hrow
      rcases hrow with (hm | hm) | hm
      · exact h2 row (List.mem_of_mem_take hm)
      · exact h2 row (List.mem_of_mem_drop (List.mem_of_mem_take hm))
      · exact h2 row (List.mem_of_mem_drop hm)
  · exact ⟨h1, h2⟩

theorem scrollDownRows_shape (w : Grid) (r c s e : Nat) (h : Shape w r c) (he : e < r) : Shape (scrollDownRows w s e) r c := by
  obtain ⟨h1, h2⟩ := h
  unfold scrollDownRows
  split
  · constructor
    · simp only [List.length_append, List.length_take, List.length_drop, h1]; omega
    · intro row hrow
      simp only [List.mem_append] at hrow
      rcases hrow with (hm | hm) | hm
      · exact h2 row (List.mem_of_mem_take hm)
      · exact h2 row (List.mem_of_mem_drop (List.mem_of_mem_take hm))
      · exact h2 row (List.mem_of_mem_drop hm)
  · exact ⟨h1, h2⟩

theorem scrollUp_inv {R C : Nat} (s : Screen) (h : Inv R C s) : Inv R C (scrollUp s) := by
  have hreg := h.reg
  refine { h with shape := ?_ }
  exact scrollUpRows_shape _ _ _ _ _ h.shape (by simp only [OnScreen] at hreg; omega)

theorem scrollDown_inv {R C : Nat} (s : Screen) (h : Inv R C s) : Inv R C (scrollDown s) := by
  have hreg := h.reg
  refine { h with shape := ?_ }
  exact scrollDownRows_shape _ _ _ _ _ h.shape (by simp only [OnScreen] at hreg; omega)

theorem cursorUpReverse_inv {R C : Nat} (s : Screen) (h : Inv R C s) : Inv R C (cursorUpReverse s) := by
  unfold cursorUpReverse
  simp only
  split
  · exact scrollUp_inv _ (cursorUp_inv s 1 h)
  · exact cursorUp_inv s 1 h

theorem eraseEndOfLine_inv {R C : Nat} (s : Screen) (h : Inv R C s) : Inv R C (eraseEndOfLine s) := fillRegion_inv _ _ _ _ _ _ h
theorem eraseStartOfLine_inv {R C : Nat} (s : Screen) (h : Inv R C s) : Inv R C (eraseStartOfLine s) := fillRegion_inv _ _ _ _ _ _ h
theorem eraseLine_inv {R C : Nat} (s : Screen) (h : Inv R C s) : Inv R C (eraseLine s) := fillRegion_inv _ _ _ _ _ _ h

theorem eraseDown_inv {R C : Nat} (s : Screen) (h : Inv R C s) : Inv R C (eraseDown s) := by
  unfold eraseDown
  simp only
  split
  · exact fillRegion_inv _ _ _ _ _ _ (eraseEndOfLine_inv s h)
  · exact eraseEndOfLine_inv s h

theorem eraseUp_inv {R C : Nat} (s : Screen) (h : Inv R C s) : Inv R C (eraseUp s) := by
  unfold eraseUp
  simp only
  split
  · exact fillRegion_inv _ _ _ _ _ _ (eraseStartOfLine_inv s h)
  · exact eraseStartOfLine_inv s h

theorem lf_inv {R C : Nat} (s : Screen) (h : Inv R C s) : Inv R C (lf s) := by
  unfold lf
  simp only
  split
  · exact eraseLine_inv _ (scrollUp_inv _ (cursorDown_inv s 1 h))
  · exact cursorDown_inv s 1 h

theorem cr_inv {R C : Nat} (s : Screen) (h : Inv R C s) : Inv R C (cr s) := cursorHome_inv s _ _ h

/-- every operation preserves the invariant, for every argument -/
theorem apply_inv {R C : Nat} (op : SOp) (s : Screen) (h : Inv R C s) : Inv R C (apply op s) := by
  cases op with
  | putAbs r c ch => exact putAbs_inv s r c ch h
  | put ch => exact putAbs_inv s _ _ ch h
  | insertAbs r c ch => exact insertAbs_inv s r c ch h
  | insert ch => exact insertAbs_inv s _ _ ch h
  | fill ch => exact fillRegion_inv s _ _ _ _ ch h
  | fillRegion rs cs re ce ch => exact fillRegion_inv s rs cs re ce ch h
  | cursorHome r c => exact cursorHome_inv s r c h
  | cursorBack n => exact cursorBack_inv s n h
  | cursorDown n => exact cursorDown_inv s n h
  | cursorForward n => exact cursorForward_inv s n h
  | cursorUp n => exact cursorUp_inv s n h
  | cursorUpReverse => exact cursorUpReverse_inv s h
  | cursorSave => exact cursorSave_inv s h
  | cursorRestore => exact cursorRestore_inv s h
  | scrollScreen => exact scrollScreen_inv s h
  | scrollScreenRows rs re => exact scrollScreenRows_inv s rs re h
  | scrollUp => exact scrollUp_inv s h
  | scrollDown => exact scrollDown_inv s h
  | eraseEndOfLine => exact eraseEndOfLine_inv s h
  | eraseStartOfLine => exact eraseStartOfLine_inv s h
  | eraseLine => exact eraseLine_inv s h
  | eraseDown => exact eraseDown_inv s h
  | eraseUp => exact eraseUp_inv s h
  | eraseScreen => exact fillRegion_inv s _ _ _ _ _ h
  | cr => exact cr_inv s h
  | lf => exact lf_inv s h
  | crlf => exact lf_inv _ (cr_inv s h)

theorem ops_inv {R C : Nat} (ops : List SOp) (s : Screen) (h : Inv R C s) : Inv R C (ops.foldl (fun s op => apply op s) s) := by
  induction ops generalizing s with
  | nil => exact h
  | cons op t ih => exact ih _ (apply_inv op s h)

end Scr
