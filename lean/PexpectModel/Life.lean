/-! Process life-cycle (C09, C10): the kernel's signal / wait semantics for one child and one descriptor,
    ptyprocess' `isalive` / `kill` / `terminate` / `wait` / `close`, and pexpect.spawn's copies of the status
    (with the repaired `close`).  `plan` is what the child does on its own when somebody waits for it. -/
namespace Lf

inductive Fate | exit (code : Nat) | signal (sig : Nat) deriving DecidableEq, Repr
inductive Proc | running | stopped | zombie (f : Fate) | reaped (f : Fate) deriving DecidableEq, Repr

def SIGHUP := 1
def SIGINT := 2
def SIGKILL := 9
def SIGCONT := 18

/-- the raw wait status the kernel reports: exit code in bits 8..15, terminating signal in bits 0..6 -/
def Fate.encode : Fate → Nat
  | .exit c => c * 256
  | .signal s => s

/-- `os.WIFEXITED / WEXITSTATUS / WIFSIGNALED / WTERMSIG` -/
def decode (status : Nat) : Fate := if status % 128 = 0 then .exit (status / 256 % 256) else .signal (status % 128)

structure K where
  proc : Proc
  ignHup : Bool
  ignInt : Bool
  pendHup : Bool := false
  pendInt : Bool := false
  pendOther : Option Nat := none   -- another fatal signal sent while stopped (stays pending until SIGCONT)
  fdOpen : Bool := true
  plan : Fate := .exit 0       -- how the child ends if it is left alone and waited for
deriving DecidableEq, Repr

def isReaped (p : Proc) : Bool := match p with | .reaped _ => true | _ => false

/-- deliver a signal (HUP, INT, KILL, CONT are the ones pexpect / ptyprocess send; any other fatal signal kills) -/
def deliver (k : K) (sig : Nat) : K :=
  match k.proc with
  | .running =>
    if sig = SIGKILL then { k with proc := .zombie (.signal SIGKILL) }
    else if sig = SIGHUP then (if k.ignHup then k else { k with proc := .zombie (.signal SIGHUP) })
    else if sig = SIGINT then (if k.ignInt then k else { k with proc := .zombie (.signal SIGINT) })
    else if sig = SIGCONT then k
    else { k with proc := .zombie (.signal sig) }
  | .stopped =>
    if sig = SIGKILL then { k with proc := .zombie (.signal SIGKILL) }
    else if sig = SIGHUP then { k with pendHup := !k.ignHup }
    else if sig = SIGINT then { k with pendInt := !k.ignInt }
    else if sig = SIGCONT then
      if k.pendHup then { k with proc := .zombie (.signal SIGHUP), pendHup := false }
      else if k.pendInt then { k with proc := .zombie (.signal SIGINT), pendInt := false }
      else match k.pendOther with
        | some s => { k with proc := .zombie (.signal s), pendOther := none }
        | none => { k with proc := .running }
    else match k.pendOther with
      | some _ => k
      | none => { k with pendOther := some sig }
  | _ => k

/-- closing the master hangs up the terminal: the kernel sends SIGHUP then SIGCONT -/
def closeMaster (k : K) : K := deliver (deliver { k with fdOpen := false } SIGHUP) SIGCONT

/-- the child runs to its own end -/
def finishPlan (k : K) : K :=
  match k.proc with
  | .running => { k with proc := .zombie k.plan }
  | _ => k

structure PP where             -- ptyprocess.PtyProcess
  terminated : Bool := false
  closed : Bool := false
  status : Option Nat := none
  exitstatus : Option Nat := none
  signalstatus : Option Nat := none
deriving DecidableEq, Repr

structure SP where             -- pexpect.spawn
  terminated : Bool := false
  closed : Bool := false
  childFd : Int := 5
  status : Option Nat := none
  exitstatus : Option Nat := none
  signalstatus : Option Nat := none
deriving DecidableEq, Repr

structure W where
  k : K
  pp : PP
  sp : SP
deriving DecidableEq, Repr

/-- what `isalive` / `wait` store from the raw status -/
def setFate (pp : PP) (f : Fate) : PP :=
  match decode f.encode with
  | .exit c => { pp with terminated := true, status := some f.encode, exitstatus := some c, signalstatus := none }
  | .signal s => { pp with terminated := true, status := some f.encode, exitstatus := none, signalstatus := some s }

/-- ptyprocess.isalive (WNOHANG) -/
def ppIsalive (w : W) : Bool × W :=
  if w.pp.terminated then (false, w)
  else match w.k.proc with
    | .zombie f => (false, { w with k := { w.k with proc := .reaped f }, pp := setFate w.pp f })
    | .reaped _ => (false, w)        -- ECHILD in reality; unreachable under the invariant
    | _ => (true, w)

def ppKill (w : W) (sig : Nat) : W :=
  let r := ppIsalive w
  if r.1 then { r.2 with k := deliver r.2.k sig } else r.2

/-- ptyprocess.terminate / pexpect.spawn.terminate -/
def ppTerminate (w : W) (force : Bool) : Bool × W :=
  let r := ppIsalive w
  if !r.1 then (true, r.2) else
  let r := ppIsalive (ppKill r.2 SIGHUP)
  if !r.1 then (true, r.2) else
  let r := ppIsalive (ppKill r.2 SIGCONT)
  if !r.1 then (true, r.2) else
  let r := ppIsalive (ppKill r.2 SIGINT)
  if !r.1 then (true, r.2) else
  if force then
    let r := ppIsalive (ppKill r.2 SIGKILL)
    (!r.1, r.2)
  else (false, r.2)

def copyStatus (w : W) : W :=
  { w with sp := { w.sp with terminated := true, status := w.pp.status, exitstatus := w.pp.exitstatus, signalstatus := w.pp.signalstatus } }

/-- pexpect.spawn.isalive -/
def spIsalive (w : W) : Bool × W :=
  let r := ppIsalive w
  if r.1 then (true, r.2) else (false, copyStatus r.2)

/-- pexpect.spawn.wait: ptyprocess.wait (blocking waitpid if alive) then copy.  A stopped child is never reported
    by a plain waitpid: the call does not return (modelled as "no result, nothing changes") -/
def spWait (w : W) : Option Nat × W :=
  let r := ppIsalive w
  if r.1 then
    match (finishPlan r.2.k).proc with
    | .zombie f =>
      let w2 := copyStatus { r.2 with k := { finishPlan r.2.k with proc := .reaped f }, pp := setFate r.2.pp f }
      (w2.pp.exitstatus, w2)
    | _ => (none, r.2)
  else
    let w2 := copyStatus r.2
    (w2.pp.exitstatus, w2)

inductive R | ok | raised deriving DecidableEq, Repr

/-- `self.child_fd = -1; self.closed = True` -/
def mark (v : W) : W := { v with sp := { v.sp with childFd := -1, closed := true } }

/-- the end of ptyprocess.close once `terminate` has answered, then pexpect's own bookkeeping -/
def closeTail (t : Bool × W) : R × W :=
  if t.1 then (.ok, mark (spIsalive { t.2 with pp := { t.2.pp with closed := true } }).2)
  else (.raised, mark t.2)

/-- pexpect.spawn.close(force) (repaired: the descriptor is given up on every path) -/
def spClose (w : W) (force : Bool) : R × W :=
  if w.pp.closed then (.ok, mark (spIsalive w).2)
  else
    let a := ppIsalive { w with k := closeMaster w.k }
    closeTail (if a.1 then ppTerminate a.2 force else (true, a.2))

/-- a send / read after close: which descriptor would the system call touch? -/
inductive IO | badf | valueError | usesOwnFd | touchesForeignFd deriving DecidableEq, Repr

def spSend (w : W) : IO :=
  if w.sp.childFd = -1 then .badf
  else if w.k.fdOpen then .usesOwnFd else .touchesForeignFd

def spRead (w : W) : IO :=
  if w.sp.closed then .valueError
  else if w.k.fdOpen then .usesOwnFd else .touchesForeignFd

inductive LOp | isalive | wait | kill (sig : Nat) | terminate (force : Bool) | close (force : Bool) | childEnds
  | read        -- read_nonblocking on the way to (or at) the end of the stream: it checks liveness, which records the status of a dead child
deriving DecidableEq, Repr

def stepOp (w : W) : LOp → W
  | .isalive => (spIsalive w).2
  | .wait => (spWait w).2
  | .kill sig => let r := spIsalive w; if r.1 then { r.2 with k := deliver r.2.k sig } else r.2
  | .terminate force =>
      -- spawn.terminate runs the same ladder through spawn.isalive / spawn.kill
      let t := ppTerminate w force
      if t.2.pp.terminated then copyStatus t.2 else t.2
  | .close force => (spClose w force).2
  | .childEnds => { w with k := finishPlan w.k }
  | .read => if w.sp.closed then w else (spIsalive w).2      -- on a closed object the read is refused before anything is looked at

/-! ### the invariant: what pexpect says about the child is the truth, and never changes once said -/

def fateFields (f : Fate) : Option Nat × Option Nat × Option Nat :=
  match f with
  | .exit c => (some (c * 256), some c, none)
  | .signal s => (some s, none, some s)

/-- codes and signal numbers the kernel can report -/
def Fate.Valid : Fate → Prop
  | .exit c => c < 256
  | .signal s => 0 < s ∧ s < 128

def KValid (k : K) : Prop :=
  k.plan.Valid ∧ (∀ f, k.proc = .zombie f → f.Valid) ∧ (∀ f, k.proc = .reaped f → f.Valid) ∧
  (∀ s, k.pendOther = some s → 0 < s ∧ s < 128)

/-- status truth and stability -/
def Core (w : W) : Prop :=
  KValid w.k ∧
  (w.pp.terminated = true ↔ ∃ f, w.k.proc = .reaped f) ∧
  (∀ f, w.k.proc = .reaped f → (w.pp.status, w.pp.exitstatus, w.pp.signalstatus) = fateFields f) ∧
  (w.sp.terminated = true → w.pp.terminated = true ∧ w.sp.status = w.pp.status ∧
      w.sp.exitstatus = w.pp.exitstatus ∧ w.sp.signalstatus = w.pp.signalstatus)

/-- the descriptor number the object would use is still its own -/
def FdOk (w : W) : Prop :=
  (w.sp.childFd ≠ -1 → w.k.fdOpen = true ∧ w.sp.closed = false) ∧ (w.sp.childFd = -1 → w.sp.closed = true)

def Inv (w : W) : Prop := Core w ∧ FdOk w

theorem decode_encode (f : Fate) (h : f.Valid) : decode f.encode = f := by
  cases f with
  | exit c =>
    simp only [Fate.Valid] at h
    show (if c * 256 % 128 = 0 then Fate.exit (c * 256 / 256 % 256) else Fate.signal (c * 256 % 128)) = Fate.exit c
    have h0 : c * 256 % 128 = 0 := by omega
    have h1 : c * 256 / 256 % 256 = c := by omega
    rw [if_pos h0, h1]
  | signal s =>
    simp only [Fate.Valid] at h
    show (if s % 128 = 0 then Fate.exit (s / 256 % 256) else Fate.signal (s % 128)) = Fate.signal s
    have h0 : ¬ (s % 128 = 0) := by omega
    have h1 : s % 128 = s := by omega
    rw [if_neg h0, h1]

theorem setFate_fields (pp : PP) (f : Fate) (h : f.Valid) :
    (setFate pp f).terminated = true ∧ ((setFate pp f).status, (setFate pp f).exitstatus, (setFate pp f).signalstatus) = fateFields f ∧
    (setFate pp f).closed = pp.closed := by
  unfold setFate
  rw [decode_encode f h]
  cases f <;> simp [fateFields, Fate.encode]

def SigOK (sig : Nat) : Prop := 0 < sig ∧ sig < 128

theorem deliver_proc (k : K) (sig : Nat) :
    (∀ f, (deliver k sig).proc = .reaped f ↔ k.proc = .reaped f) ∧ (deliver k sig).plan = k.plan ∧
    (deliver k sig).fdOpen = k.fdOpen := by
  unfold deliver
  cases hp : k.proc with
  | running =>
    simp only
    repeat' split
    all_goals simp_all
  | stopped =>
    simp only
    repeat' split
    all_goals simp_all
  | zombie f => simp [hp]
  | reaped f => simp [hp]

theorem deliver_zombie (k : K) (sig : Nat) (f : Fate) (h : (deliver k sig).proc = .zombie f) :
    k.proc = .zombie f ∨ f = .signal SIGKILL ∨ f = .signal SIGHUP ∨ f = .signal SIGINT ∨ f = .signal sig ∨
    (∃ s, k.pendOther = some s ∧ f = .signal s) := by
  unfold deliver at h
  cases hp : k.proc with
  | running =>
    rw [hp] at h
    simp only at h
    repeat' split at h
    all_goals simp_all
  | stopped =>
    rw [hp] at h
    simp only at h
    repeat' split at h
    all_goals simp_all
  | zombie f' => rw [hp] at h; simp only at h; rw [hp] at h; exact Or.inl h
  | reaped f' => rw [hp] at h; simp only at h; rw [hp] at h; exact absurd h (by simp)

theorem deliver_pend (k : K) (sig : Nat) (s : Nat) (h : (deliver k sig).pendOther = some s) :
    k.pendOther = some s ∨ s = sig := by
  unfold deliver at h
  cases hp : k.proc with
  | running =>
    rw [hp] at h
    simp only at h
    repeat' split at h
    all_goals simp_all
  | stopped =>
    rw [hp] at h
    simp only at h
    repeat' split at h
    all_goals simp_all
  | zombie f' => rw [hp] at h; exact Or.inl h
  | reaped f' => rw [hp] at h; exact Or.inl h

theorem deliver_kvalid (k : K) (sig : Nat) (hs : SigOK sig) (h : KValid k) : KValid (deliver k sig) := by
  obtain ⟨h1, h2, h3, h4⟩ := h
  obtain ⟨d1, d2, _⟩ := deliver_proc k sig
  refine ⟨by rw [d2]; exact h1, ?_, ?_, ?_⟩
  · intro f hf
    rcases deliver_zombie k sig f hf with hz | rfl | rfl | rfl | rfl | ⟨s, hs', rfl⟩
    · exact h2 f hz
    · simp [Fate.Valid, SIGKILL]
    · simp [Fate.Valid, SIGHUP]
    · simp [Fate.Valid, SIGINT]
    · exact hs
    · exact h4 s hs'
  · intro f hf; exact h3 f ((d1 f).1 hf)
  · intro s hs'
    rcases deliver_pend k sig s hs' with hp | rfl
    · exact h4 s hp
    · exact hs

/-- a kernel-only change that neither reaps nor un-reaps and keeps `fdOpen` keeps the invariant -/
theorem core_of_k (w : W) (k' : K) (h : Core w) (hv : KValid k') (hr : ∀ f, k'.proc = .reaped f ↔ w.k.proc = .reaped f) :
    Core { w with k := k' } := by
  obtain ⟨_, h2, h3, h4⟩ := h
  refine ⟨hv, ?_, ?_, h4⟩
  · simp only; rw [h2]; constructor
    · rintro ⟨f, hf⟩; exact ⟨f, (hr f).2 hf⟩
    · rintro ⟨f, hf⟩; exact ⟨f, (hr f).1 hf⟩
  · intro f hf; exact h3 f ((hr f).1 hf)

theorem ppIsalive_inv (w : W) (h : Core w) : Core (ppIsalive w).2 ∧
    ((ppIsalive w).1 = false → (ppIsalive w).2.pp.terminated = true) ∧
    ((ppIsalive w).1 = true → (ppIsalive w).2 = w ∧ (w.k.proc = .running ∨ w.k.proc = .stopped)) := by
  obtain ⟨hv, h2, h3, h4⟩ := h
  unfold ppIsalive
  by_cases ht : w.pp.terminated = true
  · rw [if_pos ht]
    exact ⟨⟨hv, h2, h3, h4⟩, fun _ => ht, fun hh => absurd hh (by simp)⟩
  · rw [if_neg ht]
    cases hp : w.k.proc with
    | running =>
      exact ⟨⟨hv, h2, h3, h4⟩, fun hh => absurd hh (by simp), fun _ => ⟨rfl, Or.inl rfl⟩⟩
    | stopped =>
      exact ⟨⟨hv, h2, h3, h4⟩, fun hh => absurd hh (by simp), fun _ => ⟨rfl, Or.inr rfl⟩⟩
    | reaped f => exact absurd (h2.2 ⟨f, hp⟩) ht
    | zombie f =>
      have hfv : f.Valid := hv.2.1 f hp
      obtain ⟨s1, s2, _⟩ := setFate_fields w.pp f hfv
      refine ⟨⟨⟨hv.1, ?_, ?_, hv.2.2.2⟩, ?_, ?_, ?_⟩, fun _ => s1, fun hh => absurd hh (by simp)⟩
      · intro f' hf'; exact absurd hf' (by simp)
      · intro f' hf'
        have : f' = f := by simpa using hf'.symm
        subst this; exact hfv
      · constructor
        · intro _; exact ⟨f, rfl⟩
        · intro _; exact s1
      · intro f' hf'
        have : f' = f := by simpa using hf'.symm
        subst this; exact s2
      · intro hst
        exact absurd (h4 hst).1 ht

theorem ppKill_inv (w : W) (sig : Nat) (hs : SigOK sig) (h : Core w) : Core (ppKill w sig) := by
  obtain ⟨hi, _, ha⟩ := ppIsalive_inv w h
  unfold ppKill
  simp only
  by_cases hal : (ppIsalive w).1 = true
  · rw [if_pos hal]
    obtain ⟨d1, _, _⟩ := deliver_proc (ppIsalive w).2.k sig
    exact core_of_k (ppIsalive w).2 _ hi (deliver_kvalid _ sig hs hi.1) d1
  · rw [if_neg hal]; exact hi

theorem ppTerminate_inv (w : W) (force : Bool) (h : Core w) : Core (ppTerminate w force).2 := by
  have sHUP : SigOK SIGHUP := by simp [SigOK, SIGHUP]
  have sCONT : SigOK SIGCONT := by simp [SigOK, SIGCONT]
  have sINT : SigOK SIGINT := by simp [SigOK, SIGINT]
  have sKILL : SigOK SIGKILL := by simp [SigOK, SIGKILL]
  have i0 := (ppIsalive_inv w h).1
  have i1 := (ppIsalive_inv _ (ppKill_inv _ SIGHUP sHUP i0)).1
  have i2 := (ppIsalive_inv _ (ppKill_inv _ SIGCONT sCONT i1)).1
  have i3 := (ppIsalive_inv _ (ppKill_inv _ SIGINT sINT i2)).1
  have i4 := (ppIsalive_inv _ (ppKill_inv _ SIGKILL sKILL i3)).1
  unfold ppTerminate
  simp only
  split
  · exact i0
  · split
    · exact i1
    · split
      · exact i2
      · split
        · exact i3
        · split
          · exact i4
          · exact i3

theorem copyStatus_inv (w : W) (h : Core w) (ht : w.pp.terminated = true) : Core (copyStatus w) := by
  obtain ⟨hv, h2, h3, _⟩ := h
  exact ⟨hv, h2, h3, fun _ => ⟨ht, rfl, rfl, rfl⟩⟩

theorem spIsalive_inv (w : W) (h : Core w) : Core (spIsalive w).2 := by
  obtain ⟨hi, hf, _⟩ := ppIsalive_inv w h
  unfold spIsalive
  simp only
  by_cases hal : (ppIsalive w).1 = true
  · rw [if_pos hal]; exact hi
  · rw [if_neg hal]; exact copyStatus_inv _ hi (hf (by simpa using hal))

theorem finishPlan_of_ne (k : K) (h : k.proc ≠ .running) : finishPlan k = k := by
  unfold finishPlan
  cases hp : k.proc with
  | running => exact absurd hp h
  | stopped => rfl
  | zombie f => rfl
  | reaped f => rfl

theorem finishPlan_kvalid (k : K) (h : KValid k) : KValid (finishPlan k) := by
  by_cases hr : k.proc = .running
  · obtain ⟨h1, _, _, h4⟩ := h
    have : finishPlan k = { k with proc := .zombie k.plan } := by simp [finishPlan, hr]
    rw [this]
    refine ⟨h1, ?_, ?_, h4⟩
    · intro f hf
      have : f = k.plan := by simpa using hf.symm
      subst this; exact h1
    · intro f hf; exact absurd hf (by simp)
  · rw [finishPlan_of_ne k hr]; exact h

theorem finishPlan_reaped (k : K) : (∀ f, (finishPlan k).proc = .reaped f ↔ k.proc = .reaped f) ∧ (finishPlan k).fdOpen = k.fdOpen := by
  unfold finishPlan
  cases hp : k.proc <;> simp [hp]

theorem spWait_inv (w : W) (h : Core w) : Core (spWait w).2 := by
  obtain ⟨hi, hf, ha⟩ := ppIsalive_inv w h
  unfold spWait
  simp only
  by_cases hal : (ppIsalive w).1 = true
  · rw [if_pos hal]
    obtain ⟨heq, hrun⟩ := ha hal
    rw [heq]
    have hkv := finishPlan_kvalid w.k h.1
    rcases hrun with hr | hs
    · have hz : (finishPlan w.k).proc = .zombie w.k.plan := by simp [finishPlan, hr]
      rw [hz]
      simp only
      have hpv : w.k.plan.Valid := h.1.1
      obtain ⟨s1, s2, _⟩ := setFate_fields w.pp w.k.plan hpv
      obtain ⟨_, h2, _, h4⟩ := h
      apply copyStatus_inv
      · refine ⟨⟨?_, ?_, ?_, hkv.2.2.2⟩, ?_, ?_, ?_⟩
        · exact hkv.1
        · intro f hf'; simp at hf'
        · intro f hf'; simp only [Proc.reaped.injEq] at hf'; subst hf'; exact hpv
        · simp only [s1, true_iff]; exact ⟨_, rfl⟩
        · intro f hf'; simp only [Proc.reaped.injEq] at hf'; subst hf'; exact s2
        · intro hst
          obtain ⟨f, hf'⟩ := h2.1 (h4 hst).1
          rw [hr] at hf'; cases hf'
      · exact s1
    · have hz : (finishPlan w.k).proc = .stopped := by simp [finishPlan, hs]
      rw [hz]
      exact h
  · rw [if_neg hal]
    exact copyStatus_inv _ hi (hf (by simpa using hal))

theorem closeMaster_facts (k : K) (h : KValid k) :
    KValid (closeMaster k) ∧ (∀ f, (closeMaster k).proc = .reaped f ↔ k.proc = .reaped f) ∧ (closeMaster k).fdOpen = false := by
  have sHUP : SigOK SIGHUP := by simp [SigOK, SIGHUP]
  have sCONT : SigOK SIGCONT := by simp [SigOK, SIGCONT]
  unfold closeMaster
  have hv0 : KValid { k with fdOpen := false } := h
  obtain ⟨a1, _, a3⟩ := deliver_proc { k with fdOpen := false } SIGHUP
  obtain ⟨b1, _, b3⟩ := deliver_proc (deliver { k with fdOpen := false } SIGHUP) SIGCONT
  refine ⟨deliver_kvalid _ _ sCONT (deliver_kvalid _ _ sHUP hv0), ?_, by rw [b3, a3]⟩
  intro f; rw [b1, a1]

theorem mark_core (v : W) (h : Core v) : Core (mark v) := by
  obtain ⟨a, b, c, d⟩ := h; exact ⟨a, b, c, d⟩

theorem closeTail_core (t : Bool × W) (h : Core t.2) : Core (closeTail t).2 := by
  unfold closeTail
  split
  · apply mark_core
    apply spIsalive_inv
    obtain ⟨a, b, c, d⟩ := h
    exact ⟨a, b, c, d⟩
  · exact mark_core _ h

/-- `close` keeps the status truth on every path -/
theorem spClose_core (w : W) (force : Bool) (h : Core w) : Core (spClose w force).2 := by
  unfold spClose
  split
  · exact mark_core _ (spIsalive_inv w h)
  · simp only
    obtain ⟨cv, cr, _⟩ := closeMaster_facts w.k h.1
    have h1 : Core { w with k := closeMaster w.k } := core_of_k w _ h cv cr
    have h2 := (ppIsalive_inv _ h1).1
    apply closeTail_core
    split
    · exact ppTerminate_inv _ force h2
    · exact h2

theorem closeTail_releases (t : Bool × W) : (closeTail t).2.sp.childFd = -1 ∧ (closeTail t).2.sp.closed = true := by
  unfold closeTail
  split <;> exact ⟨rfl, rfl⟩

/-- after `close` the object has given up the descriptor, whatever happened to the child -/
theorem spClose_releases (w : W) (force : Bool) :
    (spClose w force).2.sp.childFd = -1 ∧ (spClose w force).2.sp.closed = true := by
  unfold spClose
  split
  · exact ⟨rfl, rfl⟩
  · exact closeTail_releases _

theorem spClose_inv (w : W) (force : Bool) (h : Inv w) : Inv (spClose w force).2 :=
  ⟨spClose_core w force h.1, fun hne => absurd (spClose_releases w force).1 hne, fun _ => (spClose_releases w force).2⟩

end Lf

namespace Lf

def LOp.OK : LOp → Prop
  | .kill sig => SigOK sig
  | _ => True

theorem fdOk_of_sp (w w' : W) (h : FdOk w) (hs : w'.sp.childFd = w.sp.childFd) (hc : w'.sp.closed = w.sp.closed) (hf : w'.k.fdOpen = w.k.fdOpen) :
    FdOk w' := by
  refine ⟨?_, ?_⟩
  · intro hne
    rw [hs] at hne
    have := h.1 hne
    rw [hc, hf]; exact this
  · intro he
    rw [hs] at he
    rw [hc]; exact h.2 he

theorem ppIsalive_fd (w : W) : (ppIsalive w).2.sp = w.sp ∧ (ppIsalive w).2.k.fdOpen = w.k.fdOpen := by
  unfold ppIsalive
  split
  · exact ⟨rfl, rfl⟩
  · split <;> exact ⟨rfl, rfl⟩

theorem ppKill_fd (w : W) (sig : Nat) : (ppKill w sig).sp = w.sp ∧ (ppKill w sig).k.fdOpen = w.k.fdOpen := by
  unfold ppKill
  simp only
  split
  · exact ⟨(ppIsalive_fd w).1, by rw [(deliver_proc _ sig).2.2]; exact (ppIsalive_fd w).2⟩
  · exact ppIsalive_fd w

theorem ppTerminate_fd (w : W) (force : Bool) : (ppTerminate w force).2.sp = w.sp ∧ (ppTerminate w force).2.k.fdOpen = w.k.fdOpen := by
  have a0 := ppIsalive_fd w
  have k1 := ppKill_fd (ppIsalive w).2 SIGHUP
  have a1 := ppIsalive_fd (ppKill (ppIsalive w).2 SIGHUP)
  have k2 := ppKill_fd (ppIsalive (ppKill (ppIsalive w).2 SIGHUP)).2 SIGCONT
  have a2 := ppIsalive_fd (ppKill (ppIsalive (ppKill (ppIsalive w).2 SIGHUP)).2 SIGCONT)
  have k3 := ppKill_fd (ppIsalive (ppKill (ppIsalive (ppKill (ppIsalive w).2 SIGHUP)).2 SIGCONT)).2 SIGINT
  have a3 := ppIsalive_fd (ppKill (ppIsalive (ppKill (ppIsalive (ppKill (ppIsalive w).2 SIGHUP)).2 SIGCONT)).2 SIGINT)
  have k4 := ppKill_fd (ppIsalive (ppKill (ppIsalive (ppKill (ppIsalive (ppKill (ppIsalive w).2 SIGHUP)).2 SIGCONT)).2 SIGINT)).2 SIGKILL
  have a4 := ppIsalive_fd (ppKill (ppIsalive (ppKill (ppIsalive (ppKill (ppIsalive (ppKill (ppIsalive w).2 SIGHUP)).2 SIGCONT)).2 SIGINT)).2 SIGKILL)
  unfold ppTerminate
  simp only
  split
  · exact a0
  · split
    · exact ⟨by rw [a1.1, k1.1, a0.1], by rw [a1.2, k1.2, a0.2]⟩
    · split
      · exact ⟨by rw [a2.1, k2.1, a1.1, k1.1, a0.1], by rw [a2.2, k2.2, a1.2, k1.2, a0.2]⟩
      · split
        · exact ⟨by rw [a3.1, k3.1, a2.1, k2.1, a1.1, k1.1, a0.1], by rw [a3.2, k3.2, a2.2, k2.2, a1.2, k1.2, a0.2]⟩
        · split
          · exact ⟨by rw [a4.1, k4.1, a3.1, k3.1, a2.1, k2.1, a1.1, k1.1, a0.1], by rw [a4.2, k4.2, a3.2, k3.2, a2.2, k2.2, a1.2, k1.2, a0.2]⟩
          · exact ⟨by rw [a3.1, k3.1, a2.1, k2.1, a1.1, k1.1, a0.1], by rw [a3.2, k3.2, a2.2, k2.2, a1.2, k1.2, a0.2]⟩

/-- **every life-cycle operation keeps the invariant** (status truth + descriptor ownership) -/
theorem stepOp_inv (w : W) (op : LOp) (hop : op.OK) (h : Inv w) : Inv (stepOp w op) := by
  obtain ⟨hc, hf⟩ := h
  cases op with
  | isalive =>
    refine ⟨spIsalive_inv w hc, ?_⟩
    unfold stepOp spIsalive
    simp only
    split
    · exact fdOk_of_sp w _ hf (by rw [(ppIsalive_fd w).1]) (by rw [(ppIsalive_fd w).1]) (ppIsalive_fd w).2
    · exact fdOk_of_sp w _ hf (by simp [copyStatus, (ppIsalive_fd w).1]) (by simp [copyStatus, (ppIsalive_fd w).1]) (by simp [copyStatus, (ppIsalive_fd w).2])
  | read =>
    unfold stepOp
    simp only
    split
    · exact ⟨hc, hf⟩
    · refine ⟨spIsalive_inv w hc, ?_⟩
      unfold spIsalive
      simp only
      split
      · exact fdOk_of_sp w _ hf (by rw [(ppIsalive_fd w).1]) (by rw [(ppIsalive_fd w).1]) (ppIsalive_fd w).2
      · exact fdOk_of_sp w _ hf (by simp [copyStatus, (ppIsalive_fd w).1]) (by simp [copyStatus, (ppIsalive_fd w).1]) (by simp [copyStatus, (ppIsalive_fd w).2])
  | wait =>
    refine ⟨spWait_inv w hc, ?_⟩
    unfold stepOp spWait
    simp only
    split
    · split
      · refine fdOk_of_sp w _ hf ?_ ?_ ?_
        · simp [copyStatus, (ppIsalive_fd w).1]
        · simp [copyStatus, (ppIsalive_fd w).1]
        · simp only [copyStatus]; rw [(finishPlan_reaped _).2, (ppIsalive_fd w).2]
      · exact fdOk_of_sp w _ hf (by rw [(ppIsalive_fd w).1]) (by rw [(ppIsalive_fd w).1]) (ppIsalive_fd w).2
    · exact fdOk_of_sp w _ hf (by simp [copyStatus, (ppIsalive_fd w).1]) (by simp [copyStatus, (ppIsalive_fd w).1]) (by simp [copyStatus, (ppIsalive_fd w).2])
  | kill sig =>
    have hi := spIsalive_inv w hc
    have hfd : FdOk (spIsalive w).2 := by
      unfold spIsalive
      simp only
      split
      · exact fdOk_of_sp w _ hf (by rw [(ppIsalive_fd w).1]) (by rw [(ppIsalive_fd w).1]) (ppIsalive_fd w).2
      · exact fdOk_of_sp w _ hf (by simp [copyStatus, (ppIsalive_fd w).1]) (by simp [copyStatus, (ppIsalive_fd w).1]) (by simp [copyStatus, (ppIsalive_fd w).2])
    unfold stepOp
    simp only
    split
    · obtain ⟨d1, _, d3⟩ := deliver_proc (spIsalive w).2.k sig
      exact ⟨core_of_k _ _ hi (deliver_kvalid _ sig hop hi.1) d1, fdOk_of_sp _ _ hfd rfl rfl d3⟩
    · exact ⟨hi, hfd⟩
  | terminate force =>
    have ht := ppTerminate_inv w force hc
    have hfd := ppTerminate_fd w force
    unfold stepOp
    simp only
    split
    · rename_i htt
      exact ⟨copyStatus_inv _ ht htt, fdOk_of_sp w _ hf (by simp [copyStatus, hfd.1]) (by simp [copyStatus, hfd.1]) (by simp [copyStatus, hfd.2])⟩
    · exact ⟨ht, fdOk_of_sp w _ hf (by rw [hfd.1]) (by rw [hfd.1]) hfd.2⟩
  | close force => exact spClose_inv w force ⟨hc, hf⟩
  | childEnds =>
    unfold stepOp
    exact ⟨core_of_k w _ hc (finishPlan_kvalid w.k hc.1) (finishPlan_reaped w.k).1, fdOk_of_sp w _ hf rfl rfl (finishPlan_reaped w.k).2⟩

theorem ops_inv (ops : List LOp) (hops : ∀ op ∈ ops, op.OK) (w : W) (h : Inv w) : Inv (ops.foldl stepOp w) := by
  induction ops generalizing w with
  | nil => exact h
  | cons op t ih => exact ih (fun o ho => hops o (by simp [ho])) _ (stepOp_inv w op (hops op (by simp)) h)

/-- **status_truth** (C09): whenever pexpect says `terminated`, the child has been reaped with a fate `f`, exactly one
    of exitstatus / signalstatus is set and equals it, and `status` decodes to the same fate -/
theorem status_truth (w : W) (h : Inv w) (ht : w.sp.terminated = true) :
    ∃ f, w.k.proc = .reaped f ∧ (w.sp.status, w.sp.exitstatus, w.sp.signalstatus) = fateFields f ∧
      (∀ st, w.sp.status = some st → decode st = f) := by
  obtain ⟨⟨hv, h2, h3, h4⟩, _⟩ := h
  obtain ⟨hpt, e1, e2, e3⟩ := h4 ht
  obtain ⟨f, hf⟩ := h2.1 hpt
  refine ⟨f, hf, by rw [e1, e2, e3]; exact h3 f hf, ?_⟩
  intro st hst
  have hfv : f.Valid := hv.2.2.1 f hf
  have := h3 f hf
  rw [e1] at hst
  cases f with
  | exit c =>
    simp only [fateFields, Prod.mk.injEq] at this
    rw [this.1] at hst
    have : st = (Fate.exit c).encode := by simpa [Fate.encode] using hst.symm
    rw [this]; exact decode_encode _ hfv
  | signal s =>
    simp only [fateFields, Prod.mk.injEq] at this
    rw [this.1] at hst
    have : st = (Fate.signal s).encode := by simpa [Fate.encode] using hst.symm
    rw [this]; exact decode_encode _ hfv

theorem exactly_one_status (f : Fate) : ((fateFields f).2.1.isSome ∧ (fateFields f).2.2 = none) ∨ ((fateFields f).2.1 = none ∧ (fateFields f).2.2.isSome) := by
  cases f <;> simp [fateFields]

theorem reaped_stays (w : W) (op : LOp) (f : Fate) (h : w.k.proc = .reaped f) : (stepOp w op).k.proc = .reaped f := by
  have iso : ∀ v : W, v.k.proc = .reaped f → (ppIsalive v).2.k.proc = .reaped f := by
    intro v hv
    by_cases ht : v.pp.terminated = true <;> simp [ppIsalive, ht, hv]
  have kil : ∀ (v : W) (sig : Nat), v.k.proc = .reaped f → (ppKill v sig).k.proc = .reaped f := by
    intro v sig hv; unfold ppKill; simp only; split
    · exact ((deliver_proc _ sig).1 f).2 (iso v hv)
    · exact iso v hv
  have ter : ∀ (v : W) (force : Bool), v.k.proc = .reaped f → (ppTerminate v force).2.k.proc = .reaped f := by
    intro v force hv
    have i0 := iso v hv
    have i1 := iso _ (kil _ SIGHUP i0)
    have i2 := iso _ (kil _ SIGCONT i1)
    have i3 := iso _ (kil _ SIGINT i2)
    have i4 := iso _ (kil _ SIGKILL i3)
    unfold ppTerminate; simp only
    split
    · exact i0
    · split
      · exact i1
      · split
        · exact i2
        · split
          · exact i3
          · split
            · exact i4
            · exact i3
  have spi : ∀ v : W, v.k.proc = .reaped f → (spIsalive v).2.k.proc = .reaped f := by
    intro v hv; unfold spIsalive; simp only; split
    · exact iso v hv
    · exact iso v hv
  cases op with
  | isalive => exact spi w h
  | read =>
    show (if w.sp.closed then w else (spIsalive w).2).k.proc = _
    split
    · exact h
    · exact spi w h
  | wait =>
    show (spWait w).2.k.proc = _
    have e := iso w h
    have hne : (ppIsalive w).2.k.proc ≠ .running := by rw [e]; simp
    unfold spWait; simp only
    split
    · rw [finishPlan_of_ne _ hne, e]
      exact e
    · exact e
  | kill sig =>
    show (let r := spIsalive w; if r.1 then { r.2 with k := deliver r.2.k sig } else r.2).k.proc = _
    simp only; split
    · exact ((deliver_proc _ sig).1 f).2 (spi w h)
    · exact spi w h
  | terminate force =>
    show (let t := ppTerminate w force; if t.2.pp.terminated then copyStatus t.2 else t.2).k.proc = _
    simp only; split
    · exact ter w force h
    · exact ter w force h
  | close force =>
    show (spClose w force).2.k.proc = _
    unfold spClose
    split
    · exact spi w h
    · simp only
      have hc : (closeMaster w.k).proc = .reaped f := by
        unfold closeMaster
        exact ((deliver_proc _ SIGCONT).1 f).2 (((deliver_proc _ SIGHUP).1 f).2 h)
      have ha := iso { w with k := closeMaster w.k } hc
      have hT : (if (ppIsalive { w with k := closeMaster w.k }).1 = true then ppTerminate (ppIsalive { w with k := closeMaster w.k }).2 force
          else (true, (ppIsalive { w with k := closeMaster w.k }).2)).2.k.proc = .reaped f := by
        split
        · exact ter _ force ha
        · exact ha
      have tail : ∀ t : Bool × W, t.2.k.proc = .reaped f → (closeTail t).2.k.proc = .reaped f := by
        intro t ht
        unfold closeTail
        split
        · exact spi { t.2 with pp := { t.2.pp with closed := true } } ht
        · exact ht
      exact tail _ hT
  | childEnds =>
    show (finishPlan w.k).proc = _
    have hne : w.k.proc ≠ .running := by rw [h]; simp
    rw [finishPlan_of_ne _ hne]; exact h

/-- **status_stable** (C09): once reported, status / exitstatus / signalstatus never change, whatever is called next -/
theorem status_stable (w : W) (op : LOp) (hop : op.OK) (h : Inv w) (ht : w.sp.terminated = true) :
    (stepOp w op).sp.terminated = true →
    ((stepOp w op).sp.status, (stepOp w op).sp.exitstatus, (stepOp w op).sp.signalstatus) = (w.sp.status, w.sp.exitstatus, w.sp.signalstatus) := by
  intro ht'
  obtain ⟨f, hf, e, _⟩ := status_truth w h ht
  obtain ⟨f', hf', e', _⟩ := status_truth _ (stepOp_inv w op hop h) ht'
  have := reaped_stays w op f hf
  rw [this] at hf'
  have : f' = f := by simpa using hf'.symm
  rw [e', e, this]

/-- **never_alive_after_reap** (C10) -/
theorem never_alive_after_reap (w : W) (h : Inv w) (f : Fate) (hr : w.k.proc = .reaped f) : (spIsalive w).1 = false := by
  have ht : w.pp.terminated = true := h.1.2.1.2 ⟨f, hr⟩
  simp [spIsalive, ppIsalive, ht]

/-- **never_terminated_while_running** (C10) -/
theorem never_terminated_while_running (w : W) (h : Inv w) (ht : w.sp.terminated = true) :
    w.k.proc ≠ .running ∧ w.k.proc ≠ .stopped := by
  obtain ⟨f, hf, _⟩ := status_truth w h ht
  rw [hf]; simp

/-- **io_after_close_errors** (C10): after `close`, on every path, a send fails with EBADF and a read with ValueError;
    neither can reach a descriptor number that somebody else may own by now -/
theorem io_after_close_errors (w : W) (force : Bool) : spSend (spClose w force).2 = .badf ∧ spRead (spClose w force).2 = .valueError := by
  obtain ⟨h1, h2⟩ := spClose_releases w force
  simp [spSend, spRead, h1, h2]

/-- in every reachable state, I/O uses the object's own descriptor or fails — it never touches a foreign one -/
theorem io_never_foreign (w : W) (h : Inv w) : spSend w ≠ .touchesForeignFd ∧ spRead w ≠ .touchesForeignFd := by
  obtain ⟨_, hf⟩ := h
  unfold spSend spRead
  by_cases hfd : w.sp.childFd = -1
  · have hc := hf.2 hfd
    simp [hfd, hc]
  · obtain ⟨h1, h2⟩ := hf.1 hfd
    simp [hfd, h1, h2]

def w0 (proc : Proc) (ih ii ph pi : Bool) : W :=
  { k := { proc := proc, ignHup := ih, ignInt := ii, pendHup := ph, pendInt := pi }, pp := {}, sp := {} }

/-- **close_reaps_and_releases** (C10): `close()` leaves the child dead and reaped and the descriptor released for
    every disposition — running or stopped, ignoring SIGHUP and / or SIGINT, with or without signals already pending -/
theorem close_reaps_and_releases :
    ∀ st ∈ [Proc.running, Proc.stopped], ∀ ih ∈ [true, false], ∀ ii ∈ [true, false], ∀ ph ∈ [true, false], ∀ pi ∈ [true, false],
      let r := spClose (w0 st ih ii ph pi) true
      r.1 = .ok ∧ isReaped r.2.k.proc = true ∧ r.2.k.fdOpen = false ∧ r.2.sp.closed = true ∧
      r.2.sp.childFd = -1 ∧ r.2.sp.terminated = true := by decide

/-- **terminate_force_reaps** (C10) -/
theorem terminate_force_reaps :
    ∀ st ∈ [Proc.running, Proc.stopped], ∀ ih ∈ [true, false], ∀ ii ∈ [true, false], ∀ ph ∈ [true, false], ∀ pi ∈ [true, false],
      let r := ppTerminate (w0 st ih ii ph pi) true
      r.1 = true ∧ isReaped r.2.k.proc = true := by decide

/-- `close` is idempotent -/
theorem close_idempotent :
    ∀ st ∈ [Proc.running, Proc.stopped], ∀ ih ∈ [true, false], ∀ ii ∈ [true, false], ∀ f1 ∈ [true, false], ∀ f2 ∈ [true, false],
      let r1 := spClose (w0 st ih ii false false) f1
      (spClose r1.2 f2).2.sp = (if r1.1 = .ok then r1.2.sp else (spClose r1.2 f2).2.sp) ∧ (spClose r1.2 f2).2.sp.childFd = -1 := by decide

theorem w0_inv (proc : Proc) (ih ii ph pi : Bool) (hp : proc = .running ∨ proc = .stopped) : Inv (w0 proc ih ii ph pi) := by
  refine ⟨⟨⟨by simp [w0, Fate.Valid], ?_, ?_, by intro s hs; simp [w0] at hs⟩, ?_, ?_, ?_⟩, ?_⟩
  · intro f hf; rcases hp with rfl | rfl <;> simp [w0] at hf
  · intro f hf; rcases hp with rfl | rfl <;> simp [w0] at hf
  · constructor
    · intro h; simp [w0] at h
    · rintro ⟨f, hf⟩; rcases hp with rfl | rfl <;> simp [w0] at hf
  · intro f hf; rcases hp with rfl | rfl <;> simp [w0] at hf
  · intro h; simp [w0] at h
  · exact ⟨fun _ => by simp [w0], fun h => by simp [w0] at h⟩

end Lf
