/-! scratch: process life-cycle: kernel signal/wait semantics + ptyprocess + pexpect.spawn glue -/
namespace Lf

inductive Fate | exit (code : Nat) | signal (sig : Nat) deriving DecidableEq, Repr
inductive Proc | running | stopped | zombie (f : Fate) | reaped (f : Fate) deriving DecidableEq, Repr

def SIGHUP := 1
def SIGINT := 2
def SIGKILL := 9
def SIGCONT := 18

structure K where              -- the kernel's view of the child and of our descriptor
  proc : Proc
  ignHup : Bool
  ignInt : Bool
  pendHup : Bool := false
  pendInt : Bool := false
  fdOpen : Bool := true
deriving DecidableEq, Repr

def isReaped (p : Proc) : Bool := match p with | .reaped _ => true | _ => false

def dead (k : K) : Bool := match k.proc with | .zombie _ | .reaped _ => true | _ => false

/-- deliver a signal (only HUP, INT, KILL, CONT are used by pexpect / ptyprocess) -/
def deliver (k : K) (sig : Nat) : K :=
  match k.proc with
  | .running =>
    if sig = SIGKILL then { k with proc := .zombie (.signal SIGKILL) }
    else if sig = SIGHUP then (if k.ignHup then k else { k with proc := .zombie (.signal SIGHUP) })
    else if sig = SIGINT then (if k.ignInt then k else { k with proc := .zombie (.signal SIGINT) })
    else k
  | .stopped =>
    if sig = SIGKILL then { k with proc := .zombie (.signal SIGKILL) }
    else if sig = SIGHUP then { k with pendHup := !k.ignHup }
    else if sig = SIGINT then { k with pendInt := !k.ignInt }
    else if sig = SIGCONT then
      if k.pendHup then { k with proc := .zombie (.signal SIGHUP), pendHup := false }
      else if k.pendInt then { k with proc := .zombie (.signal SIGINT), pendInt := false }
      else { k with proc := .running }
    else k
  | _ => k

/-- closing the master hangs up the terminal: the kernel sends SIGHUP then SIGCONT -/
def closeMaster (k : K) : K := deliver (deliver { k with fdOpen := false } SIGHUP) SIGCONT

structure PP where             -- ptyprocess.PtyProcess fields that matter
  terminated : Bool := false
  closed : Bool := false
  exitstatus : Option Nat := none
  signalstatus : Option Nat := none
deriving DecidableEq, Repr

structure SP where             -- pexpect.spawn fields
  terminated : Bool := false
  closed : Bool := false
  childFd : Int := 5
  exitstatus : Option Nat := none
  signalstatus : Option Nat := none
deriving DecidableEq, Repr

structure W where
  k : K
  pp : PP
  sp : SP
deriving DecidableEq, Repr

def setFate (pp : PP) (f : Fate) : PP :=
  match f with
  | .exit c => { pp with terminated := true, exitstatus := some c, signalstatus := none }
  | .signal s => { pp with terminated := true, exitstatus := none, signalstatus := some s }

/-- ptyprocess.isalive with WNOHANG (flag_eof = false) -/
def ppIsalive (w : W) : Bool × W :=
  if w.pp.terminated then (false, w)
  else match w.k.proc with
    | .zombie f => (false, { w with k := { w.k with proc := .reaped f }, pp := setFate w.pp f })
    | .reaped _ => (false, w)        -- ECHILD in reality; unreachable under the invariant
    | _ => (true, w)

def ppKill (w : W) (sig : Nat) : W :=
  let (alive, w) := ppIsalive w
  if alive then { w with k := deliver w.k sig } else w

/-- ptyprocess.terminate / pexpect.spawn.terminate (same code) -/
def ppTerminate (w : W) (force : Bool) : Bool × W :=
  let (a, w) := ppIsalive w
  if !a then (true, w) else
  let w := ppKill w SIGHUP
  let (a, w) := ppIsalive w
  if !a then (true, w) else
  let w := ppKill w SIGCONT
  let (a, w) := ppIsalive w
  if !a then (true, w) else
  let w := ppKill w SIGINT
  let (a, w) := ppIsalive w
  if !a then (true, w) else
  if force then
    let w := ppKill w SIGKILL
    let (a, w) := ppIsalive w
    (!a, w)
  else (false, w)

/-- pexpect.spawn.isalive: copy the status when dead -/
def spIsalive (w : W) : Bool × W :=
  let (a, w) := ppIsalive w
  if a then (true, w)
  else (false, { w with sp := { w.sp with terminated := true, exitstatus := w.pp.exitstatus, signalstatus := w.pp.signalstatus } })

inductive R | ok | raised deriving DecidableEq, Repr

/-- pexpect.spawn.close(force) with the repair of #9 (descriptor marked closed even if the child survives) -/
def spClose (w : W) (force : Bool) : R × W :=
  if w.pp.closed then
    let (_, w) := spIsalive w
    (.ok, { w with sp := { w.sp with childFd := -1, closed := true } })
  else
    let w := { w with k := closeMaster w.k }
    let (a, w) := ppIsalive w
    let (okT, w) := if a then ppTerminate w force else (true, w)
    if okT then
      let w := { w with pp := { w.pp with closed := true } }
      let (_, w) := spIsalive w
      (.ok, { w with sp := { w.sp with childFd := -1, closed := true } })
    else (.raised, { w with sp := { w.sp with childFd := -1, closed := true } })

def Inv (w : W) : Prop :=
  (w.pp.terminated = true ↔ ∃ f, w.k.proc = .reaped f) ∧
  (∀ f, w.k.proc = .reaped f → (w.pp.exitstatus, w.pp.signalstatus) =
      (match f with | .exit c => (some c, none) | .signal s => (none, some s))) ∧
  (w.sp.terminated = true → w.pp.terminated = true ∧ w.sp.exitstatus = w.pp.exitstatus ∧ w.sp.signalstatus = w.pp.signalstatus)

def w0 (proc : Proc) (ih ii : Bool) : W := { k := { proc := proc, ignHup := ih, ignInt := ii }, pp := {}, sp := {} }

/-- close() (force=True) leaves the child dead and reaped and the descriptor released — for every
    disposition: decided here on all 2×2×2 initial kernels (running/stopped × ignores HUP × ignores INT) -/
theorem close_reaps_and_releases :
    ∀ st ∈ [Proc.running, Proc.stopped], ∀ ih ∈ [true, false], ∀ ii ∈ [true, false],
      let r := spClose (w0 st ih ii) true
      r.1 = .ok ∧ isReaped r.2.k.proc = true ∧ r.2.k.fdOpen = false ∧ r.2.sp.closed = true ∧
      r.2.sp.childFd = -1 ∧ r.2.sp.terminated = true := by decide

/-- terminate(force=True) kills a child that ignores HUP and INT, stopped or not -/
theorem terminate_force_reaps :
    ∀ st ∈ [Proc.running, Proc.stopped], ∀ ih ∈ [true, false], ∀ ii ∈ [true, false],
      let r := ppTerminate (w0 st ih ii) true
      r.1 = true ∧ isReaped r.2.k.proc = true := by decide

/-- the defect #9, pre-repair: after a failed close(force=False) the object still names the closed descriptor -/
example :
    let w := w0 .running true true
    let r := spClose w false
    r.1 = .raised ∧ r.2.k.fdOpen = false ∧ r.2.k.proc = .running := by decide

/-- isalive never changes the truth: it preserves the invariant (status truth, stability) -/
theorem spIsalive_inv (w : W) (h : Inv w) : Inv (spIsalive w).2 := by
  obtain ⟨h1, h2, h3⟩ := h
  unfold spIsalive ppIsalive
  by_cases ht : w.pp.terminated = true
  · simp only [ht, if_true]
    refine ⟨h1, h2, ?_⟩
    intro _; exact ⟨ht, rfl, rfl⟩
  · simp only [ht]
    cases hp : w.k.proc with
    | running => simp only [Bool.false_eq_true, if_false, if_true]; exact ⟨h1, h2, h3⟩
    | stopped => simp only [Bool.false_eq_true, if_false, if_true]; exact ⟨h1, h2, h3⟩
    | reaped f =>
      have := h1.2 ⟨f, hp⟩
      exact absurd this ht
    | zombie f =>
      simp only [Bool.false_eq_true, if_false]
      refine ⟨?_, ?_, ?_⟩
      · cases f <;> simp [setFate]
      · intro f' hf'
        simp only [Proc.reaped.injEq] at hf'
        subst hf'
        cases f <;> simp [setFate]
      · intro _
        cases f <;> simp [setFate]

end Lf
