import PexpectModel.Ansi
/-! # C18 — ANSI emulator: total, shape-preserving, no residue, independent of chunking.
    All statements are over the transition table generated from the live `pexpect.ANSI.ANSI` object and
    the stack effects generated from the action functions' source. -/
namespace C18
open Ansi AnsiOK AnsiGen Scr

/-- the generated table passes the decidable well-formedness check (stack demands fit state contracts) -/
theorem table_ok : TableOK = true := tableOK

theorem initial_is_INIT : AnsiGen.initial = .INIT := by decide

theorem init_valid (R C : Nat) (hR : 1 ≤ R) (hC : 1 ≤ C) : TInv R C (Ansi.init R C) :=
  init_inv R C hR hC initial_is_INIT

/-- never raises; the grid stays rows × cols; the cursor stays on the screen — one character -/
theorem step_total {R C : Nat} (t : Term) (c : Nat) (h : TInv R C t) : ∃ t', tstep t c = some t' ∧ TInv R C t' :=
  tstep_total t c h

/-- … and every input of any length, from the initial terminal -/
theorem feed_never_raises (R C : Nat) (hR : 1 ≤ R) (hC : 1 ≤ C) (cs : List Nat) :
    ∃ t', feed (Ansi.init R C) cs = some t' ∧ TInv R C t' :=
  feed_total cs _ (init_valid R C hR hC)

theorem grid_and_cursor {R C : Nat} (t : Term) (h : TInv R C t) :
    t.scr.w.length = R ∧ (∀ row ∈ t.scr.w, row.length = C) ∧
    1 ≤ t.scr.curR ∧ t.scr.curR ≤ R ∧ 1 ≤ t.scr.curC ∧ t.scr.curC ≤ C :=
  ⟨h.1.shape.1, h.1.shape.2, h.1.cur.1, h.1.cur.2.1, h.1.cur.2.2.1, h.1.cur.2.2.2⟩

theorem no_residue {R C : Nat} (t : Term) (h : TInv R C t) (hs : t.p.s = .INIT) : t.p.st = [] :=
  init_state_has_no_residue t h hs

/-- any chunking of text = feeding at once (cuts inside an escape sequence included) -/
theorem feed_chunk_independent (t : Term) (chunks : List (List Nat)) :
    chunks.foldlM feed t = feed t chunks.flatten :=
  feed_chunks t chunks

/-- any chunking of bytes = decoding the whole stream and feeding the text at once, for every incremental
    decoder that satisfies the chunk law (cuts inside a multi-byte character included) -/
theorem feed_bytes_chunk_independent {σ : Type} (dec : Cd.IncDecoder σ Nat) (d : σ) (t : Term) (chunks : List (List Nat)) :
    feedBytes dec (d, t) chunks =
      (feed t (dec.feed d chunks.flatten).2).map (fun t' => ((dec.feed d chunks.flatten).1, t')) :=
  feedBytes_eq_whole dec d t chunks

/-- `process()` is `write()` of one byte (after fix 136218d it feeds every character the decoder completes): feeding a byte stream one byte
    at a time through `process` gives the terminal that one `write` of the whole stream gives -/
theorem process_bytewise_eq_write {σ : Type} (dec : Cd.IncDecoder σ Nat) (d : σ) (t : Term) (bs : List Nat) :
    feedBytes dec (d, t) (bs.map (fun b => [b])) =
      (feed t (dec.feed d bs).2).map (fun t' => ((dec.feed d bs).1, t')) := by
  have hf : ∀ l : List Nat, (l.map (fun b => [b])).flatten = l := by
    intro l
    induction l with
    | nil => rfl
    | cons b r ih => simp [ih]
  have h := feedBytes_eq_whole dec d t (bs.map (fun b => [b]))
  rw [hf bs] at h
  exact h

/-! non-vacuity -/
example : ((feed (Ansi.init 2 3) [27, 91, 53, 59, 54, 72, 97]).map (fun t => (t.p.s, t.p.st, t.scr.w))) =
    some (.INIT, [], [[32, 32, 97], [32, 32, 32]]) := by decide
example : ((feed (Ansi.init 2 3) [27, 91, 53, 59]).map (fun t => (t.p.s, t.p.st))) = some (.SEMICOLON, [[53]]) := by decide

end C18
