import PexpectModel.Life
/-! # C10 — life-cycle safety: no stale handles, no leaks, no lying about liveness. -/
namespace C10
open Lf

theorem ops_keep_invariant (ops : List LOp) (hops : ∀ op ∈ ops, op.OK) (w : W) (h : Inv w) : Inv (ops.foldl stepOp w) :=
  ops_inv ops hops w h

theorem never_alive_after_reap (w : W) (h : Inv w) (f : Fate) (hr : w.k.proc = .reaped f) : (spIsalive w).1 = false :=
  Lf.never_alive_after_reap w h f hr

theorem never_terminated_while_running (w : W) (h : Inv w) (ht : w.sp.terminated = true) :
    w.k.proc ≠ .running ∧ w.k.proc ≠ .stopped :=
  Lf.never_terminated_while_running w h ht

theorem terminate_force_reaps :
    ∀ st ∈ [Proc.running, Proc.stopped], ∀ ih ∈ [true, false], ∀ ii ∈ [true, false], ∀ ph ∈ [true, false], ∀ pi ∈ [true, false],
      let r := ppTerminate (w0 st ih ii ph pi) true
      r.1 = true ∧ isReaped r.2.k.proc = true := Lf.terminate_force_reaps

theorem close_reaps_and_releases :
    ∀ st ∈ [Proc.running, Proc.stopped], ∀ ih ∈ [true, false], ∀ ii ∈ [true, false], ∀ ph ∈ [true, false], ∀ pi ∈ [true, false],
      let r := spClose (w0 st ih ii ph pi) true
      r.1 = .ok ∧ isReaped r.2.k.proc = true ∧ r.2.k.fdOpen = false ∧ r.2.sp.closed = true ∧
      r.2.sp.childFd = -1 ∧ r.2.sp.terminated = true := Lf.close_reaps_and_releases

theorem close_releases_on_every_path (w : W) (force : Bool) :
    (spClose w force).2.sp.childFd = -1 ∧ (spClose w force).2.sp.closed = true := spClose_releases w force

theorem close_idempotent :
    ∀ st ∈ [Proc.running, Proc.stopped], ∀ ih ∈ [true, false], ∀ ii ∈ [true, false], ∀ f1 ∈ [true, false], ∀ f2 ∈ [true, false],
      let r1 := spClose (w0 st ih ii false false) f1
      (spClose r1.2 f2).2.sp = (if r1.1 = .ok then r1.2.sp else (spClose r1.2 f2).2.sp) ∧ (spClose r1.2 f2).2.sp.childFd = -1 :=
  Lf.close_idempotent

theorem io_after_close_errors (w : W) (force : Bool) :
    spSend (spClose w force).2 = .badf ∧ spRead (spClose w force).2 = .valueError := Lf.io_after_close_errors w force

theorem io_never_foreign (w : W) (h : Inv w) : spSend w ≠ .touchesForeignFd ∧ spRead w ≠ .touchesForeignFd :=
  Lf.io_never_foreign w h

/-! the defect that was repaired, as a witness: without `mark` on the failing path the object kept the stale number -/
example :
    let r := spClose (w0 .running true true false false) false
    r.1 = .raised ∧ r.2.k.fdOpen = false ∧ r.2.k.proc = .running ∧ r.2.sp.childFd = -1 ∧ spSend r.2 = .badf := by decide

end C10
