import PexpectModel.Forms
/-! # C20 — a pattern means the same in every accepted form; other objects are rejected. -/
namespace C20
open Fm

theorem forms_equivalent (ic : Bool) (t : List Nat) (f : Flags) :
    compileOne .bytes ic (.compiledBytes t f) = compileOne .bytes ic (.compiledStr t f) ∧
    compileOne .bytes ic (.bytes t) = compileOne .bytes ic (.str t) ∧
    compileOne .bytes ic (.str t) = compileOne .bytes ic (.compiledBytes t { dotall := true, icase := ic }) ∧
    compileOne .unicode ic (.compiledStr t f) = compileOne .unicode ic (.compiledBytes t f) ∧
    compileOne .unicode ic (.str t) = compileOne .unicode ic (.compiledStr t { dotall := true, icase := ic }) :=
  Fm.forms_equivalent ic t f

theorem single_eq_singleton (m : Mode) (ic : Bool) (p : Form) :
    compileArg m ic (.inl p) = compileArg m ic (.inr [p]) := Fm.single_eq_singleton m ic p

theorem exact_single_eq_singleton (m : Mode) (p : Form) : prepareArg m (.inl p) = prepareArg m (.inr [p]) := rfl

theorem dotall_added_to_strings (m : Mode) (ic : Bool) (t : List Nat) :
    compileOne m ic (.str t) = .ok (.re t { dotall := true, icase := ic }) := Fm.string_gets_dotall m ic t

theorem ignorecase_added_iff_set (m : Mode) (ic : Bool) (t : List Nat) (f : Flags)
    (h : compileOne m ic (.str t) = .ok (.re t f)) : f.icase = ic ∧ f.dotall = true :=
  Fm.ignorecase_added_iff_set m ic t f h

theorem compiled_flags_kept (m : Mode) (ic : Bool) (t : List Nat) (f : Flags) :
    compileOne m ic (.compiledStr t f) = .ok (.re t f) ∧ compileOne m ic (.compiledBytes t f) = .ok (.re t f) := ⟨rfl, rfl⟩

theorem other_rejected_before_consumption {σ ρ : Type} (m : Mode) (ic : Bool) (pre post : List Form)
    (hpre : ∀ p ∈ pre, ∃ c, compileOne m ic p = .ok c) (run : List CPat → σ → ρ × σ) (st : σ) :
    expectTop m ic (.inr (pre ++ .other :: post)) run st = (.error .typeError, st) :=
  Fm.other_rejected_before_consumption m ic pre post hpre run st

theorem exact_other_rejected (m : Mode) (pre post : List Form) (bad : Form)
    (hbad : bad = .other ∨ (∃ t f, bad = .compiledStr t f) ∨ (∃ t f, bad = .compiledBytes t f))
    (hpre : ∀ p ∈ pre, ∃ c, prepareOne m p = .ok c) :
    (pre ++ bad :: post).mapM (prepareOne m) = .error .typeError :=
  Fm.exact_other_rejected m pre post bad hbad hpre

/-! non-vacuity -/
example : compileList .bytes true [.str [97], .eof, .compiledStr [98] { multiline := true }] =
    .ok [.re [97] { dotall := true, icase := true }, .eof, .re [98] { multiline := true }] := rfl
example : compileList .unicode false [.str [97], .bytes [98]] = .error .typeError := rfl

end C20
