import PexpectModel.PtyTheorems
import PexpectModel.PopenWorld
/-! # C06 — transport fidelity: all peer output delivered once, in order, before EOF; no read exceeds `size`;
    the socket's own timeout is left as found.  Each statement is for every peer script and every schedule. -/
namespace C06

/-- pty, any sequence of reads -/
theorem pty_reads_conserve (calls : List (Nat × Bool)) (hsz : ∀ c ∈ calls, 1 ≤ c.1) (script : List PtyW.Act) (sc : PtyW.Sched) :
    let r := PtyW.reads calls (PtyW.w0 script) sc []
    PtyW.Conserve r.2.2.2 r.2.1 ∧ (r.1.getLast? = some .eof → PtyW.Drained r.2.1) := by
  obtain ⟨hw, hc⟩ := PtyW.w0_ok script
  have := PtyW.reads_conserve calls hsz (PtyW.w0 script) sc [] hw hc
  exact ⟨this.2.1, this.2.2⟩

/-- pty, one read from any reachable world: conservation, EOF only when drained and hung up, at most `size` bytes -/
theorem pty_read_post (size : Nat) (hsize : 1 ≤ size) (timed : Bool) (w : PtyW.World) (sc : PtyW.Sched) (d : List Nat)
    (hw : PtyW.WInv w) (hc : PtyW.Conserve d w) : PtyW.Post d size (PtyW.readNonblocking size timed w sc) :=
  PtyW.readNonblocking_post size hsize timed w sc d hw hc

theorem pty_eof_again (size : Nat) (timed : Bool) (w : PtyW.World) (sc : PtyW.Sched) (hw : PtyW.WInv w) (hd : PtyW.Drained w) :
    (PtyW.readNonblocking size timed w sc).1 = .eof :=
  PtyW.eof_again size timed w sc hw hd

/-- raw file descriptor and socket -/
theorem fd_read_post (size : Nat) (hsize : 1 ≤ size) (w : PipeW.World) (sc : PipeW.Sched) (d : List Nat) (hc : PipeW.Conserve d w) :
    PipeW.Post d size (PipeW.fdRead size w sc).1 (PipeW.fdRead size w sc).2.1 :=
  PipeW.fdRead_post size hsize w sc d hc

theorem fd_eof_again (size : Nat) (w : PipeW.World) (sc : PipeW.Sched) (hd : PipeW.Drained w) : (PipeW.fdRead size w sc).1 = .eof :=
  PipeW.fd_eof_again size w sc hd

theorem socket_read_post (size : Nat) (hsize : 1 ≤ size) (t : Option Nat) (s : PipeW.Sock) (w : PipeW.World) (sc : PipeW.Sched)
    (d : List Nat) (hc : PipeW.Conserve d w) :
    PipeW.Post d size (PipeW.sockRead size t s w sc).1 (PipeW.sockRead size t s w sc).2.2.1 :=
  PipeW.sockRead_post size hsize t s w sc d hc

theorem socket_timeout_restored (size : Nat) (t : Option Nat) (s : PipeW.Sock) (w : PipeW.World) (sc : PipeW.Sched) :
    (PipeW.sockRead size t s w sc).2.1 = s := rfl

/-- piped subprocess (reader thread, queue, carry-over) -/
theorem popen_read_post (size fuel : Nat) (s : PopenW.St) (sc : List PopenW.Slot) (d : List Nat) (hi : PopenW.Inv s)
    (hc : PopenW.Conserve d s) :
    let r := PopenW.readNonblocking size fuel s sc
    PopenW.Inv r.2.1 ∧
    (∀ bs, r.1 = .data bs → PopenW.Conserve (d ++ bs) r.2.1 ∧ bs.length ≤ size) ∧
    (r.1 = .eof → PopenW.Conserve d r.2.1 ∧ r.2.1.buf = [] ∧ r.2.1.queue = [] ∧ r.2.1.w.kbuf = [] ∧ r.2.1.w.open_ = false) :=
  PopenW.readNonblocking_post size fuel s sc d hi hc

/-! non-vacuity: the write-then-exit race inside the timed wait; a hang-up with data still queued -/
example :
    let r := PtyW.readNonblocking 10 true (PtyW.w0 [.write [7], .exit 0]) [⟨0,1⟩, ⟨0,1⟩, ⟨0,1⟩, ⟨2,1⟩]
    r.1 = .data [7] ∧ r.2.1.kbuf = [] := by decide
example :
    (PtyW.reads [(2, true), (2, true), (2, true)] (PtyW.w0 [.write [1, 2, 3], .closeTty]) [⟨2, 9⟩] []).1
      = [.data [1, 2], .data [3], .eof] := by decide

end C06
