import PexpectModel.Pxssh
import PexpectModel.PxPrompt
/-! # C17 — pxssh login: secrets only when asked, success only at a prompt, else raises.

All statements are about `Px.login PxGen.tbl`, the interpreter of the table that T-pxssh regenerates
from pexpect/pxssh.py on every run, for every server (`Env`: what each expect answers, what each
try_read_prompt collects) and every option set. -/
namespace C17
open Px

abbrev T := PxGen.tbl

/-! ### facts of the generated table (re-decided whenever the source changes) -/
theorem tbl_password_once : (T.first.filter (fun p => p.2 = .password)).length = 1 := by decide
theorem tbl_yes_once : (T.first.filter (fun p => p.2 = .yes)).length = 1 := by decide
theorem tbl_password_idx : ∀ p ∈ T.first, p.2 = .password → T.initArr[p.1]? = some .passwordRe ∧ T.arr[p.1]? = some .passwordRe := by decide
theorem tbl_yes_idx : ∀ p ∈ T.first, p.2 = .yes → T.initArr[p.1]? = some .hostkey ∧ T.arr[p.1]? = some .hostkey := by decide
theorem tbl_pass_only : ∀ p ∈ T.second, p.2 = .pass → T.arr[p.1]? = some .origPrompt ∨ T.arr[p.1]? = some .timeout := by decide
theorem tbl_every_failure_closes : T.failCloses = true ∧ (∀ p ∈ T.second, p.2 ≠ .raiseOnly) ∧ T.secondElse = .closeRaise := by decide
theorem tbl_arrays_agree : ∀ i, i < T.arr.length → T.initArr[i]? = T.arr[i]? := by decide
theorem tbl_post : T.post = [.sync, .reset] := by decide
theorem tbl_fail_is_eof : T.initArr[T.failIdx]? = some .eof ∧ T.arr[T.failIdx]? = none := by decide

/-- the sends of the two checks are Enters and prompt-setting commands only -/
theorem post_sent (o : Opts) (e : Env) (sent : List Sent) (ne nr : Nat) :
    ∃ ps, (postChecks T o e [.sync, .reset] sent ne nr).sent = sent ++ ps ∧ ∀ s ∈ ps, s.isFirst = none := by
  have reset : ∀ (snt : List Sent) (ne nr : Nat), ∃ ps, (postChecks T o e [.reset] snt ne nr).sent = snt ++ ps ∧ ∀ s ∈ ps, s.isFirst = none := by
    intro snt ne nr
    have hl : ∀ r s k, setUniquePrompt T e.resetAnswers snt = (r, s, k) → ∃ ps, s = snt ++ ps ∧ ∀ x ∈ ps, x.isFirst = none := by
      intro r s k h
      obtain ⟨x2, l1, l2, -, -⟩ := ladder_sent T.ladder e.resetAnswers (snt ++ [.unsetPromptCommand]) 0
      unfold setUniquePrompt at h
      rw [h] at l1
      refine ⟨[.unsetPromptCommand] ++ x2, by simpa using l1, ?_⟩
      intro x hx
      simp only [List.mem_append, List.mem_singleton] at hx
      rcases hx with rfl | hx
      · rfl
      · obtain ⟨shl, rfl⟩ := l2 x hx; rfl
    apply reset_cases T o e snt ne nr (fun out => ∃ ps, out.sent = snt ++ ps ∧ ∀ s ∈ ps, s.isFirst = none)
    · intro _; exact ⟨[], by simp, by simp⟩
    · intro f s k _ h; exact hl _ _ _ h
    · intro s k _ h; exact hl _ _ _ h
    · intro s k _ h; exact hl _ _ _ h
  have hs : ∀ r s k, syncPrompt e.reads sent = (r, s, k) → ∃ ps, s = sent ++ ps ∧ ∀ x ∈ ps, x.isFirst = none := by
    intro r s k h
    obtain ⟨x1, s1, s2, -, -⟩ := syncPrompt_sent e.reads sent
    rw [h] at s1
    exact ⟨x1, s1, fun x hx => by rw [s2 x hx]; rfl⟩
  apply post_cases T o e sent ne nr (fun out => ∃ ps, out.sent = sent ++ ps ∧ ∀ s ∈ ps, s.isFirst = none)
  · intro f s k _ h; exact hs _ _ _ h
  · intro s k _ h; exact hs _ _ _ h
  · intro s k _ h
    obtain ⟨p1, rfl, hp1⟩ := hs _ _ _ h
    obtain ⟨p2, e2, hp2⟩ := reset (sent ++ p1) ne (nr + k)
    refine ⟨p1 ++ p2, by rw [e2, List.append_assoc], ?_⟩
    intro x hx
    rcases List.mem_append.mp hx with hx | hx
    · exact hp1 x hx
    · exact hp2 x hx
  · intro _; exact reset sent ne nr

/-- the transcript of a login: first-phase sends (a sub-sequence of the table), then only Enters and
    prompt-setting commands -/
theorem login_sent_shape (o : Opts) (e : Env) :
    ∃ fs ps, (login T o e).sent = fs ++ ps ∧ (fs.filterMap Sent.isFirst).Sublist T.first ∧
      (∀ s ∈ fs, ∃ w i c, s = .first w i c) ∧ (∀ s ∈ ps, s.isFirst = none) := by
  have fp : ∀ i0 r sent a n, firstPhase T.first i0 0 e.answers [] = (r, sent, a, n) →
      (sent.filterMap Sent.isFirst).Sublist T.first ∧ (∀ s ∈ sent, ∃ w i c, s = .first w i c) := by
    intro i0 r sent a n h
    obtain ⟨extra, h1, h2, -, h4⟩ := firstPhase_sent T.first i0 0 e.answers []
    rw [h] at h1
    simp only [List.nil_append] at h1
    subst h1
    exact ⟨h2, h4⟩
  apply login_cases T o e (fun out => ∃ fs ps, out.sent = fs ++ ps ∧ (fs.filterMap Sent.isFirst).Sublist T.first ∧
      (∀ s ∈ fs, ∃ w i c, s = .first w i c) ∧ (∀ s ∈ ps, s.isFirst = none))
  · intro _; exact ⟨[], [], by simp, by simp, by simp, by simp⟩
  · intro _; exact ⟨[], [], by simp, by simp, by simp, by simp⟩
  · intro i0 f sent a n _ h; obtain ⟨a1, a2⟩ := fp _ _ _ _ _ h; exact ⟨sent, [], by simp, a1, a2, by simp⟩
  · intro i0 i sent a n _ h _; obtain ⟨a1, a2⟩ := fp _ _ _ _ _ h; exact ⟨sent, [], by simp, a1, a2, by simp⟩
  · intro i0 i sent a n _ h _ _; obtain ⟨a1, a2⟩ := fp _ _ _ _ _ h; exact ⟨sent, [], by simp, a1, a2, by simp⟩
  · intro i0 i sent a n _ h _ _; obtain ⟨a1, a2⟩ := fp _ _ _ _ _ h; exact ⟨sent, [], by simp, a1, a2, by simp⟩
  · intro i0 i sent a n _ h _ _
    obtain ⟨a1, a2⟩ := fp _ _ _ _ _ h
    rw [tbl_post]
    obtain ⟨ps, hps, hps2⟩ := post_sent o e sent (n + 1) 0
    exact ⟨sent, ps, hps, a1, a2, hps2⟩

/-- **password_sent_at_most_once_and_only_after_prompt**: whatever the server does and whatever the
    options are, the transcript contains the password at most once, and a password send directly
    follows an expect that returned the index of the password/passphrase pattern (in whichever of
    the two arrays that expect used) -/
theorem password_sent_at_most_once_and_only_after_prompt (o : Opts) (e : Env) :
    (((login T o e).sent.filterMap Sent.isFirst).filter (fun p => p.2 = .password)).length ≤ 1 ∧
    (∀ i c, Sent.first .password i c ∈ (login T o e).sent → T.initArr[i]? = some .passwordRe ∧ T.arr[i]? = some .passwordRe) := by
  obtain ⟨fs, ps, hs, hsub, hfs, hps⟩ := login_sent_shape o e
  have hfm : (login T o e).sent.filterMap Sent.isFirst = fs.filterMap Sent.isFirst := by
    rw [hs, List.filterMap_append]
    have : ps.filterMap Sent.isFirst = [] := by
      rw [List.filterMap_eq_nil_iff]; exact hps
    rw [this, List.append_nil]
  constructor
  · rw [hfm]
    have := (hsub.filter (fun p => p.2 = What.password)).length_le
    rw [tbl_password_once] at this
    exact this
  · intro i c hmem
    have : (i, What.password) ∈ (login T o e).sent.filterMap Sent.isFirst :=
      List.mem_filterMap.mpr ⟨_, hmem, rfl⟩
    rw [hfm] at this
    exact tbl_password_idx _ (hsub.subset this) rfl

/-- **yes_only_to_hostkey**: `yes` is sent at most once and only right after the host-key question matched -/
theorem yes_only_to_hostkey (o : Opts) (e : Env) :
    (((login T o e).sent.filterMap Sent.isFirst).filter (fun p => p.2 = .yes)).length ≤ 1 ∧
    (∀ i c, Sent.first .yes i c ∈ (login T o e).sent → T.initArr[i]? = some .hostkey ∧ T.arr[i]? = some .hostkey) := by
  obtain ⟨fs, ps, hs, hsub, hfs, hps⟩ := login_sent_shape o e
  have hfm : (login T o e).sent.filterMap Sent.isFirst = fs.filterMap Sent.isFirst := by
    rw [hs, List.filterMap_append]
    have : ps.filterMap Sent.isFirst = [] := by
      rw [List.filterMap_eq_nil_iff]; exact hps
    rw [this, List.append_nil]
  constructor
  · rw [hfm]
    have := (hsub.filter (fun p => p.2 = What.yes)).length_le
    rw [tbl_yes_once] at this
    exact this
  · intro i c hmem
    have : (i, What.yes) ∈ (login T o e).sent.filterMap Sent.isFirst :=
      List.mem_filterMap.mpr ⟨_, hmem, rfl⟩
    rw [hfm] at this
    exact tbl_yes_idx _ (hsub.subset this) rfl

/-- what a successful login implies (**true_implies_prompt_and_unique_prompt_partial**): the first phase
    ended on the shell-prompt pattern or on TIMEOUT, every *enabled* check succeeded — the last two
    responses to Enter were non-empty and similar; some prompt-setting command was answered by the
    unique prompt — and the session is still open -/
theorem true_implies_prompt_and_unique_prompt_partial (o : Opts) (e : Env) (h : (login T o e).res = .ok) :
    (login T o e).closed = false ∧
    (o.syncOriginalPrompt = true → syncOk e.reads = true) ∧
    (o.autoPromptReset = true → resetOk T e.resetAnswers = true) := by
  revert h
  apply login_cases T o e (fun out => out.res = .ok → out.closed = false ∧
      (o.syncOriginalPrompt = true → syncOk e.reads = true) ∧ (o.autoPromptReset = true → resetOk T e.resetAnswers = true))
  · intro _ h; cases h
  · intro _ h; cases h
  · intro i0 f sent a n _ _ h; cases f <;> cases h
  · intro i0 i sent a n _ _ _ h; cases h
  · intro i0 i sent a n _ _ _ _ h; cases h
  · intro i0 i sent a n _ _ _ _ h; cases h
  · intro i0 i sent a n _ _ _ _
    rw [tbl_post]
    have reset : ∀ (snt : List Sent) (ne nr : Nat), (postChecks T o e [.reset] snt ne nr).res = .ok →
        (postChecks T o e [.reset] snt ne nr).closed = false ∧ (o.autoPromptReset = true → resetOk T e.resetAnswers = true) := by
      intro snt ne nr
      apply reset_cases T o e snt ne nr (fun out => out.res = .ok → out.closed = false ∧ (o.autoPromptReset = true → resetOk T e.resetAnswers = true))
      · intro ho _; exact ⟨rfl, (by intro h; rw [ho] at h; cases h)⟩
      · intro f s k _ _ h; cases f <;> cases h
      · intro s k _ _ h; cases h
      · intro s k _ hs _
        refine ⟨rfl, fun _ => ?_⟩
        obtain ⟨_, _, _, _, l4⟩ := ladder_sent T.ladder e.resetAnswers (snt ++ [.unsetPromptCommand]) 0
        unfold setUniquePrompt at hs
        rw [hs] at l4
        unfold resetOk
        rw [← l4]
    apply post_cases T o e sent (n + 1) 0 (fun out => out.res = .ok → out.closed = false ∧
        (o.syncOriginalPrompt = true → syncOk e.reads = true) ∧ (o.autoPromptReset = true → resetOk T e.resetAnswers = true))
    · intro f s k _ _ h; cases f <;> cases h
    · intro s k _ _ h; cases h
    · intro s k _ hs h
      obtain ⟨r1, r2⟩ := reset _ _ _ h
      refine ⟨r1, fun _ => ?_, r2⟩
      obtain ⟨_, _, _, _, s4⟩ := syncPrompt_sent e.reads sent
      rw [hs] at s4
      unfold syncOk
      rw [← s4]
    · intro ho h
      obtain ⟨r1, r2⟩ := reset _ _ _ h
      exact ⟨r1, (by intro h; rw [ho] at h; cases h), r2⟩

/-- the full-strength claim "True only if a shell prompt was reached" is FALSE of the code: a silent
    server (the first expect times out, index 5) with both checks switched off logs in "successfully".
    This is the known finding `login/silent-server/both-checks-off`. -/
theorem silent_server_logs_in_when_checks_off :
    (login T ⟨false, false⟩ ⟨.idx 5, [], [], []⟩).res = .ok ∧ (login T ⟨false, false⟩ ⟨.idx 5, [], [], []⟩).sent = [] := by decide

/-- with both checks on (the defaults) success needs two similar non-empty responses and the unique prompt -/
theorem default_login_needs_prompt (e : Env) (h : (login T ⟨true, true⟩ e).res = .ok) :
    (∃ x y a b rest, e.reads = some x :: some y :: some a :: some b :: rest ∧ a ≠ [] ∧ 5 * lev a b < 2 * a.length) ∧
    (∃ k j, k < T.ladder.length ∧ e.resetAnswers[k]? = some (.idx (j + 1)) ∧ ∀ m, m < k → e.resetAnswers[m]? = some (.idx 0)) := by
  obtain ⟨-, h1, h2⟩ := true_implies_prompt_and_unique_prompt_partial _ e h
  refine ⟨(syncOk_iff _).mp (h1 rfl), ?_⟩
  have := h2 rfl
  unfold resetOk at this
  split at this
  · rename_i heq; exact (ladder_ok_true _ _).mp heq
  · simp at this

/-- **otherwise_raises**: every outcome other than success is a pexpect exception, and an
    ExceptionPxssh is raised only after the session has been closed -/
theorem otherwise_raises (o : Opts) (e : Env) :
    (login T o e).res = .ok ∨ (login T o e).res = .eofError ∨ (login T o e).res = .timeoutError ∨
    ((login T o e).res = .pxsshError ∧ (login T o e).closed = true) := by
  obtain ⟨hfc, hsec, helse⟩ := tbl_every_failure_closes
  apply login_cases T o e (fun out => out.res = .ok ∨ out.res = .eofError ∨ out.res = .timeoutError ∨ (out.res = .pxsshError ∧ out.closed = true))
  · intro _; simp
  · intro _; simp
  · intro i0 f sent a n _ _; cases f <;> simp [Fail.res]
  · intro i0 i sent a n _ _ _; simp [hfc]
  · intro i0 i sent a n _ _ _ _; simp
  · intro i0 i sent a n _ _ _ hv
    exfalso
    rcases verdict_mem T i with ⟨k, hk⟩ | hk
    · exact hsec _ hk hv
    · rw [hv, helse] at hk; cases hk
  · intro i0 i sent a n _ _ _ _
    rw [tbl_post]
    have reset : ∀ (snt : List Sent) (ne nr : Nat),
        (postChecks T o e [.reset] snt ne nr).res = .ok ∨ (postChecks T o e [.reset] snt ne nr).res = .eofError ∨
        (postChecks T o e [.reset] snt ne nr).res = .timeoutError ∨
        ((postChecks T o e [.reset] snt ne nr).res = .pxsshError ∧ (postChecks T o e [.reset] snt ne nr).closed = true) := by
      intro snt ne nr
      apply reset_cases T o e snt ne nr (fun out => out.res = .ok ∨ out.res = .eofError ∨ out.res = .timeoutError ∨ (out.res = .pxsshError ∧ out.closed = true))
      · intro _; simp
      · intro f s k _ _; cases f <;> simp [Fail.res]
      · intro s k _ _; simp
      · intro s k _ _; simp
    apply post_cases T o e sent (n + 1) 0 (fun out => out.res = .ok ∨ out.res = .eofError ∨ out.res = .timeoutError ∨ (out.res = .pxsshError ∧ out.closed = true))
    · intro f s k _ _; cases f <;> simp [Fail.res]
    · intro s k _ _; simp
    · intro s k _ _; exact reset _ _ _
    · intro _; exact reset _ _ _

/-- **login_time_bound** (call counts): at most 1 + |first| expects in the dialogue phases, at most 4
    try_read_prompt calls, at most |ladder| expects while setting the prompt; each of them is bounded by its
    own timeout (C05), so login() ends within
    login_timeout + |first|·timeout + 4·(3·sync_multiplier) + 0.1 + |ladder|·10 seconds plus overhead -/
theorem login_time_bound (o : Opts) (e : Env) :
    (login T o e).expects ≤ 1 + T.first.length + T.ladder.length ∧ (login T o e).reads ≤ 4 := by
  have fp : ∀ i0 r sent a n, firstPhase T.first i0 0 e.answers [] = (r, sent, a, n) → n ≤ T.first.length := by
    intro i0 r sent a n h
    have := firstPhase_calls T.first i0 0 e.answers []
    rw [h] at this
    simpa using this
  apply login_cases T o e (fun out => out.expects ≤ 1 + T.first.length + T.ladder.length ∧ out.reads ≤ 4)
  · intro _; simp only []; constructor <;> omega
  · intro _; simp only []; constructor <;> omega
  · intro i0 f sent a n _ h; have := fp _ _ _ _ _ h; simp only []; constructor <;> omega
  · intro i0 i sent a n _ h _; have := fp _ _ _ _ _ h; simp only []; constructor <;> omega
  · intro i0 i sent a n _ h _ _; have := fp _ _ _ _ _ h; simp only []; constructor <;> omega
  · intro i0 i sent a n _ h _ _; have := fp _ _ _ _ _ h; simp only []; constructor <;> omega
  · intro i0 i sent a n _ h _ _
    have hn := fp _ _ _ _ _ h
    rw [tbl_post]
    have reset : ∀ (snt : List Sent) (ne nr : Nat),
        (postChecks T o e [.reset] snt ne nr).expects ≤ ne + T.ladder.length ∧ (postChecks T o e [.reset] snt ne nr).reads = nr := by
      intro snt ne nr
      have hl : ∀ r s k, setUniquePrompt T e.resetAnswers snt = (r, s, k) → k ≤ T.ladder.length := by
        intro r s k hh
        obtain ⟨_, _, _, l3, _⟩ := ladder_sent T.ladder e.resetAnswers (snt ++ [.unsetPromptCommand]) 0
        unfold setUniquePrompt at hh
        rw [hh] at l3
        simpa using l3
      apply reset_cases T o e snt ne nr (fun out => out.expects ≤ ne + T.ladder.length ∧ out.reads = nr)
      · intro _; simp
      · intro f s k _ hh; have := hl _ _ _ hh; exact ⟨(by show ne + k ≤ ne + T.ladder.length; omega), rfl⟩
      · intro s k _ hh; have := hl _ _ _ hh; exact ⟨(by show ne + k ≤ ne + T.ladder.length; omega), rfl⟩
      · intro s k _ hh; have := hl _ _ _ hh; exact ⟨(by show ne + k ≤ ne + T.ladder.length; omega), rfl⟩
    have hs : ∀ r s k, syncPrompt e.reads sent = (r, s, k) → k ≤ 4 := by
      intro r s k hh
      obtain ⟨_, _, _, s3, _⟩ := syncPrompt_sent e.reads sent
      rw [hh] at s3
      exact s3
    apply post_cases T o e sent (n + 1) 0 (fun out => out.expects ≤ 1 + T.first.length + T.ladder.length ∧ out.reads ≤ 4)
    · intro f s k _ hh; have := hs _ _ _ hh; simp only []; constructor <;> omega
    · intro s k _ hh; have := hs _ _ _ hh; simp only []; constructor <;> omega
    · intro s k _ hh
      have := hs _ _ _ hh
      obtain ⟨r1, r2⟩ := reset s (n + 1) (0 + k)
      constructor <;> omega
    · intro _
      obtain ⟨r1, r2⟩ := reset sent (n + 1) 0
      constructor <;> omega

/-- **prompt_delimits**: with the unique prompt set and nothing pending, for every answer `o ++ prompt` in which the prompt
    string is not completed earlier and every cutting into reads, `prompt()` returns True (index 0) with `before = o` and
    leaves nothing pending (PROMPT is interpreted as the two strings it denotes; `PxP.unique_prompt_source` pins the source) -/
theorem prompt_delimits (s : Rp.Seg Nat) (h : s.Clean PxP.cfg) (init : List (List Nat)) (last : List Nat) (hl : last ≠ [])
    (hT : init.flatten ++ last = s.text PxP.cfg) (rest : List (Ex.Ev Nat)) :
    PxP.promptCall { B := [], S := [] } (init.map .data ++ .data last :: rest) =
      (.idx 0 s.o (.text (s.p PxP.cfg)), { B := [], S := [] }, rest) :=
  PxP.prompt_delimits s h init last hl hT rest

/-- every command of a session: the k-th `prompt()` returns exactly the k-th command's output -/
theorem prompt_sequence (es : List (Rp.SegEv Nat)) (h : ∀ e ∈ es, e.OK PxP.cfg) (rest : List (Ex.Ev Nat)) :
    PxP.promptSeq es.length { B := [], S := [] } (Rp.evsOf es ++ rest) =
      (es.map (fun e => .idx 0 e.seg.o (.text (e.seg.p PxP.cfg))), { B := [], S := [] }, rest) :=
  PxP.prompt_sequence es h rest

theorem unique_prompt_source : PxGen.uniquePrompt = [92, 91, 80, 69, 88, 80, 69, 67, 84, 92, 93, 91, 92, 36, 92, 35, 93, 32] :=
  PxP.unique_prompt_source

/-! ### non-vacuity: the ordinary dialogue "host key? -> password: -> prompt", both checks on -/
example : let r := login T ⟨true, true⟩ ⟨.idx 0, [.idx 2, .idx 1], [some [], some [36, 32], some [36, 32], some [36, 32]], [.idx 1]⟩
    r.res = .ok ∧ r.sent = [.first .yes 0 0, .first .password 2 1, .enter, .enter, .enter, .enter, .unsetPromptCommand, .setPrompt .sh] := by decide
-- wrong password: the prompt comes back, the session is closed and ExceptionPxssh raised, the password was sent once
example : let r := login T ⟨true, true⟩ ⟨.idx 2, [.idx 2], [], []⟩
    r.res = .pxsshError ∧ r.closed = true ∧ r.sent = [.first .password 2 0] := by decide

end C17
