import PexpectModel.Run
import PexpectModel.Life
/-! # C12 — run(): complete output, each event answered once, true exit status.

`Rn.run n c s` is the loop of run.py:113-142 with `n` iterations of fuel over the Expecter model.  All
statements are for every fuel (every prefix of an execution), every event table, every callback
oracle, every event stream (every child, every read splitting) and every window size. -/
namespace C12
open Ex Rn
variable {α : Type} [DecidableEq α]

/-- **run_output_eq_consumed**: started on a fresh spawn, what `run()` returns — followed by the pending
    text when the stop leaves consumed-but-unreturned text there (a true callback on a text match) — is
    exactly the concatenation of all data read, each piece once, in order. -/
theorem run_output_eq_consumed (c : Cfg α) (hp : ∀ p ∈ c.pats, ∀ r, p = .re r → r.WF) (n : Nat) (evs : List (Ev α)) :
    ∃ used, evs = used ++ (run n c (.init evs)).2.evs ∧
      (run n c (.init evs)).2.acc ++ (if (run n c (.init evs)).1.keepsPending then (run n c (.init evs)).2.st.B else []) =
        dataOf used := by
  obtain ⟨used, e, -, h⟩ := run_conserves c hp n (.init evs) (List.suffix_refl _)
  exact ⟨used, e, by simpa [RS.init] using h⟩

/-- stops that return everything: EOF, TIMEOUT, a true callback on a TIMEOUT event -/
theorem run_whole_output_on_eof_timeout (c : Cfg α) (hp : ∀ p ∈ c.pats, ∀ r, p = .re r → r.WF) (n : Nat) (evs : List (Ev α))
    (hs : (run n c (.init evs)).1 = .eofExc ∨ (run n c (.init evs)).1 = .timeoutExc ∨ (run n c (.init evs)).1 = .cbStop true) :
    ∃ used, evs = used ++ (run n c (.init evs)).2.evs ∧ (run n c (.init evs)).2.acc = dataOf used := by
  obtain ⟨used, e, h⟩ := run_output_eq_consumed c hp n evs
  refine ⟨used, e, ?_⟩
  rcases hs with hs | hs | hs <;> simpa [hs, Stop.keepsPending] using h

/-- the general (mid-execution) form: any consistent starting state -/
theorem run_conserves (c : Cfg α) (hp : ∀ p ∈ c.pats, ∀ r, p = .re r → r.WF) (n : Nat) (s : RS α) (hI : Inv s.st) :
    ∃ used, s.evs = used ++ (run n c s).2.evs ∧ Inv (run n c s).2.st ∧
      (run n c s).2.acc ++ (if (run n c s).1.keepsPending then (run n c s).2.st.B else []) =
        s.acc ++ s.st.B ++ dataOf used :=
  Rn.run_conserves c hp n s hI

/-- **each_occurrence_answered_once_in_order**: the calls are one `expect` history; log and sends are
    `logOf` of the reported indices: one dispatch per reported index, in order -/
theorem each_occurrence_answered_once_in_order (c : Cfg α) (n : Nat) (evs : List (Ev α)) :
    ∃ fs, (run n c (.init evs)).2.finals = fs ∧
      Chain c.pats c.W { B := [], S := [] } evs fs (run n c (.init evs)).2.st (run n c (.init evs)).2.evs ∧
      (run n c (.init evs)).2.log = logOf c 0 fs ∧
      (run n c (.init evs)).2.sent = sentOf (logOf c 0 fs) := by
  obtain ⟨fs, h1, h2, h3, h4⟩ := run_trace c n (.init evs)
  exact ⟨fs, by simpa [RS.init] using h1, by simpa [RS.init] using h2, by simpa [RS.init] using h3, by simpa [RS.init] using h4⟩

/-- one log entry per reported index, carrying that index and that `after` -/
theorem logOf_indices (c : Cfg α) (k : Nat) (fs : List (Final α)) :
    (logOf c k fs).map (fun d => (d.idx, d.after)) =
      fs.filterMap (fun f => match f with | .idx i _ af => some (i, af) | _ => none) := by
  induction fs generalizing k with
  | nil => rfl
  | cons f fs ih => cases f <;> simp [logOf, ih]

/-- the j-th dispatch is the response listed at the reported index, invoked with event_count = j -/
theorem logOf_dispatch (c : Cfg α) (k : Nat) (fs : List (Final α)) (j : Nat) (d : Disp α)
    (h : (logOf c k fs)[j]? = some d) : d.act = dispatch c (k + j) d.idx := by
  induction fs generalizing k j with
  | nil => simp [logOf] at h
  | cons f fs ih =>
    cases f with
    | idx i b af =>
      cases j with
      | zero => simp only [logOf, List.getElem?_cons_zero, Option.some.injEq] at h; subst h; rfl
      | succ j =>
        simp only [logOf, List.getElem?_cons_succ] at h
        have := ih (k+1) j h
        rw [this]; congr 1; omega
    | raisedEOF b => exact ih k j (by simpa [logOf] using h)
    | raisedTIMEOUT b => exact ih k j (by simpa [logOf] using h)

/-- a string response is sent, a callback's string is sent, nothing else is -/
theorem dispatch_spec (c : Cfg α) (k i : Nat) :
    (∀ r, c.resps[i]? = some (.str r) → dispatch c k i = .sent r) ∧
    (∀ id r, c.resps[i]? = some (.fn id) → c.cb id k = .send r → dispatch c k i = .cbSent id k r) ∧
    (∀ id, c.resps[i]? = some (.fn id) → c.cb id k = .stop → dispatch c k i = .cbStop id k) ∧
    (∀ id, c.resps[i]? = some (.fn id) → c.cb id k = .cont → dispatch c k i = .cbCont id k) := by
  refine ⟨?_, ?_, ?_, ?_⟩ <;> intros <;> simp_all [dispatch]

/-- **list_events_keep_priority**: pattern `i` and response `i` are the two halves of `events[i]`
    (the index itself is the first listed on ties: `C02.pick_spec`) -/
theorem list_events_keep_priority (c : Cfg α) (i : Nat) :
    c.pats[i]? = (c.events[i]?).map Prod.fst ∧ c.resps[i]? = (c.events[i]?).map Prod.snd :=
  events_split c i

theorem run_stop_reason (c : Cfg α) (n : Nat) (s : RS α) :
    ((run n c s).1 = .eofExc → ∃ b, (run n c s).2.finals.getLast? = some (.raisedEOF b)) ∧
    ((run n c s).1 = .timeoutExc → ∃ b, (run n c s).2.finals.getLast? = some (.raisedTIMEOUT b)) ∧
    (∀ t, (run n c s).1 = .cbStop t → ∃ i b af id k, (run n c s).2.finals.getLast? = some (.idx i b af) ∧
        c.resps[i]? = some (.fn id) ∧ c.cb id k = .stop ∧ (t = true ↔ af = .timeoutCls)) :=
  Rn.run_stop_reason c n s

/-- the calls of `run()` are an ordinary history of `expect_list` calls, so `C03.history_eq_naive`
    (no missed / late match for any chunking) and `C01.history_conserves` apply to them -/
theorem chain_is_history (pats : List (Pat α)) (W : Nat) (st : St α) (evs : List (Ev α)) (fs : List (Final α))
    (st' : St α) (evs' : List (Ev α)) (h : Chain pats W st evs fs st' evs') :
    (runOps st (List.replicate fs.length (.call (Kind.re (resFrom 0 pats)) W)) evs).2 = (st', evs') ∧
    fs = (runOps st (List.replicate fs.length (.call (Kind.re (resFrom 0 pats)) W)) evs).1.map (finish pats) := by
  induction h with
  | nil st evs => exact ⟨rfl, rfl⟩
  | cons st evs f st1 evs1 fs st' evs' hc t ih =>
    simp only [List.length_cons, List.replicate_succ, runOps]
    unfold expectList at hc
    simp only [Kind.sr]
    rcases hcall : call (reSr (resFrom 0 pats)) W st evs with ⟨o, s1, e1⟩
    rw [hcall] at hc
    simp only [Prod.mk.injEq] at hc
    obtain ⟨rfl, rfl, rfl⟩ := hc
    simp only []
    refine ⟨ih.1, ?_⟩
    simp only [List.map_cons]
    congr 1
    exact ih.2

/-- **run_exitstatus**: `run(..., withexitstatus=True)` closes the child and reports `exitstatus`; if the
    child had already ended by itself with fate `f`, the reported pair is `f`'s (exit code, or None for a
    signal death) -/
theorem run_exitstatus (w : Lf.W) (h : Lf.Inv w) (f : Lf.Fate) (hz : w.k.proc = .zombie f)
    (hc : w.pp.closed = false) :
    (Lf.spClose w true).1 = .ok ∧ (Lf.spClose w true).2.sp.terminated = true ∧
    ((Lf.spClose w true).2.sp.status, (Lf.spClose w true).2.sp.exitstatus, (Lf.spClose w true).2.sp.signalstatus) = Lf.fateFields f := by
  have hinv := Lf.spClose_inv w true h
  obtain ⟨⟨hv, h2, h3, h4⟩, _⟩ := h
  have hfv : f.Valid := hv.2.1 f hz
  have hnt : w.pp.terminated = false := by
    cases ht : w.pp.terminated with
    | false => rfl
    | true => obtain ⟨g, hg⟩ := h2.1 ht; rw [hz] at hg; cases hg
  have hcm : (Lf.closeMaster w.k).proc = .zombie f := by
    simp [Lf.closeMaster, Lf.deliver, hz]
  obtain ⟨s1, s2, s3⟩ := Lf.setFate_fields w.pp f hfv
  have e : Lf.spClose w true = (.ok, Lf.mark (Lf.spIsalive { ({ w with k := { Lf.closeMaster w.k with proc := .reaped f }, pp := Lf.setFate w.pp f } : Lf.W) with pp := { (Lf.setFate w.pp f) with closed := true } }).2) := by
    unfold Lf.spClose
    simp only [hc, Bool.false_eq_true, if_false]
    simp only [Lf.ppIsalive, hnt, Bool.false_eq_true, if_false, hcm, Lf.closeTail, if_true]
  rw [e]
  simp only [Lf.spIsalive, Lf.ppIsalive, s1, if_true, Bool.false_eq_true, if_false, Lf.mark, Lf.copyStatus]
  exact ⟨trivial, trivial, s2⟩

/-! ### non-vacuity: a two-prompt dialogue split across reads, answered once each, then EOF -/
def exRe (s : List Nat) : ReFn Nat := { search := fun w pos => (Py.findFrom s w pos).map (fun i => (i, i + s.length)) }
def exCfg : Cfg Nat :=
  { events := [(.re (exRe [63]), .str [121]), (.re (exRe [33]), .fn 0)], W := 0, cb := fun _ k => if k < 3 then .send [110] else .stop }
-- child prints "a?" in two reads, then "b!", then "c?" and closes
example : let r := run 10 exCfg (.init [.data [97], .data [63, 98], .data [33, 99, 63], .eofExc])
    r.1 = .eofExc ∧ r.2.acc = [97, 63, 98, 33, 99, 63] ∧ r.2.sent = [[121], [110], [121]] ∧ r.2.count = 3 := by decide

end C12
