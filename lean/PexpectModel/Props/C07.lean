import PexpectModel.Session
/-! # C07 — unicode mode decodes the stream as a whole, however reads split it. -/
namespace C07
open Cd Sess
variable {σd σe : Type}

/-- every chunk once, in order, through the one persistent decoder = decoding the whole stream -/
theorem deliver_eq_whole (dec : IncDecoder σd Nat) (s : σd) (chunks : List (List Byte)) :
    deliver dec s chunks = dec.feed s chunks.flatten := Cd.deliver_eq_whole dec s chunks

/-- on a spawn object, for any interleaving of reads with sends: delivered text = decoding of all bytes read -/
theorem delivered_eq_decode_whole (dec : IncDecoder σd Nat) (enc : IncEncoder σe) (cfg : Cfg) (ops : List Op) :
    (run dec enc cfg (Sess.init dec enc) ops).delivered.flatten = (dec.feed dec.init (readBytes ops)).2 := by
  have := Sess.delivered_eq_decode_whole dec enc cfg ops (Sess.init dec enc)
  simpa [Sess.init] using this.1

theorem bytes_mode_identity (bs : List Byte) : (nullDec.feed () bs).2 = bs := Sess.bytes_mode_identity bs

/-- UTF-8: any chunking of a well-formed stream (cuts inside characters included) delivers exactly the text and
    leaves no partial character behind -/
theorem utf8_any_chunking (cps : List Nat) (h : ∀ c ∈ cps, c < 0x110000) (chunks : List (List Byte))
    (hc : chunks.flatten = cps.flatMap utf8Encode) : deliver utf8 (0, 0) chunks = ((0, 0), cps) :=
  Cd.utf8_any_chunking cps h chunks hc

/-- every per-byte decoding automaton satisfies the chunk law (so do Latin-1 and the UTF-8 instance) -/
theorem automaton_chunk_law {σ β : Type} (i : σ) (stp : σ → Byte → σ × List β) (s : σ) (a b : List Byte) :
    (ofStep i stp).feed s (a ++ b) =
      (((ofStep i stp).feed ((ofStep i stp).feed s a).1 b).1, ((ofStep i stp).feed s a).2 ++ ((ofStep i stp).feed ((ofStep i stp).feed s a).1 b).2) :=
  (ofStep i stp).law s a b

/-- interact() included: over any history of reads, sends and chunks copied by interact(), what `logfile_read` holds is the
    decoding of the child's whole byte stream by the one persistent decoder (a character cut at the hand-over from expect()
    to interact() is completed, not lost) -/
theorem interact_handover_decodes_whole_stream (dec : IncDecoder σd Nat) (enc : IncEncoder σe) (cfg : Cfg) (ops : List Op2) :
    readText (run2 dec enc cfg (Sess.init dec enc) ops).logRead = (dec.feed dec.init (childBytes ops)).2 := by
  have := (Sess.logRead_decodes_whole_stream dec enc cfg ops (Sess.init dec enc)).1
  simpa [Sess.init, readText, writesOf] using this

/-! non-vacuity: expect() read `caf` + the first byte of `é`, interact() copies the second byte and `!` -/
def u8Enc : IncEncoder Unit := ⟨(), fun s a => (s, a.flatMap utf8Encode), by intro s a b; simp, by intro s; rfl⟩

example : readText (run2 utf8 u8Enc ⟨[10], 4, 3⟩ (Sess.init utf8 u8Enc) [.op (.read [0x63, 0x61, 0x66, 0xC3]), .op (.sendline [0x67, 0x6F]), .iread [0xA9, 0x21]]).logRead
    = [0x63, 0x61, 0x66, 0xE9, 0x21] := by decide

/-! non-vacuity: "héllo€" cut inside both multi-byte characters -/
example : (deliver utf8 utf8.init [[0x68, 0xC3], [0xA9, 0x6C, 0x6C, 0x6F, 0xE2, 0x82], [0xAC]]).2
    = [0x68, 0xE9, 0x6C, 0x6C, 0x6F, 0x20AC] := by decide

end C07
