import PexpectModel.Launch
/-! # C13 — launch fidelity: command-line splitting (over the table generated from the source), `which`. -/
namespace C13
open Split SplitGen Launch
variable {α : Type} (cls : α → Cls) (cB cS cD : α)

/-- any non-empty arguments, each quoted in any admissible style (backslash before every character /
    single quotes if it holds no `'` / double quotes if it holds no `"`), joined by any non-empty
    whitespace, with any leading and trailing whitespace, split back into exactly those arguments -/
theorem split_roundtrip (hB : cls cB = .bs) (hS : cls cS = .sq) (hD : cls cD = .dq)
    (lead : List α) (hlead : ∀ c ∈ lead, cls c = .sp)
    (init : List (QArg α)) (last : QArg α)
    (hok : ∀ x ∈ init ++ [last], x.OK cls) (hsep : ∀ x ∈ init, x.sep ≠ []) :
    split cls (lead ++ render cB cS cD (init ++ [last])) = (init ++ [last]).map (·.arg) :=
  Split.split_roundtrip cls cB cS cD hB hS hD lead hlead init last hok hsep

/-- the child's argv when only a command line is given: argv[1:] are exactly the quoted arguments -/
theorem argv_tail_roundtrip (hB : cls cB = .bs) (hS : cls cS = .sq) (hD : cls cD = .dq)
    (lead : List α) (hlead : ∀ c ∈ lead, cls c = .sp)
    (init : List (QArg α)) (last : QArg α)
    (hok : ∀ x ∈ init ++ [last], x.OK cls) (hsep : ∀ x ∈ init, x.sep ≠ []) (resolved : List α) :
    (argv cls (lead ++ render cB cS cD (init ++ [last])) [] resolved).tail = ((init ++ [last]).map (·.arg)).tail := by
  simp only [argv, List.tail_cons]
  rw [Split.split_roundtrip cls cB cS cD hB hS hD lead hlead init last hok hsep]

variable {D F P : Type}

theorem which_explicit_path (fs : FS D F P) (f : F) (env osEnv defp)
    (h1 : fs.hasDirname f = true) (h2 : fs.isExec (fs.asPath f) = true) :
    which fs f env osEnv defp = some (fs.asPath f) := by
  simp [which, h1, h2]

/-- otherwise the result is the first directory of the effective PATH holding an executable of that name -/
theorem which_first_match (fs : FS D F P) (f : F) (env osEnv defp)
    (hne : (fs.hasDirname f && fs.isExec (fs.asPath f)) = false) (p : P)
    (h : which fs f env osEnv defp = some p) :
    ∃ pre d post,
      fs.splitPath (effectivePath (match env with | some e => e | none => osEnv) defp) = pre ++ d :: post ∧
      p = fs.join d f ∧ fs.isExec p = true ∧ ∀ d' ∈ pre, fs.isExec (fs.join d' f) = false := by
  simp only [which, hne] at h
  exact firstExec_some fs f _ p h

theorem which_none (fs : FS D F P) (f : F) (env osEnv defp) (h : which fs f env osEnv defp = none) :
    ∀ d ∈ fs.splitPath (effectivePath (match env with | some e => e | none => osEnv) defp),
      fs.isExec (fs.join d f) = false := by
  unfold which at h
  split at h
  · cases h
  · exact firstExec_none fs f _ h

/-- with an `env` argument whose PATH is non-empty, the process environment and `os.defpath` are irrelevant -/
theorem which_uses_env_path (fs : FS D F P) (f : F) (c : Char) (t : List Char) (osEnv osEnv' defp defp') :
    which fs f (some (some (c :: t))) osEnv defp = which fs f (some (some (c :: t))) osEnv' defp' := by
  simp [which, effectivePath]

/-- a missing or empty PATH falls back to `os.defpath` -/
theorem which_defpath_fallback (fs : FS D F P) (f : F) (osEnv defp) :
    which fs f (some none) osEnv defp = which fs f (some (some [])) osEnv defp := by
  simp [which, effectivePath]

/-! non-vacuity -/
def clsC (c : Char) : Cls :=
  if c = '\\' then .bs else if c = '\'' then .sq else if c = '"' then .dq else if c = ' ' ∨ c = '\t' then .sp else .other

example : split clsC "  ls  -l 'a b'\\ c \"d'e\" ".toList = ["ls".toList, "-l".toList, "a b c".toList, "d'e".toList] := by decide

end C13
