import PexpectModel.ScreenRef
/-! # C19 — screen operations do what their documentation says and nothing else. -/
namespace C19
open Scr

/-- every operation, with any arguments, keeps the grid rows × cols and cursor, saved cursor and scroll
    region on the screen -/
theorem shape_preserved {R C : Nat} (op : SOp) (s : Screen) (h : Inv R C s) : Inv R C (apply op s) :=
  apply_inv op s h

theorem blank_is_valid (R C : Nat) (hR : 1 ≤ R) (hC : 1 ≤ C) : Inv R C (blank R C) := blank_inv R C hR hC

/-- any sequence of operations yields the same screen as the cell-by-cell reference grid -/
theorem ops_refine_reference {R C : Nat} (ops : List SOp) (s : Screen) (h : Inv R C s) :
    ops.foldl (fun s op => apply op s) s = ops.foldl (fun s op => refApply op s) s :=
  Scr.ops_refine_reference ops s h

/-- put_abs: one cell changes (coordinates outside the screen mean the nearest edge), all others keep
    their value -/
theorem get_put_abs {R C : Nat} (s : Screen) (h : Inv R C s) (r c : Int) (ch : Nat) (i j : Nat) :
    getCell (putAbs s r c ch).w i j =
      if (i : Int) = constrain r 1 R - 1 ∧ (j : Int) = constrain c 1 C - 1 then ch else getCell s.w i j := by
  have hr := @constrain_range r 1 R (by have := h.rpos; omega)
  have hc := @constrain_range c 1 C (by have := h.cpos; omega)
  rw [putAbs_clamps s h, putAbs_cells s h _ _ ch hr hc]

theorem fill_region_cells {R C : Nat} (s : Screen) (h : Inv R C s) (rs cs re ce : Int) (ch : Nat) (i j : Nat) :
    getCell (fillRegion s rs cs re ce ch).w i j =
      let k := corners s rs cs re ce
      if (k.1 ≤ (i : Int) + 1 ∧ (i : Int) + 1 ≤ k.2.2.1) ∧ (k.2.1 ≤ (j : Int) + 1 ∧ (j : Int) + 1 ≤ k.2.2.2)
      then ch else getCell s.w i j :=
  fillRegion_cells s h rs cs re ce ch i j

theorem corners_on_screen {R C : Nat} (s : Screen) (h : Inv R C s) (rs cs re ce : Int) :
    let k := corners s rs cs re ce
    1 ≤ k.1 ∧ k.1 ≤ k.2.2.1 ∧ k.2.2.1 ≤ R ∧ 1 ≤ k.2.1 ∧ k.2.1 ≤ k.2.2.2 ∧ k.2.2.2 ≤ C :=
  corners_ok s h rs cs re ce

theorem insert_abs_shift {R C : Nat} (s : Screen) (h : Inv R C s) (r c : Int) (ch : Nat) (i j : Nat) :
    getCell (insertAbs s r c ch).w i j =
      let r' := constrain r 1 R
      let c' := constrain c 1 C
      if (i : Int) = r' - 1 then
        (if (j : Int) = c' - 1 then ch
         else if c' ≤ (j : Int) ∧ (j : Int) + 1 ≤ C then getCell s.w i (j - 1) else getCell s.w i j)
      else getCell s.w i j :=
  insertAbs_cells s h r c ch i j

theorem scroll_up_rows {R C : Nat} (s : Screen) (h : Inv R C s) (i j : Nat) :
    getCell (scrollUp s).w i j =
      if s.scrS ≤ (i : Int) + 1 ∧ (i : Int) + 1 < s.scrE then getCell s.w (i + 1) j else getCell s.w i j :=
  scrollUp_cells s h i j

theorem scroll_down_rows {R C : Nat} (s : Screen) (h : Inv R C s) (i j : Nat) :
    getCell (scrollDown s).w i j =
      if s.scrS < (i : Int) + 1 ∧ (i : Int) + 1 ≤ s.scrE then getCell s.w (i - 1) j else getCell s.w i j :=
  scrollDown_cells s h i j

theorem erase_end_of_line_cells {R C : Nat} (s : Screen) (h : Inv R C s) (i j : Nat) :
    getCell (eraseEndOfLine s).w i j =
      if (i : Int) + 1 = s.curR ∧ s.curC ≤ (j : Int) + 1 ∧ (j : Int) + 1 ≤ C then SPACE else getCell s.w i j :=
  eraseEndOfLine_cells s h i j

theorem erase_start_of_line_cells {R C : Nat} (s : Screen) (h : Inv R C s) (i j : Nat) :
    getCell (eraseStartOfLine s).w i j =
      if (i : Int) + 1 = s.curR ∧ (j : Int) + 1 ≤ s.curC then SPACE else getCell s.w i j :=
  eraseStartOfLine_cells s h i j

theorem erase_line_cells {R C : Nat} (s : Screen) (h : Inv R C s) (i j : Nat) (hj : j < C) :
    getCell (eraseLine s).w i j = if (i : Int) + 1 = s.curR then SPACE else getCell s.w i j :=
  eraseLine_cells s h i j hj

/-- coordinates outside the screen are the nearest edge, for the cursor as well -/
theorem clamp_outside {R C : Nat} (s : Screen) (h : Inv R C s) (r c : Int) :
    (cursorHome s r c).curR = constrain r 1 R ∧ (cursorHome s r c).curC = constrain c 1 C ∧
    (cursorHome s r c).w = s.w := by
  simp [cursorHome, cursorConstrain, h.rows_eq, h.cols_eq]

theorem constrain_is_nearest {n lo hi : Int} (h : lo ≤ hi) :
    lo ≤ constrain n lo hi ∧ constrain n lo hi ≤ hi ∧ (lo ≤ n → n ≤ hi → constrain n lo hi = n) ∧
    (n < lo → constrain n lo hi = lo) ∧ (hi < n → constrain n lo hi = hi) := by
  refine ⟨(constrain_range h).1, (constrain_range h).2, fun a b => constrain_id a b, ?_, ?_⟩
  · intro hn; simp [constrain, hn]
  · intro hn; unfold constrain; rw [if_neg (by omega), if_pos hn]

/-- the read accessors describe the same grid -/
theorem get_eq_get_abs_cursor (s : Screen) : get s = getAbs s s.curR s.curC := rfl
theorem get_abs_reads_grid {R C : Nat} (s : Screen) (h : Inv R C s) (r c : Int) :
    getAbs s r c = getCell s.w (constrain r 1 R - 1).toNat (constrain c 1 C - 1).toNat := getAbs_clamps s h r c
theorem dump_eq (s : Screen) : dump s = s.w.flatten := rfl
theorem str_eq (s : Screen) : toStr s = List.intercalate [10] s.w := rfl
theorem pretty_eq (s : Screen) : pretty s =
    ([43] ++ List.replicate s.cols 45 ++ [43, 10]) ++ List.intercalate [10] (s.w.map (fun l => [124] ++ l ++ [124])) ++ [10] ++
    ([43] ++ List.replicate s.cols 45 ++ [43, 10]) := rfl
theorem get_region_eq {R C : Nat} (s : Screen) (h : Inv R C s) (rs cs re ce : Int) :
    let k := corners s rs cs re ce
    getRegion s rs cs re ce = (rangeI k.1 k.2.2.1).map (fun r => (rangeI k.2.1 k.2.2.2).map (fun c => getAbs s r c)) :=
  getRegion_rows s h rs cs re ce

/-! non-vacuity: a reachable 3×4 screen, swapped out-of-range corners, scrolling in a region -/
example : Inv 3 4 (blank 3 4) := blank_inv 3 4 (by omega) (by omega)
example : (fillRegion (blank 2 3) 9 9 (-4) 2 120).w = [[32, 120, 120], [32, 120, 120]] := by decide
example : (apply .scrollUp (apply (.scrollScreenRows 2 3) (apply (.putAbs 3 1 97) (blank 3 2)))).w
    = [[32, 32], [97, 32], [97, 32]] := by decide
example : (apply (.insertAbs 1 2 99) (apply (.putAbs 1 3 98) (apply (.putAbs 1 2 97) (blank 1 4)))).w
    = [[32, 99, 97, 98]] := by decide

end C19
