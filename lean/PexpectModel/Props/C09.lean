import PexpectModel.Life
/-! # C09 — exit status truth: exitstatus / signalstatus are the child's real fate, and never change. -/
namespace C09
open Lf

/-- every reachable state satisfies the invariant -/
theorem reachable_inv (proc : Proc) (ih ii ph pi : Bool) (hp : proc = .running ∨ proc = .stopped) (ops : List LOp)
    (hops : ∀ op ∈ ops, op.OK) : Inv (ops.foldl stepOp (w0 proc ih ii ph pi)) :=
  ops_inv ops hops _ (w0_inv proc ih ii ph pi hp)

theorem status_truth (w : W) (h : Inv w) (ht : w.sp.terminated = true) :
    ∃ f, w.k.proc = .reaped f ∧ (w.sp.status, w.sp.exitstatus, w.sp.signalstatus) = fateFields f ∧
      (∀ st, w.sp.status = some st → decode st = f) :=
  Lf.status_truth w h ht

theorem exactly_one_status (f : Fate) :
    ((fateFields f).2.1.isSome ∧ (fateFields f).2.2 = none) ∨ ((fateFields f).2.1 = none ∧ (fateFields f).2.2.isSome) :=
  Lf.exactly_one_status f

theorem status_stable (w : W) (op : LOp) (hop : op.OK) (h : Inv w) (ht : w.sp.terminated = true) :
    (stepOp w op).sp.terminated = true →
    ((stepOp w op).sp.status, (stepOp w op).sp.exitstatus, (stepOp w op).sp.signalstatus) = (w.sp.status, w.sp.exitstatus, w.sp.signalstatus) :=
  Lf.status_stable w op hop h ht

/-- `wait()` on a running child returns its exit code (None for a signal death) and records the fate -/
theorem wait_returns_code (w : W) (h : Inv w) (hr : w.k.proc = .running) (hnt : w.pp.terminated = false) :
    (spWait w).1 = (fateFields w.k.plan).2.1 ∧ (spWait w).2.k.proc = .reaped w.k.plan ∧ (spWait w).2.sp.terminated = true := by
  have hpv : w.k.plan.Valid := h.1.1.1
  obtain ⟨_, s2, _⟩ := setFate_fields w.pp w.k.plan hpv
  have ha : ppIsalive w = (true, w) := by simp [ppIsalive, hnt, hr]
  have hz : (finishPlan w.k).proc = .zombie w.k.plan := by simp [finishPlan, hr]
  unfold spWait
  simp only [ha, if_true, hz]
  refine ⟨?_, rfl, rfl⟩
  simp only [copyStatus]
  have := congrArg (fun t => t.2.1) s2
  simpa using this

/-- a read that meets the end of the stream observes the death: on an open object whose child has ended (a zombie, not yet reaped) the
    read reaps it and records its fate - the status fields are set right after that read, without any further call -/
theorem read_at_end_records_fate (w : W) (h : Inv w) (f : Fate) (hz : w.k.proc = .zombie f) (hnc : w.sp.closed = false)
    (hnt : w.pp.terminated = false) :
    (stepOp w .read).sp.terminated = true ∧ (stepOp w .read).k.proc = .reaped f ∧
    ((stepOp w .read).sp.status, (stepOp w .read).sp.exitstatus, (stepOp w .read).sp.signalstatus) = fateFields f := by
  have hi : Inv (stepOp w .read) := stepOp_inv w .read trivial h
  have ht : (stepOp w .read).sp.terminated = true := by
    simp [stepOp, hnc, spIsalive, ppIsalive, hnt, hz, copyStatus]
  have hp : (stepOp w .read).k.proc = .reaped f := by
    simp [stepOp, hnc, spIsalive, ppIsalive, hnt, hz, copyStatus]
  obtain ⟨f', h1, h2, -⟩ := Lf.status_truth _ hi ht
  rw [hp] at h1
  cases h1
  exact ⟨ht, hp, h2⟩

/-- `PopenSpawn.wait()`: subprocess reports a signal death as a negative return code -/
def popenWait (rc : Int) : Option Nat × Option Nat := if rc ≥ 0 then (some rc.toNat, none) else (none, some (-rc).toNat)

theorem popen_wait_maps_negative (f : Fate) :
    popenWait (match f with | .exit c => (c : Int) | .signal s => -(s : Int)) =
      (match f with | .exit c => (some c, none) | .signal s => if s = 0 then (some 0, none) else (none, some s)) := by
  cases f with
  | exit c => simp [popenWait]
  | signal s =>
    by_cases hs : s = 0
    · simp [popenWait, hs]
    · have : ¬ (-(s : Int) ≥ 0) := by omega
      simp [popenWait, this, hs]

/-! non-vacuity: a child that exits 3 is observed by isalive after it ended; then close, wait, isalive keep the values -/
example : ((([LOp.childEnds, .isalive, .close true, .wait, .isalive].foldl stepOp
    { (w0 .running false false false false) with k := { (w0 .running false false false false).k with plan := .exit 3 } }).sp.exitstatus)) = some 3 := by decide
example : (([LOp.kill 9, .isalive].foldl stepOp (w0 .running true true false false)).sp.signalstatus) = some 9 := by decide

end C09
