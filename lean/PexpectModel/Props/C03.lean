import PexpectModel.ExOutcome
/-! # C03 — no missed or late match: every chunking agrees with naive full re-search. -/
namespace C03
open Ex Py
variable {α : Type} [DecidableEq α]

theorem history_eq_naive (ops : List (Op α)) (evs : List (Ev α)) (st : St α) (hI : Inv st) :
    (runOps st ops evs).1 = (nrunOps st.B ops evs).1 ∧
    (runOps st ops evs).2.1.B = (nrunOps st.B ops evs).2.1 ∧
    (runOps st ops evs).2.2 = (nrunOps st.B ops evs).2.2 ∧
    Inv (runOps st ops evs).2.1 :=
  Ex.history_eq_naive ops evs st hI

theorem call_eq_naive (k : Kind α) (W : Nat) (evs : List (Ev α)) (st : St α) (hI : Inv st) :
    (call k.sr W st evs).1 = (ncall k.sr W st.B evs).1 ∧
    (call k.sr W st evs).2.1.B = (ncall k.sr W st.B evs).2.1 ∧
    (call k.sr W st evs).2.2 = (ncall k.sr W st.B evs).2.2 :=
  callKind_eq_ncall k W evs st hI

/-- nothing but the pending text is carried from one call to the next: two objects (or one object at two moments) whose pending
    text is the same answer every later history the same way - outcomes, pending text and unread stream - whatever trimmed search
    buffer their earlier calls left behind (search windows, patterns and timeouts of earlier calls leave no trace) -/
theorem later_calls_depend_only_on_pending_text (ops : List (Op α)) (evs : List (Ev α)) (st st' : St α)
    (hI : Inv st) (hI' : Inv st') (hB : st.B = st'.B) :
    (runOps st ops evs).1 = (runOps st' ops evs).1 ∧
    (runOps st ops evs).2.1.B = (runOps st' ops evs).2.1.B ∧
    (runOps st ops evs).2.2 = (runOps st' ops evs).2.2 := by
  obtain ⟨a1, a2, a3, _⟩ := Ex.history_eq_naive ops evs st hI
  obtain ⟨b1, b2, b3, _⟩ := Ex.history_eq_naive ops evs st' hI'
  rw [a1, a2, a3, b1, b2, b3, hB]
  exact ⟨rfl, rfl, rfl⟩

/-- the straddling lemma for the exact searcher's incremental tail search -/
theorem incremental_find_eq_full (pat B d w : List α)
    (hno : NoOcc pat B) (hw : w <:+ B ++ d)
    (hlen : d.length + min pat.length B.length ≤ w.length) :
    (findFrom pat w (w.length - (d.length + pat.length))).map (· + ((B ++ d).length - w.length))
      = find pat (B ++ d) :=
  Ex.incremental_find_eq_full pat B d w hno hw hlen

/-- whatever trimmed search buffer an earlier call left and whatever W is now, a new call starts by
    searching exactly the naive window with everything fresh -/
theorem existingData_resyncs (sr : Searcher α) (W : Nat) (st : St α) (hI : Inv st) :
    ∃ st1 : St α, st1.B = st.B ∧ Inv st1 ∧
      (W ≠ 0 → min W st.B.length ≤ st1.S.length) ∧ (W = 0 → st1.S = st.B) ∧
      existingData sr W st = doSearch sr W st1 (win W st.B) st.B.length :=
  existingData_spec sr W st hI

/-- text outside the window is not searched (the searcher is handed `win W B` only) but is returned:
    `before` is everything in front of the match, window or not -/
theorem outside_window_not_searched_but_returned (sr : Searcher α) (hwf : sr.WF) (W : Nat) (B : List α)
    (i : Nat) (b a rest : List α) (h : nsearch sr W B = some (i, b, a, rest)) :
    b ++ a ++ rest = B ∧ ∃ sp, sr.search (win W B) (win W B).length W = some sp ∧
      B.length - (win W B).length ≤ b.length := by
  refine ⟨nsearch_conserve sr hwf W B i b a rest h, ?_⟩
  unfold nsearch at h
  simp only at h
  cases hs : sr.search (win W B) (win W B).length W with
  | none => simp [hs] at h
  | some sp =>
    simp only [hs, Option.some.injEq, Prod.mk.injEq] at h
    obtain ⟨-, rfl, -, -⟩ := h
    refine ⟨sp, rfl, ?_⟩
    have := (win_suffix W B).length_le
    simp only [List.length_take]
    omega

/-! non-vacuity: occurrence straddling three reads; W smaller than the pattern never matches;
    a timed-out call leaves a trimmed buffer and the next call (other W) still agrees with naive -/
example : (call (exactOf [(0, [1, 2, 3])]) 0 ({ B := [], S := [] } : St Nat) [.data [5, 1], .data [2], .data [3, 4]]).1
    = .hit 0 [5] [1, 2, 3] := by decide
example : (runOps ({ B := [], S := [] } : St Nat) [.call (.exact [(0, [1, 2, 3])]) 2, .call (.exact [(0, [1, 2, 3])]) 0]
    [.data [5, 1], .data [2, 3], .timeoutExc]).1 = [.timeout [5, 1, 2, 3], .hit 0 [5] [1, 2, 3]] := by decide

/-- non-vacuity: two states with the same pending text and different search buffers, both satisfying `Inv` -/
example : Ex.Inv ({ B := [1, 2, 3], S := [3] } : St Nat) ∧ Ex.Inv ({ B := [1, 2, 3], S := [1, 2, 3] } : St Nat) :=
  ⟨⟨[1, 2], rfl⟩, ⟨[], rfl⟩⟩

end C03
