import PexpectModel.Async
import PexpectModel.AsyncCancel
/-! # C14 — asyncio parity: async_=True gives the same answers as the blocking call.

The awaited path (`expect_async` + `PatternWaiter`) is modelled over the *same* Expecter functions as the
blocking loop, with the read transport's pause / resume / close state made explicit.  Statements are
for every searcher kind, window, pattern list, state and event list (every stream, every splitting
into loop turns, EOF and timer anywhere). -/
namespace C14
open Ex Py
variable {α : Type} [DecidableEq α]

/-- **async_call_eq_sync_call**: on the same events an awaited call reports the same outcome (index /
    EOF / TIMEOUT with the same `before`, `after`), leaves the same state (pending text and search
    buffer) and the same unread events as the blocking call -/
theorem async_call_eq_sync_call (sr : Searcher α) (W : Nat) (evs : List (AEv α)) (st : St α) :
    (acall sr W st evs).1 = (call sr W st (evs.map AEv.toEv)).1 ∧
    (acall sr W st evs).2.1 = (call sr W st (evs.map AEv.toEv)).2.1 ∧
    (acall sr W st evs).2.2.map AEv.toEv = (call sr W st (evs.map AEv.toEv)).2.2 :=
  acall_eq_call sr W evs st

/-- the same at the level of what the caller sees (index or exception class, before, after) -/
theorem async_final_eq_sync_final (pats : List (Pat α)) (sr : Searcher α) (W : Nat) (evs : List (AEv α)) (st : St α) :
    finish pats (acall sr W st evs).1 = finish pats (call sr W st (evs.map AEv.toEv)).1 := by
  rw [(acall_eq_call sr W evs st).1]

theorem paused_when_idle (sr : Searcher α) (W : Nat) (s : AS α) (evs : List (AEv α))
    (h : s.pw.paused = true ∧ s.pw.futDone = true) :
    (acallS sr W s evs).2.1.pw.paused = true ∧ (acallS sr W s evs).2.1.pw.futDone = true :=
  Ex.paused_when_idle sr W s evs h

theorem closed_only_by_eof (sr : Searcher α) (W : Nat) (s : AS α) (evs : List (AEv α)) (hc : s.pw.closed = false)
    (h : (acallS sr W s evs).2.1.pw.closed = true) : ∃ b, (acallS sr W s evs).1 = .eof b :=
  Ex.closed_only_by_eof sr W s evs hc h

/-- **done_window_data_conserved**: data delivered after the future is done and before the pause takes
    effect is appended to the pending text (and to the search buffer), the invariant holds, nothing is lost -/
theorem done_window_data_conserved (st : St α) (d : List α) (h : Inv st) :
    Inv (doneData st d) ∧ (doneData st d).B = st.B ++ d :=
  ⟨doneData_inv st d h, rfl⟩

/-- **mixed_history_eq_sync**: any interleaving of blocking and awaited calls (and buffer assignments) on
    one object = the all-blocking history on the same events -/
theorem mixed_history_eq_sync (ops : List (MOp α)) (evs : List (AEv α)) (s : AS α) :
    (mrunOps s ops evs).1 = (runOps s.st (ops.map MOp.toOp) (evs.map AEv.toEv)).1 ∧
    (mrunOps s ops evs).2.1.st = (runOps s.st (ops.map MOp.toOp) (evs.map AEv.toEv)).2.1 ∧
    (mrunOps s ops evs).2.2.map AEv.toEv = (runOps s.st (ops.map MOp.toOp) (evs.map AEv.toEv)).2.2 :=
  Ex.mixed_history_eq_sync ops evs s

theorem mixed_history_paused (ops : List (MOp α)) (evs : List (AEv α)) (s : AS α)
    (h : s.pw.paused = true ∧ s.pw.futDone = true) :
    (mrunOps s ops evs).2.1.pw.paused = true ∧ (mrunOps s ops evs).2.1.pw.futDone = true :=
  Ex.mixed_history_paused ops evs s h

/-- **mixed_history_conserves**: C01 for mixed histories — text handed back by the calls, in call order,
    followed by what is still pending, is what was pending at the start plus all data delivered -/
theorem mixed_history_conserves (ops : List (MOp α)) (hwf : ∀ op ∈ ops.map MOp.toOp, op.WF)
    (hcalls : ∀ op ∈ ops.map MOp.toOp, op.isCall = true) (evs : List (AEv α)) (s : AS α) (hI : Inv s.st) :
    ∃ used, evs.map AEv.toEv = used ++ (mrunOps s ops evs).2.2.map AEv.toEv ∧
      s.st.B ++ dataOf used = handedAll (mrunOps s ops evs).1 ++ (mrunOps s ops evs).2.1.st.B := by
  obtain ⟨h1, h2, h3⟩ := Ex.mixed_history_eq_sync ops evs s
  obtain ⟨used, e1, e2⟩ := history_conserves (ops.map MOp.toOp) hwf hcalls (evs.map AEv.toEv) s.st hI
  exact ⟨used, by rw [h3]; exact e1, by rw [h1, h2]; exact e2⟩

/-- **async_timeout_bound**: an awaited call never runs past its timer -/
theorem async_timeout_bound (sr : Searcher α) (W : Nat) (pre : List (List α)) (rest : List (AEv α)) (st : St α) :
    (∃ i b a, (aloop sr W st (pre.map .dataReceived ++ .timeoutFired :: rest)).1 = .hit i b a) ∨
    ((aloop sr W st (pre.map .dataReceived ++ .timeoutFired :: rest)).2.2 = rest ∧
      ∃ b, (aloop sr W st (pre.map .dataReceived ++ .timeoutFired :: rest)).1 = .timeout b) :=
  aloop_stops_at_timer sr W pre rest st

/-! ### awaited calls the caller gives up, output that arrives while no call is outstanding on a transport that was left reading -/

/-- over any history of calls, abandoned awaited calls and idle deliveries: handed back ++ pending = pending at the start ++ everything
    the loop delivered; the state invariant (the search buffer is a suffix of the pending text) holds throughout -/
theorem abandoned_history_conserves (ops : List (HOp α)) (hwf : ∀ op ∈ ops, op.WF) (evs : List (AEv α)) (st : St α) (hI : Inv st) :
    ∃ used, evs = used ++ (hrun st ops evs).2.2 ∧
      st.B ++ dataOf (used.map AEv.toEv) = handedOpt (hrun st ops evs).1 ++ (hrun st ops evs).2.1.B ∧
      Inv (hrun st ops evs).2.1 :=
  Ex.hrun_conserves ops hwf evs st hI

theorem abandoned_call_consumes_nothing (k : Kind α) (hk : k.WF) (W : Nat) (evs : List (AEv α)) (st : St α) (hI : Inv st)
    (b : List α) (h : (acall k.sr W st evs).1 = .timeout b) :
    ∃ used, evs = used ++ (acall k.sr W st evs).2.2 ∧ (acall k.sr W st evs).2.1.B = st.B ++ dataOf (used.map AEv.toEv) :=
  Ex.abandoned_consumes_nothing k hk W evs st hI b h

theorem idle_output_kept_for_next_call (st : St α) (d : List α) (hI : Inv st) :
    (doneData st d).B = st.B ++ d ∧ (doneData st d).S = st.S ++ d ∧ Inv (doneData st d) :=
  Ex.idle_output_kept st d hI

/-! non-vacuity: "one " arrives, the caller gives up waiting for "PROMPT"; "two PROMPT three" arrives with nobody waiting; the next call
    (for "three") gets all of it: nothing was consumed by the abandoned call although its pattern turned up later -/
example : (hrun ({ B := [], S := [] } : St Nat)
      [.abandoned (.exact [(0, [80, 82])]) 0, .idle, .call (.exact [(0, [51])]) 0]
      [.dataReceived [49, 32], .timeoutFired, .dataReceived [50, 80, 82, 51]]).1 = [none, none, some (.hit 0 [49, 32, 50, 80, 82] [51])] := by decide

/-! ### the two known findings, as witnesses against the unrestricted parity claim -/

/-- (a) `timeout=0`: with `a` readable and pattern `a`, the blocking call matches and the awaited call
    (CPython 3.12 `wait_for(fut, 0)`) reports TIMEOUT -/
theorem timeout_zero_diverges :
    (call (exactOf [(0, [97])]) 0 ({ B := [], S := [] } : St Nat) [.data [97], .expired]).1 = .hit 0 [] [97] ∧
    (acall0 (exactOf [(0, [97])]) 0 ({ B := [], S := [] } : St Nat) [.dataReceived [97], .timeoutFired]).1 = .timeout [] := by
  decide

/-- (b) an EOF delivered when no call is outstanding runs `eof()` on the finished expecter: the pending
    text is gone for the next call -/
theorem eof_after_done_wipes_pending : (doneEofPre ({ B := [104, 105], S := [104, 105] } : St Nat)).B = [] := rfl

/-! ### non-vacuity: "xa" arrives in two loop turns, then the stream ends; await `a` then EOF, mixed with a blocking call -/
example : (mrunOps ({ st := { B := [], S := [] }, pw := {} } : AS Nat)
      [.async (.exact [(0, [97])]) 0, .sync (.exact [(0, [98])]) 0, .async (.exact [(0, [99])]) 0]
      [.dataReceived [120], .dataReceived [97, 98], .eofReceived]).1 =
    [.hit 0 [120] [97], .hit 0 [] [98], .eof []] := by decide

end C14
