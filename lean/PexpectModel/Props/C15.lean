import PexpectModel.Interact
/-! # C15 — interact(): a transparent two-way pipe until the escape character.

`Ia.interact esc fin fout s evs`: the session as a function of the reads the copy loop performs (`evs`; each at
most 1000 bytes in the real code — the theorems hold for any sizes and any cutting).  For every event
list, every escape setting and every pair of filters. -/
namespace C15
open Ia
variable {α : Type} [DecidableEq α]

/-- **interact_output_transparent** + **pending_flushed_first**: the user's terminal shows what was already
    shown, then all pending text, then the (filtered) output of every read of the child, in order — nothing
    else; the pending text is cleared; logfile_read gets the same child output -/
theorem interact_output_transparent (esc : Option α) (fin fout : List α → List α) (s : S α) (evs : List (IEv α)) :
    ∃ used, evs = used ++ (interact esc fin fout s evs).2 ∧
      (interact esc fin fout s evs).1.shown = s.shown ++ s.pending ++ outs fout used ∧
      (interact esc fin fout s evs).1.pending = [] ∧
      (interact esc fin fout s evs).1.logRead = s.logRead ++ outs fout used := by
  obtain ⟨used, h1, h2, h3, h4, -, -⟩ :=
    copy_out_spec esc fin fout evs { s with shown := s.shown ++ s.pending, pending := [], mode := .raw }
  exact ⟨used, h1, h2, h4, h3⟩

/-- **mode_restored**: whatever happens in the session, the terminal mode afterwards is the mode before -/
theorem mode_restored (esc : Option α) (fin fout : List α → List α) (s : S α) (evs : List (IEv α)) :
    (interact esc fin fout s evs).1.mode = s.mode := rfl

/-- the loop itself runs in raw mode -/
theorem raw_while_copying (esc : Option α) (fin fout : List α → List α) (s : S α) (evs : List (IEv α)) :
    (copy esc fin fout { s with shown := s.shown ++ s.pending, pending := [], mode := .raw } evs).1.mode = .raw := by
  obtain ⟨_, _, _, _, _, h5, _⟩ := copy_out_spec esc fin fout evs { s with shown := s.shown ++ s.pending, pending := [], mode := .raw }
  exact h5

/-- **interact_input_until_first_escape**: with escape character `e`, the child receives exactly the typed stream
    (through input_filter) up to the first `e`; the escape and everything after it — also in the same read —
    are not delivered, and the session ends there.  If no `e` is typed, everything is delivered. -/
theorem interact_input_until_first_escape (e : α) (fin fout : List α → List α) (s : S α) (evs : List (IEv α))
    (hs : s.escaped = false) :
    ∃ used, evs = used ++ (interact (some e) fin fout s evs).2 ∧
      (if (interact (some e) fin fout s evs).1.escaped = true then
          (interact (some e) fin fout s evs).1.toChild = s.toChild ++ (ins fin used).takeWhile (· ≠ e) ∧ e ∈ ins fin used
        else (interact (some e) fin fout s evs).1.toChild = s.toChild ++ ins fin used ∧ e ∉ ins fin used) := by
  exact copy_in_esc e fin fout evs { s with shown := s.shown ++ s.pending, pending := [], mode := .raw } hs

/-- `escape_character=None`: everything typed reaches the child, the session never ends by an escape -/
theorem interact_input_no_escape (fin fout : List α → List α) (s : S α) (evs : List (IEv α)) :
    ∃ used, evs = used ++ (interact none fin fout s evs).2 ∧
      (interact none fin fout s evs).1.toChild = s.toChild ++ ins fin used ∧
      (interact none fin fout s evs).1.escaped = s.escaped := by
  exact copy_in_noesc fin fout evs { s with shown := s.shown ++ s.pending, pending := [], mode := .raw }

/-- what is logged as sent is exactly what was written to the child -/
theorem interact_logs_sends (esc : Option α) (fin fout : List α → List α) (s : S α) (evs : List (IEv α)) (t : List α)
    (h : s.logSend = t ++ s.toChild) :
    (interact esc fin fout s evs).1.logSend = t ++ (interact esc fin fout s evs).1.toChild := by
  obtain ⟨_, _, _, _, _, _, h6⟩ := copy_out_spec esc fin fout evs { s with shown := s.shown ++ s.pending, pending := [], mode := .raw }
  exact h6 t h

/-- **returns_on_child_exit**: the session ends at the escape character or at the child's EOF (or goes on waiting) -/
theorem returns_on_child_exit (esc : Option α) (fin fout : List α → List α) (s : S α) (evs : List (IEv α))
    (hs : s.escaped = false ∧ s.childGone = false) :
    (interact esc fin fout s evs).1.escaped = true ∨ (interact esc fin fout s evs).1.childGone = true ∨
      (interact esc fin fout s evs).2 = [] :=
  copy_ends esc fin fout evs _ hs

/-! ### non-vacuity: pending "hi", the user types `ab^]cd^]ef` in one read while the child prints "x" -/
def s0 : S Nat := { pending := [104, 105], shown := [], toChild := [], logRead := [], logSend := [], mode := .cooked }
example : let r := interact (some 29) id id s0 [.childOut [120], .userIn [97, 98, 29, 99, 100, 29, 101, 102], .childOut [121]]
    r.1.shown = [104, 105, 120] ∧ r.1.toChild = [97, 98] ∧ r.1.escaped = true ∧ r.1.mode = .cooked ∧ r.1.pending = [] ∧
    r.2.length = 1 := by decide

/-- the write-all loop towards the child: whatever the child's terminal takes per `os.write` (at least one byte), exactly the bytes it was
    given arrive, in order — so what precedes the escape character in its read is delivered even in pieces -/
theorem typed_bytes_arrive_under_short_writes (ks : List Nat) (d : List Nat) : (Ia.writen ks d).flatten = d :=
  Ia.writen_delivers_all ks d

example : Ia.writen [3, 3, 1] [104, 101, 108, 108, 111, 32, 119, 111] = [[104, 101, 108], [108, 111, 32], [119], [111]] := by decide

end C15
