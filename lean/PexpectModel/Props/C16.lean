import PexpectModel.Repl
/-! # C16 — REPLWrapper: each command returns exactly its own output.

`Rp.runCommand` is `REPLWrapper.run_command` (after the first `sendline`) over the Expecter model; the REPL
is an event stream.  A protocol-obeying REPL answers every submitted line with a clean segment
`output ++ prompt` / `output ++ continuation prompt` (`Seg.Clean`: neither prompt string is completed before
the end of the segment).  Output size, number of lines, number of commands and the cutting of the
stream into reads are all unbounded. -/
namespace C16
open Ex Rp
variable {α : Type} [DecidableEq α]

theorem expectPrompt_segment (c : Cfg α) (s : Seg α) (h : s.Clean c) (init : List (List α)) (last : List α) (hl : last ≠ [])
    (hT : init.flatten ++ last = s.text c) (rest : List (Ev α)) :
    expectPrompt c { B := [], S := [] } (init.map .data ++ .data last :: rest) =
      (.idx s.idx s.o (.text (s.p c)), { B := [], S := [] }, rest) :=
  Rp.expectPrompt_segment c s h init last hl hT rest

theorem run_command_returns_own_output (c : Cfg α) (es : List (SegEv α)) (fin : SegEv α)
    (hes : ∀ e ∈ es, e.OK c) (hfin : fin.OK c) (hp : fin.seg.isCont = false) (acc : List α) (rest : List (Ev α)) :
    runCommand c es.length acc { B := [], S := [] } (evsOf (es ++ [fin]) ++ rest) =
      (.value (acc ++ outsOf (es ++ [fin])), { B := [], S := [] }, rest) :=
  Rp.run_command_returns_own_output c es fin hes hfin hp acc rest

theorem incomplete_raises_and_resyncs (c : Cfg α) (es : List (SegEv α)) (fin sync : SegEv α)
    (hes : ∀ e ∈ es, e.OK c) (hfin : fin.OK c) (hp : fin.seg.isCont = true) (hsync : sync.OK c)
    (acc : List α) (rest : List (Ev α)) :
    runCommand c es.length acc { B := [], S := [] } (evsOf (es ++ [fin, sync]) ++ rest) =
      (.valueError, { B := [], S := [] }, rest) :=
  Rp.incomplete_raises_and_resyncs c es fin sync hes hfin hp hsync acc rest

theorem command_sequence (c : Cfg α) (cmds : List (Cmd α)) (h : ∀ k ∈ cmds, k.OK c) (rest : List (Ev α)) :
    runSeq c (cmds.map (fun k => k.es.length)) { B := [], S := [] } ((cmds.flatMap Cmd.evs) ++ rest) =
      (cmds.map Cmd.expected, { B := [], S := [] }, rest) :=
  Rp.command_sequence c cmds h rest

/-- `extra_init_cmd` (of any number of lines) runs through `run_command` like every other command: whatever it printed, the commands that
    follow still return exactly their own output -/
theorem extra_init_cmd_then_sequence (c : Cfg α) (init : Cmd α) (cmds : List (Cmd α)) (hi : init.OK c) (h : ∀ k ∈ cmds, k.OK c)
    (rest : List (Ev α)) :
    (runSeq c ((init :: cmds).map (fun k => k.es.length)) { B := [], S := [] } (((init :: cmds).flatMap Cmd.evs) ++ rest)).1.tail
      = cmds.map Cmd.expected ∧
    (runSeq c ((init :: cmds).map (fun k => k.es.length)) { B := [], S := [] } (((init :: cmds).flatMap Cmd.evs) ++ rest)).2
      = ({ B := [], S := [] }, rest) := by
  have := Rp.command_sequence c (init :: cmds) (by
    intro k hk
    rcases List.mem_cons.mp hk with rfl | hk
    · exact hi
    · exact h k hk) rest
  rw [this]
  exact ⟨by simp, rfl⟩

theorem async_same_value (c : Cfg α) (n : Nat) (acc : List α) (st : St α) (evs : List (AEv α)) :
    (runCommandA c n acc st evs).1 = (runCommand c n acc st (evs.map AEv.toEv)).1 ∧
    (runCommandA c n acc st evs).2.1 = (runCommand c n acc st (evs.map AEv.toEv)).2.1 ∧
    (runCommandA c n acc st evs).2.2.map AEv.toEv = (runCommand c n acc st (evs.map AEv.toEv)).2.2 :=
  Rp.async_same_value c n acc st evs

theorem cleanB_sound (c : Cfg α) (s : Seg α) (h : cleanB c s = true) : s.Clean c := Rp.cleanB_sound c s h

/-! ### non-vacuity: prompt ">>", continuation "..": a two-line command, then an incomplete one, then a third -/
def exC : Cfg Nat := { prompt := [62, 62], cont := [46, 46] }
def seg (o : List Nat) (k : Bool) : Seg Nat := { o := o, isCont := k }
example : (seg [104, 105, 10] false).Clean exC := cleanB_sound _ _ (by decide)
example : (seg [] true).Clean exC := cleanB_sound _ _ (by decide)
-- an output that contains the prompt string is not clean: the hypothesis is not vacuous
example : cleanB exC (seg [97, 62, 62, 98] false) = false := by decide
-- output "a>" followed by the prompt ">>": the prompt string is completed one character early, so this is not clean either
example : cleanB exC (seg [97, 62] false) = false := by decide
def exEvs : List (Ev Nat) :=
    [.data [46], .data [46, 104], .data [105, 10, 62, 62],        -- "..", then "hi\n>>" cut across reads
     .data [46, 46], .data [10, 62], .data [62],                 -- incomplete: "..", interrupt answered by "\n>>"
     .data [111, 107, 62, 62]]                                    -- "ok>>"
example : (runSeq exC [1, 0, 0] { B := [], S := [] } exEvs).1 = [.value [104, 105, 10], .valueError, .value [111, 107]] ∧
    (runSeq exC [1, 0, 0] { B := [], S := [] } exEvs).2.1.B = [] ∧ (runSeq exC [1, 0, 0] { B := [], S := [] } exEvs).2.2.length = 0 := by decide

end C16
