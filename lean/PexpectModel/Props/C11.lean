import PexpectModel.Session
import PexpectModel.SessionFaults
import PexpectModel.Interact
/-! # C11 — logging fidelity: the log files are an exact transcript. -/
namespace C11
open Cd Sess
variable {σd σe : Type}

theorem logs_are_transcript (dec : IncDecoder σd Nat) (enc : IncEncoder σe) (cfg : Cfg) (ops : List Op) :
    (run dec enc cfg (Sess.init dec enc) ops).logfile = logSpec dec cfg (fun _ => true) dec.init ops ∧
    (run dec enc cfg (Sess.init dec enc) ops).logRead = logSpec dec cfg (fun d => d == .read) dec.init ops ∧
    (run dec enc cfg (Sess.init dec enc) ops).logSend = logSpec dec cfg (fun d => d == .send) dec.init ops := by
  have := Sess.logs_are_transcript dec enc cfg ops (Sess.init dec enc)
  simpa [Sess.init] using this

theorem logfile_read_eq_delivered (dec : IncDecoder σd Nat) (enc : IncEncoder σe) (cfg : Cfg) (ops : List Op) :
    (writesOf (run dec enc cfg (Sess.init dec enc) ops).logRead).map (·.2) = (run dec enc cfg (Sess.init dec enc) ops).delivered :=
  Sess.logRead_eq_delivered dec enc cfg ops

theorem every_write_flushed (dec : IncDecoder σd Nat) (cfg : Cfg) (which : Dir → Bool) (d : σd) (ops : List Op) :
    Flushed (logSpec dec cfg which d ops) := Sess.logSpec_flushed dec cfg which d ops

/-- **interact_logs_both**: during `interact()` logfile_read receives exactly the (filtered) child output that was shown
    after the pending text, and logfile_send exactly what was written to the child — nothing after the escape character -/
theorem interact_logs_both (esc : Option Nat) (fin fout : List Nat → List Nat) (s : Ia.S Nat) (evs : List (Ia.IEv Nat)) (t : List Nat)
    (h : s.logSend = t ++ s.toChild) :
    (∃ used, evs = used ++ (Ia.interact esc fin fout s evs).2 ∧
      (Ia.interact esc fin fout s evs).1.logRead = s.logRead ++ Ia.outs fout used ∧
      (Ia.interact esc fin fout s evs).1.shown = s.shown ++ s.pending ++ Ia.outs fout used) ∧
    (Ia.interact esc fin fout s evs).1.logSend = t ++ (Ia.interact esc fin fout s evs).1.toChild := by
  obtain ⟨used, h1, h2, h3, _, _, h6⟩ :=
    Ia.copy_out_spec esc fin fout evs { s with shown := s.shown ++ s.pending, pending := [], mode := .raw }
  exact ⟨⟨used, h1, h3, h2⟩, h6 t h⟩

/-- in unicode mode what interact() logs on the read side is decoded by the spawn's own persistent decoder: over any history of
    expect()-side reads, sends and interact() copies `logfile_read` holds the decoding of the child's whole byte stream -/
theorem interact_read_log_is_decoded_stream (dec : IncDecoder σd Nat) (enc : IncEncoder σe) (cfg : Cfg) (ops : List Op2) :
    readText (run2 dec enc cfg (Sess.init dec enc) ops).logRead = (dec.feed dec.init (childBytes ops)).2 := by
  have := (Sess.logRead_decodes_whole_stream dec enc cfg ops (Sess.init dec enc)).1
  simpa [Sess.init, readText, writesOf] using this

/-! non-vacuity -/
def idEnc : IncEncoder Unit := ⟨(), fun s a => (s, a), by intros; rfl, by intros; rfl⟩

example : (run utf8 idEnc ⟨[10], 4, 3⟩ (Sess.init utf8 idEnc) [.send [97], .read [0xC3], .sendcontrol 99, .read [0xA9]]).logfile
  = [.write .send [97], .flush, .write .read [], .flush, .write .send [3], .flush, .write .read [0xE9], .flush] := by decide


/-- **send_logged_once_under_write_faults**: when the descriptor refuses a write (EAGAIN) or takes only its first bytes, whatever happens at
    every single write, the three log files are those of the same requests on a descriptor that takes everything: each request once, in
    order, flushed -/
theorem send_logged_once_under_write_faults (dec : IncDecoder σd Nat) (enc : IncEncoder σe) (cfg : Cfg) (ops : List (Op × WFault)) :
    (runF dec enc cfg (Sess.init dec enc) ops).logfile = logSpec dec cfg (fun _ => true) dec.init (ops.map (·.1)) ∧
    (runF dec enc cfg (Sess.init dec enc) ops).logRead = logSpec dec cfg (fun d => d == .read) dec.init (ops.map (·.1)) ∧
    (runF dec enc cfg (Sess.init dec enc) ops).logSend = logSpec dec cfg (fun d => d == .send) dec.init (ops.map (·.1)) := by
  have h := runF_offWire dec enc cfg ops (Sess.init dec enc) (Sess.init dec enc) rfl
  have t := logs_are_transcript dec enc cfg (ops.map (·.1))
  have h1 : (runF dec enc cfg (Sess.init dec enc) ops).logfile = (run dec enc cfg (Sess.init dec enc) (ops.map (·.1))).logfile := by
    have := congrArg (fun x => St.logfile x) h; exact this
  have h2 : (runF dec enc cfg (Sess.init dec enc) ops).logRead = (run dec enc cfg (Sess.init dec enc) (ops.map (·.1))).logRead := by
    have := congrArg (fun x => St.logRead x) h; exact this
  have h3 : (runF dec enc cfg (Sess.init dec enc) ops).logSend = (run dec enc cfg (Sess.init dec enc) (ops.map (·.1))).logSend := by
    have := congrArg (fun x => St.logSend x) h; exact this
  rw [h1, h2, h3]; exact t

example : (runF utf8 idEnc ⟨[10], 4, 3⟩ (Sess.init utf8 idEnc) [(.send [97, 98], .refuse), (.sendline [99, 100], .short 1), (.send [101], .ok)]).logSend
    = [.write .send [97, 98], .flush, .write .send [99, 100, 10], .flush, .write .send [101], .flush] ∧
  (runF utf8 idEnc ⟨[10], 4, 3⟩ (Sess.init utf8 idEnc) [(.send [97, 98], .refuse), (.sendline [99, 100], .short 1), (.send [101], .ok)]).peer = [99, 101] := by decide

end C11
