import PexpectModel.ExOutcome
import PexpectModel.ReadApi
/-! # C01 — stream conservation.  Property theorems only (helper lemmas live in `Ex*.lean`). -/
namespace C01
open Ex Py
variable {α : Type} [DecidableEq α]

/-- Every history of expect-family calls (regex or exact, any window per call) over any stream of
    transport events, from any consistent state: handed-back text ++ pending = initial pending ++ data read. -/
theorem history_conserves (ops : List (Op α)) (hwf : ∀ op ∈ ops, op.WF) (hcalls : ∀ op ∈ ops, op.isCall = true)
    (evs : List (Ev α)) (st : St α) (hI : Inv st) :
    ∃ used, evs = used ++ (runOps st ops evs).2.2 ∧
      st.B ++ dataOf used = handedAll (runOps st ops evs).1 ++ (runOps st ops evs).2.1.B :=
  Ex.history_conserves ops hwf hcalls evs st hI

/-- per call, with the searcher abstract: a hit hands back `before ++ after` and keeps the rest -/
theorem hit_conserves (sr : Searcher α) (hwf : sr.WF) (W : Nat) (st st' : St α) (window : List α) (f i : Nat)
    (b a : List α) (hw : window <:+ st.B) (h : doSearch sr W st window f = (st', .hit i b a)) :
    b ++ a ++ st'.B = st.B ∧ st'.S = st'.B :=
  doSearch_hit sr hwf W st st' window f i b a hw h

theorem timeout_consumes_nothing (k : Kind α) (hk : k.WF) (W : Nat) (evs : List (Ev α)) (st : St α) (hI : Inv st)
    (b : List α) (h : (call k.sr W st evs).1 = .timeout b) :
    ∃ used, evs = used ++ (call k.sr W st evs).2.2 ∧
      (call k.sr W st evs).2.1.B = b ∧ b = st.B ++ dataOf used :=
  Ex.timeout_consumes_nothing k hk W evs st hI b h

theorem eof_hands_back_all (k : Kind α) (hk : k.WF) (W : Nat) (evs : List (Ev α)) (st : St α) (hI : Inv st)
    (b : List α) (h : (call k.sr W st evs).1 = .eof b) :
    ∃ used, evs = used ++ (call k.sr W st evs).2.2 ∧
      (call k.sr W st evs).2.1.B = [] ∧ b = st.B ++ dataOf used :=
  Ex.eof_hands_back_all k hk W evs st hI b h

theorem setBuffer_replaces (v : List α) (ops : List (Op α)) (evs : List (Ev α)) (st : St α) :
    runOps st (.setBuffer v :: ops) evs = runOps (setBuffer v) ops evs ∧
    (setBuffer v : St α).B = v ∧ Inv (setBuffer v : St α) :=
  Ex.setBuffer_replaces v ops evs st

/-- every reachable state is consistent, so the hypotheses above are met along any history -/
theorem inv_reachable (ops : List (Op α)) (evs : List (Ev α)) :
    Inv (runOps ({ B := [], S := [] } : St α) ops evs).2.1 :=
  (Ex.history_eq_naive ops evs ({ B := [], S := [] } : St α) (List.suffix_refl ([] : List α))).2.2.2

/-! ### the file-like readers hand back exactly what they return (`Ra.*`: read(n), read(), readline(), readlines(), iteration) -/

/-- `read(n)`: the value returned, followed by the new pending text, is the old pending text plus the data read;
    it has `n` characters unless the stream ended (the repaired code ignores the object's search window here) -/
theorem read_returns_handed (n : Nat) (st : St α) (evs : List (Ev α)) (hI : Inv st) (v : List α)
    (h : (Ra.readN n st evs).1 = .value v) :
    ∃ used, evs = used ++ (Ra.readN n st evs).2.2 ∧ Inv (Ra.readN n st evs).2.1 ∧
      v ++ (Ra.readN n st evs).2.1.B = st.B ++ dataOf used ∧ (v.length = n ∨ (Ra.readN n st evs).2.1.B = []) :=
  Ra.read_returns_handed n st evs hI v h

theorem readline_returns_handed (crlf : List α) (W : Nat) (st : St α) (evs : List (Ev α)) (hI : Inv st) (v : List α)
    (h : (Ra.readline crlf W st evs).1 = .value v) :
    ∃ used, evs = used ++ (Ra.readline crlf W st evs).2.2 ∧ Inv (Ra.readline crlf W st evs).2.1 ∧
      v ++ (Ra.readline crlf W st evs).2.1.B = st.B ++ dataOf used ∧
      (crlf <:+ v ∨ (Ra.readline crlf W st evs).2.1.B = []) :=
  Ra.readline_returns_handed crlf W st evs hI v h

/-- `readlines()` and iteration: the lines, concatenated, followed by the pending text = old pending text + data read -/
theorem readlines_returns_handed (crlf : List α) (W : Nat) (fuel : Nat) (st : St α) (evs : List (Ev α)) (hI : Inv st)
    (acc lines : List (List α)) (h : (Ra.readlines crlf W fuel st evs acc).1 = some lines) :
    ∃ used new, evs = used ++ (Ra.readlines crlf W fuel st evs acc).2.2 ∧ lines = acc ++ new ∧ (∀ l ∈ new, l ≠ []) ∧
      new.flatten ++ (Ra.readlines crlf W fuel st evs acc).2.1.B = st.B ++ dataOf used :=
  Ra.readlines_returns_handed crlf W fuel st evs hI acc lines h

example : (Ra.readlines [13, 10] 0 9 ({ B := [], S := [] } : St Nat) [.data [97, 13], .data [10, 98, 13, 10, 99], .eofExc, .eofExc] []).1 =
    some [[97, 13, 10], [98, 13, 10], [99]] := by decide

/-! non-vacuity: a match straddling a read boundary under W = 1-character reads; `$`-like end anchor -/
def endAnchor : ReFn Nat := { search := fun w pos => if pos ≤ w.length then some (w.length, w.length) else none }

example : (runOps ({ B := [], S := [] } : St Nat) [.call (.exact [(0, [1, 2])]) 0, .call (.re [(0, endAnchor)]) 0]
    [.data [9, 1], .data [2, 7], .timeoutExc]).1 = [.hit 0 [9] [1, 2], .hit 0 [7] []] := by decide

example : (runOps ({ B := [], S := [] } : St Nat) [.call (.exact [(0, [1, 2])]) 3]
    [.data [9], .data [1], .data [], .data [2, 7, 7, 7]]).1 = [.timeout [9, 1, 2, 7, 7, 7]] := by decide

end C01
