import PexpectModel.Session
/-! # C08 — send fidelity: the peer receives exactly what was sent, once, in order. -/
namespace C08
open Cd Sess
variable {σd σe : Type}

theorem peer_receives_concat (dec : IncDecoder σd Nat) (enc : IncEncoder σe) (cfg : Cfg) (ops : List Op) :
    (run dec enc cfg (Sess.init dec enc) ops).peer = peerSpec enc cfg enc.init ops := by
  have := Sess.peer_receives_concat dec enc cfg ops (Sess.init dec enc)
  simpa [Sess.init] using this

theorem text_stream_encoded_once (enc : IncEncoder σe) (cfg : Cfg) (ops : List Op) (h : ∀ op ∈ ops, op.isText = true) (e : σe) :
    peerSpec enc cfg e ops = (enc.feed e (sendText cfg ops)).2 :=
  Sess.text_stream_encoded_once enc cfg ops h e

theorem send_returns_written (enc : IncEncoder σe) (st : St σd σe) (s : List Nat) :
    (doSend enc st s).returned = st.returned ++ [(enc.feed st.enc s).2.length] ∧
    (doSend enc st s).peer.length = st.peer.length + (enc.feed st.enc s).2.length :=
  Sess.send_returns_written enc st s

theorem control_one_byte (st : St σd σe) (b : Nat) : (doControl st (some b)).peer = st.peer ++ [b] := Sess.control_one_byte st b
theorem unknown_control_nothing (st : St σd σe) : (doControl st none).peer = st.peer := Sess.unknown_control_nothing st

/-- the control-character table: letters (either case) give 1..26, the punctuation names their fixed codes -/
theorem control_table :
    controlByte 99 = some 3 ∧ controlByte 67 = some 3 ∧ controlByte 100 = some 4 ∧ controlByte 91 = some 27 ∧
    controlByte 63 = some 127 ∧ controlByte 64 = some 0 ∧ controlByte 49 = none := by decide

/-- text given to a bytes-mode object is encoded as UTF-8 (`_coerce_send_string`); the round trip shows the peer can
    recover exactly the text -/
theorem text_in_bytes_mode_is_utf8 (cps : List Nat) (h : ∀ c ∈ cps, c < 0x110000) :
    utf8.feed (0, 0) (cps.flatMap utf8Encode) = ((0, 0), cps) := utf8_decode_encode cps h

end C08
