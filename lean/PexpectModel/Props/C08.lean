import PexpectModel.Session
/-! # C08 — send fidelity: the peer receives exactly what was sent, once, in order. -/
namespace C08
open Cd Sess
variable {σd σe : Type}

theorem peer_receives_concat (dec : IncDecoder σd Nat) (enc : IncEncoder σe) (cfg : Cfg) (ops : List Op) :
    (run dec enc cfg (Sess.init dec enc) ops).peer = peerSpec enc cfg enc.init ops := by
  have := Sess.peer_receives_concat dec enc cfg ops (Sess.init dec enc)
  simpa [Sess.init] using this

theorem text_stream_encoded_once (enc : IncEncoder σe) (cfg : Cfg) (ops : List Op) (h : ∀ op ∈ ops, op.isText = true) (e : σe) :
    peerSpec enc cfg e ops = (enc.feed e (sendText cfg ops)).2 :=
  Sess.text_stream_encoded_once enc cfg ops h e

theorem send_returns_written (enc : IncEncoder σe) (st : St σd σe) (s : List Nat) :
    (doSend enc st s).returned = st.returned ++ [(enc.feed st.enc s).2.length] ∧
    (doSend enc st s).peer.length = st.peer.length + (enc.feed st.enc s).2.length :=
  Sess.send_returns_written enc st s

theorem control_one_byte (st : St σd σe) (b : Nat) : (doControl st (some b)).peer = st.peer ++ [b] := Sess.control_one_byte st b
theorem unknown_control_nothing (st : St σd σe) : (doControl st none).peer = st.peer := Sess.unknown_control_nothing st

/-- the control-character table: letters (either case) give 1..26, the punctuation names their fixed codes -/
theorem control_table :
    controlByte 99 = some 3 ∧ controlByte 67 = some 3 ∧ controlByte 100 = some 4 ∧ controlByte 91 = some 27 ∧
    controlByte 63 = some 127 ∧ controlByte 64 = some 0 ∧ controlByte 49 = none := by decide

/-- text given to a bytes-mode object is encoded as UTF-8 (`_coerce_send_string`); the round trip shows the peer can
    recover exactly the text -/
theorem text_in_bytes_mode_is_utf8 (cps : List Nat) (h : ∀ c ∈ cps, c < 0x110000) :
    utf8.feed (0, 0) (cps.flatMap utf8Encode) = ((0, 0), cps) := utf8_decode_encode cps h

/-- the whole table, for every character code: letters of either case give 1..26 -/
theorem control_letters (c : Nat) (h : 97 ≤ c ∧ c ≤ 122) : controlByte c = some (c - 96) ∧ controlByte (c - 32) = some (c - 96) := by
  unfold controlByte
  constructor
  · simp only [show ¬ (65 ≤ c ∧ c ≤ 90) by omega, if_false, h, and_self, if_true]
  · have h1 : 65 ≤ c - 32 ∧ c - 32 ≤ 90 := by omega
    have h2 : c - 32 + 32 = c := by omega
    simp only [h1, and_self, if_true, h2, h]

/-- whatever `sendcontrol` puts on the wire is a C0 control byte or DEL, never a printable or a byte above 127 -/
theorem control_range (c b : Nat) (h : controlByte c = some b) : b < 32 ∨ b = 127 := by
  unfold controlByte at h
  grind (splits := 40)

/-- a character outside the table (digits, space, other punctuation, anything above `~`) sends nothing -/
theorem control_unknown (c : Nat) (h : c < 63 ∨ 127 ≤ c) (h63 : c ≠ 63) : controlByte c = none := by
  unfold controlByte
  grind (splits := 40)

/-- end to end for a unicode-mode utf-8 session: whatever mixture of send / sendline / writelines is made, in whatever
    pieces, a peer that decodes the bytes it received obtains exactly the text that was sent - every character once, in
    order, no pending partial character -/
theorem peer_decodes_to_text_sent (cfg : Cfg) (ops : List Op) (h : ∀ op ∈ ops, op.isText = true)
    (hv : ∀ c ∈ sendText cfg ops, c < 0x110000) :
    utf8.feed (0, 0) (peerSpec (mapEnc utf8Encode) cfg () ops) = ((0, 0), sendText cfg ops) := by
  rw [Sess.text_stream_encoded_once (mapEnc utf8Encode) cfg ops h ()]
  exact utf8_decode_encode _ hv

/-- non-vacuity: a mixed history (text, a read in between, a control character, sendeof) through the utf-8 session -/
example : (run utf8 (mapEnc utf8Encode) ⟨[10], 4, 3⟩ (Sess.init utf8 (mapEnc utf8Encode))
            [.send [104, 233], .read [65], .sendline [0x20AC], .sendcontrol 99, .sendeof, .writelines [[97], [98]]]).peer
          = [104, 0xC3, 0xA9, 0xE2, 0x82, 0xAC, 10, 3, 4, 97, 98] := by decide
example : ∀ op ∈ ([.send [104, 233], .sendline [0x20AC], .writelines [[97], [98]]] : List Op), op.isText = true := by decide
example : controlByte 103 = some 7 ∧ controlByte 71 = some 7 ∧ controlByte 48 = none := by decide

end C08
