import PexpectModel.ExOutcome
/-! # C02 — a reported match is genuine, leftmost, lowest-index on ties. -/
namespace C02
open Ex Py
variable {α : Type} [DecidableEq α]

theorem pick_spec (cands : List Span) (sp : Span) (h : pick cands = some sp) :
    ∃ pre post, cands = pre ++ sp :: post ∧
      (∀ c ∈ pre, sp.start < c.start) ∧ (∀ c ∈ post, sp.start ≤ c.start) :=
  Ex.pick_spec cands sp h

theorem searchString_spec (strings : List (Nat × List α)) (w : List α) (sp : Span)
    (h : searchString strings w w.length 0 = some sp) :
    ∃ pre p post, strings = pre ++ p :: post ∧ p.1 = sp.idx ∧
      occAt p.2 w sp.start ∧ sp.stop = sp.start + p.2.length ∧
      (∀ q ∈ strings, ∀ j, j < sp.start → ¬ occAt q.2 w j) ∧
      (∀ q ∈ pre, ¬ occAt q.2 w sp.start) :=
  Ex.searchString_spec strings w sp h

theorem searchRe_spec (res : List (Nat × ReFn α)) (M : Nat → List α → Nat → Nat → Prop)
    (hM : ∀ p ∈ res, p.2.Leftmost (M p.1)) (w : List α) (f : Nat) (sp : Span)
    (h : searchRe res w f 0 = some sp) :
    ∃ pre p post, res = pre ++ p :: post ∧ p.1 = sp.idx ∧ M p.1 w sp.start sp.stop ∧
      (∀ q ∈ res, ∀ s' e', s' < sp.start → ¬ M q.1 w s' e') ∧
      (∀ q ∈ pre, ∀ e', ¬ M q.1 w sp.start e') :=
  Ex.searchRe_spec res M hM w f sp h

/-- `before`, `after` and the new pending text are cut out of the pending text at the reported span -/
theorem hit_fields (sr : Searcher α) (W : Nat) (B : List α) (i : Nat) (b a rest : List α)
    (h : nsearch sr W B = some (i, b, a, rest)) :
    ∃ sp, sr.search (win W B) (win W B).length W = some sp ∧ i = sp.idx ∧
      b = B.take (B.length - ((win W B).length - sp.start)) ∧
      a = ((win W B).take sp.stop).drop sp.start ∧ rest = (win W B).drop sp.stop := by
  unfold nsearch at h
  simp only at h
  cases hs : sr.search (win W B) (win W B).length W with
  | none => simp [hs] at h
  | some sp =>
    simp only [hs, Option.some.injEq, Prod.mk.injEq] at h
    obtain ⟨rfl, rfl, rfl, rfl⟩ := h
    exact ⟨sp, rfl, rfl, rfl, rfl, rfl⟩

/-- indices are positions in the list as given: EOF / TIMEOUT entries do not shift them -/
theorem idx_refers_str (pats : List (Pat α)) (i : Nat) (s : List α) (h : (i, s) ∈ stringsFrom 0 pats) :
    ∃ hlt : i < pats.length, pats[i] = .str s := by
  obtain ⟨_, h2, h3⟩ := stringsFrom_mem pats 0 i s h
  exact ⟨by simpa using h2, by simpa using h3⟩

theorem idx_refers_re (pats : List (Pat α)) (i : Nat) (r : ReFn α) (h : (i, r) ∈ resFrom 0 pats) :
    ∃ hlt : i < pats.length, pats[i] = .re r := by
  obtain ⟨_, h2, h3⟩ := resFrom_mem pats 0 i r h
  exact ⟨by simpa using h2, by simpa using h3⟩

/-! non-vacuity: prefix-of-each-other strings, a tie, EOF entry shifting the list -/
example : searchString (stringsFrom 0 [.eof, .str [1, 2, 3], .str [1, 2], .timeout, .str [2]]) [0, 1, 2, 3] 4 0
    = some ⟨1, 1, 4⟩ := by decide
example : searchString (stringsFrom 0 [.str [2, 3], .eof, .str [1, 2]]) [0, 1, 2, 3] 4 0 = some ⟨2, 1, 3⟩ := by decide

end C02
