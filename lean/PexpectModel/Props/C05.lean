import PexpectModel.Deadline
import PexpectModel.ReadTiming
/-! # C05 — deadlines.  Clock skeleton of `expect_loop` / `waitnoecho`; the transports enter through the contract
    `Dl.evOk` (a read given timeout `t` returns within `t + eps`, raises TIMEOUT only after `t`, never with `None`). -/
namespace C05
open Dl

theorem expect_deadline (eps : Nat) (T : Int) (hT : 0 ≤ T) (start : Int) (d0 : Nat) (hd0 : d0 ≤ eps) (hit0 : Bool) (evs : List Ev)
    (hok : runOk eps (start + T) (some T) (start + d0) evs) :
    (expectLoop (some T) start d0 hit0 evs).2 ≤ start + T + 2 * eps :=
  Dl.expect_deadline eps T hT start d0 hd0 hit0 evs hok

theorem no_early_timeout (eps : Nat) (T : Int) (hT : 0 ≤ T) (start : Int) (d0 : Nat) (hit0 : Bool) (evs : List Ev)
    (hok : runOk eps (start + T) (some T) (start + d0) evs)
    (hres : (expectLoop (some T) start d0 hit0 evs).1 = .timeout) :
    start + T ≤ (expectLoop (some T) start d0 hit0 evs).2 :=
  Dl.no_early_timeout eps T hT start d0 hit0 evs hok hres

theorem none_never_times_out (eps : Nat) (start : Int) (d0 : Nat) (hit0 : Bool) (evs : List Ev)
    (hok : runOk eps (start + 0) none (start + d0) evs) : (expectLoop none start d0 hit0 evs).1 ≠ .timeout :=
  Dl.none_never_times_out eps start d0 hit0 evs hok

theorem zero_still_examines (start : Int) (d0 : Nat) (ev : Ev) (r : List Ev) :
    (expectLoop (some 0) start d0 true (ev :: r)).1 = .hit ∧
    (ev.k = .hit → (expectLoop (some 0) start d0 false (ev :: r)).1 = .hit) ∧
    (ev.k = .eof → (expectLoop (some 0) start d0 false (ev :: r)).1 = .eof) :=
  Dl.zero_still_examines start d0 ev r

theorem negative_expires_at_once (T : Int) (hT : T < 0) (start : Int) (d0 : Nat) (evs : List Ev) :
    expectLoop (some T) start d0 false evs = (.timeout, start + d0) :=
  Dl.negative_expires_at_once T hT start d0 evs

theorem default_timeout (dflt : Option Int) : resolve (some (-1)) dflt = dflt := resolve_default dflt
theorem explicit_timeout (arg dflt : Option Int) (h : arg ≠ some (-1)) : resolve arg dflt = arg := resolve_explicit arg dflt h

theorem waitnoecho_bound (S eps : Nat) (T : Int) (hT : 0 ≤ T) (start : Int) (evs : List WEv) (hdt : ∀ ev ∈ evs, ev.dt ≤ eps) :
    (waitnoecho S (start + T) (some T) start evs).2 ≤ start + T + 2 * S + 2 * eps :=
  Dl.waitnoecho_bound S eps (start + T) evs hdt T start (by intro _; omega) (by intro h; omega)

theorem waitnoecho_not_early (S : Nat) (T : Int) (hT : 0 ≤ T) (start : Int) (evs : List WEv)
    (h : (waitnoecho S (start + T) (some T) start evs).1 = some false) :
    start + T < (waitnoecho S (start + T) (some T) start evs).2 :=
  Dl.waitnoecho_not_early S (start + T) evs T start (by intro h; omega) h

theorem waitnoecho_none (S : Nat) (endT : Int) (evs : List WEv) (now : Int) : (waitnoecho S endT none now evs).1 ≠ some false :=
  Dl.waitnoecho_none S endT evs now

/-- `expect_deadline_partial`: the bound needs the transport contract.  The pty transport breaks it when the child
    closes its terminal but stays alive (ptyprocess then waits for the child with a blocking waitpid): a read that
    takes longer than its timeout makes the call overrun — the known finding of C05, as a witness. -/
example : (expectLoop (some 10) 0 0 false [⟨1000, .eof⟩]).2 = 1000 ∧ ¬ runOk 1 10 (some 10) 0 [⟨1000, .eof⟩] := by
  refine ⟨by decide, ?_⟩
  simp [runOk, evOk]

/-! non-vacuity: a trickle of non-matching reads every 3 ticks against T = 10 ends by the deadline -/
example : expectLoop (some 10) 0 0 false [⟨3, .miss⟩, ⟨3, .miss⟩, ⟨3, .miss⟩, ⟨3, .miss⟩, ⟨3, .miss⟩] = (.timeout, 12) := by decide
example : runOk 2 10 (some 10) 0 [⟨3, .miss⟩, ⟨3, .miss⟩, ⟨3, .miss⟩, ⟨3, .miss⟩, ⟨3, .miss⟩] := by
  simp [runOk, evOk]

/-! ### the transport contract assumed by `expect_deadline`, derived per transport (`Rt.*`): a read given timeout `t`
    returns within `t` plus the non-blocking system calls on its path (each ≤ `d`), and raises TIMEOUT only after `t` -/

theorem fd_read_contract (t : Nat) (readyAt : Option Nat) (e : Bool) (c : Rt.Costs) (d : Nat) (hc : c.le d) :
    (Rt.fdRead (some t) readyAt e c).2 ≤ t + d ∧ ((Rt.fdRead (some t) readyAt e c).1 = .timeout → t ≤ (Rt.fdRead (some t) readyAt e c).2) :=
  Rt.fd_contract t readyAt e c d hc

theorem socket_read_contract (t : Nat) (readyAt : Option Nat) (e : Bool) (c : Rt.Costs) (d : Nat) (hc : c.le d) :
    (Rt.sockRead (some t) readyAt e c).2 ≤ t + 2 * d ∧ ((Rt.sockRead (some t) readyAt e c).1 = .timeout → t ≤ (Rt.sockRead (some t) readyAt e c).2) :=
  Rt.socket_contract t readyAt e c d hc

theorem pty_read_contract (size t : Nat) (r0 : Bool) (dr : Nat) (a1 : Bool) (readyAt : Option Nat) (a2 rp : Bool) (c : Rt.Costs) (d : Nat)
    (hc : c.le d) :
    (Rt.ptyRead size t r0 dr a1 readyAt a2 rp c).2 ≤ t + (2 * size + 5) * d ∧
    ((Rt.ptyRead size t r0 dr a1 readyAt a2 rp c).1 = .timeout → t ≤ (Rt.ptyRead size t r0 dr a1 readyAt a2 rp c).2) :=
  Rt.pty_contract size t r0 dr a1 readyAt a2 rp c d hc

theorem popen_read_bounded (n q t c el : Nat) (hel : el ≤ t) : (Rt.popenRead n q t c el).2 ≤ t + c := Rt.popen_bounded n q t c el hel

theorem popen_zero_timeout_looks_once (n q c : Nat) : (Rt.popenRead (n + 1) (q + 1) 0 c 0).1 = 1 := Rt.popen_looks_at_queue_once n q c

theorem fd_read_is_evOk (t : Nat) (readyAt : Option Nat) (e : Bool) (c : Rt.Costs) (d : Nat) (hc : c.le d) :
    Dl.evOk d (some (t : Int)) ⟨(Rt.fdRead (some t) readyAt e c).2,
      match (Rt.fdRead (some t) readyAt e c).1 with | .data => .miss | .eof => .eof | .timeout => .timeoutExc⟩ :=
  Rt.fd_evOk t readyAt e c d hc

/-! ### signals handled by the parent while it waits: the EINTR-restarting wrappers of utils.py keep the timed-wait contract -/

theorem wait_under_signals_contract (T : Nat) (ready : Option Nat) (h : Nat) (sigs : List Nat) :
    (Rt.selII T ready h 0 sigs).2 ≤ T + h ∧
    ((Rt.selII T ready h 0 sigs).1 = false → T ≤ (Rt.selII T ready h 0 sigs).2) ∧
    ((Rt.selII T ready h 0 sigs).1 = true → ∃ r, ready = some r ∧ r ≤ (Rt.selII T ready h 0 sigs).2) := by
  obtain ⟨a, b, c, -⟩ := Rt.selII_contract T ready h sigs 0 (Nat.zero_le _)
  exact ⟨a, b, c⟩

theorem wait_without_signals_is_timed_wait (T : Nat) (ready : Option Nat) (h : Nat) :
    Rt.selII T ready h 0 [] = Rt.timedWait (some T) ready := Rt.selII_no_signals T ready h

theorem fd_read_contract_under_signals (t : Nat) (readyAt : Option Nat) (h : Nat) (sigs : List Nat) (e : Bool) (c : Rt.Costs) (d : Nat) (hc : c.le d) :
    (Rt.fdReadI t readyAt h sigs e c).2 ≤ t + h + d ∧ ((Rt.fdReadI t readyAt h sigs e c).1 = .timeout → t ≤ (Rt.fdReadI t readyAt h sigs e c).2) :=
  Rt.fd_contract_under_signals t readyAt h sigs e c d hc

/-! non-vacuity: timeout 100, a signal every 30 ticks (handler 2): the fourth wait ends exactly at the deadline; data at 70 is seen at 70 -/
example : Rt.selII 100 none 2 0 [30, 30, 30, 30, 30] = (false, 100) := by decide
example : Rt.selII 100 (some 70) 2 0 [30, 30, 30, 30, 30] = (true, 70) := by decide
/-! a signal 1 tick before the deadline: the handler runs past it and the wrapper gives up without waiting again -/
example : Rt.selII 100 none 5 0 [99] = (false, 104) := by decide

end C05
