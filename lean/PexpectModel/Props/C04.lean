import PexpectModel.ExOutcome
/-! # C04 — EOF / TIMEOUT outcomes (Expecter level; the transports' sticky EOF is in `Props/C06`). -/
namespace C04
open Ex Py
variable {α : Type} [DecidableEq α]

theorem eof_outcome (pats : List (Pat α)) (b : List α) :
    (∀ i, eofIndex pats = some i → finish pats (.eof b) = .idx i b .eofCls) ∧
    (eofIndex pats = none → finish pats (.eof b) = .raisedEOF b) :=
  Ex.eof_outcome pats b

theorem timeout_outcome (pats : List (Pat α)) (b : List α) :
    (∀ i, timeoutIndex pats = some i → finish pats (.timeout b) = .idx i b .timeoutCls) ∧
    (timeoutIndex pats = none → finish pats (.timeout b) = .raisedTIMEOUT b) :=
  Ex.timeout_outcome pats b

theorem eofIndex_spec (pats : List (Pat α)) :
    (eofIndex pats = none ∧ ∀ p ∈ pats, p.isEof = false) ∨
    (∃ i, eofIndex pats = some i ∧ ∃ hlt : i < pats.length, pats[i].isEof = true) :=
  Ex.eofIndex_spec pats

theorem timeoutIndex_spec (pats : List (Pat α)) :
    (timeoutIndex pats = none ∧ ∀ p ∈ pats, p.isTimeout = false) ∨
    (∃ i, timeoutIndex pats = some i ∧ ∃ hlt : i < pats.length, pats[i].isTimeout = true) :=
  Ex.timeoutIndex_spec pats

theorem pending_match_beats_eof_timeout (k : Kind α) (W : Nat) (st : St α) (hI : Inv st) (evs : List (Ev α))
    (i : Nat) (b a rest : List α) (h : nsearch k.sr W st.B = some (i, b, a, rest)) :
    (call k.sr W st evs).1 = .hit i b a ∧ (call k.sr W st evs).2.1.B = rest ∧ (call k.sr W st evs).2.2 = evs :=
  Ex.pending_match_beats_eof_timeout k W st hI evs i b a rest h

theorem no_match_then_eof_or_timeout (k : Kind α) (W : Nat) (st : St α) (hI : Inv st) (r : List (Ev α))
    (h : nsearch k.sr W st.B = none) :
    (call k.sr W st (.eofExc :: r)).1 = .eof st.B ∧ (call k.sr W st (.eofExc :: r)).2.1.B = [] ∧
    (call k.sr W st (.expired :: r)).1 = .timeout st.B ∧ (call k.sr W st (.expired :: r)).2.1.B = st.B ∧
    (call k.sr W st (.timeoutExc :: r)).1 = .timeout st.B ∧ (call k.sr W st (.timeoutExc :: r)).2.1.B = st.B :=
  Ex.no_match_then_eof_or_timeout k W st hI r h

theorem eof_clears (sr : Searcher α) (W : Nat) (st : St α) (evs : List (Ev α)) (b : List α)
    (h : (call sr W st evs).1 = .eof b) : (call sr W st evs).2.1 = { B := [], S := [] } :=
  Ex.eof_clears sr W st evs b h

/-- before = all pending text (old pending ++ everything read in the call) at EOF and at TIMEOUT -/
theorem before_holds_all (k : Kind α) (hk : k.WF) (W : Nat) (evs : List (Ev α)) (st : St α) (hI : Inv st) (b : List α) :
    ((call k.sr W st evs).1 = .eof b ∨ (call k.sr W st evs).1 = .timeout b) →
    ∃ used, evs = used ++ (call k.sr W st evs).2.2 ∧ b = st.B ++ dataOf used := by
  rintro (h | h)
  · obtain ⟨u, h1, _, h3⟩ := Ex.eof_hands_back_all k hk W evs st hI b h; exact ⟨u, h1, h3⟩
  · obtain ⟨u, h1, _, h3⟩ := Ex.timeout_consumes_nothing k hk W evs st hI b h; exact ⟨u, h1, h3⟩

/-! non-vacuity: marker positions -/
example : (expectExact [.str [1], .eof, .timeout] 0 ({ B := [], S := [] } : St Nat) [.data [7], .eofExc]).1
    = .idx 1 [7] .eofCls := by decide
example : (expectExact [.timeout, .str [1]] 0 ({ B := [7, 1, 8], S := [8] } : St Nat) [.expired]).1
    = .idx 1 [7] (.text [1]) := by decide
example : (expectExact [.str [1]] 0 ({ B := [7], S := [7] } : St Nat) [.expired]).1 = .raisedTIMEOUT [7] := by decide

end C04
