import PexpectModel.ExOutcome
import PexpectModel.Async
/-! # REPLWrapper.run_command over the Expecter model

`_expect_prompt` is `expect_exact([prompt, continuation_prompt])`.  The REPL is the environment: an
event stream.  A REPL that obeys the protocol answers each submitted line with a *segment*
`output ++ (prompt | continuation prompt)` and then stays silent until the next line.  The theorems say
that for every such REPL, every way its output is cut into reads, and every command sequence, each
`run_command` returns exactly its own output and leaves nothing pending. -/
namespace Rp
open Ex Py
variable {α : Type} [DecidableEq α]

structure Cfg (α : Type) where
  prompt : List α
  cont : List α

def Cfg.strings (c : Cfg α) : List (Nat × List α) := [(0, c.prompt), (1, c.cont)]
def Cfg.pats (c : Cfg α) : List (Pat α) := [.str c.prompt, .str c.cont]

theorem strings_eq (c : Cfg α) : stringsFrom 0 c.pats = c.strings := rfl

/-- `self.child.expect_exact([self.prompt, self.continuation_prompt])` -/
def expectPrompt (c : Cfg α) (st : St α) (evs : List (Ev α)) : Final α × St α × List (Ev α) :=
  expectExact c.pats 0 st evs

inductive RRes (α : Type) where
  | value (v : List α)            -- the string run_command returns
  | valueError                    -- continuation prompt: SIGINT sent, resynchronised, ValueError raised
  | raised (f : Final α)          -- EOF / TIMEOUT from expect_exact propagates
deriving DecidableEq

/-- `run_command` after `sendline(cmdlines[0])`: `more` = number of further lines still to send -/
def runCommand (c : Cfg α) : Nat → List α → St α → List (Ev α) → RRes α × St α × List (Ev α)
  | 0, acc, st, evs =>
      match expectPrompt c st evs with
      | (.idx 0 b _, st', r) => (.value (acc ++ b), st', r)
      | (.idx _ _ _, st', r) =>
          -- continuation prompt: kill(SIGINT); _expect_prompt(timeout=1); raise ValueError
          match expectPrompt c st' r with
          | (.idx _ _ _, st'', r') => (.valueError, st'', r')
          | (f, st'', r') => (.raised f, st'', r')
      | (f, st', r) => (.raised f, st', r)
  | n+1, acc, st, evs =>
      match expectPrompt c st evs with
      | (.idx _ b _, st', r) => runCommand c n (acc ++ b) st' r      -- res.append(before); sendline(next line)
      | (f, st', r) => (.raised f, st', r)

/-! ### one segment of REPL output is consumed by exactly one `_expect_prompt` -/

theorem occAt_len {s T : List α} {i : Nat} (h : occAt s T i) : i + s.length ≤ T.length := by
  obtain ⟨hi, hp⟩ := h
  have := hp.length_le
  simp only [List.length_drop] at this
  omega

theorem occAt_append_right {s P : List α} (Q : List α) {i : Nat} (h : occAt s P i) : occAt s (P ++ Q) i := by
  obtain ⟨hi, hp⟩ := h
  refine ⟨by simp only [List.length_append]; omega, ?_⟩
  rw [List.drop_append_of_le_length hi]
  exact hp.trans (List.prefix_append _ _)

theorem search_none_of_noOcc (strings : List (Nat × List α)) (T : List α) (h : ∀ q ∈ strings, NoOcc q.2 T) :
    searchString strings T T.length 0 = none := by
  cases hs : searchString strings T T.length 0 with
  | none => rfl
  | some sp =>
    obtain ⟨pre, p, post, hstr, -, hocc, -⟩ := searchString_spec strings T sp hs
    exact absurd hocc (h p (by rw [hstr]; simp) sp.start)

theorem search_some_of_occ (strings : List (Nat × List α)) (T : List α) (q : Nat × List α) (hq : q ∈ strings) (i : Nat)
    (h : occAt q.2 T i) : ∃ sp, searchString strings T T.length 0 = some sp := by
  cases hs : searchString strings T T.length 0 with
  | none => exact absurd h (searchString_none_noOcc strings T hs q hq i)
  | some sp => exact ⟨sp, rfl⟩

/-- what a protocol-obeying REPL prints in answer to one line: `o` then the prompt (`isCont = false`) or the
    continuation prompt; neither prompt string is completed anywhere before the end of the segment, and
    the segment's own prompt is the one that is recognised at its end -/
structure Seg (α : Type) where
  o : List α
  isCont : Bool

def Seg.p (c : Cfg α) (s : Seg α) : List α := if s.isCont then c.cont else c.prompt
def Seg.text (c : Cfg α) (s : Seg α) : List α := s.o ++ s.p c
def Seg.idx (s : Seg α) : Nat := if s.isCont then 1 else 0

def Seg.Clean (c : Cfg α) (s : Seg α) : Prop :=
  (∀ q ∈ c.strings, ∀ i, occAt q.2 (s.text c) i → s.o.length ≤ i ∧ (s.text c).length ≤ i + q.2.length) ∧
  (s.isCont = true → ¬ occAt c.prompt (s.text c) s.o.length) ∧ s.text c ≠ []

theorem own_prompt_occurs (c : Cfg α) (s : Seg α) : occAt (s.p c) (s.text c) s.o.length := by
  refine ⟨by simp [Seg.text], ?_⟩
  simp [Seg.text]

theorem nsearch_full (c : Cfg α) (s : Seg α) (h : s.Clean c) :
    nsearch (exactOf c.strings) 0 (s.text c) = some (s.idx, s.o, s.p c, []) := by
  obtain ⟨hcl, htie, _⟩ := h
  have hown := own_prompt_occurs c s
  have hmem : (s.idx, s.p c) ∈ c.strings := by
    unfold Seg.idx Seg.p Cfg.strings; cases s.isCont <;> simp
  obtain ⟨sp, hsp⟩ := search_some_of_occ c.strings (s.text c) _ hmem _ hown
  obtain ⟨pre, p, post, hstr, hidx, hocc, hstop, hleft, hpre⟩ := searchString_spec c.strings (s.text c) sp hsp
  have hpm : p ∈ c.strings := by rw [hstr]; simp
  have hge := (hcl p hpm sp.start hocc).1
  have hle : sp.start ≤ s.o.length := by
    rcases Nat.lt_or_ge s.o.length sp.start with hlt | hge'
    · exact absurd hown (hleft _ hmem _ hlt)
    · exact hge'
  have hstart : sp.start = s.o.length := Nat.le_antisymm hle hge
  have hend := (hcl p hpm sp.start hocc).2
  have hlen := occAt_len hocc
  have hstopT : sp.stop = (s.text c).length := by omega
  -- which string: the segment's own
  have hp : p = (s.idx, s.p c) := by
    unfold Cfg.strings at hstr
    cases hc : s.isCont with
    | false =>
      -- the prompt is listed first: if `p` were the continuation prompt, the prompt would be in `pre`
      cases pre with
      | nil => simp only [List.nil_append, List.cons.injEq] at hstr; rw [← hstr.1]; simp [Seg.idx, Seg.p, hc]
      | cons a pre' =>
        simp only [List.cons_append, List.cons.injEq] at hstr
        exfalso
        have ha : a ∈ a :: pre' := by simp
        have := hpre a ha
        rw [← hstr.1, hstart] at this
        have hown' := hown
        simp only [Seg.p, hc, Bool.false_eq_true, if_false] at hown'
        exact this hown'
    | true =>
      cases pre with
      | nil =>
        simp only [List.nil_append, List.cons.injEq] at hstr
        exfalso
        have := htie hc
        rw [← hstart] at this
        rw [← hstr.1] at hocc
        exact this hocc
      | cons a pre' =>
        simp only [List.cons_append, List.cons.injEq] at hstr
        cases pre' with
        | nil => simp only [List.nil_append, List.cons.injEq] at hstr; rw [← hstr.2.1]; simp [Seg.idx, Seg.p, hc]
        | cons b pre'' => simp at hstr
  have hs' : (exactOf c.strings).search (win 0 (s.text c)) (win 0 (s.text c)).length 0 = some sp := by
    simpa [win, exactOf, exactSr] using hsp
  rw [nsearch_of_some _ _ _ sp hs']
  simp only [win, if_true]
  have hi : sp.idx = s.idx := by rw [← hidx, hp]
  have hT : (s.text c).length = s.o.length + (s.p c).length := by simp [Seg.text]
  rw [hi, hstart, hstopT]
  simp only [Nat.sub_sub_self (Nat.le.intro hT.symm), List.take_length, List.drop_length]
  simp [Seg.text]

theorem nsearch_prefix (c : Cfg α) (s : Seg α) (h : s.Clean c) (P Q : List α) (hPQ : P ++ Q = s.text c) (hQ : Q ≠ []) :
    nsearch (exactOf c.strings) 0 P = none := by
  obtain ⟨hcl, _, _⟩ := h
  apply nsearch_of_none
  have : searchString c.strings P P.length 0 = none := by
    apply search_none_of_noOcc
    intro q hq i hocc
    have h1 := occAt_len hocc
    have h2 := (hcl q hq i (by rw [← hPQ]; exact occAt_append_right Q hocc)).2
    have : Q.length ≠ 0 := by simpa using hQ
    rw [← hPQ] at h2
    simp only [List.length_append] at h2
    omega
  simpa [win, exactOf, exactSr] using this

theorem nloop_segment (c : Cfg α) (s : Seg α) (h : s.Clean c) (init : List (List α)) (last : List α) (hl : last ≠ [])
    (B : List α) (hB : B ++ init.flatten ++ last = s.text c) (rest : List (Ev α)) :
    nloop (exactOf c.strings) 0 B (init.map .data ++ .data last :: rest) = (.hit s.idx s.o (s.p c), [], rest) := by
  induction init generalizing B with
  | nil =>
    simp only [List.map_nil, List.nil_append, nloop]
    have : B ++ last = s.text c := by simpa using hB
    rw [this, nsearch_full c s h]
  | cons d ds ih =>
    simp only [List.map_cons, List.cons_append, nloop]
    have hp : nsearch (exactOf c.strings) 0 (B ++ d) = none := by
      apply nsearch_prefix c s h (B ++ d) (ds.flatten ++ last)
      · rw [← hB]; simp
      · simp [hl]
    rw [hp]
    exact ih (B ++ d) (by rw [← hB]; simp)

/-- **one segment, one `_expect_prompt`**: with nothing pending, for every way the segment is cut into reads
    (empty reads allowed, the last one non-empty), the call returns the segment's prompt index with
    `before` = the segment's output, leaves nothing pending, and consumes exactly those reads -/
theorem expectPrompt_segment (c : Cfg α) (s : Seg α) (h : s.Clean c) (init : List (List α)) (last : List α) (hl : last ≠ [])
    (hT : init.flatten ++ last = s.text c) (rest : List (Ev α)) :
    expectPrompt c { B := [], S := [] } (init.map .data ++ .data last :: rest) =
      (.idx s.idx s.o (.text (s.p c)), { B := [], S := [] }, rest) := by
  unfold expectPrompt expectExact
  rw [strings_eq]
  have hI : Inv ({ B := [], S := [] } : St α) := List.suffix_refl _
  obtain ⟨h1, h2, h3⟩ := callExact_eq_ncall c.strings 0 (init.map .data ++ .data last :: rest) { B := [], S := [] } hI
  have hinv := call_inv (exactOf c.strings) 0 (init.map .data ++ .data last :: rest) { B := [], S := [] } hI
  have hn : ncall (exactOf c.strings) 0 [] (init.map .data ++ .data last :: rest) = (.hit s.idx s.o (s.p c), [], rest) := by
    unfold ncall
    have : nsearch (exactOf c.strings) 0 ([] : List α) = none := by
      apply nsearch_prefix c s h [] (s.text c) (by simp) h.2.2
    rw [this]
    exact nloop_segment c s h init last hl [] (by simpa using hT) rest
  rw [hn] at h1 h2 h3
  rcases hc : call (exactOf c.strings) 0 { B := [], S := [] } (init.map .data ++ .data last :: rest) with ⟨o, st', r⟩
  rw [hc] at h1 h2 h3 hinv
  simp only at h1 h2 h3 hinv
  subst h1 h3
  have hS : st'.S = [] := by
    obtain ⟨pre, hpre⟩ := hinv
    rw [h2] at hpre
    simpa using (List.append_eq_nil_iff.mp hpre).2
  have : st' = { B := [], S := [] } := by cases st'; simp_all
  subst this
  simp only [hc, finish]

/-! ### whole commands and command sequences -/

/-- one segment together with the way it is cut into reads -/
structure SegEv (α : Type) where
  seg : Seg α
  init : List (List α)
  last : List α

def SegEv.OK (c : Cfg α) (e : SegEv α) : Prop :=
  e.seg.Clean c ∧ e.last ≠ [] ∧ e.init.flatten ++ e.last = e.seg.text c

def SegEv.evs (e : SegEv α) : List (Ev α) := e.init.map .data ++ [.data e.last]

def evsOf (es : List (SegEv α)) : List (Ev α) := es.flatMap SegEv.evs

def outsOf (es : List (SegEv α)) : List α := (es.map (fun e => e.seg.o)).flatten

theorem expectPrompt_segEv (c : Cfg α) (e : SegEv α) (h : e.OK c) (rest : List (Ev α)) :
    expectPrompt c { B := [], S := [] } (e.evs ++ rest) = (.idx e.seg.idx e.seg.o (.text (e.seg.p c)), { B := [], S := [] }, rest) := by
  have := expectPrompt_segment c e.seg h.1 e.init e.last h.2.1 h.2.2 rest
  simpa [SegEv.evs] using this

/-- **run_command_returns_own_output**: a command of `n + 1` lines answered by `n + 1` clean segments, the last
    one ending in the main prompt: the value returned is exactly the concatenation of the segments' outputs
    (no prompt text, nothing of another command), nothing stays pending, exactly the command's reads are used -/
theorem run_command_returns_own_output (c : Cfg α) (es : List (SegEv α)) (fin : SegEv α)
    (hes : ∀ e ∈ es, e.OK c) (hfin : fin.OK c) (hp : fin.seg.isCont = false) (acc : List α) (rest : List (Ev α)) :
    runCommand c es.length acc { B := [], S := [] } (evsOf (es ++ [fin]) ++ rest) =
      (.value (acc ++ outsOf (es ++ [fin])), { B := [], S := [] }, rest) := by
  induction es generalizing acc with
  | nil =>
    simp only [List.length_nil, List.nil_append, evsOf, List.flatMap_cons, List.flatMap_nil, List.append_nil, runCommand]
    rw [expectPrompt_segEv c fin hfin rest]
    simp [Seg.idx, hp, outsOf]
  | cons e es ih =>
    simp only [List.length_cons, List.cons_append, evsOf, List.flatMap_cons, runCommand, List.append_assoc]
    have := expectPrompt_segEv c e (hes e (by simp)) (List.flatMap SegEv.evs (es ++ [fin]) ++ rest)
    rw [this]
    simp only []
    have ih' := ih (fun x hx => hes x (by simp [hx])) (acc ++ e.seg.o)
    simp only [evsOf] at ih'
    rw [ih']
    simp [outsOf]

/-- **incomplete_raises_and_resyncs**: if the last segment ends in the continuation prompt, the wrapper
    interrupts, consumes the REPL's next segment (its answer to SIGINT) and raises ValueError; nothing stays
    pending, so the next command starts clean -/
theorem incomplete_raises_and_resyncs (c : Cfg α) (es : List (SegEv α)) (fin sync : SegEv α)
    (hes : ∀ e ∈ es, e.OK c) (hfin : fin.OK c) (hp : fin.seg.isCont = true) (hsync : sync.OK c)
    (acc : List α) (rest : List (Ev α)) :
    runCommand c es.length acc { B := [], S := [] } (evsOf (es ++ [fin, sync]) ++ rest) =
      (.valueError, { B := [], S := [] }, rest) := by
  induction es generalizing acc with
  | nil =>
    simp only [List.length_nil, List.nil_append, evsOf, List.flatMap_cons, List.flatMap_nil, List.append_nil, runCommand,
      List.append_assoc]
    rw [expectPrompt_segEv c fin hfin (sync.evs ++ rest)]
    simp only [Seg.idx, hp, if_true]
    rw [expectPrompt_segEv c sync hsync rest]
  | cons e es ih =>
    simp only [List.length_cons, List.cons_append, evsOf, List.flatMap_cons, runCommand, List.append_assoc]
    have := expectPrompt_segEv c e (hes e (by simp)) (List.flatMap SegEv.evs (es ++ [fin, sync]) ++ rest)
    rw [this]
    simp only []
    have ih' := ih (fun x hx => hes x (by simp [hx])) (acc ++ e.seg.o)
    simp only [evsOf] at ih'
    exact ih'

/-- a command as the REPL sees it: its intermediate segments, its final segment, and — when that one ends in
    the continuation prompt — the segment that answers the interrupt -/
structure Cmd (α : Type) where
  es : List (SegEv α)
  fin : SegEv α
  sync : Option (SegEv α)

def Cmd.OK (c : Cfg α) (k : Cmd α) : Prop :=
  (∀ e ∈ k.es, e.OK c) ∧ k.fin.OK c ∧
  (match k.sync with | none => k.fin.seg.isCont = false | some s => k.fin.seg.isCont = true ∧ s.OK c)

def Cmd.evs (k : Cmd α) : List (Ev α) :=
  match k.sync with | none => evsOf (k.es ++ [k.fin]) | some s => evsOf (k.es ++ [k.fin, s])

def Cmd.expected (k : Cmd α) : RRes α :=
  match k.sync with | none => .value (outsOf (k.es ++ [k.fin])) | some _ => .valueError

/-- a sequence of run_command calls on one wrapper -/
def runSeq (c : Cfg α) : List Nat → St α → List (Ev α) → List (RRes α) × St α × List (Ev α)
  | [], st, evs => ([], st, evs)
  | n :: ns, st, evs =>
      let r := runCommand c n [] st evs
      let t := runSeq c ns r.2.1 r.2.2
      (r.1 :: t.1, t.2.1, t.2.2)

/-- **command_sequence**: for every sequence of commands (complete ones and incomplete ones in between) on a
    protocol-obeying REPL, every splitting into reads: each call returns exactly its own output (or raises
    ValueError for an incomplete one) and the wrapper stays synchronised -/
theorem command_sequence (c : Cfg α) (cmds : List (Cmd α)) (h : ∀ k ∈ cmds, k.OK c) (rest : List (Ev α)) :
    runSeq c (cmds.map (fun k => k.es.length)) { B := [], S := [] } ((cmds.flatMap Cmd.evs) ++ rest) =
      (cmds.map Cmd.expected, { B := [], S := [] }, rest) := by
  induction cmds with
  | nil => simp [runSeq]
  | cons k ks ih =>
    obtain ⟨h1, h2, h3⟩ := h k (by simp)
    simp only [List.map_cons, List.flatMap_cons, runSeq, List.append_assoc]
    have hk : runCommand c k.es.length [] { B := [], S := [] } (k.evs ++ (List.flatMap Cmd.evs ks ++ rest)) =
        (k.expected, { B := [], S := [] }, List.flatMap Cmd.evs ks ++ rest) := by
      cases hs : k.sync with
      | none =>
        rw [hs] at h3
        have e1 : k.evs = evsOf (k.es ++ [k.fin]) := by simp [Cmd.evs, hs]
        have e2 : k.expected = .value (outsOf (k.es ++ [k.fin])) := by simp [Cmd.expected, hs]
        rw [e1, e2]
        have := run_command_returns_own_output c k.es k.fin h1 h2 h3 [] (List.flatMap Cmd.evs ks ++ rest)
        simpa using this
      | some s =>
        rw [hs] at h3
        have e1 : k.evs = evsOf (k.es ++ [k.fin, s]) := by simp [Cmd.evs, hs]
        have e2 : k.expected = .valueError := by simp [Cmd.expected, hs]
        rw [e1, e2]
        exact incomplete_raises_and_resyncs c k.es k.fin s h1 h2 h3.1 h3.2 [] (List.flatMap Cmd.evs ks ++ rest)
    rw [hk]
    simp only []
    rw [ih (fun x hx => h x (by simp [hx]))]

/-! ### the awaited form (`repl_run_command_async`): same structure over awaited `_expect_prompt` calls -/

def expectPromptA (c : Cfg α) (st : St α) (evs : List (AEv α)) : Final α × St α × List (AEv α) :=
  let r := acall (exactOf c.strings) 0 st evs
  (finish c.pats r.1, r.2.1, r.2.2)

def runCommandA (c : Cfg α) : Nat → List α → St α → List (AEv α) → RRes α × St α × List (AEv α)
  | 0, acc, st, evs =>
      match expectPromptA c st evs with
      | (.idx 0 b _, st', r) => (.value (acc ++ b), st', r)
      | (.idx _ _ _, st', r) =>
          match expectPromptA c st' r with
          | (.idx _ _ _, st'', r') => (.valueError, st'', r')
          | (f, st'', r') => (.raised f, st'', r')
      | (f, st', r) => (.raised f, st', r)
  | n+1, acc, st, evs =>
      match expectPromptA c st evs with
      | (.idx _ b _, st', r) => runCommandA c n (acc ++ b) st' r
      | (f, st', r) => (.raised f, st', r)

theorem expectPromptA_eq (c : Cfg α) (st : St α) (evs : List (AEv α)) :
    (expectPromptA c st evs).1 = (expectPrompt c st (evs.map AEv.toEv)).1 ∧
    (expectPromptA c st evs).2.1 = (expectPrompt c st (evs.map AEv.toEv)).2.1 ∧
    (expectPromptA c st evs).2.2.map AEv.toEv = (expectPrompt c st (evs.map AEv.toEv)).2.2 := by
  obtain ⟨h1, h2, h3⟩ := acall_eq_call (exactOf c.strings) 0 evs st
  unfold expectPromptA expectPrompt expectExact
  rw [strings_eq]
  simp only []
  rcases hc : call (exactOf c.strings) 0 st (evs.map AEv.toEv) with ⟨o, st', r⟩
  rw [hc] at h1 h2 h3
  simp only at h1 h2 h3 ⊢
  exact ⟨by rw [h1], h2, h3⟩

/-- **async_same_value**: the awaited run_command returns the same value and leaves the same state as the
    blocking one on the same events -/
theorem async_same_value (c : Cfg α) (n : Nat) (acc : List α) (st : St α) (evs : List (AEv α)) :
    (runCommandA c n acc st evs).1 = (runCommand c n acc st (evs.map AEv.toEv)).1 ∧
    (runCommandA c n acc st evs).2.1 = (runCommand c n acc st (evs.map AEv.toEv)).2.1 ∧
    (runCommandA c n acc st evs).2.2.map AEv.toEv = (runCommand c n acc st (evs.map AEv.toEv)).2.2 := by
  induction n generalizing acc st evs with
  | zero =>
    obtain ⟨h1, h2, h3⟩ := expectPromptA_eq c st evs
    simp only [runCommandA, runCommand]
    rcases ha : expectPromptA c st evs with ⟨fa, sa, ra⟩
    rcases hs : expectPrompt c st (evs.map AEv.toEv) with ⟨fs, ss, rs⟩
    rw [ha, hs] at h1 h2 h3
    simp only at h1 h2 h3
    subst h1 h2 h3
    cases fa with
    | raisedEOF b => simp
    | raisedTIMEOUT b => simp
    | idx i b af =>
      cases i with
      | zero => simp
      | succ i =>
        simp only []
        obtain ⟨g1, g2, g3⟩ := expectPromptA_eq c sa ra
        rcases ha2 : expectPromptA c sa ra with ⟨fa2, sa2, ra2⟩
        rcases hs2 : expectPrompt c sa (ra.map AEv.toEv) with ⟨fs2, ss2, rs2⟩
        rw [ha2, hs2] at g1 g2 g3
        simp only at g1 g2 g3
        subst g1 g2 g3
        cases fa2 <;> simp
  | succ n ih =>
    obtain ⟨h1, h2, h3⟩ := expectPromptA_eq c st evs
    simp only [runCommandA, runCommand]
    rcases ha : expectPromptA c st evs with ⟨fa, sa, ra⟩
    rcases hs : expectPrompt c st (evs.map AEv.toEv) with ⟨fs, ss, rs⟩
    rw [ha, hs] at h1 h2 h3
    simp only at h1 h2 h3
    subst h1 h2 h3
    cases fa with
    | raisedEOF b => simp
    | raisedTIMEOUT b => simp
    | idx i b af => simp only []; exact ih (acc ++ b) sa ra

end Rp

namespace Rp
open Ex Py
variable {α : Type} [DecidableEq α]

/-- decidable form of `Seg.Clean` (used for concrete instances and by the driver) -/
def cleanB (c : Cfg α) (s : Seg α) : Bool :=
  (c.strings.all fun q => (List.range ((s.text c).length + 1)).all fun i =>
      !(q.2.isPrefixOf ((s.text c).drop i)) || (decide (s.o.length ≤ i) && decide ((s.text c).length ≤ i + q.2.length))) &&
  (!s.isCont || !(c.prompt.isPrefixOf ((s.text c).drop s.o.length))) && !(s.text c).isEmpty

theorem cleanB_sound (c : Cfg α) (s : Seg α) (h : cleanB c s = true) : s.Clean c := by
  simp only [cleanB, Bool.and_eq_true, List.all_eq_true, Bool.or_eq_true, Bool.not_eq_true', decide_eq_true_eq,
    List.mem_range] at h
  obtain ⟨⟨h1, h2⟩, h3⟩ := h
  refine ⟨?_, ?_, ?_⟩
  · intro q hq i hocc
    obtain ⟨hi, hp⟩ := hocc
    rcases h1 q hq i (by omega) with hn | hy
    · rw [← List.isPrefixOf_iff_prefix] at hp; rw [hp] at hn; cases hn
    · exact hy
  · intro hc hocc
    rcases h2 with hn | hn
    · rw [hc] at hn; cases hn
    · have hp := hocc.2; rw [← List.isPrefixOf_iff_prefix] at hp; rw [hp] at hn; cases hn
  · intro he; rw [he] at h3; simp at h3

end Rp
