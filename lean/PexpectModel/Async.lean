import PexpectModel.ExLoop
/-! scratch: asyncio path (PatternWaiter) over the same Expecter functions -/
namespace Ex
open Py
variable {α : Type} [DecidableEq α]

inductive AEv (α : Type) where
  | dataReceived (d : List α) | eofReceived | timeoutFired

def AEv.toEv : AEv α → Ev α
  | .dataReceived d => .data d
  | .eofReceived => .eofExc
  | .timeoutFired => .expired

/-- events delivered while the call's future is pending -/
def aloop (sr : Searcher α) (W : Nat) : St α → List (AEv α) → Out α × St α × List (AEv α)
  | st, [] => (.timeout st.B, st, [])
  | st, .dataReceived d :: r =>
      match newData sr W st d with
      | (st', .hit i b a) => (.hit i b a, st', r)          -- found(): set_result + pause_reading
      | (st', .miss) => aloop sr W st' r
  | st, .eofReceived :: r => (.eof st.B, { B := [], S := [] }, r)
  | st, .timeoutFired :: r => (.timeout st.B, st, r)

def acall (sr : Searcher α) (W : Nat) (st : St α) (evs : List (AEv α)) : Out α × St α × List (AEv α) :=
  match existingData sr W st with
  | (st', .hit i b a) => (.hit i b a, st', evs)
  | (st', .miss) => aloop sr W st' evs

/-- C14, in-call parity: the awaited call and the blocking call are the same function of the same events -/
theorem aloop_eq_loop (sr : Searcher α) (W : Nat) (evs : List (AEv α)) (st : St α) :
    (aloop sr W st evs).1 = (loop sr W st (evs.map AEv.toEv)).1 ∧
    (aloop sr W st evs).2.1 = (loop sr W st (evs.map AEv.toEv)).2.1 ∧
    (aloop sr W st evs).2.2.map AEv.toEv = (loop sr W st (evs.map AEv.toEv)).2.2 := by
  induction evs generalizing st with
  | nil => simp [aloop, loop]
  | cons e r ih =>
    cases e with
    | eofReceived => simp [aloop, loop, AEv.toEv]
    | timeoutFired => simp [aloop, loop, AEv.toEv]
    | dataReceived d =>
      simp only [aloop, loop, List.map_cons, AEv.toEv]
      rcases hnd : newData sr W st d with ⟨st', r'⟩
      cases r' with
      | hit i b a => simp
      | miss => simp only []; exact ih st'

theorem acall_eq_call (sr : Searcher α) (W : Nat) (evs : List (AEv α)) (st : St α) :
    (acall sr W st evs).1 = (call sr W st (evs.map AEv.toEv)).1 ∧
    (acall sr W st evs).2.1 = (call sr W st (evs.map AEv.toEv)).2.1 := by
  unfold acall call
  rcases existingData sr W st with ⟨st', r'⟩
  cases r' with
  | hit i b a => simp
  | miss => exact ⟨(aloop_eq_loop sr W evs st').1, (aloop_eq_loop sr W evs st').2.1⟩

/-- data delivered after the future is done (before pause_reading takes effect): appended to both buffers -/
def doneData (st : St α) (d : List α) : St α := { B := st.B ++ d, S := st.S ++ d }

theorem doneData_inv (st : St α) (d : List α) (h : Inv st) : Inv (doneData st d) := by
  obtain ⟨pre, hpre⟩ := h
  exact ⟨pre, by simp [doneData, ← hpre]⟩

theorem doneData_pending (st : St α) (d : List α) : (doneData st d).B = st.B ++ d := rfl

/-- the known finding: an EOF delivered after the future is done runs `eof()` on the finished expecter,
    which empties the buffers — pending text is gone for the next call -/
def doneEofPre (_st : St α) : St α := { B := [], S := [] }

example : (doneEofPre ({ B := [104, 105], S := [104, 105] } : St Nat)).B = [] := rfl

end Ex
