import PexpectModel.ExHistory
import PexpectModel.ExOutcome
/-! # asyncio path: `expect_async` + `PatternWaiter` over the *same* Expecter functions

`_async_w_await.py`: `existing_data()` first; if it misses, the read transport is connected / resumed and
the call's future is awaited under `wait_for`.  While the future is pending the protocol callbacks run
`new_data` / `eof()`; a match, an EOF or the timer ends the call and pauses the transport.  The
transport is an explicit part of the state (`PW`), so "nothing is read while no call is outstanding"
is a theorem about the model and not an assumption. -/
namespace Ex
open Py
variable {α : Type} [DecidableEq α]

/-- what the event loop delivers to the PatternWaiter -/
inductive AEv (α : Type) where
  | dataReceived (d : List α)     -- one `_read_ready` of the pipe transport
  | eofReceived                   -- read() returned b''
  | connLostEIO                   -- connection_lost(OSError(EIO)): how a pty reports the hang-up on Linux
  | timeoutFired                  -- the timer of `wait_for`

def AEv.toEv : AEv α → Ev α
  | .dataReceived d => .data d
  | .eofReceived => .eofExc
  | .connLostEIO => .eofExc
  | .timeoutFired => .expired

/-- PatternWaiter / transport state kept on the spawn object (`async_pw_transport`) -/
structure PW where
  connected : Bool := false      -- connect_read_pipe has been done
  paused : Bool := true          -- the loop does not read the descriptor
  futDone : Bool := true         -- no call is waiting
  closed : Bool := false         -- asyncio closed the transport (and with it the spawn) after EOF
deriving DecidableEq, Repr

structure AS (α : Type) where
  st : St α
  pw : PW

/-- events delivered while the call's future is pending -/
def aloop (sr : Searcher α) (W : Nat) : St α → List (AEv α) → Out α × St α × List (AEv α)
  | st, [] => (.timeout st.B, st, [])
  | st, .dataReceived d :: r =>
      match newData sr W st d with
      | (st', .hit i b a) => (.hit i b a, st', r)          -- found(): set_result + pause_reading
      | (st', .miss) => aloop sr W st' r
  | st, .eofReceived :: r => (.eof st.B, { B := [], S := [] }, r)
  | st, .connLostEIO :: r => (.eof st.B, { B := [], S := [] }, r)
  | st, .timeoutFired :: r => (.timeout st.B, st, r)

def acall (sr : Searcher α) (W : Nat) (st : St α) (evs : List (AEv α)) : Out α × St α × List (AEv α) :=
  match existingData sr W st with
  | (st', .hit i b a) => (.hit i b a, st', evs)
  | (st', .miss) => aloop sr W st' evs

/-- the transport after an awaited call: a hit on existing data does not touch it; otherwise it is
    connected / resumed for the call and paused again when the call ends; EOF closes it -/
def pwAfter (pw : PW) (existingHit : Bool) (o : Out α) : PW :=
  if existingHit then pw
  else match o with
    | .eof _ => { connected := true, paused := true, futDone := true, closed := true }
    | _ => { connected := true, paused := true, futDone := true, closed := pw.closed }

def existingHit (sr : Searcher α) (W : Nat) (st : St α) : Bool :=
  match (existingData sr W st).2 with
  | .hit _ _ _ => true
  | .miss => false

/-- an awaited call on the full state -/
def acallS (sr : Searcher α) (W : Nat) (s : AS α) (evs : List (AEv α)) : Out α × AS α × List (AEv α) :=
  let r := acall sr W s.st evs
  (r.1, { st := r.2.1, pw := pwAfter s.pw (existingHit sr W s.st) r.1 }, r.2.2)

/-- C14, in-call parity: the awaited call and the blocking call are the same function of the same events -/
theorem aloop_eq_loop (sr : Searcher α) (W : Nat) (evs : List (AEv α)) (st : St α) :
    (aloop sr W st evs).1 = (loop sr W st (evs.map AEv.toEv)).1 ∧
    (aloop sr W st evs).2.1 = (loop sr W st (evs.map AEv.toEv)).2.1 ∧
    (aloop sr W st evs).2.2.map AEv.toEv = (loop sr W st (evs.map AEv.toEv)).2.2 := by
  induction evs generalizing st with
  | nil => simp [aloop, loop]
  | cons e r ih =>
    cases e with
    | eofReceived => simp [aloop, loop, AEv.toEv]
    | connLostEIO => simp [aloop, loop, AEv.toEv]
    | timeoutFired => simp [aloop, loop, AEv.toEv]
    | dataReceived d =>
      simp only [aloop, loop, List.map_cons, AEv.toEv]
      rcases hnd : newData sr W st d with ⟨st', r'⟩
      cases r' with
      | hit i b a => simp
      | miss => simp only []; exact ih st'

theorem acall_eq_call (sr : Searcher α) (W : Nat) (evs : List (AEv α)) (st : St α) :
    (acall sr W st evs).1 = (call sr W st (evs.map AEv.toEv)).1 ∧
    (acall sr W st evs).2.1 = (call sr W st (evs.map AEv.toEv)).2.1 ∧
    (acall sr W st evs).2.2.map AEv.toEv = (call sr W st (evs.map AEv.toEv)).2.2 := by
  unfold acall call
  rcases existingData sr W st with ⟨st', r'⟩
  cases r' with
  | hit i b a => simp
  | miss => exact aloop_eq_loop sr W evs st'

/-- **paused_when_idle**: after every awaited call that had to wait, the transport is paused and no
    future is pending — so the loop reads nothing until the next call resumes it; a call answered from
    existing data never touches the transport -/
theorem paused_when_idle (sr : Searcher α) (W : Nat) (s : AS α) (evs : List (AEv α))
    (h : s.pw.paused = true ∧ s.pw.futDone = true) :
    (acallS sr W s evs).2.1.pw.paused = true ∧ (acallS sr W s evs).2.1.pw.futDone = true := by
  unfold acallS pwAfter
  simp only []
  split
  · exact h
  · split <;> exact ⟨rfl, rfl⟩

/-- the transport is closed only by an EOF outcome -/
theorem closed_only_by_eof (sr : Searcher α) (W : Nat) (s : AS α) (evs : List (AEv α)) (hc : s.pw.closed = false)
    (h : (acallS sr W s evs).2.1.pw.closed = true) : ∃ b, (acallS sr W s evs).1 = .eof b := by
  unfold acallS pwAfter at h
  simp only [] at h
  split at h
  · rw [hc] at h; cases h
  · split at h
    · rename_i b heq; exact ⟨b, by unfold acallS; simpa using heq⟩
    · simp only [] at h; rw [hc] at h; cases h

/-- data delivered after the future is done (before pause_reading takes effect): appended to both buffers -/
def doneData (st : St α) (d : List α) : St α := { B := st.B ++ d, S := st.S ++ d }

theorem doneData_inv (st : St α) (d : List α) (h : Inv st) : Inv (doneData st d) := by
  obtain ⟨pre, hpre⟩ := h
  exact ⟨pre, by simp [doneData, ← hpre]⟩

theorem doneData_pending (st : St α) (d : List α) : (doneData st d).B = st.B ++ d := rfl

/-- the known finding: an EOF delivered after the future is done runs `eof()` on the finished expecter,
    which empties the buffers — pending text is gone for the next call -/
def doneEofPre (_st : St α) : St α := { B := [], S := [] }

/-! ### histories that mix blocking and awaited calls on one object -/

inductive MOp (α : Type) where
  | sync (k : Kind α) (W : Nat)
  | async (k : Kind α) (W : Nat)
  | setBuffer (v : List α)

def MOp.toOp : MOp α → Op α
  | .sync k W => .call k W
  | .async k W => .call k W
  | .setBuffer v => .setBuffer v

/-- a mixed history over one stream of loop / read events: a blocking call reads the descriptor itself
    (each `dataReceived` is then one `read_nonblocking`), an awaited call gets the events from the loop -/
def mrunOps : AS α → List (MOp α) → List (AEv α) → List (Out α) × AS α × List (AEv α)
  | s, [], evs => ([], s, evs)
  | s, .sync k W :: ops, evs =>
      let r := acall k.sr W s.st evs          -- same function (acall_eq_call); the transport is not touched
      let t := mrunOps { s with st := r.2.1 } ops r.2.2
      (r.1 :: t.1, t.2.1, t.2.2)
  | s, .async k W :: ops, evs =>
      let r := acallS k.sr W s evs
      let t := mrunOps r.2.1 ops r.2.2
      (r.1 :: t.1, t.2.1, t.2.2)
  | s, .setBuffer v :: ops, evs => mrunOps { s with st := setBuffer v } ops evs

/-- **mixed_history_eq_sync**: any interleaving of blocking and awaited calls on one object reports the
    same outcomes, leaves the same pending text and consumes the same events as the all-blocking history -/
theorem mixed_history_eq_sync (ops : List (MOp α)) (evs : List (AEv α)) (s : AS α) :
    (mrunOps s ops evs).1 = (runOps s.st (ops.map MOp.toOp) (evs.map AEv.toEv)).1 ∧
    (mrunOps s ops evs).2.1.st = (runOps s.st (ops.map MOp.toOp) (evs.map AEv.toEv)).2.1 ∧
    (mrunOps s ops evs).2.2.map AEv.toEv = (runOps s.st (ops.map MOp.toOp) (evs.map AEv.toEv)).2.2 := by
  induction ops generalizing s evs with
  | nil => exact ⟨rfl, rfl, rfl⟩
  | cons op ops ih =>
    cases op with
    | setBuffer v =>
      simp only [mrunOps, List.map_cons, MOp.toOp, runOps]
      exact ih evs { s with st := setBuffer v }
    | sync k W =>
      obtain ⟨h1, h2, h3⟩ := acall_eq_call k.sr W evs s.st
      simp only [mrunOps, List.map_cons, MOp.toOp, runOps]
      obtain ⟨i1, i2, i3⟩ := ih (acall k.sr W s.st evs).2.2 { s with st := (acall k.sr W s.st evs).2.1 }
      rw [← h1, ← h2, ← h3]
      exact ⟨congrArg _ i1, i2, i3⟩
    | async k W =>
      obtain ⟨h1, h2, h3⟩ := acall_eq_call k.sr W evs s.st
      simp only [mrunOps, List.map_cons, MOp.toOp, runOps]
      obtain ⟨i1, i2, i3⟩ := ih (acallS k.sr W s evs).2.2 (acallS k.sr W s evs).2.1
      rw [← h1, ← h2, ← h3]
      exact ⟨congrArg _ i1, i2, i3⟩

/-- the transport is paused between the calls of any mixed history -/
theorem mixed_history_paused (ops : List (MOp α)) (evs : List (AEv α)) (s : AS α)
    (h : s.pw.paused = true ∧ s.pw.futDone = true) :
    (mrunOps s ops evs).2.1.pw.paused = true ∧ (mrunOps s ops evs).2.1.pw.futDone = true := by
  induction ops generalizing s evs with
  | nil => exact h
  | cons op ops ih =>
    cases op with
    | setBuffer v => simp only [mrunOps]; exact ih evs _ h
    | sync k W => simp only [mrunOps]; exact ih _ _ h
    | async k W => simp only [mrunOps]; exact ih _ _ (paused_when_idle k.sr W s evs h)

/-- an awaited call never runs past its timer: with no match and no EOF among the first `n` events and the
    timer at position `n`, exactly `n + 1` events are consumed and the outcome is TIMEOUT with everything
    read so far still pending -/
theorem aloop_stops_at_timer (sr : Searcher α) (W : Nat) (pre : List (List α)) (rest : List (AEv α)) (st : St α) :
    (∃ i b a, (aloop sr W st (pre.map .dataReceived ++ .timeoutFired :: rest)).1 = .hit i b a) ∨
    ((aloop sr W st (pre.map .dataReceived ++ .timeoutFired :: rest)).2.2 = rest ∧
      ∃ b, (aloop sr W st (pre.map .dataReceived ++ .timeoutFired :: rest)).1 = .timeout b) := by
  induction pre generalizing st with
  | nil => right; exact ⟨rfl, st.B, rfl⟩
  | cons d ds ih =>
    simp only [List.map_cons, List.cons_append, aloop]
    rcases hnd : newData sr W st d with ⟨st', r'⟩
    cases r' with
    | hit i b a => left; exact ⟨i, b, a, rfl⟩
    | miss => exact ih st'

/-- `wait_for(fut, 0)` of CPython 3.12 on an already connected transport: the future is cancelled before the
    loop can deliver anything, so after `existing_data()` the call times out at once (known finding) -/
def acall0 (sr : Searcher α) (W : Nat) (st : St α) (evs : List (AEv α)) : Out α × St α × List (AEv α) :=
  match existingData sr W st with
  | (st', .hit i b a) => (.hit i b a, st', evs)
  | (st', .miss) => (.timeout st'.B, st', evs)

end Ex
