import PexpectModel.AnsiStep
import PexpectModel.ScreenLemmas
import PexpectModel.Codec
/-! The whole ANSI terminal: the parser over the generated table (`AnsiStep`), the action semantics on the
    screen model, `write_ch`, and text / bytes feeding.  `none` = the Python code would raise. -/
namespace Ansi
open AnsiGen AnsiOK Scr

/-- `int(ns)` for a string of ASCII digits -/
def num (ds : List Nat) : Int := (ds.foldl (fun acc d => acc * 10 + (d - 48)) 0 : Nat)

/-- `ANSI.write_ch` -/
def writeCh (s : Screen) (ch : Nat) : Screen :=
  if ch = 13 then cr s
  else if ch = 10 then crlf s
  else if ch = 8 then cursorBack s 1
  else
    let s1 := putAbs s s.curR s.curC ch
    let s2 := cursorForward s1 1
    if s1.curC = s2.curC then
      let s3 := cursorDown s2 1
      if s1.curR ≠ s3.curR then cursorHome s3 s3.curR 1
      else eraseLine (cursorHome (scrollUp s3) s3.curR 1)
    else s2

/-- what an action does to the screen; `args` are the popped parameters in pop order (last pushed first) -/
def act (a : A) (c : Nat) (args : List Int) (s : Screen) : Screen :=
  match a with
  | .DoEmit => writeCh s c
  | .DoBackOne => cursorBack s 1
  | .DoBack => cursorBack s (args.getD 0 0)
  | .DoDownOne => cursorDown s 1
  | .DoDown => cursorDown s (args.getD 0 0)
  | .DoForwardOne => cursorForward s 1
  | .DoForward => cursorForward s (args.getD 0 0)
  | .DoUpOne => cursorUp s 1
  | .DoUp => cursorUp s (args.getD 0 0)
  | .DoUpReverse => cursorUpReverse s
  | .DoHome => cursorHome s (args.getD 1 0) (args.getD 0 0)
  | .DoHomeOrigin => cursorHome s 1 1
  | .DoEraseDown => eraseDown s
  | .DoErase =>
      let n := args.getD 0 0
      if n = 0 then eraseDown s else if n = 1 then eraseUp s else if n = 2 then eraseScreen s else s
  | .DoEraseEndOfLine => eraseEndOfLine s
  | .DoEraseLine =>
      let n := args.getD 0 0
      if n = 0 then eraseEndOfLine s else if n = 1 then eraseStartOfLine s else if n = 2 then eraseLine s else s
  | .DoEnableScroll => scrollScreen s
  | .DoCursorSave => cursorSave s
  | .DoCursorRestore => cursorRestore s
  | .DoScrollRegion => scrollScreenRows s (args.getD 1 0) (args.getD 0 0)
  | .DoMode | .DoLog | .DoStartNumber | .DoBuildNumber | .do_sgr | .do_decsca | .do_modecrap | .none => s

structure Term where
  scr : Screen
  p : P

def init (r c : Nat) : Term := { scr := blank r c, p := ⟨AnsiGen.initial, []⟩ }

/-- the parameters an action with effect `e` pops, in pop order -/
def popped (e : Eff) (st : Stack) : List Int :=
  match e with
  | .pop k => ((st.drop (st.length - k)).reverse).map num
  | _ => []

/-- `FSM.process(c)`: look up the transition, run the action, move to the next state -/
def tstep (t : Term) (c : Nat) : Option Term :=
  let (a, s') := lookup c t.p.s
  match stepStack (eff a) c t.p.st with
  | none => none
  | some st' => some { scr := act a c (popped (eff a) t.p.st) t.scr, p := ⟨s', st'⟩ }

/-- `ANSI.write(text)` -/
def feed (t : Term) (cs : List Nat) : Option Term := cs.foldlM tstep t

def TInv (R C : Nat) (t : Term) : Prop := Scr.Inv R C t.scr ∧ PInv t.p

theorem writeCh_inv {R C : Nat} (s : Screen) (ch : Nat) (h : Scr.Inv R C s) : Scr.Inv R C (writeCh s ch) := by
  unfold writeCh
  split
  · exact cr_inv s h
  · split
    · exact lf_inv _ (cr_inv s h)
    · split
      · exact cursorBack_inv s 1 h
      · simp only
        have h1 := putAbs_inv s s.curR s.curC ch h
        have h2 := cursorForward_inv _ 1 h1
        have h3 := cursorDown_inv _ 1 h2
        split
        · split
          · exact cursorHome_inv _ _ _ h3
          · exact eraseLine_inv _ (cursorHome_inv _ _ _ (scrollUp_inv _ h3))
        · exact h2

theorem act_inv {R C : Nat} (a : A) (c : Nat) (args : List Int) (s : Screen) (h : Scr.Inv R C s) :
    Scr.Inv R C (act a c args s) := by
  cases a <;> simp only [act]
  case DoEmit => exact writeCh_inv s c h
  case DoBackOne => exact cursorBack_inv s _ h
  case DoBack => exact cursorBack_inv s _ h
  case DoDownOne => exact cursorDown_inv s _ h
  case DoDown => exact cursorDown_inv s _ h
  case DoForwardOne => exact cursorForward_inv s _ h
  case DoForward => exact cursorForward_inv s _ h
  case DoUpOne => exact cursorUp_inv s _ h
  case DoUp => exact cursorUp_inv s _ h
  case DoUpReverse => exact cursorUpReverse_inv s h
  case DoHome => exact cursorHome_inv s _ _ h
  case DoHomeOrigin => exact cursorHome_inv s _ _ h
  case DoEraseDown => exact eraseDown_inv s h
  case DoErase =>
    split
    · exact eraseDown_inv s h
    · split
      · exact eraseUp_inv s h
      · split
        · exact fillRegion_inv s _ _ _ _ _ h
        · exact h
  case DoEraseEndOfLine => exact eraseEndOfLine_inv s h
  case DoEraseLine =>
    split
    · exact eraseEndOfLine_inv s h
    · split
      · exact eraseStartOfLine_inv s h
      · split
        · exact eraseLine_inv s h
        · exact h
  case DoEnableScroll => exact scrollScreen_inv s h
  case DoCursorSave => exact cursorSave_inv s h
  case DoCursorRestore => exact cursorRestore_inv s h
  case DoScrollRegion => exact scrollScreenRows_inv s _ _ h
  all_goals exact h

/-- **C18 core**: from any reachable terminal state any character is processed without a Python exception;
    afterwards the grid is still rows × cols, the cursor is on the screen and the parser invariant holds -/
theorem tstep_total {R C : Nat} (t : Term) (c : Nat) (h : TInv R C t) : ∃ t', tstep t c = some t' ∧ TInv R C t' := by
  obtain ⟨hs, hp⟩ := h
  obtain ⟨hf, hdg⟩ := lookup_ok c t.p.s
  obtain ⟨st', h1, h2, h3⟩ := fits_sound (depth t.p.s) (depth (lookup c t.p.s).2) (eff (lookup c t.p.s).1) c t.p.st hf hdg hp.1 hp.2
  refine ⟨{ scr := act (lookup c t.p.s).1 c (popped (eff (lookup c t.p.s).1) t.p.st) t.scr, p := ⟨(lookup c t.p.s).2, st'⟩ }, ?_, ?_, ?_⟩
  · simp [tstep, h1]
  · exact act_inv _ _ _ _ hs
  · exact ⟨h2, h3⟩

theorem feed_total {R C : Nat} (cs : List Nat) (t : Term) (h : TInv R C t) : ∃ t', feed t cs = some t' ∧ TInv R C t' := by
  induction cs generalizing t with
  | nil => exact ⟨t, rfl, h⟩
  | cons c r ih =>
    obtain ⟨t1, h1, hi1⟩ := tstep_total t c h
    obtain ⟨t2, h2, hi2⟩ := ih t1 hi1
    exact ⟨t2, by simp [feed, List.foldlM_cons, h1] at h2 ⊢; exact h2, hi2⟩

theorem init_inv (R C : Nat) (hR : 1 ≤ R) (hC : 1 ≤ C) (hinit : AnsiGen.initial = .INIT) : TInv R C (init R C) := by
  refine ⟨blank_inv R C hR hC, ?_, ?_⟩
  · simp [init, hinit, depth, sat]
  · intro x hx; simp [init] at hx

/-- feeding in pieces = feeding at once (any cut, also inside an escape sequence) -/
theorem feed_append (t : Term) (a b : List Nat) : feed t (a ++ b) = (feed t a).bind (fun t' => feed t' b) := by
  simp [feed, List.foldlM_append]

theorem feed_chunks (t : Term) (chunks : List (List Nat)) :
    chunks.foldlM feed t = feed t chunks.flatten := by
  induction chunks generalizing t with
  | nil => rfl
  | cons c cs ih =>
    simp only [List.foldlM_cons, List.flatten_cons, feed_append]
    cases feed t c with
    | none => rfl
    | some t' => exact ih t'

/-- bytes input: each chunk goes through the one persistent incremental decoder, then through `feed` -/
def feedBytes {σ : Type} (dec : Cd.IncDecoder σ Nat) : σ × Term → List (List Nat) → Option (σ × Term)
  | st, [] => some st
  | (d, t), c :: cs =>
      let r := dec.feed d c
      match feed t r.2 with
      | none => none
      | some t' => feedBytes dec (r.1, t') cs

/-- **chunk independence for bytes** (cuts inside a multi-byte character included): any chunking of a byte
    stream produces the terminal that decoding the whole stream and feeding the text at once produces -/
theorem feedBytes_eq_whole {σ : Type} (dec : Cd.IncDecoder σ Nat) (d : σ) (t : Term) (chunks : List (List Nat)) :
    feedBytes dec (d, t) chunks =
      (feed t (dec.feed d chunks.flatten).2).map (fun t' => ((dec.feed d chunks.flatten).1, t')) := by
  induction chunks generalizing d t with
  | nil => simp [feedBytes, dec.nil, feed]
  | cons c cs ih =>
    simp only [feedBytes, List.flatten_cons]
    rw [dec.law, feed_append]
    cases hf : feed t (dec.feed d c).2 with
    | none => simp
    | some t' =>
      simp only [Option.bind_some]
      rw [ih]

/-- a completed sequence leaves no residue: back in INIT the parameter stack is empty -/
theorem init_state_has_no_residue {R C : Nat} (t : Term) (h : TInv R C t) (hs : t.p.s = .INIT) : t.p.st = [] :=
  init_no_residue t.p h.2 hs

end Ansi
