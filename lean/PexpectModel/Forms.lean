/-! `compile_pattern_list` / `expect_exact` pattern preparation (repaired `_coerce_expect_re`) as decision logic
    over pattern *forms* (C20). -/
namespace Fm

inductive Mode | bytes | unicode deriving DecidableEq, Repr
structure Flags where
  icase : Bool := false
  dotall : Bool := false
  multiline : Bool := false
  verbose : Bool := false
  ascii : Bool := false
deriving DecidableEq, Repr

/-- a pattern as the caller may hand it over; `txt` is the pattern's text as code points (ASCII for `str`
    given to a bytes-mode object, otherwise `.encode('ascii')` raises and the form is not "accepted") -/
inductive Form
  | str (txt : List Nat) | bytes (txt : List Nat)
  | compiledStr (txt : List Nat) (f : Flags) | compiledBytes (txt : List Nat) (f : Flags)
  | eof | timeout | other
deriving DecidableEq, Repr

/-- what the searcher receives: a compiled pattern in the object's own string type -/
inductive CPat | re (txt : List Nat) (f : Flags) | eof | timeout deriving DecidableEq, Repr

inductive Err | typeError deriving DecidableEq, Repr

def compileOne (m : Mode) (ignorecase : Bool) : Form → Except Err CPat
  | .str t => .ok (.re t { dotall := true, icase := ignorecase })           -- bytes mode: ascii-encoded first
  | .bytes t => match m with
      | .bytes => .ok (.re t { dotall := true, icase := ignorecase })
      | .unicode => .error .typeError                                       -- allowed_string_types = (str,)
  | .compiledStr t f => .ok (.re t f)                                      -- other type: recompiled WITH its flags
  | .compiledBytes t f => .ok (.re t f)
  | .eof => .ok .eof
  | .timeout => .ok .timeout
  | .other => .error .typeError

def compileList (m : Mode) (ic : Bool) (ps : List Form) : Except Err (List CPat) := ps.mapM (compileOne m ic)

/-- `expect(p)` with a single non-list pattern -/
def compileArg (m : Mode) (ic : Bool) (arg : Form ⊕ List Form) : Except Err (List CPat) :=
  match arg with
  | .inl p => compileList m ic [p]
  | .inr ps => compileList m ic ps

theorem single_eq_singleton (m : Mode) (ic : Bool) (p : Form) :
    compileArg m ic (.inl p) = compileArg m ic (.inr [p]) := rfl

/-- ASCII text and bytes are the same pattern for a bytes-mode object -/
theorem str_eq_bytes_in_bytes_mode (ic : Bool) (t : List Nat) :
    compileOne .bytes ic (.str t) = compileOne .bytes ic (.bytes t) := rfl

/-- a compiled pattern of either string type is the same pattern, flags included -/
theorem compiled_other_type_eq (m : Mode) (ic : Bool) (t : List Nat) (f : Flags) :
    compileOne m ic (.compiledStr t f) = compileOne m ic (.compiledBytes t f) := rfl

theorem compiled_flags_kept (m : Mode) (ic : Bool) (t : List Nat) (f : Flags) :
    compileOne m ic (.compiledStr t f) = .ok (.re t f) := rfl

theorem string_gets_dotall (m : Mode) (ic : Bool) (t : List Nat) :
    compileOne m ic (.str t) = .ok (.re t { dotall := true, icase := ic }) := rfl

/-- any other object anywhere in the list ⇒ TypeError, and (compilation being a pure function that runs
    before the Expecter is built) nothing has been consumed -/
theorem other_rejected (m : Mode) (ic : Bool) (pre post : List Form)
    (hpre : ∀ p ∈ pre, ∃ c, compileOne m ic p = .ok c) :
    compileList m ic (pre ++ .other :: post) = .error .typeError := by
  unfold compileList
  induction pre with
  | nil => simp [List.mapM_cons, compileOne]; rfl
  | cons p t ih =>
    obtain ⟨c, hc⟩ := hpre p (by simp)
    have := ih (fun q hq => hpre q (by simp [hq]))
    simp only [List.cons_append, List.mapM_cons, hc]
    rw [this]; rfl

/-- the defect, pre-repair: the recompiled pattern loses its flags -/
def compileOnePre (m : Mode) : Form → Except Err CPat
  | .compiledStr t f => match m with | .bytes => .ok (.re t {}) | .unicode => .ok (.re t f)
  | .compiledBytes t f => match m with | .unicode => .ok (.re t {}) | .bytes => .ok (.re t f)
  | _ => .error .typeError

example : compileOnePre .bytes (.compiledStr [97] { icase := true }) = .ok (.re [97] {}) ∧
    compileOnePre .bytes (.compiledBytes [97] { icase := true }) = .ok (.re [97] { icase := true }) := ⟨rfl, rfl⟩

/-- `expect_exact`'s `prepare_pattern`: strings (ASCII text coerced in bytes mode), EOF, TIMEOUT; anything else,
    compiled patterns included, is a TypeError -/
inductive XPat | str (txt : List Nat) | eof | timeout deriving DecidableEq, Repr

def prepareOne (m : Mode) : Form → Except Err XPat
  | .str t => .ok (.str t)
  | .bytes t => match m with | .bytes => .ok (.str t) | .unicode => .error .typeError
  | .eof => .ok .eof
  | .timeout => .ok .timeout
  | _ => .error .typeError

def prepareArg (m : Mode) (arg : Form ⊕ List Form) : Except Err (List XPat) :=
  match arg with
  | .inl p => [p].mapM (prepareOne m)
  | .inr ps => ps.mapM (prepareOne m)

/-- **forms_equivalent**: in each mode all accepted forms of one pattern (text `t`, flags `f`) compile to the same
    searcher input; a plain string is the compiled pattern whose flags are DOTALL (+ IGNORECASE iff set) -/
theorem forms_equivalent (ic : Bool) (t : List Nat) (f : Flags) :
    -- bytes-mode object: compiled bytes = compiled str; bytes = ASCII str = compiled with the string flags
    compileOne .bytes ic (.compiledBytes t f) = compileOne .bytes ic (.compiledStr t f) ∧
    compileOne .bytes ic (.bytes t) = compileOne .bytes ic (.str t) ∧
    compileOne .bytes ic (.str t) = compileOne .bytes ic (.compiledBytes t { dotall := true, icase := ic }) ∧
    -- unicode-mode object
    compileOne .unicode ic (.compiledStr t f) = compileOne .unicode ic (.compiledBytes t f) ∧
    compileOne .unicode ic (.str t) = compileOne .unicode ic (.compiledStr t { dotall := true, icase := ic }) :=
  ⟨rfl, rfl, rfl, rfl, rfl⟩

theorem ignorecase_added_iff_set (m : Mode) (ic : Bool) (t : List Nat) (f : Flags)
    (h : compileOne m ic (.str t) = .ok (.re t f)) : f.icase = ic ∧ f.dotall = true := by
  simp only [compileOne, Except.ok.injEq, CPat.re.injEq, true_and] at h
  subst h; exact ⟨rfl, rfl⟩

theorem exact_single_eq_singleton (m : Mode) (p : Form) : prepareArg m (.inl p) = prepareArg m (.inr [p]) := rfl

theorem exact_str_eq_bytes_in_bytes_mode (t : List Nat) : prepareOne .bytes (.str t) = prepareOne .bytes (.bytes t) := rfl

theorem exact_other_rejected (m : Mode) (pre post : List Form) (bad : Form)
    (hbad : bad = .other ∨ (∃ t f, bad = .compiledStr t f) ∨ (∃ t f, bad = .compiledBytes t f))
    (hpre : ∀ p ∈ pre, ∃ c, prepareOne m p = .ok c) :
    (pre ++ bad :: post).mapM (prepareOne m) = .error .typeError := by
  have hb : prepareOne m bad = .error .typeError := by
    rcases hbad with rfl | ⟨t, f, rfl⟩ | ⟨t, f, rfl⟩ <;> rfl
  induction pre with
  | nil => simp [List.mapM_cons, hb]; rfl
  | cons p t ih =>
    obtain ⟨c, hc⟩ := hpre p (by simp)
    have := ih (fun q hq => hpre q (by simp [hq]))
    simp only [List.cons_append, List.mapM_cons, hc]
    rw [this]; rfl

/-- an expect call is "compile, then run the Expecter": when compilation fails the object is untouched,
    so nothing of the child's output has been consumed -/
def expectTop {σ ρ : Type} (m : Mode) (ic : Bool) (arg : Form ⊕ List Form) (run : List CPat → σ → ρ × σ) (st : σ) :
    Except Err ρ × σ :=
  match compileArg m ic arg with
  | .error e => (.error e, st)
  | .ok ps => let r := run ps st; (.ok r.1, r.2)

theorem other_rejected_before_consumption {σ ρ : Type} (m : Mode) (ic : Bool) (pre post : List Form)
    (hpre : ∀ p ∈ pre, ∃ c, compileOne m ic p = .ok c) (run : List CPat → σ → ρ × σ) (st : σ) :
    expectTop m ic (.inr (pre ++ .other :: post)) run st = (.error .typeError, st) := by
  have h : compileArg m ic (.inr (pre ++ .other :: post)) = .error .typeError := other_rejected m ic pre post hpre
  unfold expectTop
  rw [h]

end Fm
