import PexpectModel.Deadline
/-! # Timing of one `read_nonblocking(size, timeout)` on each transport (the *transport contract* of `Deadline.lean`)

`Dl.expect_deadline` assumes that every read given timeout `t` returns within `t + eps` and raises TIMEOUT only after
`t` has passed (`Dl.evOk`).  Here that contract is derived, per transport, from the control flow of the transport's
`read_nonblocking` and two assumptions about the system calls underneath: a non-blocking call (poll with timeout 0,
read on a readable descriptor, `waitpid(WNOHANG)`, clock reads) costs at most `d` ticks, and a timed wait returns when
the descriptor becomes ready or exactly when its timeout expires, whichever is first.  Time is integer ticks. -/
namespace Rt

/-- a timed wait (`select` / `poll` / `recv` under `settimeout`): the environment says after how many ticks the
    descriptor becomes ready (`none` = never during this wait) -/
def timedWait (timeout : Option Nat) (readyAt : Option Nat) : Bool × Nat :=
  match timeout, readyAt with
  | none, some r => (true, r)
  | none, none => (false, 0)            -- never returns; callers below are only judged for `some` timeouts
  | some t, some r => if r ≤ t then (true, r) else (false, t)
  | some t, none => (false, t)

inductive Out | data | eof | timeout deriving DecidableEq, Repr

/-- costs of the non-blocking system calls on one path, each at most `d` -/
structure Costs where
  c1 : Nat
  c2 : Nat
  c3 : Nat
  c4 : Nat
  c5 : Nat
  c6 : Nat

def Costs.le (c : Costs) (d : Nat) : Prop := c.c1 ≤ d ∧ c.c2 ≤ d ∧ c.c3 ≤ d ∧ c.c4 ≤ d ∧ c.c5 ≤ d ∧ c.c6 ≤ d

/-! ### fdspawn (fdpexpect.py:122-152): wait for the descriptor, then one `os.read` -/
def fdRead (timeout : Option Nat) (readyAt : Option Nat) (eofAtRead : Bool) (c : Costs) : Out × Nat :=
  let w := timedWait timeout readyAt
  if w.1 then (if eofAtRead then .eof else .data, w.2 + c.c1) else (.timeout, w.2)

theorem fd_contract (t : Nat) (readyAt : Option Nat) (e : Bool) (c : Costs) (d : Nat) (hc : c.le d) :
    (fdRead (some t) readyAt e c).2 ≤ t + d ∧ ((fdRead (some t) readyAt e c).1 = .timeout → t ≤ (fdRead (some t) readyAt e c).2) := by
  obtain ⟨h1, -⟩ := hc
  unfold fdRead timedWait
  cases readyAt with
  | none => simp
  | some r =>
    by_cases hr : r ≤ t
    · simp only [hr, if_true]; cases e <;> simp <;> omega
    · simp [hr]

theorem fd_none_never_times_out (readyAt : Nat) (e : Bool) (c : Costs) : (fdRead none (some readyAt) e c).1 ≠ .timeout := by
  unfold fdRead timedWait; cases e <;> simp

/-! ### SocketSpawn (socket_pexpect.py:125-150): `recv` under the socket's own timeout -/
def sockRead (timeout : Option Nat) (readyAt : Option Nat) (peerClosed : Bool) (c : Costs) : Out × Nat :=
  let w := timedWait timeout readyAt
  -- settimeout before, settimeout back after (also on the exception paths)
  if w.1 then (if peerClosed then .eof else .data, c.c1 + w.2 + c.c2) else (.timeout, c.c1 + w.2 + c.c2)

theorem socket_contract (t : Nat) (readyAt : Option Nat) (e : Bool) (c : Costs) (d : Nat) (hc : c.le d) :
    (sockRead (some t) readyAt e c).2 ≤ t + 2 * d ∧ ((sockRead (some t) readyAt e c).1 = .timeout → t ≤ (sockRead (some t) readyAt e c).2) := by
  obtain ⟨h1, h2, -⟩ := hc
  unfold sockRead timedWait
  cases readyAt with
  | none => simp; omega
  | some r =>
    by_cases hr : r ≤ t
    · simp only [hr, if_true]; cases e <;> simp <;> omega
    · simp [hr]; omega

/-! ### PopenSpawn (popen_spawn.py:65-100): never waits — it drains what the reader thread has queued, at most
    `size` characters, looking at the queue at least once (also for timeout 0) and stopping when the timeout is used up -/
def popenRead : Nat → Nat → Nat → Nat → Nat → Nat × Nat          -- fuel, queued chunks, timeout, per-step cost, elapsed ↦ (chunks taken, elapsed)
  | 0, _, _, _, el => (0, el)
  | _, 0, _, _, el => (0, el)                                       -- queue empty: break
  | n+1, q+1, t, c, el =>
      let el' := el + c
      if el' ≥ t then (1, el') else
        let r := popenRead n q t c el'
        (r.1 + 1, r.2)

theorem popen_bounded (n q t c : Nat) (el : Nat) (hel : el ≤ t) : (popenRead n q t c el).2 ≤ t + c := by
  induction n generalizing q el with
  | zero => simp [popenRead]; omega
  | succ n ih =>
    cases q with
    | zero => simp [popenRead]; omega
    | succ q =>
      simp only [popenRead]
      by_cases h : el + c ≥ t
      · simp [h]; omega
      · simp only [h, if_false]
        exact ih q (el + c) (by omega)

theorem popen_looks_at_queue_once (n q c : Nat) : (popenRead (n + 1) (q + 1) 0 c 0).1 = 1 := by
  simp [popenRead]

/-! ### pty spawn (pty_spawn.py:427-512, flag_eof not yet set so `isalive` is a WNOHANG waitpid)

poll(0); if readable: read, then the drain loop (at most `size` rounds of poll(0)+read); otherwise isalive, then — unless
timeout is 0 — the timed wait, then read, or a second isalive and TIMEOUT / the dead-child re-poll. -/
def ptyRead (size : Nat) (timeout : Nat) (readable0 : Bool) (drainRounds : Nat) (alive1 : Bool) (readyAt : Option Nat)
    (alive2 : Bool) (repollReadable : Bool) (c : Costs) : Out × Nat :=
  if readable0 then (.data, c.c1 + c.c2 + 2 * c.c3 * min drainRounds size)
  else
    if !alive1 then (if repollReadable then .data else .eof, c.c1 + c.c2 + c.c3 + c.c4)
    else
      let w := if timeout = 0 then (false, 0) else timedWait (some timeout) readyAt
      if w.1 then (.data, c.c1 + c.c2 + w.2 + c.c3)
      else if !alive2 then (if repollReadable then .data else .eof, c.c1 + c.c2 + w.2 + c.c4 + c.c5 + c.c6)
      else (.timeout, c.c1 + c.c2 + w.2 + c.c4)

theorem pty_contract (size t : Nat) (r0 : Bool) (dr : Nat) (a1 : Bool) (readyAt : Option Nat) (a2 rp : Bool) (c : Costs) (d : Nat)
    (hc : c.le d) :
    (ptyRead size t r0 dr a1 readyAt a2 rp c).2 ≤ t + (2 * size + 5) * d ∧
    ((ptyRead size t r0 dr a1 readyAt a2 rp c).1 = .timeout → t ≤ (ptyRead size t r0 dr a1 readyAt a2 rp c).2) := by
  obtain ⟨h1, h2, h3, h4, h5, h6⟩ := hc
  have hm : min dr size ≤ size := Nat.min_le_right _ _
  have hdr : 2 * c.c3 * min dr size ≤ 2 * size * d := by
    calc 2 * c.c3 * min dr size ≤ 2 * d * size := by
          apply Nat.mul_le_mul (Nat.mul_le_mul_left 2 h3) hm
      _ = 2 * size * d := by rw [Nat.mul_assoc, Nat.mul_comm d size, ← Nat.mul_assoc]
  have hexp : (2 * size + 5) * d = 2 * size * d + 5 * d := by rw [Nat.add_mul]
  unfold ptyRead
  cases r0 with
  | true => simp only [if_true]; exact ⟨by omega, by intro h; cases h⟩
  | false =>
    simp only [Bool.false_eq_true, if_false]
    cases a1 with
    | false => simp only [Bool.not_false, if_true]; cases rp <;> simp <;> omega
    | true =>
      simp only [Bool.not_true, Bool.false_eq_true, if_false]
      by_cases ht : t = 0
      · subst ht
        simp only [if_true, Bool.false_eq_true, if_false]
        cases a2 with
        | false => simp only [Bool.not_false, if_true]; cases rp <;> simp <;> omega
        | true => simp; omega
      · simp only [ht, if_false]
        unfold timedWait
        cases readyAt with
        | none =>
          simp only [Bool.false_eq_true, if_false]
          cases a2 with
          | false => simp only [Bool.not_false, if_true]; cases rp <;> simp <;> omega
          | true => simp; omega
        | some r =>
          by_cases hr : r ≤ t
          · simp only [hr, if_true]; exact ⟨by omega, by intro h; cases h⟩
          · simp only [hr, if_false, Bool.false_eq_true]
            cases a2 with
            | false => simp only [Bool.not_false, if_true]; cases rp <;> simp <;> omega
            | true => simp; omega

/-! ### `select_ignore_interrupts` / `poll_ignore_interrupts` (utils.py:130-187): the timed wait restarted after EINTR

`end_time = now + timeout` is fixed on entry (clock at 0 here, so `end_time = T`); a wait that is interrupted by a signal fails with
EINTR once the handler (cost `h`) has run; the wrapper then waits again for `end_time - now`, or gives up with "nothing ready" if that is
negative.  `sigs` lists, for each (re)started wait, how long after its start the next signal arrives. -/
def selII (T : Nat) (ready : Option Nat) (h : Nat) : Nat → List Nat → Bool × Nat
  | now, [] =>                                   -- no further signal: one plain timed wait for the remaining time
      match ready with
      | some r => if r ≤ T then (true, max r now) else (false, T)
      | none => (false, T)
  | now, d :: ds =>
      let wake := now + d
      let readyFirst := match ready with | some r => decide (r ≤ wake ∧ r ≤ T) | none => false
      if readyFirst then (true, match ready with | some r => max r now | none => now)
      else if T ≤ wake then (false, T)           -- the timeout expires before the signal
      else
        let now' := wake + h                     -- EINTR after the handler has run
        if T < now' then (false, now')           -- `timeout < 0`: return "nothing ready"
        else selII T ready h now' ds

/-- the wrapper keeps the timed-wait contract under any number of signals: it returns no later than the deadline plus one handler run,
    says "not ready" only at or after the deadline, and says "ready" only when the descriptor is -/
theorem selII_contract (T : Nat) (ready : Option Nat) (h : Nat) (sigs : List Nat) (now : Nat) (hn : now ≤ T) :
    (selII T ready h now sigs).2 ≤ T + h ∧
    ((selII T ready h now sigs).1 = false → T ≤ (selII T ready h now sigs).2) ∧
    ((selII T ready h now sigs).1 = true → ∃ r, ready = some r ∧ r ≤ (selII T ready h now sigs).2) ∧
    now ≤ (selII T ready h now sigs).2 := by
  induction sigs generalizing now with
  | nil =>
    unfold selII
    cases ready with
    | none => simp; omega
    | some r =>
      by_cases hr : r ≤ T
      · simp only [hr, if_true]; refine ⟨by omega, by simp, ?_, by omega⟩
        intro _; exact ⟨r, rfl, by omega⟩
      · simp only [hr, if_false]; refine ⟨by omega, by simp, by simp, by omega⟩
  | cons d ds ih =>
    unfold selII
    simp only
    cases ready with
    | none =>
      simp only [Bool.false_eq_true, if_false]
      by_cases h1 : T ≤ now + d
      · simp only [h1, if_true]; refine ⟨by omega, by simp, by simp, by omega⟩
      · simp only [h1, if_false]
        by_cases h2 : T < now + d + h
        · simp only [h2, if_true]; refine ⟨by omega, by intro _; omega, by simp, by omega⟩
        · simp only [h2, if_false]
          obtain ⟨a, b, c, e⟩ := ih (now + d + h) (by omega)
          exact ⟨a, b, c, by omega⟩
    | some r =>
      by_cases h0 : r ≤ now + d ∧ r ≤ T
      · simp only [h0, and_self, decide_true, if_true]
        refine ⟨by omega, by simp, ?_, by omega⟩
        intro _; exact ⟨r, rfl, by omega⟩
      · simp only [h0, decide_false, Bool.false_eq_true, if_false]
        by_cases h1 : T ≤ now + d
        · simp only [h1, if_true]; refine ⟨by omega, by simp, by simp, by omega⟩
        · simp only [h1, if_false]
          by_cases h2 : T < now + d + h
          · simp only [h2, if_true]; refine ⟨by omega, by intro _; omega, by simp, by omega⟩
          · simp only [h2, if_false]
            obtain ⟨a, b, c, e⟩ := ih (now + d + h) (by omega)
            exact ⟨a, b, c, by omega⟩

/-- without signals the wrapper is the plain timed wait -/
theorem selII_no_signals (T : Nat) (ready : Option Nat) (h : Nat) :
    selII T ready h 0 [] = timedWait (some T) ready := by
  unfold selII timedWait
  cases ready with
  | none => rfl
  | some r => by_cases hr : r ≤ T <;> simp [hr]

/-- a signal storm cannot keep the call alive: every restart uses what is left of the original timeout -/
theorem selII_bounded_by_deadline (T : Nat) (ready : Option Nat) (h : Nat) (sigs : List Nat) :
    (selII T ready h 0 sigs).2 ≤ T + h := (selII_contract T ready h sigs 0 (Nat.zero_le _)).1

/-- fdspawn / pty reads built on the wrapper keep their contract with `d` enlarged by one handler run -/
def fdReadI (T : Nat) (readyAt : Option Nat) (h : Nat) (sigs : List Nat) (eofAtRead : Bool) (c : Costs) : Out × Nat :=
  let w := selII T readyAt h 0 sigs
  if w.1 then (if eofAtRead then .eof else .data, w.2 + c.c1) else (.timeout, w.2)

theorem fd_contract_under_signals (t : Nat) (readyAt : Option Nat) (h : Nat) (sigs : List Nat) (e : Bool) (c : Costs) (d : Nat) (hc : c.le d) :
    (fdReadI t readyAt h sigs e c).2 ≤ t + h + d ∧ ((fdReadI t readyAt h sigs e c).1 = .timeout → t ≤ (fdReadI t readyAt h sigs e c).2) := by
  obtain ⟨h1, -⟩ := hc
  obtain ⟨a, b, -, -⟩ := selII_contract t readyAt h sigs 0 (Nat.zero_le _)
  unfold fdReadI
  simp only
  cases hw : (selII t readyAt h 0 sigs).1 with
  | true => simp only [if_true]; cases e <;> simp <;> omega
  | false =>
    rw [hw] at b
    have b' := b rfl
    simp only [Bool.false_eq_true, if_false]
    exact ⟨by omega, fun _ => b'⟩

/-- the contracts above are instances of `Dl.evOk` with `eps` = the path's non-blocking overhead -/
theorem fd_evOk (t : Nat) (readyAt : Option Nat) (e : Bool) (c : Costs) (d : Nat) (hc : c.le d) :
    Dl.evOk d (some (t : Int)) ⟨(fdRead (some t) readyAt e c).2,
      match (fdRead (some t) readyAt e c).1 with | .data => .miss | .eof => .eof | .timeout => .timeoutExc⟩ := by
  obtain ⟨h1, h2⟩ := fd_contract t readyAt e c d hc
  simp only [Dl.evOk]
  refine ⟨by omega, ?_⟩
  intro hk
  cases hout : (fdRead (some t) readyAt e c).1 with
  | data => rw [hout] at hk; cases hk
  | eof => rw [hout] at hk; cases hk
  | timeout => have := h2 hout; omega

end Rt
