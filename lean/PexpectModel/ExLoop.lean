import PexpectModel.ExInv
/-! scratch: expect loop, naive procedure, equality for searchers that ignore `freshlen` -/
namespace Ex
open Py
variable {α : Type} [DecidableEq α]

inductive Ev (α : Type) where
  | data (d : List α) | eofExc | timeoutExc | expired

inductive Out (α : Type) where
  | hit (idx : Nat) (before after : List α)
  | eof (before : List α)
  | timeout (before : List α)
deriving DecidableEq

/-- the blocking loop after `existing_data` missed -/
def loop (sr : Searcher α) (W : Nat) : St α → List (Ev α) → Out α × St α × List (Ev α)
  | st, [] => (.timeout st.B, st, [])
  | st, .data d :: r =>
      match newData sr W st d with
      | (st', .hit i b a) => (.hit i b a, st', r)
      | (st', .miss) => loop sr W st' r
  | st, .eofExc :: r => (.eof st.B, { B := [], S := [] }, r)
  | st, .timeoutExc :: r => (.timeout st.B, st, r)
  | st, .expired :: r => (.timeout st.B, st, r)

def call (sr : Searcher α) (W : Nat) (st : St α) (evs : List (Ev α)) : Out α × St α × List (Ev α) :=
  match existingData sr W st with
  | (st', .hit i b a) => (.hit i b a, st', evs)
  | (st', .miss) => loop sr W st' evs

/-- one naive search of all pending text (or its last W characters) -/
def nsearch (sr : Searcher α) (W : Nat) (B : List α) : Option (Nat × List α × List α × List α) :=
  let w := win W B
  match sr.search w w.length W with
  | some sp => some (sp.idx, B.take (B.length - (w.length - sp.start)), (w.take sp.stop).drop sp.start, w.drop sp.stop)
  | none => none

def nloop (sr : Searcher α) (W : Nat) : List α → List (Ev α) → Out α × List α × List (Ev α)
  | B, [] => (.timeout B, B, [])
  | B, .data d :: r =>
      match nsearch sr W (B ++ d) with
      | some (i, b, a, rest) => (.hit i b a, rest, r)
      | none => nloop sr W (B ++ d) r
  | B, .eofExc :: r => (.eof B, [], r)
  | B, .timeoutExc :: r => (.timeout B, B, r)
  | B, .expired :: r => (.timeout B, B, r)

def ncall (sr : Searcher α) (W : Nat) (B : List α) (evs : List (Ev α)) : Out α × List α × List (Ev α) :=
  match nsearch sr W B with
  | some (i, b, a, rest) => (.hit i b a, rest, evs)
  | none => nloop sr W B evs

/-- the searcher does not look at `freshlen` (regex searcher; exact searcher under a window) -/
def FreshIndep (sr : Searcher α) (W : Nat) : Prop := ∀ w f f', sr.search w f W = sr.search w f' W

/-- state invariant inside a call for such searchers -/
def Good (sr : Searcher α) (W : Nat) (st : St α) : Prop :=
  Inv st ∧ (W ≠ 0 → min W st.B.length ≤ st.S.length) ∧ (W = 0 → st.S = st.B)

theorem doSearch_eq_nsearch (sr : Searcher α) (W : Nat) (hF : FreshIndep sr W) (st1 : St α) (f : Nat) :
    (∀ i b a rest, nsearch sr W st1.B = some (i, b, a, rest) →
        doSearch sr W st1 (win W st1.B) f = ({ B := rest, S := rest }, .hit i b a)) ∧
    (nsearch sr W st1.B = none → ∃ st2, doSearch sr W st1 (win W st1.B) f = (st2, .miss)) := by
  have hF' := hF (win W st1.B) (min f (win W st1.B).length) (win W st1.B).length
  cases hs : sr.search (win W st1.B) (win W st1.B).length W with
  | none =>
    refine ⟨?_, ?_⟩
    · intro i b a rest h; simp [nsearch, hs] at h
    · intro _
      unfold doSearch
      rw [hF', hs]
      simp only []
      generalize (if W ≠ 0 then W else sr.lookback) = m
      by_cases hc : m ≠ 0 ∧ st1.S.length > m
      · rw [if_pos hc]; exact ⟨_, rfl⟩
      · rw [if_neg hc]; exact ⟨_, rfl⟩
  | some sp =>
    refine ⟨?_, ?_⟩
    · intro i b a rest h
      simp only [nsearch, hs, Option.some.injEq, Prod.mk.injEq] at h
      obtain ⟨rfl, rfl, rfl, rfl⟩ := h
      unfold doSearch
      rw [hF', hs]
    · intro h; simp [nsearch, hs] at h


/-- new_data always hands the searcher the naive window of the extended pending text -/
theorem newData_spec (sr : Searcher α) (W : Nat) (hL : W = 0 → sr.lookback = 0) (st : St α) (d : List α)
    (hG : Good sr W st) :
    ∃ st1 : St α, st1.B = st.B ++ d ∧ Good sr W st1 ∧
      newData sr W st d = doSearch sr W st1 (win W (st.B ++ d)) d.length := by
  obtain ⟨hI, hW1, hW0⟩ := hG
  by_cases hW : W = 0
  · have hSB := hW0 hW
    have hl := hL hW
    refine ⟨{ B := st.B ++ d, S := st.B ++ d }, rfl, ⟨List.suffix_refl _, fun h => absurd hW h, fun _ => rfl⟩, ?_⟩
    unfold newData
    simp [hW, hl, hSB, win]
  · obtain ⟨st1, h1, h2, h3, h4⟩ := newData_spec_W sr W hW st d hI (hW1 hW)
    refine ⟨st1, h1, ⟨h2, fun _ => by rw [h1]; exact h3, fun h => absurd h hW⟩, ?_⟩
    rw [h4]; simp [win, hW]

theorem miss_good (sr : Searcher α) (W : Nat) (hL : W = 0 → sr.lookback = 0) (st1 st2 : St α) (f : Nat)
    (hG : Good sr W st1) (h : doSearch sr W st1 (win W st1.B) f = (st2, .miss)) :
    st2.B = st1.B ∧ Good sr W st2 := by
  obtain ⟨hI, hW1, hW0⟩ := hG
  have hw : win W st1.B <:+ st1.B := by
    unfold win; split
    · exact List.suffix_refl _
    · exact lastN_suffix _ _
  obtain ⟨hB, hI2, hm, hz⟩ := doSearch_miss_inv sr W st1 st2 _ f hI hw h
  refine ⟨hB, hI2, ?_, ?_⟩
  · intro hW
    have := hm (by simp [hW])
    simp only [hW, ne_eq, not_false_eq_true, if_true] at this
    have h1 := hW1 hW
    have h2 : (win W st1.B).length = min W st1.B.length := by simp [win, hW]
    rw [hB]; omega
  · intro hW
    have := hz (by simp [hW, hL hW])
    rw [this, hB]; exact hW0 hW

/-- C03 for every searcher that does not use `freshlen`: the real loop is the naive loop -/
theorem loop_eq_nloop (sr : Searcher α) (W : Nat) (hF : FreshIndep sr W) (hL : W = 0 → sr.lookback = 0)
    (evs : List (Ev α)) (st : St α) (hG : Good sr W st) :
    (loop sr W st evs).1 = (nloop sr W st.B evs).1 ∧
    (loop sr W st evs).2.1.B = (nloop sr W st.B evs).2.1 ∧
    (loop sr W st evs).2.2 = (nloop sr W st.B evs).2.2 := by
  induction evs generalizing st with
  | nil => simp [loop, nloop]
  | cons e r ih =>
    cases e with
    | eofExc => simp [loop, nloop]
    | timeoutExc => simp [loop, nloop]
    | expired => simp [loop, nloop]
    | data d =>
      obtain ⟨st1, hB1, hG1, hnd⟩ := newData_spec sr W hL st d hG
      obtain ⟨hhit, hmiss⟩ := doSearch_eq_nsearch sr W hF st1 d.length
      rw [hB1] at hhit hmiss
      simp only [loop, nloop, hnd]
      cases hn : nsearch sr W (st.B ++ d) with
      | some t =>
        obtain ⟨i, b, a, rest⟩ := t
        rw [hhit i b a rest hn]
        simp
      | none =>
        obtain ⟨st2, h2⟩ := hmiss hn
        rw [h2]
        simp only []
        have h2' : doSearch sr W st1 (win W st1.B) d.length = (st2, .miss) := by rw [hB1]; exact h2
        obtain ⟨hB2, hG2⟩ := miss_good sr W hL st1 st2 _ hG1 h2'
        have := ih st2 hG2
        rw [hB2, hB1] at this
        exact this

theorem call_eq_ncall (sr : Searcher α) (W : Nat) (hF : FreshIndep sr W) (hL : W = 0 → sr.lookback = 0)
    (evs : List (Ev α)) (st : St α) (hI : Inv st) :
    (call sr W st evs).1 = (ncall sr W st.B evs).1 ∧
    (call sr W st evs).2.1.B = (ncall sr W st.B evs).2.1 ∧
    (call sr W st evs).2.2 = (ncall sr W st.B evs).2.2 := by
  obtain ⟨st1, hB1, hI1, hW1, hW0, hed⟩ := existingData_spec sr W st hI
  have hG1 : Good sr W st1 := ⟨hI1, fun h => by rw [hB1]; exact hW1 h, fun h => by rw [hB1]; exact hW0 h⟩
  obtain ⟨hhit, hmiss⟩ := doSearch_eq_nsearch sr W hF st1 st.B.length
  rw [hB1] at hhit hmiss
  unfold call ncall
  rw [hed]
  cases hn : nsearch sr W st.B with
  | some t =>
    obtain ⟨i, b, a, rest⟩ := t
    rw [hhit i b a rest hn]
    simp
  | none =>
    obtain ⟨st2, h2⟩ := hmiss hn
    rw [h2]
    simp only []
    have h2' : doSearch sr W st1 (win W st1.B) st.B.length = (st2, .miss) := by rw [hB1]; exact h2
    obtain ⟨hB2, hG2⟩ := miss_good sr W hL st1 st2 _ hG1 h2'
    have := loop_eq_nloop sr W hF hL evs st2 hG2
    rw [hB2, hB1] at this
    exact this

end Ex
