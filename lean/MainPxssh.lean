import PexpectModel.Drv.Pxssh
/-! driver of the pxssh models (depends on Generated/PxsshTable) -/

def dispatch (line : String) : String :=
  match (line.trimAscii.toString.splitOn " ").filter (· != "") with
  | "PX" :: toks => Drv.PxD.handle toks
  | "PP" :: toks => Drv.PxD.handlePrompt toks
  | "LV" :: toks => Drv.PxD.handleLev toks
  | _ => "bad-op"

partial def loop (h : IO.FS.Stream) (out : IO.FS.Stream) : IO Unit := do
  let line ← h.getLine
  if line.isEmpty then return ()
  out.putStrLn (dispatch line)
  loop h out

def main : IO Unit := do
  let out ← IO.getStdout
  loop (← IO.getStdin) out
  out.flush
