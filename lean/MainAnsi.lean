import PexpectModel.Drv.Ansi
/-! driver of the ANSI model (depends on Generated/AnsiTable) -/

def dispatch (line : String) : String :=
  match (line.trimAscii.toString.splitOn " ").filter (· != "") with
  | "AN" :: toks => Drv.AnsiD.handle toks
  | _ => "bad-op"

partial def loop (h : IO.FS.Stream) (out : IO.FS.Stream) : IO Unit := do
  let line ← h.getLine
  if line.isEmpty then return ()
  out.putStrLn (dispatch line)
  loop h out

def main : IO Unit := do
  let out ← IO.getStdout
  loop (← IO.getStdin) out
  out.flush
