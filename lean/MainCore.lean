import PexpectModel.Drv.Ex
import PexpectModel.Drv.Screen
import PexpectModel.Drv.Forms
import PexpectModel.Drv.Transport
import PexpectModel.Drv.Deadline
import PexpectModel.Drv.Session
import PexpectModel.Drv.Life
import PexpectModel.Drv.Run
import PexpectModel.Drv.Async
import PexpectModel.Drv.Repl
import PexpectModel.Drv.Interact
/-! line-protocol driver for every model that does not depend on a table regenerated from the source (a change to ANSI.py / utils.split_command_line / pxssh.py that breaks its generated model must not take the drivers of the other properties down with it) -/

def dispatch (line : String) : String :=
  match (line.trimAscii.toString.splitOn " ").filter (· != "") with
  | "EX" :: toks => Drv.ExD.handle toks
  | "SC" :: toks => Drv.ScreenD.handle toks
  | "FM" :: toks => Drv.FormsD.handle toks
  | "DL" :: toks => Drv.DeadlineD.handle toks
  | "WN" :: toks => Drv.DeadlineD.handleWait toks
  | "SI" :: toks => Drv.DeadlineD.handleSelII toks
  | "SS" :: toks => Drv.SessionD.handle toks
  | "SG" :: toks => Drv.SessionD.handleF toks
  | "IA" :: toks => Drv.IaD.handle toks
  | "RP" :: toks => Drv.ReplD.handle toks
  | "RC" :: toks => Drv.ReplD.handleClean toks
  | "AY" :: toks => Drv.AsyncD.handle toks
  | "RN" :: toks => Drv.RunD.handle toks
  | "LF" :: toks => Drv.LifeD.handle toks
  | "PT" :: toks => Drv.TransportD.handlePty toks
  | "PF" :: toks => Drv.TransportD.handleFd toks
  | _ => "bad-op"

partial def loop (h : IO.FS.Stream) (out : IO.FS.Stream) : IO Unit := do
  let line ← h.getLine
  if line.isEmpty then return ()
  out.putStrLn (dispatch line)
  loop h out

def main : IO Unit := do
  let out ← IO.getStdout
  loop (← IO.getStdin) out
  out.flush
