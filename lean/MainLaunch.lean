import PexpectModel.Drv.Launch
/-! driver of the launch models (depends on Generated/SplitTable) -/

def dispatch (line : String) : String :=
  match (line.trimAscii.toString.splitOn " ").filter (· != "") with
  | "SP" :: toks => Drv.LaunchD.handleSplit toks
  | "WH" :: toks => Drv.LaunchD.handleWhich toks
  | _ => "bad-op"

partial def loop (h : IO.FS.Stream) (out : IO.FS.Stream) : IO Unit := do
  let line ← h.getLine
  if line.isEmpty then return ()
  out.putStrLn (dispatch line)
  loop h out

def main : IO Unit := do
  let out ← IO.getStdout
  loop (← IO.getStdin) out
  out.flush
