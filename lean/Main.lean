import PexpectModel.Drv.All
/-! line-protocol driver: `lake env lean --run Main.lean < ops.txt`; first token selects the model -/

def dispatch (line : String) : String :=
  match (line.trimAscii.toString.splitOn " ").filter (· != "") with
  | "EX" :: toks => Drv.ExD.handle toks
  | "SP" :: toks => Drv.LaunchD.handleSplit toks
  | "WH" :: toks => Drv.LaunchD.handleWhich toks
  | "SC" :: toks => Drv.ScreenD.handle toks
  | "AN" :: toks => Drv.AnsiD.handle toks
  | "FM" :: toks => Drv.FormsD.handle toks
  | "DL" :: toks => Drv.DeadlineD.handle toks
  | "WN" :: toks => Drv.DeadlineD.handleWait toks
  | "SI" :: toks => Drv.DeadlineD.handleSelII toks
  | "SS" :: toks => Drv.SessionD.handle toks
  | "IA" :: toks => Drv.IaD.handle toks
  | "RP" :: toks => Drv.ReplD.handle toks
  | "RC" :: toks => Drv.ReplD.handleClean toks
  | "AY" :: toks => Drv.AsyncD.handle toks
  | "PX" :: toks => Drv.PxD.handle toks
  | "PP" :: toks => Drv.PxD.handlePrompt toks
  | "LV" :: toks => Drv.PxD.handleLev toks
  | "RN" :: toks => Drv.RunD.handle toks
  | "LF" :: toks => Drv.LifeD.handle toks
  | "PT" :: toks => Drv.TransportD.handlePty toks
  | "PF" :: toks => Drv.TransportD.handleFd toks
  | _ => "bad-op"

partial def loop (h : IO.FS.Stream) (out : IO.FS.Stream) : IO Unit := do
  let line ← h.getLine
  if line.isEmpty then return ()
  out.putStrLn (dispatch line)
  loop h out

def main : IO Unit := do
  let out ← IO.getStdout
  loop (← IO.getStdin) out
  out.flush
