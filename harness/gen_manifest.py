"""Writes MANIFEST.json from the table below (run after adding / removing a check)."""
import json, os
ROOT = os.path.dirname(os.path.dirname(os.path.abspath(__file__)))
NOTE = ("Trusted base: Lean 4.33.0 kernel; axioms of every property theorem are restricted to propext, Classical.choice, "
        "Quot.sound (audited with #print axioms on every run; no sorry/admit/native_decide/bv_decide/own axioms); the "
        "translators and the correspondence harness under harness/; CPython re/codecs/io, ptyprocess and the Linux "
        "pty/pipe/socket/signal semantics are modelled, not verified. ")
CHECKS = {
 'C01': ('Theorems C01.* (history_conserves: induction over histories and event streams, unbounded) about the Lean model of '
         'Expecter/searchers; model tied to pexpect/expect.py + spawnbase.py by running both on the same histories through a scripted '
         'transport (exhaustive small scope + seeded random) and by the conservation oracle on the real object.',
         'Model = expect.py Expecter.{do_search,existing_data,new_data,eof,timeout,expect_loop}, both searchers, buffer setter; regex '
         'matching abstract (any well-formed search function). read(n) return value is not judged (see DESIGN 4/C01).', '4/C01'),
 'C02': ('Theorems C02.* (pick_spec, searchString_spec, searchRe_spec, hit_fields, idx_refers_*): the reported span is an occurrence of '
         'the pattern listed at idx, leftmost in the searched text, first listed on ties; proved for all pattern lists and texts. Tie as C01 '
         'plus match/match_index/span checks on the real object.',
         'Regex semantics enter as an abstract leftmost-search interface (CPython re is trusted to satisfy it; validated differentially).', '4/C02'),
 'C03': ('Theorems C03.* (history_eq_naive: for every history, chunking, window and searcher kind the real procedure equals naive full '
         're-search; incremental_find_eq_full = the straddling lemma; later_calls_depend_only_on_pending_text), unbounded. Tie: same harness, real vs Lean model vs independent '
         'Python naive oracle; polling loops (a call repeated verbatim after other calls) and a second live object preparing the same patterns in between.', 'searchwindowsize = 0 is outside the documented domain and excluded.', '4/C03'),
 'C04': ('Theorems C04.* (eof_outcome, timeout_outcome, marker index specs, pending_match_beats_eof_timeout, eof_clears, before_holds_all). '
         'Tie: scripted transport over marker positions and entry points; outcome classes compared with the model and the naive oracle.',
         'Sticky EOF of the real transports is validated in C06; diagnostic-message states are exercised on real spawn classes.', '4/C04'),
 'C13': ('Theorems C13.* over the transition table that T-split regenerates from utils.split_command_line on every run (split_roundtrip: any '
         'non-empty args, 3 quoting styles, any whitespace incl. leading/trailing; argv_tail_roundtrip; which_* over an abstract file system). Tie: '
         'translator + table interpreter vs real function (exhaustive short strings + random), which() on generated PATH layouts vs the model (each layout asked again while its directories change), '
         'probe-child launches for argv/cwd/env/winsize/echo/SIGHUP.',
         'ptyprocess.PtyProcess.spawn, subprocess.Popen and shlex.split are trusted to pass settings through (validated by the probe child).', '4/C13'),
 'C18': ('Theorems C18.* over the FSM table and the per-action stack effects that T-ansi regenerates from the live ANSI object and the action '
         'functions\' ASTs: table_ok (decide), feed_never_raises, grid_and_cursor, no_residue, feed_chunk_independent, feed_bytes_chunk_independent. '
         'Tie: translator + model vs real ANSI.write on exhaustive command sequences (2x3) and random inputs, str/bytes, all cut points.',
         'Action semantics on the screen are hand-modelled (tied by the differential run); parameters longer than 4300 digits are a known finding; '
         'bytes chunk independence assumes the codec chunk law (validated in C07).', '4/C18'),
 'C19': ('Theorems C19.*: shape_preserved for every op and argument, cell-level characterisation of put/fill/insert/scroll/erase, '
         'ops_refine_reference (any op sequence = cell-by-cell reference grid), accessor lemmas; proved for all screen sizes and sequences. '
         'Tie: Lean model vs pexpect.screen vs an independent Python reference grid on exhaustive short sequences and random sequences, one case in four with a second live screen kept busy.',
         'Characters are single code points; rows, cols >= 1; public attributes are not assigned by the caller.', '4/C19'),
 'C20': ('Theorems C20.* about the decision logic of compile_pattern_list / expect_exact preparation over pattern forms (forms_equivalent, '
         'single_eq_singleton, dotall/ignorecase, compiled_flags_kept, other_rejected_before_consumption). Tie: compile_pattern_list output vs the '
         'model on random form lists; metamorphic runs of one regex under every accepted form; invalid objects in every position.',
         'Equal (pattern, flags) pairs select equal occurrences because re.compile is deterministic; the matching itself is C02/C03.', '4/C20'),
 'C05': ('Theorems C05.* about the clock skeleton of expect_loop and waitnoecho (expect_deadline: finish <= start + T + 2 eps for every event list '
         'satisfying the transport contract; no_early_timeout; none_never_times_out; zero_still_examines; negative_expires_at_once; -1 resolution; '
         'waitnoecho bounds), the per-transport read contracts (Rt.fd / socket / pty / popen) and the EINTR-restarting wrappers of utils.py '
         '(wait_under_signals_contract: any signal schedule, finish <= T + one handler run, never early, ready only when ready). Tie: the real '
         'transports under a virtual clock (every blocking wait, time.time and sleep interposed, waits failing with EINTR at scripted moments); each run is '
         'replayed through the Lean skeleton (same outcome, finish time, contract satisfied); the real wrappers against Rt.selII on random schedules; '
         'real-time runs with signals.',
         'Partial: the bound assumes each read returns within its timeout + eps; the pty transport breaks that when the child hangs up without exiting '
         '(known finding, witness in Props/C05). Virtual clock: non-blocking system calls cost one tick.', '4/C05'),
 'C06': ('Theorems C06.* for every peer script and adversarial schedule: pty_reads_conserve (delivered ++ unread = written over any read sequence), '
         'EOF only when drained and hung up, at most size bytes, sticky EOF; the same for fd / socket (pipe world), socket_timeout_restored, and for '
         'PopenSpawn (thread + queue + carry-over). Tie: controlled children / pipes / socketpairs with select, poll, os.read, recv and waitpid '
         'interposed so that peer actions fall between the reader\'s system calls; outcomes compared with the world models + stream oracles; volume runs.',
         'World models are assumptions about Linux, validated by the same runs. A blocking waitpid on a hung-up live child is forced to finish by the harness.', '4/C06'),
 'C07': ('Theorems C07.*: deliver_eq_whole (any chunking through one persistent decoder = decoding the whole stream, for every decoder with the '
         'chunk law), delivered_eq_decode_whole on the session model, utf8_any_chunking (proved UTF-8 instance incl. round trip), bytes_mode_identity. '
         'Tie: every cut point / sampled cuts on the four real transports and the asyncio path against CPython\'s whole-stream incremental decoding; two live objects read in turn.',
         'CPython codecs are assumed to satisfy the chunk law (validated on every run); ill-formed input is judged against the incremental decoder fed at once.', '4/C07'),
 'C08': ('Theorems C08.*: peer_receives_concat (op by op, one persistent encoder, one linesep per sendline, one byte per control), '
         'text_stream_encoded_once, send_returns_written, the control table for every character code (control_letters, control_range, control_unknown), '
         'peer_decodes_to_text_sent (a utf-8 peer recovers exactly the text sent). Tie: send histories on the four transports with a peer that '
         'reports byte for byte what it received; every printable character through sendcontrol; two live objects sending in turn.',
         'A blocking write accepts the whole buffer when the peer reads.', '4/C08'),
 'C11': ('Theorems C11.*: logs_are_transcript (logfile = reads and sends in operation order, logfile_read / logfile_send the two projections), '
         'logfile_read_eq_delivered, every_write_flushed, send_logged_once_under_write_faults (Sess.runF: whatever a non-blocking descriptor does with each write - takes it, refuses it, takes a prefix - the logs are those of the fault-free history), '
         'interact_logs_both, interact_read_log_is_decoded_stream. Tie: recording log objects (plain, and looking like an interactive text stream) on all transports and log combinations, types checked; interact() sessions; '
         'descriptors that refuse or shorten a write (each request logged once).',
         'Log objects are only observed through write() and flush().', '4/C11'),
 'C09': ('Theorems C09.* over the life-cycle model (kernel signal/wait world + ptyprocess + spawn objects): reachable_inv (induction over every op sequence), '
         'status_truth, exactly_one_status, status_stable, wait_returns_code, popen_wait_maps_negative. Tie: real pty children for exit codes and '
         'terminating signals x observation paths x repetition orders, PopenSpawn.wait and run(withexitstatus); each op sequence replayed through the model.',
         'A fatal signal is assumed to take effect within delayafterterminate; the kernel signal/wait world is validated by the same runs.', '4/C09'),
 'C10': ('Theorems C10.*: ops_keep_invariant (every op sequence), never_alive_after_reap, never_terminated_while_running, terminate_force_reaps and '
         'close_reaps_and_releases for every disposition (running/stopped x ignores HUP x ignores INT x pending), close_releases_on_every_path, '
         'close_idempotent, io_after_close_errors, io_never_foreign. Tie: op sequences over real children of every disposition (pty), fdspawn and '
         'SocketSpawn analogues, descriptor and zombie accounting through /proc after del + gc.collect().',
         'Timing assumption: a delivered fatal signal makes the child waitable within delayafterterminate.', '4/C10'),
 'C12': ('Theorems C12.* over the run-loop model (run.py:113-142 as a fuelled loop over the Expecter model, callbacks as an oracle): run_output_eq_consumed / '
         'run_conserves (returned text [+ pending tail] = all data read, each piece once, for every fuel, table, oracle, stream, window), '
         'each_occurrence_answered_once_in_order (run_trace: the calls are one expect history; log and sends = logOf of the reported indices), '
         'logOf_indices, logOf_dispatch, dispatch_spec, list_events_keep_priority, run_stop_reason, chain_is_history (C01/C03 apply to run\'s calls), '
         'run_exitstatus (over the life-cycle model). Tie: the real run() on a scripted spawn (same event tables / callback tables / streams through the '
         'Lean model) + real pty children whose recorded reads are replayed through the model; direct oracles on output, responses, naive re-search, exit status, stop reason (EOF / timeout / callback returning true only).',
         'Callbacks are an arbitrary oracle indexed by (callback, event_count); a diverging run is judged on every finite prefix (fuel). '
         'Children are open-loop event streams: every theorem quantifies over all of them, which covers reactive children.', '4/C12'),
 'C17': ('Theorems C17.* about Px.login, the interpreter of the decision table that T-pxssh regenerates from pxssh.py (login / set_unique_prompt / prompt ASTs) on every run, '
         'for every server (what each expect answers, what each try_read_prompt collects) and option set: password_sent_at_most_once_and_only_after_prompt, '
         'yes_only_to_hostkey, login_sent_shape, true_implies_prompt_and_unique_prompt_partial, default_login_needs_prompt, otherwise_raises (ExceptionPxssh only after close), '
         'login_time_bound (call counts), table facts by decide, and silent_server_logs_in_when_checks_off (witness that the full-strength success claim is false). '
         'Tie: translator + the real pxssh class driven against a scripted in-process server under a virtual clock; every expect answer / read / send replayed through the Lean '
         'interpreter; server-side oracles (secrets only after their prompt, True only with the unique prompt set, raise => closed, time budget, prompt() delimits); real fake-ssh processes.',
         'Partial: True with auto_prompt_reset=False and sync_original_prompt=False on a TIMEOUT outcome is a known finding (upstream heuristic). The level is the answer of each '
         'expect call (C02/C03 tie an answer to the stream); levenshtein similarity is modelled exactly (rational comparison instead of float, equal below 10^15 characters).', '4/C17'),
 'C14': ('Theorems C14.* over the PatternWaiter model (expect_async + protocol callbacks over the same Expecter functions, transport pause/resume/close explicit): '
         'async_call_eq_sync_call / async_final_eq_sync_final (same events => same outcome, state, unread events), paused_when_idle, closed_only_by_eof, '
         'done_window_data_conserved, mixed_history_eq_sync and mixed_history_conserves (any interleaving of blocking and awaited calls = the all-blocking history; C01 holds for it), '
         'mixed_history_paused, async_timeout_bound, abandoned_history_conserves / abandoned_call_consumes_nothing / idle_output_kept_for_next_call (awaited calls the caller gives up leave the '
         'transport reading: what arrives with nobody waiting is appended, never searched, never lost); witnesses timeout_zero_diverges and eof_after_done_wipes_pending for the two known findings. Tie: the real asyncio path '
         '(SelectorEventLoop + unix read-pipe transport + wait_for) on pipes and ptys under a virtual-time selector, compared call by call (index/exception, before, after, match, '
         'buffer, duration, logfile_read) with an all-blocking twin fed the same arrival schedule; recorded loop events - including abandoned calls and idle deliveries - replayed through the Lean model.',
         'Partial: awaited calls with timeout=0 and an EOF delivered while no call is outstanding are known findings (excluded from the parity theorem by construction of the model: '
         'acall0 / doneEofPre are separate definitions). Parity is judged up to and including the first EOF.', '4/C14'),
 'C16': ('Theorems C16.* over the run_command model (REPLWrapper.run_command / repl_run_command_async over the Expecter model, the REPL as an event stream): '
         'expectPrompt_segment (one clean segment output ++ prompt, any cutting into reads => before = output, nothing pending), run_command_returns_own_output '
         '(multi-line commands), incomplete_raises_and_resyncs, command_sequence (every sequence of complete and incomplete commands: each call returns exactly its own '
         'output and the wrapper stays synchronised; sizes, lengths and chunkings unbounded), async_same_value, cleanB_sound. Tie: the real REPLWrapper on a scripted '
         'spawn with the same event streams through the Lean model (clean / dirty segments classified by the model, the theorem\'s conclusion checked on the clean ones); '
         'real bash, python and a fake REPL process, blocking and awaited, commands of known output up to 300 000 characters, output that repeats the command, blanks inside quoted lines.',
         'Hypothesis Seg.Clean (the REPL obeys the protocol: neither prompt string is completed before the end of an answer) is explicit and decidable; a command that prints the '
         'prompt string is outside the theorem. SIGINT delivery and the REPL\'s reaction to it are part of the environment.', '4/C16'),
 'C15': ('Theorems C15.* over the copy-loop model of spawn.interact() (a function of the reads the loop performs; filters and escape setting as parameters): '
         'interact_output_transparent (+ pending flushed first and cleared, logfile_read), interact_input_until_first_escape (the child receives exactly the typed stream through '
         'input_filter up to the first escape; nothing after it, also within the same read), interact_input_no_escape, interact_logs_sends, mode_restored, raw_while_copying, '
         'returns_on_child_exit. Tie: real interact() sessions — an outer pty plays the user, a raw-mode inner child reports what it read and wrote, every os.read / os.write of the '
         'loop is recorded and the recorded reads are replayed through the Lean model; end-to-end oracles on display, child input, terminal attributes, pending text, log files; '
         'the child-exit race is forced (liveness tests happen after the child has gone); children that exited before interact() was called.',
         'The model describes the repaired code (three fix: commits). Each read returns at most 1000 bytes in the code; the theorems hold for any sizes. Terminal mode is one abstract value '
         '(tcgetattr equality is checked on the real terminal).', '4/C15'),
}
PENDING = {}
for i in range(5, 21):
    PENDING['C%02d' % i] = 'check not built yet in this revision (see DESIGN.md section 12, build order)'


def main():
    checks = []
    for pid, (text, note, ref) in sorted(CHECKS.items()):
        checks.append(dict(property_id=pid, quick_cmd='./check %s --tier quick' % pid, thorough_cmd='./check %s --tier thorough' % pid,
                           evidence_file='evidence/%s.json' % pid, replay_cmd_template='./check %s --replay {path}' % pid,
                           engine='lean4-model+correspondence',
                           level_claimed=dict(category='proof', text=text, design_ref='DESIGN.md ' + ref),
                           level_note=NOTE + note,
                           technique='Lean 4 theorems over an executable model + differential correspondence with the real code'))
    na = [dict(property_id=k, reason=v) for k, v in sorted(PENDING.items()) if k not in CHECKS]
    m = dict(version=1,
             setup_cmd='cd lean && lake build PexpectModel PexpectModel.Drv.All',
             hooks=dict(guard='PEXPECT_VERIF', enable='no source hooks are needed: the harness interposes module-level names of the imported pexpect modules at run time',
                        baseline_off_cmd='cd /repo && /venv/bin/python -m pytest -q -p no:cacheprovider --timeout=900',
                        source_commits=[], add_only=True),
             engines=[dict(name='lean4-model+correspondence', path='lean/ + harness/', serves_properties=sorted(CHECKS),
                           kind_free_text='Lean 4 proofs over executable models; translators regenerate table models; Python harness runs the real code and the model on the same inputs')],
             checks=checks, not_applicable=na,
             notes='See DESIGN.md. KNOWN_FINDINGS.txt lists repaired (fixed:) and recorded (known:) defects.')
    json.dump(m, open(os.path.join(ROOT, 'MANIFEST.json'), 'w'), indent=1)


if __name__ == '__main__':
    main()
