"""Shared plumbing of ./check: paths, Lean build + audit, model driver, evidence, known findings, replay."""
import os, sys, json, time, re, subprocess, fcntl, hashlib, random, shutil, tempfile, glob

ROOT = os.path.dirname(os.path.dirname(os.path.dirname(os.path.abspath(__file__))))
LEAN = os.path.join(ROOT, 'lean')
REPO = os.environ.get('PEXPECT_REPO', '/repo')
PY = '/venv/bin/python'
ACCEPTED_AXIOMS = {'propext', 'Classical.choice', 'Quot.sound'}
REQUIRED_TRANSLATORS = {'C13': ('split_table.py',), 'C17': ('pxssh_table.py',), 'C18': ('ansi_table.py',), 'C19': ()}
CORE_DRIVERS = ['PexpectModel.Drv.' + m for m in ('Ex', 'Screen', 'Forms', 'Transport', 'Deadline', 'Session', 'Life', 'Run', 'Async', 'Repl', 'Interact')]
FORBIDDEN = re.compile(r'\b(sorry|admit|native_decide|bv_decide|implemented_by)\b|^\s*axiom\s|\bunsafe\s|maxHeartbeats\s+0')

TRUSTED_BASE = [
    'Lean 4.33.0 kernel; axioms of every property theorem restricted to propext, Classical.choice, Quot.sound (audited by #print axioms on every run)',
    'translators in harness/translators (AST / introspection extractors, refuse constructs outside their whitelist)',
    'correspondence harness (drivers, canonicalisation, diff) in harness/',
    'CPython re / codecs / io, ptyprocess 0.7.0 and the Linux pty, pipe, socket, signal and wait semantics are modelled, not verified; each is differentially validated where a check depends on it',
]


def repo_on_path():
    if REPO in sys.path:
        sys.path.remove(REPO)
    sys.path.insert(0, REPO)


class Ctx(object):
    def __init__(self, prop, tier, seed):
        self.prop = prop
        self.tier = tier
        self.seed = seed
        self.rng = random.Random(seed)
        self.t0 = time.time()
        self.tmp = tempfile.mkdtemp(prefix='verif_%s_' % prop)
        self.violations = []     # dicts: sig, what, replay
        self.known = []
        self.notes = []
        self.cov = {}
        self.obligations = []    # (name, ok, detail)
        self.broken = []         # names of theorems / correspondence stages that no longer check
        self.replaying = False   # a re-run for --replay: no evidence file, no verdict lines

    def cleanup(self):
        shutil.rmtree(self.tmp, ignore_errors=True)

    def quick(self):
        return self.tier == 'quick'


# ------------------------------------------------------------------------------------------ Lean

def _lock():
    os.makedirs(os.path.join(LEAN, '.lake'), exist_ok=True)
    f = open(os.path.join(LEAN, '.lake', 'verif.lock'), 'w')
    fcntl.flock(f, fcntl.LOCK_EX)
    return f


def run_translators():
    """Regenerate Generated/*.lean from the repository under test. Returns {name: (ok, info)}."""
    res = {}
    gen = os.path.join(LEAN, 'PexpectModel', 'Generated')
    os.makedirs(gen, exist_ok=True)
    env = dict(os.environ, PEXPECT_REPO=REPO, PYTHONWARNINGS='ignore')
    scratch = tempfile.mkdtemp(prefix='verif_tr_')
    try:
        for script, out in (('ansi_table.py', 'AnsiTable.lean'), ('split_table.py', 'SplitTable.lean'),
                            ('pxssh_table.py', 'PxsshTable.lean'), ('consts.py', 'Consts.lean')):
            sp = os.path.join(ROOT, 'harness', 'translators', script)
            if not os.path.exists(sp):
                continue
            p = subprocess.run([PY, sp, os.path.join(gen, out)], cwd=scratch, env=env,
                               stdout=subprocess.PIPE, stderr=subprocess.PIPE, text=True, timeout=120)
            res[script] = (p.returncode == 0, (p.stdout + p.stderr).strip()[-2000:])
    finally:
        shutil.rmtree(scratch, ignore_errors=True)
    return res


def lake_build(targets, timeout=3000):
    p = subprocess.run(['lake', 'build'] + list(targets), cwd=LEAN, stdout=subprocess.PIPE,
                       stderr=subprocess.STDOUT, text=True, timeout=timeout)
    return p.returncode == 0, p.stdout


def theorem_names(props_file):
    """(namespace-qualified) names of the theorems declared in a Props file."""
    src = open(props_file).read()
    src = re.sub(r'/-.*?-/', '', src, flags=re.S)
    ns = []
    names = []
    for line in src.splitlines():
        m = re.match(r'\s*namespace\s+(\S+)', line)
        if m:
            ns.append(m.group(1)); continue
        m = re.match(r'\s*end\s+(\S+)', line)
        if m and ns and ns[-1] == m.group(1):
            ns.pop(); continue
        m = re.match(r'\s*(?:private\s+|protected\s+)?theorem\s+(\S+)', line)
        if m:
            names.append('.'.join(ns + [m.group(1)]))
    return names


def forbidden_tokens():
    """grep of the whole Lean tree for proof escapes, comments stripped."""
    hits = []
    for path in glob.glob(os.path.join(LEAN, '**', '*.lean'), recursive=True):
        if os.sep + '.lake' + os.sep in path:
            continue
        src = open(path).read()
        src = re.sub(r'/-.*?-/', lambda m: '\n' * m.group(0).count('\n'), src, flags=re.S)
        for n, line in enumerate(src.splitlines(), 1):
            line = line.split('--')[0]
            if FORBIDDEN.search(line):
                hits.append('%s:%d: %s' % (os.path.relpath(path, LEAN), n, line.strip()[:120]))
    return hits


def prove(ctx, modules, extra_theorems=()):
    """translators -> lake build of the property's Props module(s) -> axiom audit.
    Fills ctx.obligations / ctx.broken.  Never raises on a failed proof: returns False."""
    lock = _lock()
    try:
        t0 = time.time()
        tr = run_translators()
        for k, (ok, info) in tr.items():
            if not ok:
                ctx.notes.append('translator %s refused: %s' % (k, info[-300:]))
                if k in REQUIRED_TRANSLATORS.get(ctx.prop, ()):
                    # the generated model is stale: the theorems no longer speak about the current source
                    ctx.broken.append('translator %s refused the current source (the generated table is stale): %s' % (k, info[-200:]))
        ok, out = lake_build(['PexpectModel.Props.%s' % m for m in modules])
        ctx.cov['lake_build_s'] = round(time.time() - t0, 1)
        names = []
        for m in modules:
            names += theorem_names(os.path.join(LEAN, 'PexpectModel', 'Props', m + '.lean'))
        names += list(extra_theorems)
        if not ok:
            errs = [l for l in out.splitlines() if l.startswith('error')]
            ctx.notes.append('lake build failed: ' + ' || '.join(errs[:6]))
            for n in names:
                ctx.obligations.append((n, False, 'build failed'))
            ctx.broken.append('lake build PexpectModel.Props.{%s}: %s' % (','.join(modules), '; '.join(errs[:3])))
            return False
        bad = forbidden_tokens()
        if bad:
            ctx.notes.append('forbidden tokens: ' + '; '.join(bad[:5]))
            ctx.broken.append('proof escape found: ' + bad[0])
        # audit
        audit = os.path.join(LEAN, '.lake', 'audit_%s_%d.lean' % (ctx.prop, os.getpid()))
        with open(audit, 'w') as f:
            for m in modules:
                f.write('import PexpectModel.Props.%s\n' % m)
            for n in names:
                f.write('#print axioms %s\n' % n)
        p = subprocess.run(['lake', 'env', 'lean', audit], cwd=LEAN, stdout=subprocess.PIPE,
                           stderr=subprocess.STDOUT, text=True, timeout=1200)
        os.unlink(audit)
        text = p.stdout
        seen = {}
        for m in re.finditer(r"'([^']+)' (depends on axioms: \[([^\]]*)\]|does not depend on any axioms)", text):
            axs = set(a.strip() for a in (m.group(3) or '').split(',') if a.strip())
            seen[m.group(1)] = axs
        allok = not bad
        for n in names:
            if n not in seen:
                ctx.obligations.append((n, False, 'not found by audit'))
                ctx.broken.append('theorem %s missing' % n)
                allok = False
            elif seen[n] - ACCEPTED_AXIOMS:
                ctx.obligations.append((n, False, 'axioms: ' + ','.join(sorted(seen[n]))))
                ctx.broken.append('theorem %s depends on %s' % (n, sorted(seen[n] - ACCEPTED_AXIOMS)))
                allok = False
            else:
                ctx.obligations.append((n, True, ','.join(sorted(seen[n])) or 'no axioms'))
        ctx.cov['axioms_used'] = sorted(set().union(*seen.values())) if seen else []
        return allok
    finally:
        lock.close()


def leanchecker(ctx, modules):
    p = subprocess.run(['lake', 'env', 'leanchecker'] + ['PexpectModel.Props.%s' % m for m in modules], cwd=LEAN,
                       stdout=subprocess.PIPE, stderr=subprocess.STDOUT, text=True, timeout=3000)
    ctx.cov['leanchecker'] = 'ok' if p.returncode == 0 else ('failed: ' + p.stdout[-300:])
    if p.returncode != 0:
        ctx.broken.append('leanchecker rejected the compiled Props modules')
    return p.returncode == 0


def run_model(lines, timeout=3000):
    """Pipe op lines to the Lean model driver; one output line per input line."""
    if not lines:
        return []
    # one driver per group of models: the groups built on a table regenerated from the source stand alone, so that a change which breaks one
    # generated model cannot make the drivers of the other properties unavailable
    tok = lines[0].split(' ', 1)[0]
    main, mods = {'AN': ('MainAnsi.lean', ['PexpectModel.Drv.Ansi']), 'SP': ('MainLaunch.lean', ['PexpectModel.Drv.Launch']),
                  'WH': ('MainLaunch.lean', ['PexpectModel.Drv.Launch']), 'PX': ('MainPxssh.lean', ['PexpectModel.Drv.Pxssh']),
                  'PP': ('MainPxssh.lean', ['PexpectModel.Drv.Pxssh']), 'LV': ('MainPxssh.lean', ['PexpectModel.Drv.Pxssh'])}.get(tok, ('MainCore.lean', CORE_DRIVERS))
    lock = _lock()
    try:
        ok, out = lake_build(mods)
        if not ok:
            raise ModelUnavailable(out[-2000:])
    finally:
        lock.close()
    p = subprocess.run(['lake', 'env', 'lean', '--run', main], cwd=LEAN, input='\n'.join(lines) + '\n',
                       stdout=subprocess.PIPE, stderr=subprocess.PIPE, text=True, timeout=timeout)
    outs = p.stdout.splitlines()
    if p.returncode != 0 or len(outs) != len(lines):
        raise ModelUnavailable('driver rc=%s lines=%d/%d %s' % (p.returncode, len(outs), len(lines), p.stderr[-1500:]))
    return outs


class ModelUnavailable(Exception):
    pass


def enc(s):
    """text (str or bytes) -> line-protocol list of code points"""
    if isinstance(s, bytes):
        s = list(s)
    else:
        s = [ord(c) for c in s]
    return ','.join(map(str, s)) if s else '-'



def qlen(p):
    """how many chunks PopenSpawn's reader thread has queued (whatever container the class uses for them)"""
    q = getattr(p, '_read_queue', None)
    if q is None:
        return 0
    return q.qsize() if hasattr(q, 'qsize') else len(q)


# --------------------------------------------------------------------------- calls that never come back

class Stuck(BaseException):
    """raised in the main thread when a guarded call into the code under test is still blocked after its time limit
    (BaseException: no `except Exception` of the code under test swallows it)"""


class guard(object):
    """with common.guard(seconds): <call into pexpect>   -- SIGALRM based, main thread only; a call that blocks for good becomes
    common.Stuck, which the stage turns into a reported finding instead of a check that hangs"""

    def __init__(self, seconds):
        self.seconds = seconds

    def __enter__(self):
        import signal, threading
        self.active = threading.current_thread() is threading.main_thread()
        if self.active:
            def on_alarm(sig, frm):
                raise Stuck()
            self.old = signal.signal(signal.SIGALRM, on_alarm)
            signal.setitimer(signal.ITIMER_REAL, self.seconds)
        return self

    def __exit__(self, et, ev, tb):
        import signal
        if self.active:
            signal.setitimer(signal.ITIMER_REAL, 0)
            signal.signal(signal.SIGALRM, self.old)
        return False


# --------------------------------------------------------------------------- findings and evidence

def known_findings():
    path = os.path.join(ROOT, 'KNOWN_FINDINGS.txt')
    known, fixed = [], []
    if os.path.exists(path):
        for line in open(path):
            line = line.strip()
            m = re.match(r'known: property=(\S+) sig=(\S+) (.*)', line)
            if m:
                known.append((m.group(1), m.group(2), m.group(3)))
            m = re.match(r'fixed: property=(\S+) (\S+) (.*)', line)
            if m:
                fixed.append((m.group(1), m.group(2), m.group(3)))
    return known, fixed


def report(ctx, sig, what, replay_obj, no_input=False):
    """Record a violation (or a known finding if its signature is listed)."""
    known, _ = known_findings()
    for (pid, ksig, desc) in known:
        if pid == ctx.prop and ksig == sig:
            if sig not in [k[0] for k in ctx.known]:
                ctx.known.append((sig, desc))
            return
    if any(v['sig'] == sig for v in ctx.violations):
        return
    d = os.path.join(ROOT, 'replays', ctx.prop)
    os.makedirs(d, exist_ok=True)
    path = os.path.join(d, '%s_%s.json' % (re.sub(r'[^A-Za-z0-9_.-]', '_', sig)[:80], ctx.seed))
    with open(path, 'w') as f:
        json.dump(dict(property=ctx.prop, signature=sig, what=what, no_failing_input_found=no_input,
                       seed=ctx.seed, tier=ctx.tier, replay=replay_obj), f, indent=1, default=repr)
    ctx.violations.append(dict(sig=sig, what=what, replay=path, no_input=no_input))


def finish(ctx, level_rule, samples, evaluations, distinct_nontrivial, extra=None, assumptions=None):
    """Write evidence, print KNOWN-FINDING / VIOLATION lines, return the exit code."""
    # a broken obligation / correspondence with no concrete failing input is still a violation
    if ctx.broken and not ctx.violations:
        report(ctx, 'unproved', 'no longer shown to hold: ' + ' | '.join(ctx.broken[:4]),
               dict(broken=ctx.broken), no_input=True)
    ob = len(ctx.obligations)
    dis = sum(1 for o in ctx.obligations if o[1])
    cov = dict(obligations=ob, discharged=dis,
               checker_cmd='cd lean && lake build PexpectModel.Props.%s && lake env lean <#print axioms of every theorem in Props/%s.lean>' % (ctx.prop, ctx.prop),
               trusted_base=TRUSTED_BASE,
               theorems=[dict(name=n, ok=ok, axioms=d) for (n, ok, d) in ctx.obligations],
               evaluations=int(evaluations), distinct_nontrivial=int(distinct_nontrivial), rule=level_rule,
               samples=samples[:12] if samples else ['(none)'],
               traces_validated_against_impl=int(evaluations),
               known_findings=[k[0] for k in ctx.known], notes=ctx.notes)
    cov.update(ctx.cov)
    if extra:
        cov.update(extra)
    if ctx.replaying:
        return 1 if ctx.violations else 0
    ev = dict(property_id=ctx.prop, tier=ctx.tier, seed=ctx.seed, level='proof', coverage=cov,
              assumptions=assumptions or [], wall_s=round(time.time() - ctx.t0, 2), violations=len(ctx.violations))
    # evidence under /verif/evidence describes /repo only: a run pointed at a scratch copy (seeded/try.sh) leaves its evidence in that copy
    evdir = os.path.join(ROOT, 'evidence') if os.path.realpath(REPO) == os.path.realpath('/repo') else os.path.join(REPO, '.verif-evidence')
    os.makedirs(evdir, exist_ok=True)
    with open(os.path.join(evdir, ctx.prop + '.json'), 'w') as f:
        json.dump(ev, f, indent=1, default=repr)
    for sig, desc in ctx.known:
        print('KNOWN-FINDING: property=%s %s [%s]' % (ctx.prop, desc, sig))
    for v in ctx.violations:
        print('VIOLATION property=%s replay=%s %s%s' % (ctx.prop, os.path.relpath(v['replay'], ROOT), v['what'][:300].replace('\n', ' '),
                                                        ' no-failing-input-found' if v['no_input'] else ''))
    print('%s %s: obligations %d/%d, %d evaluations, %d violations, %d known, %.1fs' % (
        ctx.prop, ctx.tier, dis, ob, evaluations, len(ctx.violations), len(ctx.known), time.time() - ctx.t0))
    return 1 if ctx.violations else 0
