"""T-split: extract the per-character transition table of utils.split_command_line from its AST.

Usage: split_table.py <out.lean>   (repository from $PEXPECT_REPO, default /repo)
The loop body may only test `c == '\\\\' | "'" | '"'`, `c.isspace()`, `state == <state constant>` and may only
assign `state = <constant>`, `arg = arg + c`, `arg = ''`, `arg_list.append(arg)`.  Anything else: exit 3.
"""
import sys, os, ast, inspect, textwrap
sys.path.insert(0, os.environ.get('PEXPECT_REPO', '/repo'))

STATE_NAMES = {'state_basic': 'basic', 'state_esc': 'esc', 'state_singlequote': 'sq',
               'state_doublequote': 'dq', 'state_whitespace': 'ws'}


def refuse(msg):
    sys.stderr.write('T-split: ' + msg + '\n')
    raise SystemExit(3)


def generate():
    import pexpect.utils as U
    src = textwrap.dedent(inspect.getsource(U.split_command_line))
    fn = ast.parse(src).body[0]
    consts = {}
    init = None
    loop = None
    prologue_ok = True
    epilogue = []
    for st in fn.body:
        if isinstance(st, ast.Expr) and isinstance(st.value, ast.Constant) and isinstance(st.value.value, str) and loop is None:
            continue      # docstring
        if loop is None and isinstance(st, ast.Assign) and len(st.targets) == 1 and isinstance(st.targets[0], ast.Name):
            n = st.targets[0].id
            if n.startswith('state_') and isinstance(st.value, ast.Constant):
                consts[n] = st.value.value
            elif n == 'state' and isinstance(st.value, ast.Name):
                init = st.value.id
            elif n == 'arg_list' and isinstance(st.value, ast.List) and not st.value.elts:
                pass
            elif n == 'arg' and isinstance(st.value, ast.Constant) and st.value.value == '':
                pass
            else:
                refuse('unexpected prologue statement ' + ast.unparse(st))
        elif isinstance(st, ast.For) and loop is None:
            loop = st
        elif loop is not None:
            epilogue.append(st)
        else:
            refuse('unexpected statement ' + ast.unparse(st))
    if loop is None or not (isinstance(loop.target, ast.Name) and loop.target.id == 'c' and
                            isinstance(loop.iter, ast.Name) and loop.iter.id == 'command_line') or loop.orelse:
        refuse('loop header changed')
    if set(consts) != set(STATE_NAMES) or len(set(consts.values())) != len(consts):
        refuse('state constants changed: %r' % consts)
    if init not in consts:
        refuse('initial state is not a state constant')
    allowed_cmp = {'\\', "'", '"'}

    def check_test(t):
        if isinstance(t, ast.BoolOp):
            return all(check_test(v) for v in t.values)
        if isinstance(t, ast.UnaryOp) and isinstance(t.op, ast.Not):
            return check_test(t.operand)
        if isinstance(t, ast.Compare) and len(t.ops) == 1 and isinstance(t.ops[0], (ast.In, ast.NotIn)) and \
                isinstance(t.comparators[0], (ast.Tuple, ast.List, ast.Set)):
            l, elts = t.left, t.comparators[0].elts
            if isinstance(l, ast.Name) and l.id == 'state' and all(isinstance(e, ast.Name) and e.id in consts for e in elts):
                return True
            if isinstance(l, ast.Name) and l.id == 'c' and all(isinstance(e, ast.Constant) and e.value in allowed_cmp for e in elts):
                return True
        if isinstance(t, ast.Compare) and len(t.ops) == 1 and isinstance(t.ops[0], (ast.Eq, ast.NotEq)):
            l, r = t.left, t.comparators[0]
            if isinstance(l, ast.Name) and l.id == 'state' and isinstance(r, ast.Name) and r.id in consts:
                return True
            if isinstance(l, ast.Name) and l.id == 'c' and isinstance(r, ast.Constant) and r.value in allowed_cmp:
                return True
        if isinstance(t, ast.Call) and isinstance(t.func, ast.Attribute) and t.func.attr == 'isspace' and \
                isinstance(t.func.value, ast.Name) and t.func.value.id == 'c' and not t.args and not t.keywords:
            return True
        return False

    def check_stmt(s):
        if isinstance(s, ast.If):
            return check_test(s.test) and all(check_stmt(x) for x in s.body + s.orelse)
        if isinstance(s, ast.Assign) and len(s.targets) == 1:
            t = s.targets[0]
            if isinstance(t, ast.Name) and t.id == 'state':
                return isinstance(s.value, ast.Name) and s.value.id in consts
            if isinstance(t, ast.Name) and t.id == 'arg':
                v = s.value
                if isinstance(v, ast.Constant) and v.value == '':
                    return True
                return isinstance(v, ast.BinOp) and isinstance(v.op, ast.Add) and isinstance(v.left, ast.Name) and \
                    v.left.id == 'arg' and isinstance(v.right, ast.Name) and v.right.id == 'c'
        if isinstance(s, ast.Expr):
            v = s.value
            if isinstance(v, ast.Constant):
                return True
            if isinstance(v, ast.Call) and isinstance(v.func, ast.Attribute) and v.func.attr == 'append' and \
                    isinstance(v.func.value, ast.Name) and v.func.value.id == 'arg_list' and len(v.args) == 1 and \
                    isinstance(v.args[0], ast.Name) and v.args[0].id == 'arg':
                return True
        if isinstance(s, ast.Pass):
            return True
        return False
    if not all(check_stmt(s) for s in loop.body):
        refuse('construct outside the whitelist in the loop body')
    ep = [ast.unparse(e) for e in epilogue]
    if ep != ["if arg != '':\n    arg_list.append(arg)", 'return arg_list']:
        refuse('epilogue changed: %r' % ep)
    # compile the loop body alone and tabulate it
    body_fn = ast.FunctionDef(
        name='_body',
        args=ast.arguments(posonlyargs=[], args=[ast.arg('state'), ast.arg('arg'), ast.arg('arg_list'), ast.arg('c')] +
                           [ast.arg(k) for k in consts], kwonlyargs=[], kw_defaults=[], defaults=[]),
        body=loop.body + [ast.Return(ast.Tuple([ast.Name('state', ast.Load()), ast.Name('arg', ast.Load()),
                                                ast.Name('arg_list', ast.Load())], ast.Load()))],
        decorator_list=[], type_params=[])
    mod = ast.Module([body_fn], [])
    ast.fix_missing_locations(mod)
    ns = {}
    exec(compile(mod, '<tsplit>', 'exec'), ns)
    classes = [('bs', '\\'), ('sq', "'"), ('dq', '"'), ('sp', ' '), ('other', 'z')]
    names = {v: STATE_NAMES[k] for k, v in consts.items()}
    rows = []
    for sname in ('state_basic', 'state_esc', 'state_singlequote', 'state_doublequote', 'state_whitespace'):
        for cname, ch in classes:
            st, arg, al = ns['_body'](consts[sname], 'A', [], ch, **consts)
            if arg == 'A' + ch and al == []:
                act = 'push'
            elif arg == 'A' and al == []:
                act = 'keep'
            elif arg == '' and al == ['A']:
                act = 'flush'
            else:
                refuse('unrecognised action in state %s on %s: %r' % (sname, cname, (arg, al)))
            if st not in names:
                refuse('unknown target state')
            rows.append((STATE_NAMES[sname], cname, names[st], act))
    # the whitespace class must behave the same for every whitespace character: probe a few
    for ws in '\t\n\r\x0b\x0c  ':
        for sname in consts:
            a = ns['_body'](consts[sname], 'A', [], ws, **consts)
            b = ns['_body'](consts[sname], 'A', [], ' ', **consts)
            if (a[0], a[1].replace(ws, ' '), a[2]) != (b[0], b[1], b[2]):
                refuse('whitespace characters are not treated alike')
    out = ["/- GENERATED by harness/translators/split_table.py from pexpect/utils.py split_command_line. Do not edit. -/",
           "namespace SplitGen", "",
           "inductive Cls | bs | sq | dq | sp | other deriving DecidableEq, Repr",
           "inductive Q | basic | esc | sq | dq | ws deriving DecidableEq, Repr",
           "/-- keep: nothing; push: arg = arg + c; flush: arg_list.append(arg); arg = '' -/",
           "inductive ArgAct | keep | push | flush deriving DecidableEq, Repr", "",
           "def tbl : Q → Cls → Q × ArgAct"]
    for (s, c, t, a) in rows:
        out.append("  | .%s, .%s => (.%s, .%s)" % (s, c, t, a))
    out += ["", "def initial : Q := .%s" % STATE_NAMES[init], "", "end SplitGen", ""]
    return "\n".join(out), dict(rows=len(rows), initial=STATE_NAMES[init])


if __name__ == '__main__':
    text, info = generate()
    out = sys.argv[1]
    old = open(out).read() if os.path.exists(out) else None
    if old != text:
        open(out, 'w').write(text)
    print(info)
