"""T-pxssh: extract the decision structure of pxssh.login / set_unique_prompt / prompt from their ASTs.

Usage: pxssh_table.py <out.lean>   (repository from $PEXPECT_REPO, default /repo)

login(): the two pattern arrays (order matters: indices are compared with literals), the first-phase chain of
`if i==K: self.sendline(X); i = self.expect(session_regex_array)`, the `if i==K: close; raise` that follows it, the
second-phase `if/elif` chain (each branch either `pass` or `close; raise`), and the two guarded post-conditions
(`sync_original_prompt`, `auto_prompt_reset`) followed by `return True`.
set_unique_prompt(): the ladder of (sendline(s); expect([TIMEOUT, self.PROMPT], timeout=10)) nested under `if i == 0`.
prompt(): `expect([self.PROMPT, TIMEOUT])` and `if i==1: return False`.
Anything outside this shape: exit 3 (the check then treats the proof obligation as broken and searches for an input).
"""
import sys, os, ast, inspect, textwrap
sys.path.insert(0, os.environ.get('PEXPECT_REPO', '/repo'))

PAT_NAMES = {
    ('str', '(?i)are you sure you want to continue connecting'): 'hostkey',
    ('name', 'original_prompt'): 'origPrompt',
    ('name', 'password_regex'): 'passwordRe',
    ('str', '(?i)permission denied'): 'denied',
    ('str', '(?i)terminal type'): 'termType',
    ('name', 'TIMEOUT'): 'timeout',
    ('str', '(?i)connection closed by remote host'): 'connClosed',
    ('name', 'EOF'): 'eof',
}
SEND_NAMES = {"'yes'": 'yes', 'password': 'password', 'terminal_type': 'termType'}


def refuse(msg):
    sys.stderr.write('T-pxssh: ' + msg + '\n')
    raise SystemExit(3)


def lit(e):
    if isinstance(e, ast.Constant) and isinstance(e.value, str):
        return ('str', e.value)
    if isinstance(e, ast.Name):
        return ('name', e.id)
    refuse('unsupported pattern element ' + ast.dump(e))


def is_i_eq(t):
    return (isinstance(t, ast.Compare) and isinstance(t.left, ast.Name) and t.left.id == 'i' and len(t.ops) == 1 and
            isinstance(t.ops[0], ast.Eq) and isinstance(t.comparators[0], ast.Constant) and isinstance(t.comparators[0].value, int))


def self_call(s, name=None):
    """('method', args, keywords) if s is an expression statement `self.method(...)`"""
    if isinstance(s, ast.Expr) and isinstance(s.value, ast.Call):
        f = s.value.func
        if isinstance(f, ast.Attribute) and isinstance(f.value, ast.Name) and f.value.id == 'self':
            if name is None or f.attr == name:
                return f.attr, s.value.args, s.value.keywords
    return None


def branch_kind(body):
    """'pass' or 'closeRaise' for a second-phase branch"""
    if len(body) == 1 and isinstance(body[0], ast.Pass):
        return 'pass'
    if len(body) == 2 and self_call(body[0], 'close') and isinstance(body[1], ast.Raise) and \
            isinstance(body[1].exc, ast.Call) and ast.unparse(body[1].exc.func) == 'ExceptionPxssh':
        return 'closeRaise'
    # a raise without close would leave the session open: reported as its own kind so the theorems see it
    if len(body) == 1 and isinstance(body[0], ast.Raise):
        return 'raiseOnly'
    refuse('unsupported branch: ' + '; '.join(ast.unparse(s) for s in body)[:200])


def extract_login(fn):
    arrays = {}
    first = []
    fail_idx = None
    fail_kind = None
    second = None
    second_else = None
    post = []
    ret = None
    phase = 0       # 0 before the first expect, 1 first phase, 2 after the second-phase chain
    for st in fn.body:
        if isinstance(st, ast.Assign) and len(st.targets) == 1 and isinstance(st.targets[0], ast.Name):
            n = st.targets[0].id
            if n in ('session_regex_array', 'session_init_regex_array') and isinstance(st.value, ast.List):
                arrays[n] = [lit(e) for e in st.value.elts]
                continue
            if n == 'i' and phase == 0:
                if not (isinstance(st.value, ast.Call) and ast.unparse(st.value.func) == 'self.expect' and
                        ast.unparse(st.value.args[0]) == 'session_init_regex_array'):
                    refuse('first expect is not over session_init_regex_array: ' + ast.unparse(st))
                kws = {k.arg: ast.unparse(k.value) for k in st.value.keywords}
                if kws.get('timeout') != 'login_timeout':
                    refuse('first expect does not use login_timeout')
                phase = 1
                continue
        if isinstance(st, ast.Expr) and isinstance(st.value, ast.Call) and ast.unparse(st.value.func) == 'session_init_regex_array.extend':
            a = st.value.args[0]
            if isinstance(a, ast.Name):
                arrays['session_init_regex_array'] += arrays[a.id]
            elif isinstance(a, ast.List):
                arrays['session_init_regex_array'] += [lit(e) for e in a.elts]
            else:
                refuse('unsupported extend argument')
            continue
        if phase == 0:
            continue            # command-line construction: not part of the dialogue logic (checked by the harness)
        if phase == 1 and isinstance(st, ast.If) and is_i_eq(st.test) and not st.orelse:
            k = st.test.comparators[0].value
            body = st.body
            if len(body) == 2 and self_call(body[0], 'sendline') and isinstance(body[1], ast.Assign):
                arg = ast.unparse(self_call(body[0], 'sendline')[1][0])
                asg = body[1]
                if not (isinstance(asg.targets[0], ast.Name) and asg.targets[0].id == 'i' and isinstance(asg.value, ast.Call) and
                        ast.unparse(asg.value.func) == 'self.expect' and ast.unparse(asg.value.args[0]) == 'session_regex_array' and
                        not asg.value.keywords):
                    refuse('first-phase step does not re-expect session_regex_array: ' + ast.unparse(asg))
                if arg not in SEND_NAMES:
                    refuse('first-phase step sends something unknown: ' + arg)
                if fail_idx is not None:
                    refuse('a sending step follows the connection-failure test')
                first.append((k, SEND_NAMES[arg]))
                continue
            kind = branch_kind(body)
            if kind in ('closeRaise', 'raiseOnly') and fail_idx is None:
                fail_idx, fail_kind = k, kind
                continue
            refuse('unsupported first-phase step: ' + ast.unparse(st)[:200])
        if phase == 1 and isinstance(st, ast.If) and is_i_eq(st.test) and st.orelse:
            chain = []
            cur = st
            while True:
                chain.append((cur.test.comparators[0].value, branch_kind(cur.body)))
                if len(cur.orelse) == 1 and isinstance(cur.orelse[0], ast.If) and is_i_eq(cur.orelse[0].test):
                    cur = cur.orelse[0]
                else:
                    second_else = branch_kind(cur.orelse) if cur.orelse else 'pass'
                    break
            second = chain
            phase = 2
            continue
        if phase == 2 and isinstance(st, ast.If):
            flag = ast.unparse(st.test)
            if flag not in ('sync_original_prompt', 'auto_prompt_reset'):
                refuse('unknown post-condition guard: ' + flag)
            if not (len(st.body) == 1 and isinstance(st.body[0], ast.If) and not st.orelse):
                refuse('post-condition body is not a single test')
            inner = st.body[0]
            t = ast.unparse(inner.test)
            want = {'sync_original_prompt': 'not self.sync_original_prompt(sync_multiplier)', 'auto_prompt_reset': 'not self.set_unique_prompt()'}[flag]
            if t != want or branch_kind(inner.body) != 'closeRaise' or inner.orelse:
                refuse('post-condition %s has an unexpected shape: %s' % (flag, t))
            post.append('sync' if flag == 'sync_original_prompt' else 'reset')
            continue
        if phase == 2 and isinstance(st, ast.Return):
            ret = ast.unparse(st.value)
            continue
        if isinstance(st, ast.Expr) and isinstance(st.value, ast.Constant):
            continue
        refuse('unsupported statement in login(): ' + ast.unparse(st)[:200])
    if phase != 2 or ret != 'True' or second is None or fail_idx is None:
        refuse('login() skeleton incomplete (phase %d, return %r)' % (phase, ret))
    return arrays, first, fail_idx, fail_kind, second, second_else, post


def extract_ladder(fn):
    """set_unique_prompt: [('plain', cmd)...] before the first expect, then the nested ladder of prompt-setting commands"""
    body = [s for s in fn.body if not (isinstance(s, ast.Expr) and isinstance(s.value, ast.Constant))]
    pre = []
    ladder = []

    def expect_ok(asg):
        if not (isinstance(asg, ast.Assign) and isinstance(asg.targets[0], ast.Name) and asg.targets[0].id == 'i' and
                isinstance(asg.value, ast.Call) and ast.unparse(asg.value.func).replace(' ', '') == 'self.expect'):
            return False
        pats = ast.unparse(asg.value.args[0]).replace(' ', '')
        kws = {k.arg: ast.unparse(k.value) for k in asg.value.keywords}
        return pats == '[TIMEOUT,self.PROMPT]' and kws == {'timeout': '10'}

    def walk(stmts, depth):
        # stmts: sendline(X); i = expect(...); [if i == 0: <deeper>]   |   return False
        if len(stmts) == 1 and isinstance(stmts[0], ast.Return) and ast.unparse(stmts[0].value) == 'False':
            return
        k = 0
        while k < len(stmts) and self_call(stmts[k], 'sendline'):
            arg = ast.unparse(self_call(stmts[k], 'sendline')[1][0])
            k += 1
            if k < len(stmts) and expect_ok(stmts[k]):
                ladder.append(arg)
                k += 1
                break
            if depth == 0:
                pre.append(arg)
            else:
                refuse('set_unique_prompt: sendline without expect inside the ladder')
        else:
            refuse('set_unique_prompt: no expect after sendline')
        rest = stmts[k:]
        if not rest:
            return
        if len(rest) == 1 and isinstance(rest[0], ast.If) and is_i_eq(rest[0].test) and rest[0].test.comparators[0].value == 0 and not rest[0].orelse:
            walk(rest[0].body, depth + 1)
            return
        refuse('set_unique_prompt: unexpected statements ' + '; '.join(ast.unparse(s) for s in rest)[:200])
    if not (isinstance(body[-1], ast.Return) and ast.unparse(body[-1].value) == 'True'):
        refuse('set_unique_prompt does not end in return True')
    walk(body[:-1], 0)
    return pre, ladder


def extract_prompt(fn):
    src = [ast.unparse(s) for s in fn.body if not (isinstance(s, ast.Expr) and isinstance(s.value, ast.Constant))]
    want = ['if timeout == -1:\n    timeout = self.timeout', 'i = self.expect([self.PROMPT, TIMEOUT], timeout=timeout)', 'if i == 1:\n    return False', 'return True']
    if src != want:
        refuse('prompt() has an unexpected shape: ' + repr(src)[:300])
    return True


SHELL = {'self.PROMPT_SET_SH': 'sh', 'self.PROMPT_SET_CSH': 'csh', 'self.PROMPT_SET_ZSH': 'zsh'}


def generate():
    from pexpect import pxssh
    fn = ast.parse(textwrap.dedent(inspect.getsource(pxssh.pxssh.login))).body[0]
    arrays, first, fail_idx, fail_kind, second, second_else, post = extract_login(fn)
    pre, ladder = extract_ladder(ast.parse(textwrap.dedent(inspect.getsource(pxssh.pxssh.set_unique_prompt))).body[0])
    extract_prompt(ast.parse(textwrap.dedent(inspect.getsource(pxssh.pxssh.prompt))).body[0])

    def names(arr):
        out = []
        for e in arr:
            if e not in PAT_NAMES:
                refuse('unknown pattern %r' % (e,))
            out.append('.' + PAT_NAMES[e])
        return '[' + ', '.join(out) + ']'
    for c in ladder:
        if c not in SHELL:
            refuse('unknown prompt-setting command ' + c)
    if pre != ["'unset PROMPT_COMMAND'"]:
        refuse('unexpected commands before the ladder: %r' % (pre,))
    o = pxssh.pxssh.__new__(pxssh.pxssh)
    pxssh.pxssh.__init__(o)
    L = []
    L.append('/- GENERATED by harness/translators/pxssh_table.py from pexpect/pxssh.py (login, set_unique_prompt, prompt). Do not edit. -/')
    L.append('import PexpectModel.PxsshTypes')
    L.append('namespace PxGen')
    L.append('open Px')
    L.append('def tbl : Table :=')
    L.append('  { initArr := %s' % names(arrays['session_init_regex_array']))
    L.append('    arr := %s' % names(arrays['session_regex_array']))
    L.append('    first := [%s]' % ', '.join('(%d, .%s)' % (k, w) for k, w in first))
    L.append('    failIdx := %d' % fail_idx)
    L.append('    failCloses := %s' % ('true' if fail_kind == 'closeRaise' else 'false'))
    L.append('    second := [%s]' % ', '.join('(%d, .%s)' % (k, v) for k, v in second))
    L.append('    secondElse := .%s' % second_else)
    L.append('    post := [%s]' % ', '.join('.' + p for p in post))
    L.append('    ladder := [%s] }' % ', '.join('.' + SHELL[c] for c in ladder))
    L.append('/-- code points of the strings the class sends / matches (read from a live pxssh object) -/')
    for nm, val in (('uniquePrompt', o.UNIQUE_PROMPT), ('promptSetSh', o.PROMPT_SET_SH), ('promptSetCsh', o.PROMPT_SET_CSH), ('promptSetZsh', o.PROMPT_SET_ZSH)):
        L.append('def %s : List Nat := [%s]' % (nm, ', '.join(str(ord(c)) for c in val)))
    L.append('end PxGen')
    return '\n'.join(L) + '\n'


if __name__ == '__main__':
    text = generate()
    out = sys.argv[1]
    old = open(out).read() if os.path.exists(out) else None
    if old != text:
        open(out, 'w').write(text)
    print('T-pxssh ok')
