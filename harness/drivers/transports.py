"""Real-transport drivers with scheduled peers (C05-C08, C11).

pty:    a controlled child (commands over a FIFO, one-byte acks) + interposed select / os.read / waitpid, so that
        every peer action happens exactly between two system calls of the reader (the *schedule*).
fd:     os.pipe() whose write end the harness itself drives at the interposed gaps.
socket: socket.socketpair() with a recv-hooking proxy.
popen:  a controlled piped child; the reader thread's timing is free, so only stream-level facts are judged.
"""
import os, sys, time, select, errno, tempfile, shutil, socket, threading, signal

from lib import common
common.repo_on_path()
import pexpect
import pexpect.pty_spawn as PS
import pexpect.spawnbase as SB
import pexpect.fdpexpect as FD
import pexpect.socket_pexpect as SP
import pexpect.popen_spawn as PO
import ptyprocess.ptyprocess as PP

CHILD = r'''
import os, sys, tty
tty.setraw(1)
ctl = os.open(sys.argv[1], os.O_RDONLY); ack = os.open(sys.argv[2], os.O_WRONLY)
os.write(ack, b'R')
while True:
    c = os.read(ctl, 1)
    if not c:
        os._exit(9)
    if c == b'W':
        n = os.read(ctl, 1)[0]
        data = os.read(ctl, n) if n else b''
        try:
            os.write(1, data)
        except OSError:
            pass
        os.write(ack, b'k')
    elif c == b'C':
        d = os.open('/dev/null', os.O_RDWR); os.dup2(d, 0); os.dup2(d, 1); os.dup2(d, 2); os.write(ack, b'k')
    elif c == b'E':
        os.write(ack, b'k'); os._exit(0)
'''


class OsProxy(object):
    def __init__(self, **hooks):
        self._hooks = hooks

    def __getattr__(self, k):
        if k in self._hooks:
            return self._hooks[k]
        return getattr(os, k)


class PtyCtl(object):
    """script: list of ('W', bytes) | ('C',) | ('E',)"""

    def __init__(self, script, use_poll=False, maxread=2000, encoding=None, **spawn_kw):
        self.d = tempfile.mkdtemp(prefix='verif_pty_')
        self.c = os.path.join(self.d, 'c'); self.a = os.path.join(self.d, 'a')
        os.mkfifo(self.c); os.mkfifo(self.a)
        self.script = list(script)
        self.p = pexpect.spawn(common.PY, ['-c', CHILD, self.c, self.a], timeout=5, echo=False, use_poll=use_poll,
                               maxread=maxread, encoding=encoding, **spawn_kw)
        self.cw = os.open(self.c, os.O_WRONLY); self.ar = os.open(self.a, os.O_RDONLY)
        assert os.read(self.ar, 1) == b'R'
        self.written = b''
        self.tty_open = True
        self.exited = False
        self.forced = False

    def state(self):
        try:
            return open('/proc/%d/stat' % self.p.pid).read().rsplit(')', 1)[1].split()[0]
        except (OSError, IndexError):
            return 'X'

    def inq(self):
        import fcntl, termios, struct
        try:
            return struct.unpack('i', fcntl.ioctl(self.p.child_fd, termios.FIONREAD, b'\0\0\0\0'))[0]
        except (OSError, ValueError):
            return 0

    def ready(self):
        try:
            return bool(select.select([self.p.child_fd], [], [], 0)[0])
        except (OSError, ValueError):
            return True

    def act1(self):
        if not self.script:
            return False
        a = self.script.pop(0)
        if a[0] == 'W':
            data = a[1]
            before = self.inq()
            os.write(self.cw, b'W' + bytes([len(data)]) + data)
            assert os.read(self.ar, 1) == b'k'
            if self.tty_open and data:
                self.written += data
                # the line discipline hands the bytes to the master side asynchronously: wait until all have arrived
                for _ in range(4000):
                    if self.inq() >= before + len(data):
                        break
                    time.sleep(0.00025)
        elif a[0] == 'C':
            os.write(self.cw, b'C'); assert os.read(self.ar, 1) == b'k'
            self.tty_open = False
            for _ in range(2000):
                if self.ready():
                    break
                time.sleep(0.0005)
        elif a[0] == 'E':
            os.write(self.cw, b'E'); assert os.read(self.ar, 1) == b'k'
            for _ in range(4000):
                if self.state() in ('Z', 'X'):
                    break
                time.sleep(0.0005)
            self.tty_open = False
            self.exited = True
            self.script = []
        return True

    def act(self, n):
        for _ in range(n):
            if not self.act1():
                return

    def force_exit(self):
        if not self.exited:
            self.forced = True
            self.script = [('E',)]
            self.act1()

    def close(self):
        for fd in (self.cw, self.ar):
            try:
                os.close(fd)
            except OSError:
                pass
        try:
            self.p.close(force=True)
        except Exception:
            pass
        shutil.rmtree(self.d, ignore_errors=True)


class PtyHooks(object):
    """Interpose the reader's system calls; before each one the schedule says how many child actions happen."""

    def __init__(self, ctl, sched, clock=None):
        self.ctl = ctl
        self.sched = list(sched)
        self.gaps = 0
        self.trace = []
        self.last_wait_zero = False
        self.clock = clock

    def nxt(self):
        self.gaps += 1
        return self.sched.pop(0) if self.sched else 0

    def install(self):
        self.saved = (PS.select_ignore_interrupts, PS.poll_ignore_interrupts, SB.os, PP.os)
        ctl = self.ctl
        orig_sel, orig_poll = self.saved[0], self.saved[1]

        def timed_wait(timeout, poll0):
            n = self.nxt()
            self.last_wait_zero = False
            if timeout == 0:
                ctl.act(n)
                r = poll0()
            else:
                r = poll0()
                k = 0
                while not r and k < n:
                    if not ctl.act1():
                        break
                    k += 1
                    r = poll0()
            self.trace.append(('sel', timeout if timeout in (0, None) else 't', bool(r)))
            return r

        def sel(r, w, e, timeout=None):
            ok = timed_wait(timeout, lambda: orig_sel(r, w, e, 0)[0])
            return (r if ok else [], [], [])

        def poll(fds, timeout=None):
            ok = timed_wait(timeout, lambda: orig_poll(fds, 0))
            return fds if ok else []

        def read(fd, n):
            if fd == ctl.p.child_fd:
                ctl.act(self.nxt())
                self.last_wait_zero = False
            try:
                d = os.read(fd, n)
                if fd == ctl.p.child_fd:
                    self.trace.append(('read', n, len(d)))
                return d
            except OSError as ex:
                if fd == ctl.p.child_fd:
                    self.trace.append(('read', n, 'EIO' if ex.errno == errno.EIO else ex.errno))
                raise

        def waitpid(pid, opt):
            if pid == ctl.p.pid:
                if opt == 0:
                    if ctl.state() not in ('Z', 'X'):
                        self.trace.append(('waitpid-would-block',))
                        ctl.force_exit()
                elif not self.last_wait_zero:
                    ctl.act(self.nxt())
                    second = False
                else:
                    second = True       # ptyprocess.isalive() calls waitpid a second time when the first returned 0
            r = os.waitpid(pid, opt)
            if pid == ctl.p.pid:
                self.last_wait_zero = (opt != 0 and r[0] == 0 and not (opt != 0 and self.last_wait_zero))
                self.trace.append(('waitpid', opt, r[0] != 0))
            return r
        PS.select_ignore_interrupts = sel
        PS.poll_ignore_interrupts = poll
        SB.os = OsProxy(read=read)
        PP.os = OsProxy(waitpid=waitpid)

    def remove(self):
        PS.select_ignore_interrupts, PS.poll_ignore_interrupts, SB.os, PP.os = self.saved


def drain_leftover(p):
    left = b''
    try:
        while select.select([p.child_fd], [], [], 0.02)[0]:
            d = os.read(p.child_fd, 65536)
            if not d:
                break
            left += d
    except (OSError, ValueError):
        pass
    return left


def run_pty(script, sched, calls, use_poll=False):
    """calls: list of (size, timed). -> dict(outs, left, written, gaps, forced, trace)"""
    ctl = PtyCtl(script, use_poll=use_poll)
    hooks = PtyHooks(ctl, sched)
    outs = []
    hooks.install()
    try:
        for (size, timed) in calls:
            try:
                d = ctl.p.read_nonblocking(size, timeout=(0.3 if timed else 0))
                outs.append(('d', d))
            except pexpect.EOF:
                outs.append(('eof',))
                break
            except pexpect.TIMEOUT:
                outs.append(('timeout',))
            except Exception as ex:          # noqa
                outs.append(('exc', type(ex).__name__))
                break
    finally:
        hooks.remove()
    left = drain_leftover(ctl.p)
    res = dict(outs=outs, left=left, written=ctl.written, gaps=hooks.gaps, forced=ctl.forced, trace=hooks.trace)
    ctl.close()
    return res


def enc(b):
    return ','.join(str(x) for x in b) if b else '-'


def pty_model_line(script, sched, calls):
    acts = []
    for a in script:
        acts.append('W=' + enc(a[1]) if a[0] == 'W' else a[0])
    return 'PT %s @ %s @ %s' % (' '.join('%d:%d' % (s, 1 if t else 0) for s, t in calls), ' '.join(acts), ' '.join(map(str, sched)))


def canon_outs(outs):
    o = []
    for x in outs:
        if x[0] == 'd':
            o.append('d=' + enc(x[1]))
        else:
            o.append(x[0] if x[0] != 'exc' else 'exc:' + x[1])
    return ' '.join(o)


# ------------------------------------------------------------------------------------------- fd / socket

class FdPeer(object):
    """script: ('W', bytes) | ('C',) performed by the harness itself on the other end"""

    def __init__(self, script, kind):
        self.script = list(script)
        self.kind = kind
        self.written = b''
        self.open = True
        if kind == 'socket':
            self.rsock, self.wsock = socket.socketpair()
        else:
            self.rfd, self.wfd = os.pipe()

    def act1(self):
        if not self.script:
            return False
        a = self.script.pop(0)
        if a[0] == 'W':
            if self.open:
                if self.kind == 'socket':
                    self.wsock.sendall(a[1])
                else:
                    os.write(self.wfd, a[1])
                self.written += a[1]
        else:
            if self.open:
                if self.kind == 'socket':
                    self.wsock.close()
                else:
                    os.close(self.wfd)
                self.open = False
        return True

    def act(self, n):
        for _ in range(n):
            if not self.act1():
                return

    def readable(self):
        fd = self.rsock if self.kind == 'socket' else self.rfd
        return bool(select.select([fd], [], [], 0)[0])

    def cleanup(self):
        try:
            if self.open:
                if self.kind == 'socket':
                    self.wsock.close()
                else:
                    os.close(self.wfd)
        except OSError:
            pass


class SockProxy(object):
    """a socket whose recv() is a scheduled gap"""

    def __init__(self, sock, peer, hooks):
        self._s = sock; self._peer = peer; self._h = hooks

    def recv(self, n):
        # `with self._timeout(t)`: the socket timeout is the timed wait; model: acts one at a time until readable
        h = self._h
        k = h.nxt()
        t = self._s.gettimeout()
        if t == 0:
            self._peer.act(k)
        else:
            i = 0
            while not self._peer.readable() and i < k:
                if not self._peer.act1():
                    break
                i += 1
        if not self._peer.readable():
            if t == 0:
                raise BlockingIOError(errno.EAGAIN, 'would block')
            raise socket.timeout('timed out')
        self._peer.act(h.nxt())
        return self._s.recv(n)

    def __getattr__(self, k):
        return getattr(self._s, k)


class Gap(object):
    def __init__(self, sched):
        self.sched = list(sched); self.gaps = 0

    def nxt(self):
        self.gaps += 1
        return self.sched.pop(0) if self.sched else 0


def run_fd(kind, script, sched, sizes, use_poll=False, timed=True, encoding=None):
    """kind: 'fd' | 'socket'. Reads until EOF or sizes exhausted."""
    peer = FdPeer(script, kind)
    gap = Gap(sched)
    outs = []
    saved = (FD.select_ignore_interrupts, FD.poll_ignore_interrupts, SB.os)
    sock_timeout_before = sock_timeout_after = None
    try:
        if kind == 'fd':
            p = FD.fdspawn(peer.rfd, timeout=5, use_poll=use_poll, encoding=encoding)

            def wait(poll0, timeout):
                k = gap.nxt()
                if timeout == 0:
                    peer.act(k)
                else:
                    i = 0
                    while not poll0() and i < k:
                        if not peer.act1():
                            break
                        i += 1
                return poll0()

            def sel(r, w, e, timeout=None):
                return (r if wait(peer.readable, timeout) else [], [], [])

            def poll(fds, timeout=None):
                return fds if wait(peer.readable, timeout) else []

            def read(fd, n):
                if fd == peer.rfd:
                    peer.act(gap.nxt())
                return os.read(fd, n)
            FD.select_ignore_interrupts = sel
            FD.poll_ignore_interrupts = poll
            SB.os = OsProxy(read=read)
        else:
            peer.rsock.settimeout(7.5)
            sock_timeout_before = peer.rsock.gettimeout()
            p = SP.SocketSpawn(SockProxy(peer.rsock, peer, gap), timeout=5, encoding=encoding)
        for i, size in enumerate(sizes):
            if kind == 'socket' and i % 3 == 1:
                # the application changes the socket's own timeout after wrapping it: each read must leave what it finds
                peer.rsock.settimeout([3.25, None, 11.0, 7.5][(i // 3) % 4])
                sock_timeout_before = peer.rsock.gettimeout()
            try:
                d = p.read_nonblocking(size, timeout=(0.3 if timed else 0))
                outs.append(('d', d if isinstance(d, bytes) else d.encode('latin-1', 'replace')))
            except pexpect.EOF:
                outs.append(('eof',))
            except pexpect.TIMEOUT:
                outs.append(('timeout',))
            except Exception as ex:         # noqa
                outs.append(('exc', type(ex).__name__))
            if kind == 'socket' and peer.rsock.gettimeout() != sock_timeout_before and sock_timeout_after is None:
                sock_timeout_after = peer.rsock.gettimeout()          # the first read that did not leave the setting as found
            if outs[-1][0] in ('eof', 'exc'):
                break
        if kind == 'socket' and sock_timeout_after is None:
            sock_timeout_after = peer.rsock.gettimeout()
    finally:
        FD.select_ignore_interrupts, FD.poll_ignore_interrupts, SB.os = saved
    left = b''
    try:
        fd = peer.rsock.fileno() if kind == 'socket' else peer.rfd
        while select.select([fd], [], [], 0)[0]:
            d = os.read(fd, 65536)
            if not d:
                break
            left += d
    except OSError:
        pass
    peer.cleanup()
    try:
        if kind == 'socket':
            peer.rsock.close()
        else:
            os.close(peer.rfd)
    except OSError:
        pass
    return dict(outs=outs, left=left, written=peer.written, gaps=gap.gaps, sock_timeout=(sock_timeout_before, sock_timeout_after))


def fd_model_line(script, sched, sizes):
    acts = ['W=' + enc(a[1]) if a[0] == 'W' else 'C' for a in script]
    return 'PF %s @ %s @ %s' % (' '.join(map(str, sizes)), ' '.join(acts), ' '.join(map(str, sched)))


# --------------------------------------------------------------------------------------------------- popen

POPEN_CHILD = r'''
import os, sys
ctl = os.open(sys.argv[1], os.O_RDONLY); ack = os.open(sys.argv[2], os.O_WRONLY)
os.write(ack, b'R')
while True:
    c = os.read(ctl, 1)
    if not c or c == b'E':
        os.write(ack, b'k'); os._exit(0)
    if c == b'W':
        n = int.from_bytes(os.read(ctl, 4), 'big')
        data = b''
        while len(data) < n:
            data += os.read(ctl, n - len(data))
        os.write(1, data); os.write(ack, b'k')
'''


def run_popen(script, sizes, gaps_between=0.0, encoding=None, timeout=0.05, adversarial=0):
    """script: ('W', bytes) | ('E',); the harness performs one peer action before each read (None-padded).
    adversarial=k > 0: the next k peer actions happen, and the reader thread handles them (queues the data / the end marker and, after an exit,
    finishes), in the window right after the consumer found the queue empty - the schedule in which the thread overtakes read_nonblocking."""
    d = tempfile.mkdtemp(prefix='verif_po_')
    c = os.path.join(d, 'c'); a = os.path.join(d, 'a')
    os.mkfifo(c); os.mkfifo(a)
    p = PO.PopenSpawn([common.PY, '-c', POPEN_CHILD, c, a], timeout=5, encoding=encoding)
    cw = os.open(c, os.O_WRONLY); ar = os.open(a, os.O_RDONLY)
    assert os.read(ar, 1) == b'R'
    written = b''
    outs = []
    script = list(script)
    exited = False
    st = dict(written=b'', exited=False)
    deferred = []

    def perform(act):
        q0 = common.qlen(p)
        if act[0] == 'W':
            os.write(cw, b'W' + len(act[1]).to_bytes(4, 'big') + act[1]); os.read(ar, 1)
            st['written'] += act[1]
        elif not st['exited']:
            os.write(cw, b'E'); os.read(ar, 1); st['exited'] = True
        return q0
    def run_deferred():
        while deferred:
            act = deferred.pop(0)
            q0 = perform(act)
            t0 = time.time()
            if act[0] == 'W':
                while common.qlen(p) <= q0 and time.time() - t0 < 2:
                    time.sleep(0.0005)
            else:
                p._read_thread.join(2)
    if adversarial and not hasattr(p._read_queue, 'get_nowait'):
        # another container than queue.Queue between the reader thread and read_nonblocking: the reader thread overtakes the consumer right
        # before each of the consumer's mutating operations on it (clear / pop / popleft / remove ...), i.e. after whatever it looked at before
        import threading as _th

        class Overtaken(object):
            def __init__(self, q):
                object.__setattr__(self, '_q', q)

            def __getattr__(self, name):
                a = getattr(object.__getattribute__(self, '_q'), name)
                if callable(a) and _th.current_thread() is _th.main_thread() and name in ('clear', 'pop', 'popleft', 'remove', 'get'):
                    def w(*args, **kw):
                        run_deferred()
                        return a(*args, **kw)
                    return w
                return a

            def __iter__(self):
                return iter(object.__getattribute__(self, '_q'))

            def __len__(self):
                return len(object.__getattribute__(self, '_q'))

            def __bool__(self):
                return bool(object.__getattribute__(self, '_q'))

            def __getitem__(self, k):
                return object.__getattribute__(self, '_q')[k]
        p._read_queue = Overtaken(p._read_queue)
    elif adversarial:
        import queue as _q
        orig_get = p._read_queue.get_nowait

        def get_nowait():
            try:
                return orig_get()
            except _q.Empty:
                while deferred:
                    act = deferred.pop(0)
                    q0 = perform(act)
                    t0 = time.time()
                    if act[0] == 'W':
                        while common.qlen(p) <= q0 and time.time() - t0 < 2:
                            time.sleep(0.0005)
                    else:
                        p._read_thread.join(2)
                raise
        p._read_queue.get_nowait = get_nowait
    try:
        for size in sizes:
            if script and adversarial:
                for _ in range(adversarial):
                    if script:
                        deferred.append(script.pop(0))
            elif script:
                perform(script.pop(0))
            try:
                r = p.read_nonblocking(size, timeout)
                outs.append(('d', r))
            except pexpect.EOF:
                outs.append(('eof',)); break
            except Exception as ex:       # noqa
                outs.append(('exc', type(ex).__name__)); break
            while deferred:               # the read never found the queue empty
                perform(deferred.pop(0))
            if gaps_between:
                time.sleep(gaps_between)
        # finish: make the child exit and read to EOF
        if not st['exited']:
            for act in script:
                if act[0] == 'W':
                    perform(act)
            perform(('E',))
        tail = []
        t0 = time.time()
        while (not outs or outs[-1][0] != 'eof') and time.time() - t0 < 10:
            try:
                r = p.read_nonblocking(sizes[-1] if sizes else 100, timeout)
                tail.append(r)
                if not r:
                    time.sleep(0.002)
            except pexpect.EOF:
                outs.append(('eof',))
    finally:
        for fd in (cw, ar):
            try:
                os.close(fd)
            except OSError:
                pass
        try:
            p.proc.kill()
        except Exception:
            pass
        try:
            p.proc.wait()
            p.proc.stdout.close(); p.proc.stdin.close()
        except Exception:
            pass
        shutil.rmtree(d, ignore_errors=True)
    return dict(outs=outs, tail=tail, written=st['written'])
