"""Virtual clock for the real transports (C05, also C12/C17): `time.time` / `time.sleep` seen by the pexpect modules
and every blocking wait are replaced; peer actions are *arrivals* at absolute virtual times.

A blocking wait of `t` seconds: if the descriptor is ready return at once; otherwise jump to the next arrival if it
is due within `t`, perform it and look again; otherwise jump `t` ahead and report "not ready".
"""
import os, sys, time as real_time, select, errno, socket

from lib import common
common.repo_on_path()
import pexpect
import pexpect.expect as EX
import pexpect.pty_spawn as PS
import pexpect.spawnbase as SB
import pexpect.fdpexpect as FD
import pexpect.popen_spawn as PO
import pexpect.utils as UT
import ptyprocess.ptyprocess as PP
from drivers import transports as T


class WouldBlockForever(Exception):
    pass


class RanAway(BaseException):
    """virtual time passed the scenario's horizon: the code under test keeps polling / sleeping long after its deadline.
    (BaseException so that no `except Exception` in the code under test swallows it.)"""


class VClock(object):
    def __init__(self, tick=1e-5):
        self.now = 1000.0
        self.tick = tick
        self.arrivals = []          # [abs_time, callable]
        self.log = []
        self.horizon = None         # absolute virtual time after which the scenario is aborted
        self.interrupts = []        # absolute virtual times at which a signal with a Python handler arrives
        self.handler_cost = 0.0     # virtual seconds the handler runs
        self.eintr = 0              # how many waits were interrupted

    def schedule(self, rel_times_and_actions):
        t = self.now
        for dt, fn in rel_times_and_actions:
            t += dt
            self.arrivals.append([t, fn])

    def due(self):
        while self.arrivals and self.arrivals[0][0] <= self.now + 1e-12:
            _, fn = self.arrivals.pop(0)
            fn()

    def check_horizon(self):
        if self.horizon is not None and self.now > self.horizon:
            self.horizon = None
            raise RanAway()

    def time(self):
        self.now += self.tick
        self.due()
        self.check_horizon()
        return self.now

    def sleep(self, dt):
        self.now += max(0.0, dt)
        self.due()
        self.check_horizon()

    def wait(self, ready, timeout, interruptible=False):
        """the blocking wait; returns ready() at the end.  interruptible: a signal that arrives while the call sleeps makes it fail with
        EINTR after the handler has run (select / poll as the wrappers in pexpect.utils were written for; CPython >= 3.5 restarts the call itself
        unless the handler raises, so on a real system those branches run only for handlers that raise InterruptedError)"""
        self.now += self.tick
        self.due()
        self.check_horizon()
        while self.interrupts and self.interrupts[0] <= self.now:
            self.interrupts.pop(0)          # arrived while no call was sleeping: the handler ran between two bytecodes
        if ready():
            return True
        if timeout == 0:
            return False
        end = None if timeout is None else self.now + max(0.0, timeout)
        while True:
            if interruptible and self.interrupts and (end is None or self.interrupts[0] < end) and \
                    (not self.arrivals or self.interrupts[0] < self.arrivals[0][0]):
                self.now = max(self.now, self.interrupts.pop(0)) + self.handler_cost
                self.eintr += 1
                self.due()
                self.check_horizon()
                raise InterruptedError(errno.EINTR, 'Interrupted system call')
            if self.arrivals and (end is None or self.arrivals[0][0] <= end):
                self.now = max(self.now, self.arrivals[0][0])
                self.due()
                if ready():
                    return True
                continue
            if end is None:
                raise WouldBlockForever()
            self.now = end
            return False

    def __getattr__(self, k):
        return getattr(real_time, k)


class PollProxy(object):
    def __init__(self, clk):
        self.clk = clk
        self.p = select.poll()

    def register(self, fd, mask=select.POLLIN | select.POLLPRI | select.POLLOUT):
        self.p.register(fd, mask)

    def unregister(self, fd):
        self.p.unregister(fd)

    def poll(self, timeout_ms=None):
        import math
        if timeout_ms is not None and timeout_ms < 0:
            timeout_ms = None                       # poll(2): a negative timeout means "no timeout"
        t = None if timeout_ms is None else math.ceil(timeout_ms) / 1000.0     # CPython rounds the timeout up to a whole millisecond
        ok = self.clk.wait(lambda: bool(self.p.poll(0)), t, interruptible=True)
        return self.p.poll(0) if ok else []


class SelectProxy(object):
    """what `pexpect.utils` sees as the `select` module: the real wrappers (select_ignore_interrupts / poll_ignore_interrupts)
    stay under test, only the system calls underneath them wait in virtual time"""

    def __init__(self, clk):
        self.clk = clk

    def select(self, r, w, e, timeout=None):
        if timeout is not None and timeout < 0:
            raise ValueError('timeout must be non-negative')
        ok = self.clk.wait(lambda: bool(select.select(r, w, e, 0)[0]), timeout, interruptible=True)
        return select.select(r, w, e, 0) if ok else ([], [], [])

    def poll(self):
        return PollProxy(self.clk)

    def __getattr__(self, k):
        return getattr(select, k)


class Install(object):
    """context manager: virtual time in the pexpect modules, waits of the given spawn routed through the clock"""

    def __init__(self, clk, kind, p=None, peer=None, ctl=None):
        self.clk, self.kind, self.p, self.peer, self.ctl = clk, kind, p, peer, ctl

    def __enter__(self):
        clk = self.clk
        self.saved = dict(EX=EX.time, PS=PS.time, PO=PO.time, UT=UT.time, UTsel=UT.select, SBos=SB.os, PPos=PP.os)
        EX.time = clk; PS.time = clk; PO.time = clk; UT.time = clk
        # the wrappers in pexpect.utils run for real; the `select` module they call waits in virtual time
        UT.select = SelectProxy(clk)
        ctl = self.ctl

        def waitpid(pid, opt):
            clk.now += clk.tick
            clk.due()
            if ctl is not None and pid == ctl.p.pid and opt == 0 and ctl.state() not in ('Z', 'X'):
                # a blocking waitpid on a live child: it returns when the child exits, i.e. at the arrival of its exit
                while ctl.state() not in ('Z', 'X'):
                    if not clk.arrivals:
                        raise WouldBlockForever()
                    clk.now = max(clk.now, clk.arrivals[0][0])
                    clk.due()
            return os.waitpid(pid, opt)
        PP.os = T.OsProxy(waitpid=waitpid)
        return self

    def __exit__(self, *a):
        s = self.saved
        EX.time = s['EX']; PS.time = s['PS']; PO.time = s['PO']; UT.time = s['UT']
        UT.select = s['UTsel']
        SB.os = s['SBos']; PP.os = s['PPos']
        return False


class VSock(object):
    """socket proxy: recv honours the socket timeout in virtual time"""

    def __init__(self, sock, clk):
        self._s = sock; self._clk = clk

    def recv(self, n):
        t = self._s.gettimeout()
        ok = self._clk.wait(lambda: bool(select.select([self._s], [], [], 0)[0]), t)
        if not ok:
            if t == 0:
                raise BlockingIOError(errno.EAGAIN, 'would block')
            raise socket.timeout('timed out')
        return self._s.recv(n)

    def __getattr__(self, k):
        return getattr(self._s, k)


def instrument_reads(p, clk, log):
    """record (virtual entry time, exit time, outcome kind) of every read_nonblocking of this object"""
    orig = p.read_nonblocking

    def rn(size=1, timeout=-1):
        t0 = clk.now
        try:
            d = orig(size, timeout)
            log.append([t0, clk.now, 'data', len(d), timeout])
            return d
        except pexpect.EOF:
            log.append([t0, clk.now, 'eof', 0, timeout]); raise
        except pexpect.TIMEOUT:
            log.append([t0, clk.now, 'timeout', 0, timeout]); raise
    p.read_nonblocking = rn
