"""Child started by the C13 harness: reports how it was launched, as one JSON line between markers."""
import sys, os, json, signal
info = dict(argv=sys.argv[1:], cwd=os.getcwd(), env={k: v for k, v in os.environ.items() if k.startswith('VPROBE_')},
            path=os.environ.get('PATH'), nenv=len(os.environ))
try:
    import termios, fcntl, struct
    rows, cols = struct.unpack('hhhh', fcntl.ioctl(0, termios.TIOCGWINSZ, b'\0' * 8))[:2]
    info['winsize'] = [rows, cols]
    info['echo'] = bool(termios.tcgetattr(0)[3] & termios.ECHO)
except Exception as e:
    info['tty_error'] = repr(e)
info['sighup_ignored'] = (signal.getsignal(signal.SIGHUP) == signal.SIG_IGN)
um = os.umask(0); os.umask(um)
info['umask'] = um
info['argv_hex'] = [os.fsencode(a).hex() for a in sys.argv[1:]]
sys.stdout.write('<<<' + json.dumps(info) + '>>>\n')
sys.stdout.flush()
