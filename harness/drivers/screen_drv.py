"""Real-code driver, reference grid and generators for pexpect.screen (C19; reused by C18)."""
import warnings, itertools
warnings.simplefilter('ignore')
from lib import common
common.repo_on_path()
from pexpect import screen as SCR

# op = [name, args...]; ch arguments are code points; 'B' suffix on the name = pass the character as bytes (latin-1)
OPS = {
    'pa': ('put_abs', 3), 'pu': ('put', 1), 'ia': ('insert_abs', 3), 'in': ('insert', 1), 'fi': ('fill', 1), 'fr': ('fill_region', 5),
    'ch': ('cursor_home', 2), 'cb': ('cursor_back', 1), 'cd': ('cursor_down', 1), 'cf': ('cursor_forward', 1), 'cu': ('cursor_up', 1),
    'ur': ('cursor_up_reverse', 0), 'cs': ('cursor_save_attrs', 0), 'cr_': ('cursor_restore_attrs', 0),
    'ss': ('scroll_screen', 0), 'sr': ('scroll_screen_rows', 2), 'su': ('scroll_up', 0), 'sd': ('scroll_down', 0),
    'ee': ('erase_end_of_line', 0), 'es': ('erase_start_of_line', 0), 'el': ('erase_line', 0), 'ed': ('erase_down', 0),
    'eu': ('erase_up', 0), 'ec': ('erase_screen', 0), 'CR': ('cr', 0), 'LF': ('lf', 0), 'CL': ('crlf', 0),
    'g': ('get', 0), 'ga': ('get_abs', 2), 'gr': ('get_region', 4),
}
ALIASES = {'cs': ['cursor_save_attrs', 'cursor_save'], 'cr_': ['cursor_restore_attrs', 'cursor_unsave'], 'CL': ['crlf', 'newline'],
           'ch': ['cursor_home', 'cursor_force_position']}
CHAR_LAST = {'pa', 'pu', 'ia', 'in', 'fi', 'fr'}


def tok(op):
    return ':'.join([op[0].rstrip('B')] + [str(a) for a in op[1:]])


def model_line(rows, cols, ops):
    return 'SC %d %d %s' % (rows, cols, ' '.join(tok(o) for o in ops))


def enc(s):
    return ','.join(str(ord(c)) for c in s) if s else '-'


BYSTANDERS = {}


def run_real(rows, cols, ops, alias_pick=0):
    s = SCR.screen(rows, cols)
    qs = []
    # one case in four: another screen of the same size lives on from earlier cases and is written to, scrolled and re-configured between
    # this screen's operations, and a third one is constructed - a screen's cells, cursor, saved cursor and scroll region are its own
    other = None
    if alias_pick % 4 == 1:
        other = BYSTANDERS.get((rows, cols))
        if other is None:
            other = BYSTANDERS[(rows, cols)] = SCR.screen(rows, cols)
    for k, op in enumerate(ops):
        if other is not None:
            other.put_abs(1 + k % rows, 1 + k % cols, '#')
            other.cursor_home(rows, cols); other.cursor_save_attrs()
            other.scroll_screen_rows(1, 1) if k % 2 else other.scroll_screen()
            other.scroll_down()
            SCR.screen(rows, cols).put_abs(1, 1, '%')
        name = op[0]
        asbytes = name.endswith('B')
        name = name.rstrip('B')
        meth = ALIASES.get(name, [OPS[name][0]])
        meth = meth[alias_pick % len(meth)]
        args = list(op[1:])
        if name in CHAR_LAST:
            ch = chr(args[-1])
            args[-1] = ch.encode('latin-1') if asbytes else ch
        r = getattr(s, meth)(*args)
        if name == 'g' or name == 'ga':
            qs.append('EXC:None' if r is None else str(ord(r)))
        elif name == 'gr':
            qs.append(';'.join(enc(l) for l in r))
        # the accessors are read after *every* operation (a rendering computed earlier must not survive a later change):
        # str(), dump() and pretty() all describe the grid as it is now
        rows_now = [''.join(x if isinstance(x, str) else x.decode('latin-1') for x in r_) for r_ in s.w]
        if str(s) != '\n'.join(rows_now):
            qs.append('STALE:str after %s' % name)
        if s.dump() != ''.join(rows_now):
            qs.append('STALE:dump after %s' % name)
        top = '+' + '-' * s.cols + '+\n'
        if s.pretty() != top + '\n'.join('|' + l + '|' for l in rows_now) + '\n' + top:
            qs.append('STALE:pretty after %s' % name)
    return s, qs


def show_state(s):
    return 'w=%s c=%d,%d s=%d,%d g=%d,%d d=%s t=%s p=%s' % (
        ';'.join(enc(''.join(r)) for r in s.w), s.cur_r, s.cur_c, s.cur_saved_r, s.cur_saved_c, s.scroll_row_start, s.scroll_row_end,
        enc(s.dump()), enc(str(s)), enc(s.pretty()))


def real_line(rows, cols, ops, alias_pick=0):
    try:
        s, qs = run_real(rows, cols, ops, alias_pick)
    except Exception as e:
        return 'EXC:%s' % type(e).__name__
    return ' '.join(qs) + ' # ' + show_state(s)


# ------------------------------------------------------------------ the straightforward reference grid

def clamp(n, lo, hi):
    return lo if n < lo else hi if n > hi else n


class Ref(object):
    """cells in a dict keyed by 1-based (row, col); every operation written from its documentation"""

    def __init__(self, rows, cols):
        self.rows, self.cols = rows, cols
        self.g = {(r, c): ' ' for r in range(1, rows + 1) for c in range(1, cols + 1)}
        self.cur = [1, 1]
        self.sav = [1, 1]
        self.reg = [1, rows]

    def rc(self, r, c):
        return clamp(r, 1, self.rows), clamp(c, 1, self.cols)

    def rect(self, rs, cs, re, ce):
        rs, cs = self.rc(rs, cs); re, ce = self.rc(re, ce)
        return min(rs, re), min(cs, ce), max(rs, re), max(cs, ce)

    def fill_rect(self, rs, cs, re, ce, ch):
        rs, cs, re, ce = self.rect(rs, cs, re, ce)
        for r in range(rs, re + 1):
            for c in range(cs, ce + 1):
                self.g[(r, c)] = ch

    def move(self, r, c):
        self.cur = list(self.rc(r, c))

    def scroll(self, up):
        s, e = self.reg
        if s > e:
            return
        rows = list(range(s, e + 1))
        old = dict(self.g)
        for r in rows:
            src = r + 1 if up else r - 1
            if s <= src <= e:
                for c in range(1, self.cols + 1):
                    self.g[(r, c)] = old[(src, c)]

    def do(self, op):
        n = op[0].rstrip('B'); a = op[1:]
        R, C = self.cur
        if n == 'pa':
            self.g[self.rc(a[0], a[1])] = chr(a[2])
        elif n == 'pu':
            self.g[(R, C)] = chr(a[0])
        elif n in ('ia', 'in'):
            r, c = self.rc(a[0], a[1]) if n == 'ia' else (R, C)
            ch = chr(a[-1])
            old = dict(self.g)
            for cc in range(c + 1, self.cols + 1):
                self.g[(r, cc)] = old[(r, cc - 1)]
            self.g[(r, c)] = ch
        elif n == 'fi':
            self.fill_rect(1, 1, self.rows, self.cols, chr(a[0]))
        elif n == 'fr':
            self.fill_rect(a[0], a[1], a[2], a[3], chr(a[4]))
        elif n == 'ch':
            self.move(a[0], a[1])
        elif n == 'cb':
            self.move(R, C - a[0])
        elif n == 'cf':
            self.move(R, C + a[0])
        elif n == 'cd':
            self.move(R + a[0], C)
        elif n == 'cu':
            self.move(R - a[0], C)
        elif n == 'ur':
            if R == 1:
                self.scroll(True)
            else:
                self.move(R - 1, C)
        elif n == 'cs':
            self.sav = [R, C]
        elif n == 'cr_':
            self.move(*self.sav)
        elif n == 'ss':
            self.reg = [1, self.rows]
        elif n == 'sr':
            self.reg = [clamp(a[0], 1, self.rows), clamp(a[1], 1, self.rows)]
        elif n == 'su':
            self.scroll(True)
        elif n == 'sd':
            self.scroll(False)
        elif n == 'ee':
            self.fill_rect(R, C, R, self.cols, ' ')
        elif n == 'es':
            self.fill_rect(R, 1, R, C, ' ')
        elif n == 'el':
            self.fill_rect(R, 1, R, self.cols, ' ')
        elif n == 'ed':
            self.fill_rect(R, C, R, self.cols, ' ')
            if R < self.rows:
                self.fill_rect(R + 1, 1, self.rows, self.cols, ' ')
        elif n == 'eu':
            self.fill_rect(R, 1, R, C, ' ')
            if R > 1:
                self.fill_rect(1, 1, R - 1, self.cols, ' ')
        elif n == 'ec':
            self.fill_rect(1, 1, self.rows, self.cols, ' ')
        elif n == 'CR':
            self.move(R, 1)
        elif n in ('LF', 'CL'):
            if n == 'CL':
                self.move(R, 1); R, C = self.cur
            if R == self.rows:
                self.scroll(True)
                self.fill_rect(R, 1, R, self.cols, ' ')
            else:
                self.move(R + 1, C)
        elif n == 'g':
            return str(ord(self.g[(R, C)]))
        elif n == 'ga':
            return str(ord(self.g[self.rc(a[0], a[1])]))
        elif n == 'gr':
            rs, cs, re, ce = self.rect(*a)
            return ';'.join(enc(''.join(self.g[(r, c)] for c in range(cs, ce + 1))) for r in range(rs, re + 1))
        return None

    def rows_text(self):
        return [''.join(self.g[(r, c)] for c in range(1, self.cols + 1)) for r in range(1, self.rows + 1)]

    def show(self):
        rows = self.rows_text()
        top = '+' + '-' * self.cols + '+\n'
        pretty = top + '\n'.join('|' + l + '|' for l in rows) + '\n' + top
        return 'w=%s c=%d,%d s=%d,%d g=%d,%d d=%s t=%s p=%s' % (
            ';'.join(enc(r) for r in rows), self.cur[0], self.cur[1], self.sav[0], self.sav[1], self.reg[0], self.reg[1],
            enc(''.join(rows)), enc('\n'.join(rows)), enc(pretty))


def ref_line(rows, cols, ops):
    ref = Ref(rows, cols)
    qs = []
    for op in ops:
        q = ref.do(op)
        if q is not None:
            qs.append(q)
    return ' '.join(qs) + ' # ' + ref.show()


# -------------------------------------------------------------------------------------- generators

def coord_classes(size):
    return sorted(set([-3, 0, 1, 2, max(1, size // 2), size - 1, size, size + 1, size + 7]))


def rand_coord(rng, size):
    return rng.choice(coord_classes(size))


def rand_op(rng, rows, cols, chars, allow_bytes=True):
    name = rng.choice(list(OPS))
    k = OPS[name][1]
    R = lambda: rand_coord(rng, rows)
    C = lambda: rand_coord(rng, cols)
    ch = ord(rng.choice(chars))
    suffix = 'B' if (allow_bytes and name in CHAR_LAST and ch < 256 and rng.random() < 0.25) else ''
    if name in ('pa', 'ia'):
        return [name + suffix, R(), C(), ch]
    if name in ('pu', 'in', 'fi'):
        return [name + suffix, ch]
    if name == 'fr':
        return [name + suffix, R(), C(), R(), C(), ch]
    if name in ('ch', 'ga'):
        return [name, R(), C()]
    if name in ('cb', 'cf'):
        return [name, rng.choice([-2, 0, 1, 1, 2, cols, cols + 3])]
    if name in ('cd', 'cu'):
        return [name, rng.choice([-2, 0, 1, 1, 2, rows, rows + 3])]
    if name == 'sr':
        return [name, R(), R()]
    if name == 'gr':
        return [name, R(), C(), R(), C()]
    return [name]


def all_ops_small(rows, cols, ch=120):
    """every op with every argument-class combination (one character), for exhaustive short sequences"""
    out = []
    rs, cs = [0, 1, rows, rows + 1], [0, 1, cols, cols + 1]
    for name, (_, k) in OPS.items():
        if name in ('pa', 'ia'):
            out += [[name, r, c, ch] for r in rs for c in cs]
        elif name in ('pu', 'in', 'fi'):
            out.append([name, ch])
        elif name == 'fr':
            out += [[name, r1, c1, r2, c2, ch] for r1 in (0, rows) for c1 in (1, cols + 1) for r2 in (1, rows + 1) for c2 in (0, cols)]
        elif name in ('ch', 'ga'):
            out += [[name, r, c] for r in rs for c in cs]
        elif name in ('cb', 'cf'):
            out += [[name, n] for n in (-1, 0, 1, cols + 1)]
        elif name in ('cd', 'cu'):
            out += [[name, n] for n in (-1, 0, 1, rows + 1)]
        elif name == 'sr':
            out += [[name, a, b] for a in rs for b in rs]
        elif name == 'gr':
            out += [[name, 0, 1, rows + 1, cols], [name, rows, cols, 1, 1]]
        else:
            out.append([name])
    return out
