"""A real spawn object on each transport with a cooperating peer (C07, C08, C11):
the peer writes exactly the chunks it is told to (so read boundaries fall where the case wants them) and reports
byte for byte what it received."""
import os, sys, time, socket, select, tempfile, shutil, codecs

from lib import common
common.repo_on_path()
import pexpect
from pexpect import fdpexpect, socket_pexpect, popen_spawn

CHILD = r'''
import os, sys, select
raw = sys.argv[3] == 'pty'
if raw:
    import tty
    tty.setraw(0)
ctl = os.open(sys.argv[1], os.O_RDONLY); ack = os.open(sys.argv[2], os.O_WRONLY)
os.write(ack, b'R')
while True:
    c = os.read(ctl, 1)
    if not c or c == b'E':
        os.write(ack, b'k'); os._exit(0)
    if c == b'W':
        n = int.from_bytes(os.read(ctl, 4), 'big')
        data = b''
        while len(data) < n:
            data += os.read(ctl, n - len(data))
        os.write(1, data); os.write(ack, b'k')
    elif c == b'G':            # report what arrived on stdin so far
        want = int.from_bytes(os.read(ctl, 4), 'big')
        got = b''
        t = 0
        while len(got) < want and t < 400:
            if select.select([0], [], [], 0.005)[0]:
                d = os.read(0, 65536)
                if not d:
                    break
                got += d
            else:
                t += 1
        while select.select([0], [], [], 0.01)[0]:
            d = os.read(0, 65536)
            if not d:
                break
            got += d
        os.write(ack, len(got).to_bytes(4, 'big') + got)
'''


class RecLog(object):
    """records write / flush calls and argument types.  Every other instance also looks like an interactive text stream (the attributes
    sys.stdout has on a terminal): what a log file says about itself does not change what it is owed - a write and a flush per piece."""
    _made = 0

    def __init__(self):
        self.ev = []
        RecLog._made += 1
        self._tty = RecLog._made % 2 == 0
        if self._tty:
            self.line_buffering = True
            self.write_through = False
            self.closed = False
            self.name = '<stdout>'
            self.mode = 'w'
            self.encoding = 'utf-8'
            self.errors = 'strict'
            self.newlines = None

    def isatty(self):
        return self._tty

    def writable(self):
        return True

    def write(self, s):
        self.ev.append(('w', s))

    def flush(self):
        self.ev.append(('f',))


class Session(object):
    def __init__(self, transport, encoding=None, errors='strict', logs=('logfile', 'logfile_read', 'logfile_send'), maxread=65536, logfile_by_ctor=False):
        self.transport = transport
        self.encoding = encoding
        self.d = None
        kw = dict(encoding=encoding, codec_errors=errors, timeout=5, maxread=maxread)
        self.logs = {}
        if logfile_by_ctor and 'logfile' in logs:
            # the documented constructor argument of every spawn class, instead of assigning the attribute afterwards
            self.logs['logfile'] = RecLog()
            kw['logfile'] = self.logs['logfile']
        if transport in ('fd', 'socket'):
            self.a, self.b = socket.socketpair()
            self.b.setblocking(False)
            if transport == 'fd':
                self.p = fdpexpect.fdspawn(self.a.fileno(), **kw)
            else:
                self.p = socket_pexpect.SocketSpawn(self.a, **kw)
        else:
            self.d = tempfile.mkdtemp(prefix='verif_ses_')
            c = os.path.join(self.d, 'c'); a = os.path.join(self.d, 'a')
            os.mkfifo(c); os.mkfifo(a)
            if transport == 'pty':
                self.p = pexpect.spawn(common.PY, ['-c', CHILD, c, a, 'pty'], echo=False, **kw)
                self.p.delaybeforesend = None
            else:
                self.p = popen_spawn.PopenSpawn([common.PY, '-c', CHILD, c, a, 'popen'], **kw)
            self.cw = os.open(c, os.O_WRONLY); self.ar = os.open(a, os.O_RDONLY)
            assert os.read(self.ar, 1) == b'R'
        for name in logs:
            if name in self.logs:
                continue
            self.logs[name] = RecLog()
            setattr(self.p, name, self.logs[name])
        self.sent_total = 0

    # ------------------------------------------------------------------ peer -> spawn
    def peer_write(self, data):
        if self.transport in ('fd', 'socket'):
            self.b.setblocking(True); self.b.sendall(data); self.b.setblocking(False)
        else:
            q0 = common.qlen(self.p) if self.transport == 'popen' else None
            os.write(self.cw, b'W' + len(data).to_bytes(4, 'big') + data)
            assert os.read(self.ar, 1) == b'k'
            if self.transport == 'popen':
                for _ in range(4000):
                    if common.qlen(self.p) > q0:
                        break
                    time.sleep(0.0005)
                time.sleep(0.002)
            else:
                self._wait_inq(len(data))

    def _wait_inq(self, n):
        import fcntl, termios, struct
        for _ in range(4000):
            try:
                k = struct.unpack('i', fcntl.ioctl(self.p.child_fd, termios.FIONREAD, b'\0\0\0\0'))[0]
            except OSError:
                return
            if k >= min(n, 4095):
                return
            time.sleep(0.00025)

    def read(self, size=65536):
        """one transport read; returns the delivered value or an exception token"""
        try:
            if self.transport == 'popen':
                return self.p.read_nonblocking(size, 1)
            return self.p.read_nonblocking(size, timeout=1)
        except pexpect.EOF:
            return ('EOF',)
        except pexpect.TIMEOUT:
            return ('TIMEOUT',)
        except Exception as e:       # noqa
            return ('EXC', type(e).__name__)

    # ------------------------------------------------------------------ spawn -> peer
    def peer_received(self, expect_len):
        if self.transport in ('fd', 'socket'):
            got = b''
            t = 0
            while len(got) < expect_len and t < 400:
                if select.select([self.b], [], [], 0.005)[0]:
                    d = self.b.recv(1 << 20)
                    if not d:
                        break
                    got += d
                else:
                    t += 1
            while select.select([self.b], [], [], 0.01)[0]:
                d = self.b.recv(1 << 20)
                if not d:
                    break
                got += d
            return got
        os.write(self.cw, b'G' + expect_len.to_bytes(4, 'big'))
        n = int.from_bytes(self._readn(4), 'big')
        return self._readn(n)

    def _readn(self, n):
        got = b''
        while len(got) < n:
            d = os.read(self.ar, n - len(got))
            if not d:
                break
            got += d
        return got

    def close(self):
        try:
            if self.transport in ('fd', 'socket'):
                try:
                    self.p.close()
                except Exception:
                    pass
                for s in (self.a, self.b):
                    try:
                        s.close()
                    except Exception:
                        pass
            else:
                try:
                    os.write(self.cw, b'E'); os.read(self.ar, 1)
                except OSError:
                    pass
                for fd in (self.cw, self.ar):
                    try:
                        os.close(fd)
                    except OSError:
                        pass
                if self.transport == 'pty':
                    self.p.close(force=True)
                else:
                    try:
                        self.p.proc.stdin.close()
                    except Exception:
                        pass
                    self.p.proc.wait(); self.p.proc.stdout.close()
        finally:
            if self.d:
                shutil.rmtree(self.d, ignore_errors=True)


def enc_text(v):
    if isinstance(v, bytes):
        return ','.join(str(x) for x in v) if v else '-'
    return ','.join(str(ord(c)) for c in v) if v else '-'


def log_events(rec):
    out = []
    for e in rec.ev:
        if e[0] == 'f':
            out.append('f')
        else:
            out.append(e[1])
    return out
