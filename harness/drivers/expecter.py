"""Scripted-transport driver for the Expecter family (C01-C04, also used by C12/C14/C20).

A *case* is JSON-able:
  {'mode': 'b'|'u', 'ops': [op...], 'script': [ev...]}
  op  = {'k': 'x'|'r'|'b'|'read'|'readline', 'W': None|int, 'pats': [pat...], 'ic': bool, 'via': 'arg'|'attr', 'v': text, 'n': int}
  pat = ['E'] | ['T'] | ['s', text] | ['re', flags, ast]          (ast: nested lists, see render())
  ev  = ['d', text] | ['E'] | ['T'] | ['X']                       (X = the deadline passes after the previous read)
text is a Python str of code points; in bytes mode it is encoded latin-1.
"""
import sys, os, re, collections, itertools

from lib import common
common.repo_on_path()
import pexpect
from pexpect import spawnbase, EOF, TIMEOUT
import pexpect.expect as pexpect_expect


class FakeTime(object):
    def __init__(self):
        self.now = 1000.0

    def time(self):
        self.now += 1e-6
        return self.now

    def sleep(self, s):
        self.now += max(0.0, s)

    def jump(self):
        self.now += 1e9


class Scripted(spawnbase.SpawnBase):
    """SpawnBase with a scripted read_nonblocking; the Expecter code under test is untouched."""

    def __init__(self, script, mode, clock):
        super(Scripted, self).__init__(timeout=30, encoding=('utf-8' if mode == 'u' else None))
        self.mode = mode
        self.queue = collections.deque(script)
        self.clock = clock
        self.closed = False
        self.delayafterread = None
        self.delivered = []       # data chunks handed to the Expecter, in order
        self.reads = 0

    def conv(self, text):
        return text if self.mode == 'u' else text.encode('latin-1')

    def read_nonblocking(self, size=1, timeout=-1):
        self.reads += 1
        if not self.queue:
            raise TIMEOUT('script exhausted')
        ev = self.queue[0]
        if ev[0] == 'E':
            self.flag_eof = True
            raise EOF('scripted EOF')
        self.queue.popleft()
        if ev[0] == 'T':
            raise TIMEOUT('scripted TIMEOUT')
        if ev[0] == 'X':          # stray expiry not preceded by data: behaves as a TIMEOUT from the transport
            raise TIMEOUT('scripted expiry')
        data = self.conv(ev[1])
        if self.queue and self.queue[0][0] == 'X':
            self.x_armed = True       # the deadline passes now; the X is consumed only if the call times out
            self.clock.jump()
        if getattr(self, 'eager_eof', False) and self.queue and self.queue[0][0] == 'E':
            # what pexpect.spawn.read_nonblocking does when the last output and the hang-up are there together: it tops the read up, meets
            # the end of the stream, keeps that to itself (flag_eof is set) and returns the data; the EOF is reported by the next read
            self.flag_eof = True
        self.delivered.append(data)
        return data

    def __str__(self):
        return '<scripted spawn>'


# ---------------------------------------------------------------------------------------- regex ASTs

def nullable(a):
    t = a[0]
    if t in ('chr', 'any', 'cls'):
        return False
    if t in ('bol', 'eol', 'eos', 'empty', 'look', 'star', 'opt'):
        return True
    if t == 'seq':
        return nullable(a[1]) and nullable(a[2])
    if t == 'alt':
        return nullable(a[1]) or nullable(a[2])
    if t == 'plus':
        return nullable(a[1])
    raise ValueError(t)


def esc(c, mode):
    return ('\\x%02x' % c) if c < 256 else ('\\u%04x' % c)


def render(a, mode):
    """AST -> Python regex source (str)"""
    t = a[0]
    if t == 'chr':
        return esc(a[1], mode)
    if t == 'any':
        return '.'
    if t == 'cls':
        return '[' + ('^' if a[1] else '') + ''.join('%s-%s' % (esc(lo, mode), esc(hi, mode)) for lo, hi in a[2]) + ']'
    if t == 'bol':
        return '^'
    if t == 'eol':
        return '$'
    if t == 'eos':
        return '\\Z'
    if t == 'empty':
        return '(?:)'
    if t == 'seq':
        return '(?:%s)(?:%s)' % (render(a[1], mode), render(a[2], mode))
    if t == 'alt':
        return '(?:%s|%s)' % (render(a[1], mode), render(a[2], mode))
    if t == 'star':
        return '(?:%s)*' % render(a[1], mode)
    if t == 'plus':
        return '(?:%s)+' % render(a[1], mode)
    if t == 'opt':
        return '(?:%s)?' % render(a[1], mode)
    if t == 'look':
        return '(?=%s)' % render(a[1], mode)
    if t == 'raw':
        return a[1]          # regex source outside the modelled grammar (groups, back-references, look-behind): real vs naive only
    raise ValueError(t)


def lean_re(a):
    t = a[0]
    if t == 'chr':
        return 'chr.%d' % a[1]
    if t in ('any', 'bol', 'eol', 'eos', 'empty'):
        return t
    if t == 'cls':
        return 'cls.%d.%d.' % (1 if a[1] else 0, len(a[2])) + '.'.join('%d.%d' % (lo, hi) for lo, hi in a[2])
    if t in ('seq', 'alt'):
        return '%s.%s.%s' % (t, lean_re(a[1]), lean_re(a[2]))
    return '%s.%s' % (t, lean_re(a[1]))


def lit(text):
    """AST for a literal string"""
    a = None
    for ch in reversed(text):
        a = ['chr', ord(ch)] if a is None else ['seq', ['chr', ord(ch)], a]
    return a if a is not None else ['empty']


def flag_bits(flags):
    f = 0
    if 'i' in flags:
        f |= re.IGNORECASE
    if 's' in flags:
        f |= re.DOTALL
    if 'm' in flags:
        f |= re.MULTILINE
    return f


def conv(text, mode):
    return text if mode == 'u' else text.encode('latin-1')


def py_regex(pat, mode):
    src = render(pat[2], mode)
    return re.compile(conv(src, mode) if mode == 'u' else src.encode('ascii'), flag_bits(pat[1]))


# ------------------------------------------------------------------------------------------ model line

def enc_text(text):
    return ','.join(str(ord(c)) for c in text) if text else '-'


def pat_tok(p, op):
    if p[0] == 'E':
        return 'E'
    if p[0] == 'T':
        return 'T'
    if p[0] == 's':
        return 's=' + enc_text(p[1])
    return 're=%s=%s' % (p[1] or 'n', lean_re(p[2]))


def op_pats_for_model(op):
    """the pattern list the call really uses, as model patterns"""
    k = op['k']
    if k == 'x':
        return 'x', op['pats']
    if k == 'r':
        return 'r', op['pats']
    if k == 'read':
        n = op['n']
        if n < 0:
            return 'r', [['E']]
        a = None
        for _ in range(n):
            a = ['any'] if a is None else ['seq', ['any'], a]
        return 'r', [['re', 's', a if a is not None else ['empty']], ['E']]
    if k == 'readline':
        return 'r', [['re', 's', lit('\r\n')], ['E']]
    raise ValueError(k)


def model_script(case):
    """EOF is sticky on the real transport: in the model stream it is repeated once per remaining call"""
    evs = []
    ncalls = sum(1 for op in case['ops'] if op['k'] != 'b')
    for ev in case['script']:
        if ev[0] == 'E':
            evs += ['E'] * (ncalls + 1)
            break
        evs.append('d=' + enc_text(ev[1]) if ev[0] == 'd' else ev[0])
    return evs


def model_line(case):
    toks = ['EX']
    for op in case['ops']:
        if op['k'] == 'b':
            toks.append('b:' + enc_text(op['v']))
            continue
        if op['k'] == 'read':           # the model's own read / readline definitions (Ra.readN, Ra.readAll, Ra.readline)
            toks.append('n:%d' % op['n'] if op['n'] > 0 else 'a:%d' % (op['W'] or 0)); continue
        if op['k'] == 'readline':
            toks.append('l:%d' % (op['W'] or 0)); continue
        kind, pats = op_pats_for_model(op)
        W = op['W'] or 0
        toks.append('%s:%d:%s' % (kind, W, '+'.join(pat_tok(p, op) for p in pats) if pats else '_'))
    toks.append('@')
    toks += model_script(case)
    return ' '.join(toks)


# ------------------------------------------------------------------------------------------- real run

def to_text(v, mode):
    if v is None:
        return None
    return v if mode == 'u' else v.decode('latin-1')


def canon(kind, i, b, a, pend, sbuf):
    if kind == 'hit':
        return 'hit %d b=%s a=%s p=%s s=%s' % (i, enc_text(b), enc_text(a), enc_text(pend), enc_text(sbuf))
    if kind in ('eofidx', 'timeoutidx'):
        return '%s %d b=%s p=%s' % (kind, i, enc_text(b), enc_text(pend))
    return '%s b=%s p=%s' % (kind, enc_text(b), enc_text(pend))


TWINS = {}


def run_real(case):
    """Run the history on the real code. Returns list of per-op records."""
    mode = case['mode']
    clock = FakeTime()
    saved = pexpect_expect.time
    pexpect_expect.time = clock
    try:
        p = Scripted([list(e) for e in case['script']], mode, clock)
        if case.get('maxread'):
            p.maxread = case['maxread']          # (the scripted transport hands over its chunks whole: some then are exactly maxread long, some longer)
        recs = []
        recs_shared = {}
        for op in case['ops']:
            k = op['k']
            if k == 'b':
                p.buffer = conv(op['v'], mode)
                recs.append(dict(kind='set', canon='set', delivered=len(p.delivered)))
                continue
            W = op.get('W')
            kw = {}
            if op.get('via', 'arg') == 'attr':
                p.searchwindowsize = W
            else:
                p.searchwindowsize = None
                kw['searchwindowsize'] = W
            p.ignorecase = bool(op.get('ic'))
            x_first = bool(p.queue) and p.queue[0][0] == 'X'
            p.x_armed = x_first
            if x_first:
                kw['timeout'] = -0.001
            elif op.get('tmo') == 'none' and not any(e[0] == 'X' for e in p.queue):
                kw['timeout'] = None
            reads0 = p.reads
            d0 = len(p.delivered)
            rec = dict(op=k)
            try:
                if k == 'x':
                    pats = [EOF if q[0] == 'E' else TIMEOUT if q[0] == 'T' else conv(q[1], mode) for q in op['pats']]
                    if op.get('single') and len(pats) == 1:
                        pats = pats[0]
                    ret = p.expect_exact(pats, **kw)
                elif k == 'r':
                    pats = []
                    for q in op['pats']:
                        if q[0] == 'E':
                            pats.append(EOF)
                        elif q[0] == 'T':
                            pats.append(TIMEOUT)
                        else:
                            # flags 's' (+ 'i' when ignorecase) are what a *string* pattern gets: pass the source;
                            # anything else is handed over pre-compiled
                            want = set(q[1] or '')
                            asstring = (want == ({'s', 'i'} if op.get('ic') else {'s'}))
                            src = render(q[2], mode)
                            src = src if mode == 'u' else src.encode('ascii')
                            pats.append(src if (asstring and not op.get('compiled')) else re.compile(src, flag_bits(q[1])))
                    if case.get('twin'):
                        # a second, unrelated object of the same class prepares the same pattern texts with the other ignorecase
                        # setting right before this object's call (this object has prepared them once already): what one object
                        # compiled must never be what another object searches with
                        strs = [q_ for q_ in pats if isinstance(q_, (bytes, str))]
                        if strs:
                            p.compile_pattern_list(strs)
                            tw = TWINS.get(mode)
                            if tw is None:
                                tw = TWINS[mode] = Scripted([], mode, clock)
                            tw.ignorecase = p.ignorecase
                            tw.compile_pattern_list(strs)
                            tw.ignorecase = not p.ignorecase
                            tw.compile_pattern_list(strs)
                    if op.get('single') and len(pats) == 1:
                        pats = pats[0]
                    if op.get('list_api'):
                        # one list object for the whole history, edited in place before every call: expect_list() must look at
                        # what the list contains now, not at what it contained on an earlier call
                        shared = recs_shared.setdefault('list', [])
                        shared[:] = p.compile_pattern_list(pats)
                        ret = p.expect_list(shared, **kw)
                    else:
                        ret = p.expect(pats, **kw)
                elif k == 'read':
                    kw.pop('searchwindowsize', None); kw.pop('timeout', None)
                    p.searchwindowsize = W
                    val = p.read(op['n'])
                    rec['value'] = to_text(val, mode)
                    ret = p.match_index
                elif k == 'readline':
                    kw.pop('searchwindowsize', None); kw.pop('timeout', None)
                    p.searchwindowsize = W
                    val = p.readline()
                    rec['value'] = to_text(val, mode)
                    ret = p.match_index
                after = p.after
                if after is EOF:
                    kind = 'eofidx'
                elif after is TIMEOUT:
                    kind = 'timeoutidx'
                else:
                    kind = 'hit'
                rec['index'] = ret
            except EOF:
                kind = 'EOF'
            except TIMEOUT:
                kind = 'TIMEOUT'
            except Exception as e:      # noqa
                kind = 'EXC:' + type(e).__name__
                rec['exc'] = repr(e)[:200]
            if p.x_armed and kind in ('TIMEOUT', 'timeoutidx') and p.queue and p.queue[0][0] == 'X':
                p.queue.popleft()
            b = to_text(p.before, mode) if not isinstance(p.before, type) else None
            buf = to_text(p.buffer, mode)
            rec.update(kind=kind, before=b, buffer=buf, reads=p.reads - reads0, ndata=len(p.delivered) - d0,
                       delivered=len(p.delivered), match_index=p.match_index)
            if kind == 'hit':
                a = to_text(p.after, mode)
                rec['after'] = a
                m = p.match
                if k == 'x':
                    rec['match_ok'] = (to_text(m, mode) == a) if isinstance(m, (bytes, str)) else False
                else:
                    try:
                        rec['match_ok'] = (to_text(m.group(0), mode) == a)
                        rec['span'] = list(m.span())
                    except Exception:
                        rec['match_ok'] = False
                rec['canon'] = canon('hit', ret, b, a, buf, buf)
            elif kind in ('eofidx', 'timeoutidx'):
                rec['after_cls'] = 'EOF' if p.after is EOF else 'TIMEOUT'
                rec['match_ok'] = (p.match is p.after)
                rec['canon'] = canon(kind, ret, b, None, b if kind == 'timeoutidx' else buf, None)
            elif kind in ('EOF', 'TIMEOUT'):
                rec['after_cls'] = 'EOF' if p.after is EOF else 'TIMEOUT' if p.after is TIMEOUT else repr(p.after)
                rec['canon'] = canon(kind, None, b, None, b if kind == 'TIMEOUT' else buf, None)
            else:
                rec['canon'] = kind
            if k in ('read', 'readline'):
                rec['canon'] += ' v=' + (enc_text(rec['value']) if 'value' in rec else '!')
            recs.append(rec)
        return recs, [to_text(d, mode) for d in p.delivered]
    finally:
        pexpect_expect.time = saved


# ---------------------------------------------------------------------------------------- naive oracle

def compile_for_oracle(op, mode):
    """[(index, searchfn)] with searchfn(window) -> (start, end) | None — independent of pexpect"""
    kind, pats = op_pats_for_model(op)
    out = []
    eof_i = tmo_i = None
    for i, q in enumerate(pats):
        if q[0] == 'E':
            eof_i = i
        elif q[0] == 'T':
            tmo_i = i
        elif kind == 'x':
            s = q[1]
            out.append((i, (lambda w, s=s: (lambda n: None if n < 0 else (n, n + len(s)))(w.find(s)))))
        else:
            if q[0] == 's':
                fl = re.DOTALL | (re.IGNORECASE if op.get('ic') else 0)
                rx = re.compile(conv(q[1], mode), fl)
            else:
                rx = py_regex(q, mode)
            out.append((i, (lambda w, rx=rx, mode=mode: (lambda m: None if m is None else m.span())(rx.search(conv(w, mode))))))
    return out, eof_i, tmo_i


def eff_W(op):
    """the window a call really uses: read(n > 0) always searches from the front of the pending text"""
    return None if (op['k'] == 'read' and op.get('n', 0) > 0) else op.get('W')


def naive_search(fns, B, W):
    w = B if not W else B[-W:]
    best = None
    for i, fn in fns:
        r = fn(w)
        if r is not None and (best is None or r[0] < best[1]):
            best = (i, r[0], r[1])
    if best is None:
        return None
    off = len(B) - len(w)
    i, s, e = best
    return i, B[:off + s], w[s:e], w[e:]


def run_naive(case):
    mode = case['mode']
    q = collections.deque([list(e) for e in case['script']])
    B = ''
    recs = []
    for op in case['ops']:
        if op['k'] == 'b':
            B = op['v']
            recs.append(dict(kind='set', canon='set'))
            continue
        fns, eof_i, tmo_i = compile_for_oracle(op, mode)
        W = eff_W(op)
        nd = 0

        def fin(kind, i, b, a, pend):
            recs.append(dict(kind=kind, index=i, before=b, after=a, pending=pend, ndata=nd,
                             canon=canon(kind, i, b, a, pend, pend)))
        r = naive_search(fns, B, W)
        while True:
            if r is not None:
                i, b, a, rest = r
                fin('hit', i, b, a, rest)
                B = rest
                break
            if not q:
                ev = ['T']
            else:
                ev = q[0]
                if ev[0] != 'E':
                    q.popleft()
            if ev[0] == 'E':
                if eof_i is not None:
                    fin('eofidx', eof_i, B, None, '')
                else:
                    fin('EOF', None, B, None, '')
                B = ''
                break
            if ev[0] in ('T', 'X'):
                if tmo_i is not None:
                    fin('timeoutidx', tmo_i, B, None, B)
                else:
                    fin('TIMEOUT', None, B, None, B)
                break
            B = B + ev[1]
            nd += 1
            r = naive_search(fns, B, W)
    return recs


# ------------------------------------------------------------------------- per-property direct oracles

def oracle_c01(case, recs, delivered):
    """conservation on the real object: handed ++ pending == received (ledger restarts at a buffer assignment)"""
    handed = ''
    base = 0          # index into delivered where the current ledger starts
    start_pending = ''
    for n, r in enumerate(recs):
        if r['kind'] == 'set':
            handed = ''
            start_pending = case['ops'][n]['v']
            base = r['delivered']
            continue
        if r['kind'].startswith('EXC'):
            return 'call %d raised %s' % (n, r['kind'])
        got = start_pending + ''.join(delivered[base:r['delivered']])
        returned = 'value' in r and r.get('op') in ('read', 'readline')
        if r['kind'] == 'hit':
            # read(n) / readline() hand back their return value; the expect family hands back before + after
            handed += r['value'] if returned else (r['before'] + r['after'])
            pend = r['buffer']
        elif r['kind'] in ('timeoutidx', 'TIMEOUT'):
            pend = r['before']
        else:                   # EOF: before is handed back, nothing stays pending
            handed += r['value'] if returned else r['before']
            pend = r['buffer']
        if handed + pend != got:
            return 'call %d (%s): handed %r + pending %r != received %r' % (n, r['kind'], handed, pend, got)
        if 'value' in r and r['op'] == 'readline':
            # readline(): what is returned is exactly what the call removed from the stream
            exp = (r['before'] + r['after']) if r['kind'] == 'hit' else r['before']
            if r['value'] != exp:
                return 'call %d: %s returned %r, removed %r' % (n, r['op'], r['value'], exp)
        if 'value' in r and r['op'] == 'read' and r['kind'] == 'hit' and case['ops'][n]['n'] > 0:
            if len(r['value']) != case['ops'][n]['n']:
                return 'call %d: read(%d) returned %d characters' % (n, case['ops'][n]['n'], len(r['value']))
    return None


def oracle_c02(case, recs, delivered):
    """the reported match is the leftmost / first-listed one in the text that was searched"""
    mode = case['mode']
    for n, r in enumerate(recs):
        if r['kind'] != 'hit':
            continue
        op = case['ops'][n]
        fns, _, _ = compile_for_oracle(op, mode)
        T = r['before'] + r['after'] + r['buffer']
        exp = naive_search(fns, T, eff_W(op))
        if exp is None:
            return 'call %d: reported match %r but no listed pattern occurs in the searched text %r' % (n, r['after'], T)
        i, b, a, rest = exp
        if (i, b, a) != (r['index'], r['before'], r['after']):
            return 'call %d: reported (idx %r, before %r, after %r), leftmost/first-listed is (idx %r, before %r, after %r)' % (
                n, r['index'], r['before'], r['after'], i, b, a)
        if r.get('match_index') != r['index'] or not r.get('match_ok'):
            return 'call %d: match / match_index do not describe the reported occurrence' % n
        if 'span' in r:
            w = T if not eff_W(op) else T[-eff_W(op):]
            off = len(T) - len(w)
            if r['span'] != [len(b) - off, len(b) - off + len(a)]:
                return 'call %d: match.span() %r != occurrence %r' % (n, r['span'], [len(b) - off, len(b) - off + len(a)])
    return None


def oracle_c03(case, recs, delivered, nrecs):
    for n, (r, e) in enumerate(zip(recs, nrecs)):
        if r['kind'] == 'set':
            continue
        if r['kind'] != e['kind'] or r.get('ndata') != e.get('ndata'):
            return 'call %d: real %s after %s reads, naive %s after %s reads' % (n, r['kind'], r.get('ndata'), e['kind'], e.get('ndata'))
        if r['kind'] == 'hit' and (r['index'], r['before'], r['after'], r['buffer']) != (e['index'], e['before'], e['after'], e['pending']):
            return 'call %d: real hit (%r,%r,%r,%r) naive (%r,%r,%r,%r)' % (n, r['index'], r['before'], r['after'], r['buffer'],
                                                                           e['index'], e['before'], e['after'], e['pending'])
        if r['kind'] != 'hit' and r['before'] != e['before']:
            return 'call %d: %s before %r, naive %r' % (n, r['kind'], r['before'], e['before'])
    return None


def oracle_c04(case, recs, delivered, nrecs):
    for n, (r, e) in enumerate(zip(recs, nrecs)):
        if r['kind'] == 'set':
            continue
        if e['kind'] == 'hit':
            if e['ndata'] == 0 and r['kind'] != 'hit':
                return 'call %d: an occurrence was pending but the call ended in %s' % (n, r['kind'])
            continue
        if r['kind'] != e['kind']:
            return 'call %d: expected outcome %s, got %s' % (n, e['kind'], r['kind'])
        if r['kind'] in ('eofidx', 'timeoutidx') and r['index'] != e['index']:
            return 'call %d: %s index %r, marker is listed at %r' % (n, r['kind'], r['index'], e['index'])
        if r['before'] != e['before']:
            return 'call %d: %s before %r, pending text was %r' % (n, r['kind'], r['before'], e['before'])
        want = 'EOF' if 'EOF' in r['kind'].upper() and 'TIME' not in r['kind'].upper() else 'TIMEOUT'
        if r.get('after_cls') != want:
            return 'call %d: after is %r, expected the %s class' % (n, r.get('after_cls'), want)
        if want == 'EOF' and r['buffer'] != '':
            return 'call %d: pending text %r not cleared after EOF' % (n, r['buffer'])
    return None


ORACLES = {'C01': lambda c, r, d, n: oracle_c01(c, r, d), 'C02': lambda c, r, d, n: oracle_c02(c, r, d),
           'C03': oracle_c03, 'C04': oracle_c04}


def evaluate(case, model_out=None):
    """-> dict(real=[canon...], naive=[...], oracle={prop: msg|None}, model_diff=bool)"""
    recs, delivered = run_real(case)
    nrecs = run_naive(case)
    res = dict(real=[r['canon'] for r in recs], naive=[r['canon'] for r in nrecs], recs=recs)
    res['oracle'] = {p: fn(case, recs, delivered, nrecs) for p, fn in ORACLES.items()}
    if model_out is not None:
        res['model'] = model_out.split(' | ')
        res['model_diff'] = (strip_s(res['model']) != strip_s(res['real']))
        res['model_vs_naive'] = (strip_v(res['model']) != strip_v(res['naive']))
    return res


def strip_s(lines):
    return [re.sub(r' s=\S*', '', l) for l in lines]


def strip_v(lines):
    return [re.sub(r' v=\S*', '', l) for l in strip_s(lines)]


# --------------------------------------------------------------------------------------------- shrinking

def shrink(case, fails, budget=400):
    """greedy delta debugging: drop ops, drop / merge / shorten events, drop patterns, shorten texts"""
    import copy
    cur = copy.deepcopy(case)
    steps = 0
    changed = True
    while changed and steps < budget:
        changed = False
        cands = []
        for i in range(len(cur['ops'])):
            c = copy.deepcopy(cur); del c['ops'][i]; cands.append(c)
        for i in range(len(cur['script'])):
            c = copy.deepcopy(cur); del c['script'][i]; cands.append(c)
            if cur['script'][i][0] == 'd' and len(cur['script'][i][1]) > 0:
                for j in range(len(cur['script'][i][1])):
                    c = copy.deepcopy(cur); t = c['script'][i][1]; c['script'][i][1] = t[:j] + t[j + 1:]; cands.append(c)
            if i + 1 < len(cur['script']) and cur['script'][i][0] == 'd' and cur['script'][i + 1][0] == 'd':
                c = copy.deepcopy(cur); c['script'][i][1] += c['script'][i + 1][1]; del c['script'][i + 1]; cands.append(c)
        for i, op in enumerate(cur['ops']):
            if op.get('pats') and len(op['pats']) > 1:
                for j in range(len(op['pats'])):
                    c = copy.deepcopy(cur); del c['ops'][i]['pats'][j]; cands.append(c)
            if op.get('W'):
                c = copy.deepcopy(cur); c['ops'][i]['W'] = None; cands.append(c)
        for c in cands:
            steps += 1
            if steps > budget:
                break
            try:
                if c['ops'] and fails(c):
                    cur = c
                    changed = True
                    break
            except Exception:
                pass
    return cur
