"""./check <id> [--tier quick|thorough] [--replay file]"""
import sys, os, argparse, importlib, traceback, signal
sys.path.insert(0, os.path.dirname(os.path.abspath(__file__)))
from lib import common


def neutral_signals():
    """the checks start children whose fate depends on signal dispositions and the signal mask, both inherited: whoever launched this process
    (nohup, a shell's background job, a daemon, a CI runner) may have left SIGHUP / SIGINT / SIGQUIT ignored or signals blocked.  Start from
    the state of an ordinary foreground program, so that the same tree gives the same verdict however the check was launched."""
    for name in ('SIGHUP', 'SIGINT', 'SIGQUIT', 'SIGTERM', 'SIGCHLD', 'SIGCONT', 'SIGTSTP', 'SIGTTIN', 'SIGTTOU', 'SIGUSR1', 'SIGUSR2', 'SIGALRM', 'SIGWINCH'):
        sig = getattr(signal, name, None)
        if sig is None:
            continue
        try:
            if signal.getsignal(sig) in (signal.SIG_IGN, None):
                signal.signal(sig, signal.default_int_handler if name == 'SIGINT' else signal.SIG_DFL)
        except (OSError, ValueError):
            pass
    try:
        signal.pthread_sigmask(signal.SIG_SETMASK, [])
    except (AttributeError, OSError, ValueError):
        pass


def main():
    neutral_signals()
    ap = argparse.ArgumentParser()
    ap.add_argument('prop')
    ap.add_argument('--tier', default=os.environ.get('VERIF_TIER', 'quick'), choices=['quick', 'thorough'])
    ap.add_argument('--replay', default=None)
    a = ap.parse_args()
    seed = int(os.environ.get('VERIF_SEED', '0') or 0)
    common.repo_on_path()
    ctx = common.Ctx(a.prop, a.tier, seed)
    os.chdir(ctx.tmp)            # scratch cwd: ANSI.DoLog appends to ./log
    # last resort against a run that never ends (code under test stuck in a system call inside this process): give up with exit 2 - a timeout
    # is not a verdict.  The stages that start children or sessions have their own, much shorter watchdogs, which do report.
    import threading
    limit = float(os.environ.get('VERIF_CHECK_LIMIT', 3600 if a.tier == 'quick' else 6 * 3600))

    def give_up():
        sys.stdout.write('check timed out after %d s (no verdict)\n' % limit); sys.stdout.flush()
        os._exit(2)
    wd = threading.Timer(limit, give_up); wd.daemon = True; wd.start()
    try:
        mod = importlib.import_module('props.%s' % a.prop.lower())
        if a.replay:
            rpath = os.path.join(common.ROOT, a.replay) if not os.path.isabs(a.replay) else a.replay
            rc = mod.replay(ctx, rpath)
            if rc is None:
                # the case has no dedicated replay: run the check again with the recorded seed and tier and look for the same finding
                import json
                rec = json.load(open(rpath))
                ctx2 = common.Ctx(a.prop, rec.get('tier', 'quick'), rec.get('seed', seed))
                ctx2.replaying = True
                try:
                    mod.run(ctx2)
                finally:
                    ctx2.cleanup()
                same = [v for v in ctx2.violations if v['sig'] == rec.get('signature')]
                print('re-run with seed %s: %s' % (rec.get('seed'), ('the same finding again: ' + same[0]['what'][:300]) if same else 'the finding does not recur'))
                rc = 1 if same else 0
        else:
            rc = mod.run(ctx)
    except subprocess_timeout() as e:
        print('check timed out: %r' % (e,)); rc = 2
    except Exception as e:
        traceback.print_exc()
        rc = 2
        # an exception that was raised inside the code under test and that no scenario of the check is prepared for: the run shows pexpect
        # leaving a scenario of this property by an unexpected exception (the seed reproduces the run; the stack is in the replay file)
        try:
            tb = traceback.extract_tb(e.__traceback__)
            repo = os.path.realpath(common.REPO)
            inner = [f for f in tb if os.path.realpath(f.filename).startswith(os.path.join(repo, 'pexpect') + os.sep)]
            if inner and not a.replay:
                f = inner[-1]
                common.report(ctx, 'escaped-exception/%s/%s' % (type(e).__name__, f.name),
                              'a scenario of the check could not be completed: %s raised in pexpect/%s:%d (%s) escaped: %s' % (
                                  type(e).__name__, os.path.basename(f.filename), f.lineno, f.name, str(e)[:120]),
                              dict(how='VERIF_SEED=%s ./check %s --tier %s' % (seed, a.prop, a.tier), stack=traceback.format_exception(type(e), e, e.__traceback__)[-12:]))
                for v in ctx.violations:
                    print('VIOLATION property=%s replay=%s %s' % (ctx.prop, os.path.relpath(v['replay'], common.ROOT), v['what'][:300].replace('\n', ' ')))
                rc = 1
        except Exception:
            traceback.print_exc()
    finally:
        os.chdir('/')
        ctx.cleanup()
    sys.exit(rc)


def subprocess_timeout():
    import subprocess
    return subprocess.TimeoutExpired


if __name__ == '__main__':
    main()
