"""./check <id> [--tier quick|thorough] [--replay file]"""
import sys, os, argparse, importlib, traceback, signal
sys.path.insert(0, os.path.dirname(os.path.abspath(__file__)))
from lib import common


def main():
    ap = argparse.ArgumentParser()
    ap.add_argument('prop')
    ap.add_argument('--tier', default=os.environ.get('VERIF_TIER', 'quick'), choices=['quick', 'thorough'])
    ap.add_argument('--replay', default=None)
    a = ap.parse_args()
    seed = int(os.environ.get('VERIF_SEED', '0') or 0)
    common.repo_on_path()
    ctx = common.Ctx(a.prop, a.tier, seed)
    os.chdir(ctx.tmp)            # scratch cwd: ANSI.DoLog appends to ./log
    try:
        mod = importlib.import_module('props.%s' % a.prop.lower())
        if a.replay:
            rc = mod.replay(ctx, os.path.join(common.ROOT, a.replay) if not os.path.isabs(a.replay) else a.replay)
        else:
            rc = mod.run(ctx)
    except subprocess_timeout() as e:
        print('check timed out: %r' % (e,)); rc = 2
    except Exception:
        traceback.print_exc()
        rc = 2
    finally:
        os.chdir('/')
        ctx.cleanup()
    sys.exit(rc)


def subprocess_timeout():
    import subprocess
    return subprocess.TimeoutExpired


if __name__ == '__main__':
    main()
