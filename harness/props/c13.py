"""C13 launch fidelity: T-split + split_roundtrip over the generated table; which(); launch settings."""
import os, sys, json, itertools, stat, tempfile, shutil, collections, re, time
from lib import common
common.repo_on_path()
import pexpect
from pexpect import utils as U
from pexpect import popen_spawn

SPECIAL = ['\\', "'", '"']
WS = [' ', '\t', '\n', '　', '\xa0', '\r']
ALPH = SPECIAL + WS + ['a', 'b', 'é', '-', '€']
PROBE = os.path.join(common.ROOT, 'harness', 'drivers', 'probe_child.py')


def quote(arg, style):
    if style == 'bs':
        return ''.join('\\' + c for c in arg)
    if style == 'sq':
        return "'" + arg + "'"
    return '"' + arg + '"'


def rand_roundtrip(rng):
    n = rng.randrange(1, 6)
    args, parts = [], []
    s = ''.join(rng.choice(WS) for _ in range(rng.choice([0, 0, 1, 3])))
    for i in range(n):
        arg = ''.join(rng.choice(ALPH) for _ in range(rng.randrange(1, 6)))
        styles = ['bs'] + (['sq'] if "'" not in arg else []) + (['dq'] if '"' not in arg else [])
        st = rng.choice(styles)
        args.append(arg)
        s += quote(arg, st)
        if i < n - 1:
            s += ''.join(rng.choice(WS) for _ in range(rng.randrange(1, 4)))
    s += ''.join(rng.choice(WS) for _ in range(rng.choice([0, 0, 1, 2])))
    return s, args


def enc(s):
    return ','.join(str(ord(c)) for c in s) if s else '-'


def stage_split(ctx, stats):
    rng = ctx.rng
    # direct property oracle on the real function: quoting + whitespace join round-trips
    n_rt = 20000 if ctx.quick() else 200000
    corpus = [(' ls -l', ['ls', '-l']), ('\tls', ['ls']), ("  'a b'  ", ['a b']), ('a\\ b "c d"\n', ['a b', 'c d'])]
    fail = None
    for i in range(n_rt + len(corpus)):
        s, args = corpus[i] if i < len(corpus) else rand_roundtrip(rng)
        try:
            got = U.split_command_line(s)
        except Exception as e:
            got = 'EXC:' + repr(e)
        if got != args:
            fail = (s, args, got)
            break
    stats['roundtrip_cases'] = i + 1
    if fail:
        s, args, got = shrink_rt(fail)
        kind = 'leading-ws' if s[:1].isspace() else 'other'
        common.report(ctx, 'split/roundtrip/' + kind, 'split_command_line(%r) = %r, the quoted arguments were %r' % (s, got, args),
                      dict(command_line=s, expected=args, got=got, how='pexpect.utils.split_command_line(command_line)'))
    # correspondence: interpreter of the generated table (Lean) vs the real function
    small = ['\\', "'", '"', ' ', 'a', '\t']
    cases = []
    for n in range(0, 5 if ctx.quick() else 6):
        for tup in itertools.product(small, repeat=n):
            cases.append(''.join(tup))
    nex = len(cases)
    for _ in range(20000 if ctx.quick() else 300000):
        cases.append(''.join(rng.choice(ALPH) for _ in range(rng.randrange(0, 14))))
    try:
        outs = common.run_model(['SP ' + enc(c) for c in cases])
    except common.ModelUnavailable as e:
        ctx.broken.append('model driver unavailable: ' + str(e)[:300])
        outs = None
    stats['split_exhaustive'] = nex
    stats['split_cases'] = len(cases)
    sigs = collections.Counter()
    if outs is not None:
        for c, o in zip(cases, outs):
            real = U.split_command_line(c)
            mreal = '|'.join(enc(a) for a in real)
            sigs[(len(real), any(ch in c for ch in SPECIAL), c[:1].isspace(), c[-1:].isspace())] += 1
            if o != mreal:
                ctx.broken.append('correspondence split model vs split_command_line on %r: model %r real %r' % (c, o, real))
                break
    stats['split_sigs'] = len(sigs)
    return len(sigs)


def shrink_rt(fail):
    s, args, got = fail
    return fail


# ------------------------------------------------------------------------------------------------ which

KINDS = ['missing', 'exec', 'nonexec', 'dir', 'link_exec', 'link_nonexec', 'dangling']


def make_entry(d, name, kind, store):
    p = os.path.join(d, name)
    if kind == 'exec':
        open(p, 'w').write('#!/bin/sh\n'); os.chmod(p, 0o755)
    elif kind == 'nonexec':
        open(p, 'w').write('data'); os.chmod(p, 0o644)
    elif kind == 'dir':
        os.mkdir(p)
    elif kind == 'link_exec':
        t = os.path.join(store, 'x_' + str(len(os.listdir(store))))
        open(t, 'w').write('#!/bin/sh\n'); os.chmod(t, 0o755); os.symlink(t, p)
    elif kind == 'link_nonexec':
        t = os.path.join(store, 'n_' + str(len(os.listdir(store))))
        open(t, 'w').write('data'); os.chmod(t, 0o644); os.symlink(t, p)
    elif kind == 'dangling':
        os.symlink(os.path.join(store, 'nothing'), p)


def is_exec_kind(k):
    return k in ('exec', 'link_exec')


def stage_which(ctx, stats):
    rng = ctx.rng
    n = 80 if ctx.quick() else 600
    # directed layouts first: every (env argument, os.environ PATH) combination with one executable in each of the three
    # candidate locations, so that the answer tells which PATH was consulted
    forced = [(e, o) for e in ('os', 'unset', 'emptydict', 'empty', 'set') for o in ('unset', 'empty', 'set')]
    lines, reals, descs = [], [], []
    root = tempfile.mkdtemp(prefix='verif_which_')
    saved_path = os.environ.get('PATH')
    saved_def = os.defpath
    saved_cwd = os.getcwd()
    try:
        for it in range(n):
            base = os.path.join(root, 'L%d' % it)
            os.makedirs(base)
            store = os.path.join(base, 'store'); os.mkdir(store)
            groups = {}
            for g in ('env', 'os', 'def'):
                kinds = [rng.choice(KINDS) for _ in range(rng.randrange(0, 4))]
                if it < len(forced):
                    kinds = ['exec']
                dirs = []
                for j, k in enumerate(kinds):
                    d = os.path.join(base, '%s%d' % (g, j)); os.mkdir(d)
                    make_entry(d, 'prog', k, store)
                    dirs.append(d)
                groups[g] = (kinds, dirs)
            explicit = rng.random() < 0.25
            ekind = rng.choice(KINDS)
            cwd_for_call = None
            if explicit:
                ed = os.path.join(base, 'expl'); os.mkdir(ed)
                make_entry(ed, 'prog', ekind, store)
                # an explicit path is any name with a directory part: absolute, relative to the working directory, or ./name
                how = rng.choice(['abs', 'abs', 'rel', 'dot', 'dotdot'])
                if how == 'abs':
                    fname = os.path.join(ed, 'prog')
                elif how == 'rel':
                    fname, cwd_for_call = 'expl/prog', base
                elif how == 'dot':
                    fname, cwd_for_call = './prog', ed
                else:
                    fname, cwd_for_call = '../expl/prog', store
            else:
                fname = 'prog'
            envmode = rng.choice(['os', 'unset', 'emptydict', 'empty', 'set'])
            osmode = rng.choice(['unset', 'empty', 'set'])
            if it < len(forced):
                envmode, osmode = forced[it]
                explicit = False; fname = 'prog'
            os.defpath = ':'.join(groups['def'][1])
            if osmode == 'unset':
                os.environ.pop('PATH', None)
            else:
                os.environ['PATH'] = '' if osmode == 'empty' else ':'.join(groups['os'][1])
            if osmode == 'set' and not groups['os'][1]:
                osmode = 'empty'
            if envmode == 'os':
                env = None
            elif envmode == 'unset':
                env = {'HOME': '/'}
            elif envmode == 'emptydict':
                env = {}
            elif envmode == 'empty':
                env = {'PATH': ''}
            else:
                env = {'PATH': ':'.join(groups['env'][1])}
                if not groups['env'][1]:
                    envmode = 'empty'
            # the same question asked again after the directories changed (a program installed earlier on the PATH, removed,
            # made executable ...): every answer is about the file system as it is at the time of the call
            for epoch in range(1 if it < len(forced) else rng.choice([1, 2, 3, 4])):
                if epoch:
                    for g in groups:
                        kinds, dirs = groups[g]
                        for j, d in enumerate(dirs):
                            if rng.random() < 0.6:
                                pth = os.path.join(d, 'prog')
                                if os.path.islink(pth) or os.path.isfile(pth):
                                    os.unlink(pth)
                                elif os.path.isdir(pth):
                                    os.rmdir(pth)
                                kinds[j] = rng.choice(KINDS + ['exec', 'exec', 'link_exec'])
                                make_entry(d, 'prog', kinds[j], store)
                if cwd_for_call:
                    os.chdir(cwd_for_call)
                try:
                    got = U.which(fname, env=env)
                finally:
                    os.chdir(saved_cwd)
                # canonical id of the answer
                if got is None:
                    r = 'none'
                elif explicit and got == fname:
                    r = '1'
                else:
                    r = '?' + got
                    for g, off in (('env', 100), ('os', 200), ('def', 300)):
                        for j, d in enumerate(groups[g][1]):
                            if got == os.path.join(d, fname) and os.path.normpath(got) == os.path.join(d, 'prog'):
                                r = str(off + j)
                bits = lambda g: ','.join('1' if is_exec_kind(k) else '0' for k in groups[g][0]) or '-'
                lines.append('WH %d %d %s %s %s %s %s' % ((2 if fname == './prog' else 1) if explicit else 0, 1 if (explicit and is_exec_kind(ekind)) else 0,
                                                           'unset' if envmode == 'emptydict' else envmode, osmode, bits('env'), bits('os'), bits('def')))
                reals.append(r)
                descs.append(dict(explicit=explicit and ekind, env=envmode, os=osmode, layout={g: list(groups[g][0]) for g in groups}, epoch=epoch))
    finally:
        os.defpath = saved_def
        if saved_path is None:
            os.environ.pop('PATH', None)
        else:
            os.environ['PATH'] = saved_path
        shutil.rmtree(root, ignore_errors=True)
    try:
        outs = common.run_model(lines)
    except common.ModelUnavailable as e:
        ctx.broken.append('model driver unavailable: ' + str(e)[:300]); outs = reals
    sigs = set()
    for l, o, r, d in zip(lines, outs, reals, descs):
        sigs.add((d['env'], d['os'], r[:1]))
        if o != r:
            # the model is the spec here: first match on the effective PATH / the explicit path
            common.report(ctx, 'which/%s/%s' % (d['env'], d['os']),
                          'which() returned %s, the first executable on the effective PATH is %s (layout %s)' % (r, o, json.dumps(d)),
                          dict(line=l, model=o, real=r, layout=d))
            break
    stats['which_layouts'] = len(lines)
    return len(sigs)


# ------------------------------------------------------------------------------------- launch settings

def read_probe(p):
    p.expect(pexpect.EOF, timeout=20)
    m = re.search(r'<<<(.*)>>>', p.before if isinstance(p.before, str) else p.before.decode('utf-8', 'replace'))
    return json.loads(m.group(1)) if m else None


def stage_probe(ctx, stats):
    rng = ctx.rng
    n = 24 if ctx.quick() else 200
    tmp = tempfile.mkdtemp(prefix='verif_probe_')
    sigs = set()
    # the same interpreter reached through paths that a command line would have to quote; next to each a decoy with the name the path would
    # be cut down to if the list form were split like a command line
    odd_paths = []
    for sub, name in (('my tools', 'python x'), ("bob's", 'py"thon'), ('back\\slash', 'python')):
        os.makedirs(os.path.join(tmp, sub))
        odd = os.path.join(tmp, sub, name)
        os.symlink(os.path.realpath(common.PY), odd)
        odd_paths.append(odd)
    decoy = os.path.join(tmp, 'my')
    open(decoy, 'w').write('#!/bin/sh\necho DECOY\n'); os.chmod(decoy, 0o755)
    try:
        for it in range(n):
            cwd = rng.choice([None, tmp, '/'])
            envvals = {'VPROBE_A': ''.join(rng.choice('ab é=') for _ in range(rng.randrange(0, 5))), 'VPROBE_B': 'x'}
            env = None if rng.random() < 0.3 else dict(os.environ, **envvals)
            dims = rng.choice([None, (24, 80), (1, 1), (50, 132), (7, 200)])
            echo = rng.random() < 0.5
            ign = rng.random() < 0.5
            enc_ = rng.choice([None, 'utf-8'])
            _, args = rand_roundtrip(rng)
            args = [a.replace('\x00', '') for a in args]
            mode = rng.choice(['cmdline', 'args', 'popen', 'popen_str', 'run'])
            if mode == 'popen_str':
                # PopenSpawn given a command line splits it by the shell's rules: a bare '#' belongs to its word
                args = [a for a in args if a] + [rng.choice(['issue#12', 'x#y#z', 'a#', 'issue#12'])]
            # a preexec_fn of the caller's: it must run (the child reports its umask) and must not displace anything else
            pre = (mode in ('cmdline', 'args') and rng.random() < 0.5)
            kw_pre = dict(preexec_fn=(lambda: os.umask(0o057))) if pre else {}
            info = None
            launch_exc = None
            try:
                if mode == 'cmdline':
                    cmd = '  ' * rng.randrange(0, 2) + common.PY + ' ' + PROBE + ' ' + ' '.join(quote(a, rng.choice(
                        ['bs'] + (['sq'] if "'" not in a else []) + (['dq'] if '"' not in a else []))) for a in args)
                    p = pexpect.spawn(cmd, cwd=cwd, env=env, dimensions=dims, echo=echo, ignore_sighup=ign, encoding=enc_, timeout=20, **kw_pre)
                elif mode == 'args':
                    # the list form takes the program path and every argument verbatim
                    prog = common.PY if rng.random() < 0.5 else rng.choice(odd_paths)
                    p = pexpect.spawn(prog, [PROBE] + args, cwd=cwd, env=env, dimensions=dims, echo=echo, ignore_sighup=ign,
                                      encoding=enc_, timeout=20, **kw_pre)
                elif mode == 'popen_str':
                    import shlex
                    # (a '#' inside a word needs no quoting by the shell's rules and gets none here)
                    p = popen_spawn.PopenSpawn(' '.join((x if re.fullmatch(r'[a-z0-9#]+', x) else shlex.quote(x)) for x in [common.PY, PROBE] + args),
                                               cwd=cwd, env=env, encoding=enc_, timeout=20)
                elif mode == 'run':
                    # run() / runu() start the child themselves: cwd, env and the rest must reach it, with the explicit timeout and with -1
                    import pexpect.run as _  # noqa
                    cmd = common.PY + ' ' + PROBE + ' ' + ' '.join(quote(a, rng.choice(['bs'] + (['sq'] if "'" not in a else []))) for a in args)
                    text = pexpect.run(cmd, timeout=rng.choice([-1, 20]), cwd=cwd, env=env, dimensions=dims, echo=echo, ignore_sighup=ign, encoding=enc_)
                    m_ = re.search(r'<<<(.*)>>>', text if isinstance(text, str) else text.decode('utf-8', 'replace'))
                    info = json.loads(m_.group(1)) if m_ else None
                    p = None
                else:
                    p = popen_spawn.PopenSpawn([common.PY, PROBE] + args, cwd=cwd, env=env, encoding=enc_, timeout=20)
                if p is not None:
                    info = read_probe(p)
                    if mode in ('popen', 'popen_str'):
                        p.wait()
                    else:
                        p.close()
            except Exception as e:
                launch_exc = repr(e)[:300]
            sigs.add((mode, cwd is None, env is None, dims, echo, ign, pre))
            want_cwd = os.path.realpath(cwd) if cwd else os.getcwd()
            problems = []
            if launch_exc:
                problems.append('raised ' + launch_exc)
            elif info is None:
                problems.append('no report from the child')
            else:
                if info['argv'] != args:
                    problems.append('argv %r != requested %r' % (info['argv'], args))
                if os.path.realpath(info['cwd']) != os.path.realpath(want_cwd):
                    problems.append('cwd %r != %r' % (info['cwd'], want_cwd))
                if env is not None and info['env'] != envvals:
                    problems.append('env %r != %r' % (info['env'], envvals))
                if env is None and info['env'] != {k: v for k, v in os.environ.items() if k.startswith('VPROBE_')}:
                    problems.append('environment not inherited')
                if mode not in ('popen', 'popen_str'):
                    if info.get('winsize') != list(dims or (24, 80)):
                        problems.append('winsize %r != %r' % (info.get('winsize'), dims or (24, 80)))
                    if info.get('echo') != echo:
                        problems.append('echo %r != %r' % (info.get('echo'), echo))
                    if info.get('sighup_ignored') != ign:
                        problems.append('SIGHUP ignored %r != %r (preexec_fn given: %s)' % (info.get('sighup_ignored'), ign, pre))
                    if pre and info.get('umask') != 0o057:
                        problems.append('preexec_fn did not run in the child (umask %r)' % (info.get('umask'),))
            if problems:
                common.report(ctx, 'launch/' + mode + '/' + problems[0].split(' ')[0], '; '.join(problems),
                              dict(mode=mode, args=args, program=(prog if mode == 'args' else None), cwd=cwd, env=envvals if env else None, dimensions=dims, echo=echo,
                                   ignore_sighup=ign, encoding=enc_, report=info))
                break
        # arguments the spawn's encoding cannot express: the child gets exactly the requested argv or the launch is refused
        for enc_, errs, arg in (('ascii', 'replace', 'caf\u00e9-\u4e2d.txt'), ('ascii', 'ignore', 'na\u00efve'), ('latin-1', 'replace', 'price\u20ac'),
                                ('utf-8', 'replace', 'data-\udcff.bin'), ('utf-8', 'ignore', 'plain'), ('latin-1', 'strict', 'caf\u00e9')):
            try:
                p = pexpect.spawn(common.PY, [PROBE, arg], encoding=enc_, codec_errors=errs, timeout=20)
                info = read_probe(p); p.close()
                got = info['argv_hex'][0] if info else None
                try:
                    want = arg.encode(enc_).hex()
                except UnicodeEncodeError:
                    want = None
                if got != want:
                    common.report(ctx, 'launch/argv-encoding', 'spawn(encoding=%r, codec_errors=%r) started the child with argument bytes %s for %r (%s)' % (
                        enc_, errs, got, arg, 'expected ' + want if want else 'the encoding cannot express it: the launch must be refused'),
                        dict(mode='argv-encoding', encoding=enc_, codec_errors=errs, arg=repr(arg)))
                    break
            except UnicodeEncodeError:
                pass
            n += 1
    finally:
        shutil.rmtree(tmp, ignore_errors=True)
    stats['launches'] = n
    return len(sigs)


def run(ctx):
    common.prove(ctx, ['C13'])
    if not ctx.quick():
        common.leanchecker(ctx, ['C13'])
    stats = {}
    d1 = stage_split(ctx, stats)
    d2 = stage_which(ctx, stats)
    d3 = stage_probe(ctx, stats)
    ctx.cov.update(stats)
    ev = stats.get('roundtrip_cases', 0) + stats.get('split_cases', 0) + stats.get('which_layouts', 0) + stats.get('launches', 0)
    s, a = rand_roundtrip(ctx.rng)
    return common.finish(
        ctx,
        'round-trip oracle on generated quoted command lines (3 styles, 6 whitespace characters, leading/trailing whitespace); '
        'generated-table interpreter vs split_command_line on every string <= 4 (quick) over {\\,\',",space,tab,a} and random strings; '
        'which() on generated PATH layouts (7 entry kinds x env/os/defpath fallbacks) vs the Lean which model; probe-child launches. '
        'distinct = (argc, has-quote, leading-ws, trailing-ws) classes + (env mode, os mode, answer kind) + launch setting combinations',
        [dict(command_line=s, args=a)], ev, d1 + d2 + d3,
        assumptions=['shlex.split (PopenSpawn) and ptyprocess.PtyProcess.spawn are trusted to pass argv/cwd/env through; the probe child validates it',
                     'os.access / realpath semantics are the file system model behind isExec'])


def replay(ctx, path):
    d = json.load(open(path))['replay']
    if 'command_line' in d:
        got = U.split_command_line(d['command_line'])
        print('split_command_line(%r) = %r expected %r' % (d['command_line'], got, d['expected']))
        return 0 if got == d['expected'] else 1
    print(json.dumps(d, indent=1))
    return None      # no dedicated replay for this kind of case: check.py re-runs the check with the recorded seed
