"""C09 (exit status truth) and C10 (life-cycle safety): the Life model vs real pty / popen children."""
import os, sys, gc, json, time, signal, tempfile, shutil, collections, itertools
from lib import common
common.repo_on_path()
import pexpect
from pexpect import popen_spawn, fdpexpect, socket_pexpect

CHILD = r'''
import os, sys, signal
flags = sys.argv[3]
if 'h' in flags: signal.signal(signal.SIGHUP, signal.SIG_IGN)
if 'i' in flags: signal.signal(signal.SIGINT, signal.SIG_IGN)
else: signal.signal(signal.SIGINT, signal.SIG_DFL)      # the kernel's default action, not Python's KeyboardInterrupt (which prints a traceback to the terminal)
ctl = os.open(sys.argv[1], os.O_RDONLY); ack = os.open(sys.argv[2], os.O_WRONLY)
os.write(ack, b'R')
if 's' in flags: os.kill(os.getpid(), signal.SIGSTOP)
while True:
    c = os.read(ctl, 1)
    if not c:
        os._exit(99)
    if c == b'w':
        os.write(1, b'last words')        # said right before the end (the next command byte ends the child)
        continue
    if c == b'x':
        os._exit(os.read(ctl, 1)[0])
    if c == b'k':
        sig = os.read(ctl, 1)[0]
        try:
            signal.signal(sig, signal.SIG_DFL)
        except (OSError, ValueError):
            pass
        os.kill(os.getpid(), sig)
'''


def proc_state(pid):
    try:
        return open('/proc/%d/stat' % pid).read().rsplit(')', 1)[1].split()[0]
    except (OSError, IndexError):
        return 'X'


class Child(object):
    def __init__(self, disp, plan):
        """disp: subset of 'his' (ignore HUP, ignore INT, stopped); plan: ('e', code) | ('s', sig)"""
        self.d = tempfile.mkdtemp(prefix='verif_lf_')
        c = os.path.join(self.d, 'c'); a = os.path.join(self.d, 'a')
        os.mkfifo(c); os.mkfifo(a)
        self.p = pexpect.spawn(common.PY, ['-c', CHILD, c, a, disp or '-'], timeout=5, echo=False)
        self.p.delayafterterminate = 0.03; self.p.ptyproc.delayafterterminate = 0.03
        self.p.delayafterclose = 0.03; self.p.ptyproc.delayafterclose = 0.03
        self.cw = os.open(c, os.O_WRONLY); self.ar = os.open(a, os.O_RDONLY)
        assert os.read(self.ar, 1) == b'R'
        self.pid = self.p.pid
        self.fd = self.p.child_fd
        self.plan = plan
        self.ended = False
        if 's' in disp:
            for _ in range(2000):
                if proc_state(self.pid) == 'T':
                    break
                time.sleep(0.0005)

    def settle(self, want=None):
        for _ in range(400):
            st = proc_state(self.pid)
            if want and st in want:
                return st
            if not want:
                return st
            time.sleep(0.0005)
        return proc_state(self.pid)

    def end(self):
        """let the child meet its own end (only a running child reads the command)"""
        if self.ended or proc_state(self.pid) in ('T', 'Z', 'X'):
            return
        self.ended = True
        try:
            os.write(self.cw, (b'x' if self.plan[0] == 'e' else b'k') + bytes([self.plan[1]]))
        except OSError:
            return
        self.settle(('Z', 'X'))

    def cleanup(self):
        for fd in (self.cw, self.ar):
            try:
                os.close(fd)
            except OSError:
                pass
        try:
            if proc_state(self.pid) not in ('X',):
                os.kill(self.pid, signal.SIGKILL)
        except OSError:
            pass
        try:
            self.p.close(force=True)
        except Exception:
            pass
        shutil.rmtree(self.d, ignore_errors=True)


def canon_status(st):
    if st is None:
        return '-'
    if os.WIFEXITED(st):
        return str(os.WEXITSTATUS(st) * 256)
    if os.WIFSIGNALED(st):
        return str(os.WTERMSIG(st))
    return '?%d' % st


def show_sp(p):
    o = lambda v: '-' if v is None else str(v)
    return 't=%s e=%s s=%s st=%s c=%s fd=%s' % (str(bool(p.terminated)).lower(), o(p.exitstatus), o(p.signalstatus), canon_status(p.status),
                                              str(bool(p.closed)).lower(), '-1' if p.child_fd == -1 else 'open')


FATAL_DEFAULT = {1, 2, 3, 6, 9, 13, 14, 15}


def run_real(disp, plan, ops, patience=1):
    ch = Child(disp, plan)
    p = ch.p
    outs = []
    stale = []
    real_kill = os.kill

    def watched_kill(pid, sig):
        # a signal sent to the child's pid after the child has been reaped goes to whoever owns that number now
        if pid == ch.pid and proc_state(pid) == 'X':
            stale.append(sig)
        return real_kill(pid, sig)
    try:
        for op in ops:
            os.kill = watched_kill
            try:
                with common.guard(30):
                    ret = _one_op(ch, p, op, patience)
            except common.Stuck:
                ret = 'EXC:still-blocked-after-30s'
            finally:
                os.kill = real_kill
            if stale:
                ret = 'STALE-PID:%s' % stale[0]
                del stale[:]
            outs.append('%s|%s' % (ret, show_sp(p)))
        st = proc_state(ch.pid)
        proc = {'Z': 'zombie', 'X': 'reaped', 'T': 'stopped'}.get(st, 'running')
        fd_open = 'true' if p.child_fd != -1 else 'false'
        line = ' ; '.join(outs) + ' # proc=%s fdOpen=%s' % (proc, fd_open)
    finally:
        os.kill = real_kill
        ch.cleanup()
    return line


def _one_op(ch, p, op, patience):
    if True:
        if True:
            name = op.split(':')[0]
            arg = op.split(':')[1] if ':' in op else None
            try:
                if name == 'alive':
                    ret = str(p.isalive()).lower()
                elif name == 'wait':
                    ch.end()
                    r = p.wait()
                    ret = '-' if r is None else str(r)
                elif name == 'kill':
                    p.kill(int(arg)); ret = 'None'
                    # signal delivery is asynchronous: give the kernel up to 40 ms (x patience) to turn the child into a zombie
                    for _ in range(80 * patience):
                        if proc_state(ch.pid) in ('Z', 'X'):
                            break
                        time.sleep(0.0005)
                elif name == 'term':
                    ret = str(p.terminate(force=(arg == '1'))).lower()
                elif name == 'close':
                    try:
                        p.close(force=(arg == '1')); ret = 'None'
                    except pexpect.ExceptionPexpect:
                        ret = 'raised'
                elif name == 'exit':
                    # what leaving a with-block does (arg 1: by an exception)
                    try:
                        if arg == '1':
                            p.__exit__(RuntimeError, RuntimeError('left the block by an exception'), None)
                        else:
                            p.__exit__(None, None, None)
                        ret = 'None'
                    except pexpect.ExceptionPexpect:
                        ret = 'raised'
                elif name == 'ends':
                    ch.end(); ret = '-'
                elif name == 'send':
                    try:
                        p.send(b'z'); ret = 'ok'
                    except OSError:
                        ret = 'OSError'
                    except ValueError:
                        ret = 'ValueError'
                elif name == 'read':
                    was_closed = bool(p.closed)
                    try:
                        p.read_nonblocking(1, 0); ret = 'ok'
                    except pexpect.TIMEOUT:
                        ret = 'ok' if not was_closed else 'TIMEOUT-on-a-closed-object'
                    except pexpect.EOF:
                        # the ordinary end of the stream - but not on a closed object: there a read is an error, whatever was seen before
                        ret = 'ok' if not was_closed else 'EOF-on-a-closed-object'
                    except ValueError:
                        ret = 'ValueError'
                    except OSError:
                        ret = 'OSError'
            except Exception as e:      # noqa
                ret = 'EXC:' + type(e).__name__
            return ret


def model_line(disp, plan, ops):
    # leaving a with-block is close() with its default force=True (SpawnBase.__exit__)
    ops = ['close:1' if o.startswith('exit') else o for o in ops]
    return 'LF %s %d %d %s:%d %s' % ('S' if 's' in disp else 'R', 1 if 'h' in disp else 0, 1 if 'i' in disp else 0, plan[0], plan[1], ' '.join(ops))


def oracle(disp, plan, ops, line):
    """direct property checks on the real run (C09 / C10)"""
    body, tail = line.split(' # ')
    steps = [s.split('|') for s in body.split(' ; ')]
    fields = [dict(kv.split('=') for kv in s[1].split(' ')) for s in steps]
    rets = [s[0] for s in steps]
    if any(r.startswith('STALE-PID') for r in rets):
        i = next(i for i, r in enumerate(rets) if r.startswith('STALE-PID'))
        return 'C10', '%s sent signal %s to the child\'s pid after the child had been reaped (the number may belong to another process by now)' % (ops[i], rets[i].split(':')[1])
    if any(r.startswith('EXC') for r in rets):
        i = next(i for i, r in enumerate(rets) if r.startswith('EXC'))
        # an operation that observes the child's end and raises instead of recording its fate breaks C09 as much as C10
        return '*', '%s raised %s (object afterwards: %s)' % (ops[i], rets[i], steps[i][1])
    first = None
    for i, f in enumerate(fields):
        if f['t'] == 'true':
            if (f['e'] == '-') == (f['s'] == '-'):
                return 'C09', 'after %s: terminated with exitstatus=%s signalstatus=%s (exactly one must be set)' % (ops[i], f['e'], f['s'])
            want = str(plan[1] * 256) if f['e'] != '-' else f['s']
            if f['st'] != (str(int(f['e']) * 256) if f['e'] != '-' else f['s']):
                return 'C09', 'after %s: status decodes to %s but exitstatus=%s signalstatus=%s' % (ops[i], f['st'], f['e'], f['s'])
            if first is None:
                first = (i, f)
            elif (f['e'], f['s'], f['st']) != (first[1]['e'], first[1]['s'], first[1]['st']):
                return 'C09', 'status changed between %s and %s: %s -> %s' % (ops[first[0]], ops[i], first[1], f)
        elif first is not None:
            return 'C09', 'terminated went back to false after %s' % ops[i]
    # pexpect itself has reaped the child (nobody else waits for it in these histories): it has observed the death, so it knows the fate
    if 'proc=reaped' in tail and fields and fields[-1]['t'] != 'true':
        return '*', 'after %s the child has been reaped (by pexpect: nobody else waits for it), yet the object does not know its fate: %s' % (ops[-1], steps[-1][1])
    for i, (op, r) in enumerate(zip(ops, rets)):
        if op == 'wait' and fields[i]['t'] != 'true':
            return 'C09', 'wait() returned %s but the object does not know the child\'s fate afterwards (%s)' % (r, steps[i][1])
        if op == 'alive' and r == 'true' and fields[i]['t'] == 'true':
            return 'C10', 'isalive() returned True for a child already reported terminated'
        if op.startswith('close') or op.startswith('exit'):
            what = 'close' if op.startswith('close') else 'leaving the with-block'
            if fields[i]['fd'] != '-1' or fields[i]['c'] != 'true':
                return 'C10', 'after %s the object still holds descriptor state %s' % (what, fields[i])
            if (op == 'close:1' or op.startswith('exit')) and (r != 'None' or fields[i]['t'] != 'true'):
                return 'C10', '%s did not leave the child terminated: %s %s' % ('close(force=True)' if op == 'close:1' else what, r, fields[i])
        if op == 'term:1' and (r != 'true' or fields[i]['t'] != 'true'):
            return '*', 'terminate(force=True) returned %s, terminated=%s (the death it reports must also be recorded: %s)' % (r, fields[i]['t'], steps[i][1])
        if op == 'term:0' and r == 'true' and fields[i]['t'] != 'true':
            return '*', 'terminate() returned True but the object does not know the child\'s fate (%s)' % steps[i][1]
        if op in ('send', 'read') and any(o.startswith(('close', 'exit')) for o in ops[:i]) and (r == 'ok' or r.endswith('on-a-closed-object')):
            return 'C10', '%s after close %s' % (op, 'succeeded' if r == 'ok' else 'ended in ' + r.split('-')[0] + ' (the ordinary end of a stream, not an error)')
    return None


def kill_faults(ctx, sigs):
    """terminate() when sending the signal fails: (a) the child is gone by the time the signal is sent (it died between the liveness check and
    os.kill: ESRCH) - terminate() says True and the fate is recorded; (b) the signal may not be sent (EPERM) - the child lives, terminate()
    says False and nothing claims otherwise"""
    import errno
    real_kill = os.kill
    for fault in ('ESRCH', 'EPERM'):
        for force in (False, True):
            ch = Child('', ('e', 0))
            p = ch.p
            state = dict(first=True)

            def faulty(pid, sig, ch=ch, state=state):
                if pid != ch.pid:
                    return real_kill(pid, sig)
                if fault == 'EPERM':
                    raise PermissionError(errno.EPERM, 'Operation not permitted')
                if state['first']:
                    state['first'] = False
                    real_kill(pid, signal.SIGKILL)           # the child dies right here, after the liveness check
                    for _ in range(2000):
                        if proc_state(pid) in ('Z', 'X'):
                            break
                        time.sleep(0.0005)
                raise ProcessLookupError(errno.ESRCH, 'No such process')
            os.kill = faulty
            try:
                with common.guard(30):
                    ret = p.terminate(force=force)
                out = (ret, bool(p.terminated), p.signalstatus)
            except common.Stuck:
                out = ('still blocked after 30 s',)
            except Exception as e:      # noqa
                out = ('raised %s' % type(e).__name__,)
            finally:
                os.kill = real_kill
            want = (True, True, 9) if fault == 'ESRCH' else (False, False, None)
            alive = proc_state(ch.pid) not in ('Z', 'X')
            sigs.add(('kill-fault', fault, force))
            ch.cleanup()
            if out != want:
                common.report(ctx, 'terminate/kill-fault/%s' % fault,
                              'terminate(force=%s) while os.kill fails with %s (%s): (returned, terminated, signalstatus) = %r, expected %r' % (
                                  force, fault, 'the child died between the liveness check and the signal' if fault == 'ESRCH' else 'the child keeps running',
                                  out, want), dict(fault=fault, force=force, child_was_alive_afterwards=alive))
                return


def leak_check(ctx, n):
    """no descriptor and no zombie is leaked per child"""
    gc.collect()
    base_fds = set(os.listdir('/proc/self/fd'))
    kids0 = children()
    for i in range(n):
        how = i % 4
        p = pexpect.spawn('sh', ['-c', 'echo hi; sleep 0.05'], timeout=5)
        if how == 0:
            p.expect(pexpect.EOF); p.close()
        elif how == 1:
            with p:
                try:
                    p.expect('never', timeout=0)
                except pexpect.TIMEOUT:
                    pass
        elif how == 2:
            try:
                with p:
                    raise RuntimeError('leave the with-block by exception')
            except RuntimeError:
                pass
        else:
            try:
                p.expect('never', timeout=0)
            except pexpect.TIMEOUT:
                pass
            del p
    gc.collect()
    time.sleep(0.1)
    gc.collect()
    fds = set(os.listdir('/proc/self/fd'))
    kids = children()
    extra_fds = len(fds) - len(base_fds)
    zombies = [k for k in kids - kids0 if proc_state(k) == 'Z']
    if extra_fds > 0:
        common.report(ctx, 'leak/descriptors', '%d descriptors still open after %d spawn/close cycles' % (extra_fds, n), dict(cycles=n, extra=extra_fds))
    if zombies:
        common.report(ctx, 'leak/zombies', '%d zombie children left after %d spawn/close cycles' % (len(zombies), n), dict(cycles=n))


def children():
    out = set()
    me = os.getpid()
    for d in os.listdir('/proc'):
        if d.isdigit():
            try:
                stat = open('/proc/%s/stat' % d).read().rsplit(')', 1)[1].split()
                if int(stat[1]) == me:
                    out.add(int(d))
            except (OSError, IndexError, ValueError):
                pass
    return out


def fd_socket_lifecycle(ctx, sigs):
    """fdspawn / SocketSpawn: close is idempotent, releases the descriptor, isalive tells the truth, I/O after close errors"""
    import socket
    for kind in ('fd', 'fd-poll', 'socket', 'socket-reset'):
        if kind in ('fd', 'fd-poll'):
            r, w = os.pipe()
            p = fdpexpect.fdspawn(r, use_poll=(kind == 'fd-poll')); n = r
            os.write(w, b'x')
            try:
                p.read_nonblocking(1, 1)          # the object has been used for reading before it is closed
            except Exception:
                pass
        elif kind == 'socket':
            a, b = socket.socketpair(); p = socket_pexpect.SocketSpawn(a); n = a.fileno()
        else:
            import struct
            srv = socket.socket(); srv.bind(('127.0.0.1', 0)); srv.listen(1)
            c = socket.create_connection(srv.getsockname()); a2, _ = srv.accept()
            a2.setsockopt(socket.SOL_SOCKET, socket.SO_LINGER, struct.pack('ii', 1, 0)); a2.close(); srv.close()
            time.sleep(0.03)
            try:
                c.send(b'x')
            except OSError:
                pass
            p = socket_pexpect.SocketSpawn(c); n = c.fileno()
        problems = []
        if not p.isalive():
            problems.append('isalive() false on an open descriptor')
        try:
            p.close()
        except Exception as e:       # noqa
            problems.append('close() raised %s: %s' % (type(e).__name__, e))
        if p.child_fd != -1 or not p.closed:
            problems.append('after close child_fd=%r closed=%r' % (p.child_fd, p.closed))
        if os.path.exists('/proc/self/fd/%d' % n):
            problems.append('descriptor %d still open after close' % n)
        if p.isalive():
            problems.append('isalive() true after close')
        try:
            p.close()
        except Exception as e:       # noqa
            problems.append('second close() raised %s' % type(e).__name__)
        try:
            p.send(b'x'); problems.append('send after close succeeded')
        except Exception:
            pass
        # whatever is opened next takes over the descriptor number: a read on the closed object must fail at once with an error, not look at it
        squat = os.pipe() if kind in ('fd', 'fd-poll') else None
        t0 = time.time()
        try:
            p.read_nonblocking(1, 0.4); problems.append('read after close succeeded')
        except (ValueError, OSError):
            pass
        except (pexpect.EOF, pexpect.TIMEOUT) as e:
            problems.append('read after close ended in %s (it looked at descriptor %d, which belongs to someone else now)' % (type(e).__name__, n))
        if time.time() - t0 > 0.25:
            problems.append('read after close took %.2f s' % (time.time() - t0))
        if squat:
            os.close(squat[0]); os.close(squat[1])
        if kind in ('fd', 'fd-poll'):
            os.close(w)
        elif kind == 'socket':
            b.close()
        sigs.add(('fdsock', kind, not problems))
        if problems:
            common.report(ctx, 'lifecycle/%s' % kind, '%s: %s' % (kind, '; '.join(problems)), dict(kind=kind, problems=problems))


def sweep_c09(ctx, sigs):
    """every exit code / terminating signal x every way of observing the death (pty); PopenSpawn.wait; run(withexitstatus)"""
    rng = ctx.rng
    codes = [0, 1, 2, 126, 127, 128, 255] + [rng.randrange(3, 255) for _ in range(6 if ctx.quick() else 0)] if ctx.quick() else list(range(256))
    # every signal whose default action ends the process, the real-time range (no symbolic names) included
    TERMINATING = [x for x in range(1, 65) if x not in (17, 18, 19, 20, 21, 22, 23, 28, 32, 33)]
    sigsv = ([1, 2, 3, 9, 15] + rng.sample([x for x in TERMINATING if 34 <= x], 2) + rng.sample([x for x in TERMINATING if x < 34 and x not in (1, 2, 3, 9, 15)], 2)) \
        if ctx.quick() else TERMINATING
    paths = [['ends', 'alive', 'alive'], ['wait', 'alive'], ['ends', 'close:1', 'alive', 'wait'], ['ends', 'term:0', 'alive'], ['ends', 'alive', 'close:0', 'wait', 'alive']]
    cases = []
    for i, c in enumerate(codes):
        cases.append(('', ('e', c), paths[i % len(paths)]))
    for i, s in enumerate(sigsv):
        cases.append(('', ('s', s), paths[(i + 1) % len(paths)]))
    return cases


def last_words(ctx, sigs):
    """the child's last output and its end are both waiting when one read takes them: the read that met the end of the stream has observed the
    death, so the fate is known right after it - without any further call"""
    for plan in [('e', 3), ('e', 0), ('s', 9), ('s', 40)]:
        for how in ('read_nonblocking', 'expect_exact'):
            ch = Child('', plan)
            p = ch.p
            try:
                os.write(ch.cw, b'w')
                ch.end()                      # waits until the child is a zombie (not reaped)
                if how == 'read_nonblocking':
                    got = p.read_nonblocking(4096, 2)
                else:
                    p.expect_exact(b'words', timeout=2); got = p.before + p.after
                met_eof = bool(p.flag_eof)
                seen = (p.exitstatus, p.signalstatus, bool(p.terminated))
                want = (plan[1], None, True) if plan[0] == 'e' else (None, plan[1], True)
                sigs.add(('last-words', how, plan[0], met_eof))
                if met_eof and seen != want:
                    common.report(ctx, 'last-words/%s/%s' % (how, plan[0]),
                                  'the child wrote %r and ended (%s); %s returned it and met the end of the stream in the same call (flag_eof is set), but '
                                  '(exitstatus, signalstatus, terminated) = %r, the child\'s fate is %r' % (got, plan, how, seen, want), dict(plan=list(plan), how=how))
                    return
            except Exception as e:       # noqa
                common.report(ctx, 'last-words/%s/raised' % how, 'last words then end (%s), %s raised %s: %s' % (plan, how, type(e).__name__, str(e)[:100]), dict(plan=list(plan), how=how))
                return
            finally:
                ch.cleanup()


def popen_and_run(ctx, sigs):
    for code in ([0, 3, 255] if ctx.quick() else range(0, 256, 5)):
        p = popen_spawn.PopenSpawn([common.PY, '-c', 'import sys; sys.exit(%d)' % code])
        r = p.wait()
        sigs.add(('popen-wait', code > 0))
        if r != code or p.exitstatus != code or p.signalstatus is not None or not p.terminated:
            common.report(ctx, 'popen/wait/exit', 'PopenSpawn.wait() for exit code %d: returned %r exitstatus %r signalstatus %r' % (code, r, p.exitstatus, p.signalstatus),
                          dict(code=code))
        out, st = pexpect.run('%s -c "import sys; print(1); sys.exit(%d)"' % (common.PY, code), withexitstatus=True)
        if st != code:
            common.report(ctx, 'run/exitstatus', 'run(withexitstatus=True) returned %r for exit code %d' % (st, code), dict(code=code))
    for s in ([9, 15, ctx.rng.randrange(34, 65)] if ctx.quick() else [1, 2, 3, 6, 9, 13, 15, 34, 40, 55, 64]):
        p = popen_spawn.PopenSpawn([common.PY, '-c', 'import os,signal\ntry: signal.signal(%d, signal.SIG_DFL)\nexcept OSError: pass\nos.kill(os.getpid(), %d)' % (s, s)])
        r = p.wait()
        sigs.add(('popen-wait-signal', s))
        if r != -s or p.exitstatus is not None or p.signalstatus != s:
            common.report(ctx, 'popen/wait/signal', 'PopenSpawn.wait() for signal %d: returned %r exitstatus %r signalstatus %r' % (s, r, p.exitstatus, p.signalstatus), dict(sig=s))


def wait_dead(pid, limit=3.0):
    """wait (without reaping) until the process has ended"""
    t0 = time.time()
    while time.time() - t0 < limit:
        if proc_state(pid) in ('Z', 'X', None):
            return True
        time.sleep(0.005)
    return False


def popen_histories(ctx, sigs):
    """PopenSpawn: every order of {kill (also on a child that has already ended), wait, wait again}; the status fields are the
    child's real fate and never change"""
    import signal as sg
    plans = [('e', 0), ('e', 3), ('e', 200), ('s', 9), ('s', 15)] if ctx.quick() else [('e', c) for c in (0, 1, 3, 77, 200, 255)] + [('s', x) for x in (1, 2, 9, 15)]
    for plan in plans:
        for hist in (['wait', 'wait'], ['dead', 'kill', 'wait'], ['dead', 'kill', 'wait', 'kill', 'wait'], ['kill', 'wait', 'wait'], ['dead', 'wait', 'kill']):
            if plan[0] == 'e':
                code = 'import sys,time\nsys.stdin.readline()\nsys.exit(%d)' % plan[1]
            else:
                code = 'import os,sys,signal\nsys.stdin.readline()\ntry: signal.signal(%d, signal.SIG_DFL)\nexcept OSError: pass\nos.kill(os.getpid(), %d)' % (plan[1], plan[1])
            p = popen_spawn.PopenSpawn([common.PY, '-c', code])
            fate = plan
            seen = []
            alive = True
            try:
                for op in hist:
                    if op == 'dead':
                        p.sendline('go'); wait_dead(p.proc.pid); alive = False
                    elif op == 'kill':
                        if alive:
                            fate = ('s', 15)
                        try:
                            p.kill(sg.SIGTERM)
                        except Exception:
                            pass
                        if alive:
                            wait_dead(p.proc.pid); alive = False
                    elif op == 'wait':
                        if alive:
                            p.sendline('go'); alive = False
                        r = p.wait()
                        seen.append((r, p.exitstatus, p.signalstatus, p.terminated))
            except Exception as e:      # noqa
                seen.append(('EXC:' + type(e).__name__,))
            want = (fate[1], fate[1], None, True) if fate[0] == 'e' else (-fate[1], None, fate[1], True)
            sigs.add(('popen-hist', tuple(hist), fate[0]))
            bad = [x for x in seen if x != want]
            if bad or not seen:
                common.report(ctx, 'popen/history/%s' % '-'.join(hist), 'PopenSpawn child ending with %s, history %s: wait() / status fields %r, expected %r' % (
                    fate, hist, seen, want), dict(plan=list(plan), history=hist))
            try:
                p.proc.stdin.close(); p.proc.stdout.close()
            except Exception:
                pass


def hostile_close(ctx, sigs):
    """close() must give up the descriptor and mark the object closed on every path — also when something around it fails:
    (a) the child was reaped behind pexpect's back (SIGCHLD ignored, another os.wait in the program), (b) an attached log file has
    already been closed.  Afterwards I/O must fail on the object instead of touching a descriptor number that may be reused."""
    import socket, io
    for scen in ('reaped-behind', 'closed-logfile', 'closed-logfile-with'):
        for kind in (('pty',) if scen == 'reaped-behind' else ('pty', 'fd', 'socket')):
            extra = []
            if kind == 'pty':
                p = pexpect.spawn('sh', ['-c', 'read x; exit 3'], timeout=3, echo=False)
                n = p.child_fd
            elif kind == 'fd':
                r, w = os.pipe(); extra = [w]
                p = fdpexpect.fdspawn(r, timeout=1); n = r
            else:
                a, b = socket.socketpair(); extra = [b]
                p = socket_pexpect.SocketSpawn(a, timeout=1); n = a.fileno()
            problems = []
            try:
                if scen == 'reaped-behind':
                    p.sendline('go'); wait_dead(p.pid)
                    os.waitpid(p.pid, 0)
                else:
                    lf = io.BytesIO(); p.logfile = lf; lf.close()
                raised = None
                if scen == 'closed-logfile-with':
                    try:
                        with p:
                            raise KeyError('from inside the with-block')
                    except KeyError:
                        raised = 'KeyError'
                    except Exception as e:      # noqa
                        raised = type(e).__name__
                    if raised != 'KeyError':
                        problems.append('the with-block replaced the KeyError raised inside it by %s' % raised)
                else:
                    try:
                        p.close()
                    except pexpect.ExceptionPexpect:
                        pass                      # allowed when the child cannot be confirmed dead; the object must still be released
                    except Exception as e:      # noqa
                        problems.append('close() raised %s: %s' % (type(e).__name__, str(e)[:60]))
                if p.child_fd != -1 or not p.closed:
                    problems.append('after close: child_fd=%r closed=%r' % (p.child_fd, p.closed))
                if kind != 'pty' and os.path.exists('/proc/self/fd/%d' % n) and not problems:
                    problems.append('descriptor %d still open after close' % n)
                # a new descriptor takes the old number: later I/O on the object must not reach it
                s1, s2 = socket.socketpair()
                try:
                    try:
                        p.send(b'LEAK')
                        problems.append('send() after close succeeded')
                    except Exception:
                        pass
                    s2.setblocking(False)
                    try:
                        if s2.recv(10) or False:
                            problems.append('send() after close wrote into an unrelated descriptor')
                    except BlockingIOError:
                        pass
                    try:
                        s1.setblocking(False)
                        if s1.recv(10):
                            problems.append('send() after close wrote into an unrelated descriptor')
                    except BlockingIOError:
                        pass
                finally:
                    s1.close(); s2.close()
            finally:
                for x in extra:
                    try:
                        x.close() if hasattr(x, 'close') else os.close(x)
                    except Exception:
                        pass
                try:
                    p.logfile = None
                    p.close(force=True) if kind == 'pty' else p.close()
                except Exception:
                    pass
            sigs.add(('hostile-close', scen, kind, not problems))
            if problems:
                common.report(ctx, 'close/%s/%s' % (scen, kind), '%s, %s: %s' % (scen, kind, '; '.join(problems)), dict(scenario=scen, kind=kind, problems=problems))


OPS = ['alive', 'wait', 'kill:1', 'kill:2', 'kill:9', 'kill:15', 'kill:18', 'term:0', 'term:1', 'close:0', 'close:1', 'ends', 'send', 'read', 'exit:0', 'exit:1']


def in_fork(fn, *args):
    """run fn(*args) in a forked copy of this process (pexpect imported before the fork, as in a daemon, a pre-forking server or a
    multiprocessing worker) and hand its (string) result back"""
    r, w = os.pipe()
    pid = os.fork()
    if pid == 0:
        try:
            os.close(r)
            try:
                out = fn(*args)
            except BaseException as e:      # noqa
                out = 'EXC-IN-FORK:%s: %s' % (type(e).__name__, str(e)[:200])
            os.write(w, out.encode('utf-8', 'replace'))
        finally:
            os._exit(0)
    os.close(w)
    data = b''
    try:
        with common.guard(120):
            while True:
                d = os.read(r, 65536)
                if not d:
                    break
                data += d
    except common.Stuck:
        # the forked copy never finished (a call into the code under test that does not come back): it is ended here and reported by the caller
        data = b'EXC-IN-FORK:still-running-after-120s'
        try:
            os.kill(pid, signal.SIGKILL)
        except OSError:
            pass
    os.close(r)
    os.waitpid(pid, 0)
    return data.decode('utf-8', 'replace')


def forked_histories(ctx, sigs, cases, mouts):
    """the same histories in a process that was forked after pexpect had been imported: the children it starts are its own"""
    prop = ctx.prop
    k = 0
    for (d, plan, ops), mo in zip(cases, mouts):
        if 'wait' in ops and 's' in d:
            continue
        k += 1
        if k > (10 if ctx.quick() else 80):
            break
        real = in_fork(run_real, d, plan, ops, 10)
        if real.startswith('EXC-IN-FORK'):
            bad = ('*', real)
        else:
            bad = oracle(d, plan, ops, real)
        sigs.add(('forked', d, tuple(o.split(':')[0] for o in ops)))
        if bad and bad[0] in (prop, '*'):
            common.report(ctx, 'life/forked/%s/%s' % (d or 'normal', '+'.join(o.split(':')[0] for o in ops)[:40]),
                          'in a forked process, child(%s, plan %s) ops %s: %s' % (d or 'normal', plan, ops, bad[1]),
                          dict(disposition=d, plan=list(plan), ops=ops, real=real, how='harness/props/lifecycle.py in_fork(run_real, disp, plan, ops)'))
            return
        if mo is not None and real != mo and not ctx.violations and not ctx.broken:
            again = in_fork(run_real, d, plan, ops, 25)
            if again != mo:
                ctx.broken.append('correspondence life-cycle model vs real child in a forked process (%s, %s) ops %s: real [%s] model [%s]' % (d or 'normal', plan, ops, again, mo))
                return
    ctx.cov['forked_histories'] = min(k, 10 if ctx.quick() else 80)


def sigchld_ignored_wait(plan):
    """(runs in a forked process) the application ignores SIGCHLD - the kernel then reaps children by itself - and the child ends while
    wait() is blocked: whatever wait() does then, it must not invent a fate"""
    signal.signal(signal.SIGCHLD, signal.SIG_IGN)
    ch = Child('', plan)
    p = ch.p
    real_waitpid = os.waitpid
    fired = []

    def waitpid(pid, options):
        if pid == ch.pid and options == 0 and not fired:
            fired.append(1)
            ch.end()                      # the child meets its end now, and the kernel reaps it at once
            for _ in range(2000):
                if proc_state(ch.pid) == 'X':
                    break
                time.sleep(0.001)
        return real_waitpid(pid, options)
    os.waitpid = waitpid
    try:
        try:
            with common.guard(30):
                ret = 'ret:%r' % (p.wait(),)
        except common.Stuck:
            ret = 'EXC:still-blocked-after-30s'
        except Exception as e:      # noqa
            ret = 'EXC:%s' % type(e).__name__
        line = '%s|%s' % (ret, show_sp(p))
        try:
            alive = p.isalive()
            line += ' ; alive:%s|%s' % (alive, show_sp(p))
        except Exception as e:      # noqa
            line += ' ; alive:EXC:%s|%s' % (type(e).__name__, show_sp(p))
    finally:
        os.waitpid = real_waitpid
        ch.cleanup()
    return line


def stage_sigchld_ignored(ctx, sigs):
    for plan in (('e', 7), ('e', 0), ('s', 15)):
        line = in_fork(sigchld_ignored_wait, plan)
        if line.startswith('EXC-IN-FORK'):
            common.report(ctx, 'life/sigchld-ignored/never-finished', 'SIGCHLD ignored, the child (plan %s) ended while wait() was blocked: %s' % (list(plan), line), dict(stage='stage_sigchld_ignored', plan=list(plan)))
            return
        sigs.add(('sigchld-ignored', plan[0], line.split('|')[0].split(':')[0]))
        ctx.cov['sigchld_ignored_runs'] = ctx.cov.get('sigchld_ignored_runs', 0) + 1
        want = ('e=%d s=-' % plan[1]) if plan[0] == 'e' else ('e=- s=%d' % plan[1])
        for part in line.split(' ; '):
            st = part.split('|')[-1]
            claimed = 't=true' in st
            if part.startswith('ret:') and plan[0] == 'e' and part.split('|')[0] != 'ret:%d' % plan[1]:
                common.report(ctx, 'life/sigchld-ignored/wait-returned', 'SIGCHLD ignored, the child (plan %s) ended while wait() was blocked: wait() returned %s [%s]; the child\'s fate '
                              'is not known to anybody' % (list(plan), part.split('|')[0][4:], st), dict(stage='stage_sigchld_ignored', plan=list(plan), line=line))
                return
            if claimed and want not in st:
                common.report(ctx, 'life/sigchld-ignored/status-invented', 'SIGCHLD ignored, the child (plan %s) ended while wait() was blocked: the object says [%s]' % (list(plan), st),
                              dict(stage='stage_sigchld_ignored', plan=list(plan), line=line))
                return


def run(ctx):
    prop = ctx.prop
    common.prove(ctx, [prop])
    if not ctx.quick():
        common.leanchecker(ctx, [prop])
    rng = ctx.rng
    sigs = set()
    cases = [('hi', ('e', 3), ['close:0', 'send', 'read', 'close:1', 'alive']),          # defect #9 (fixed)
             ('', ('e', 7), ['ends', 'alive', 'alive', 'close:1', 'wait']),
             ('s', ('e', 0), ['alive', 'close:1', 'alive']),
             ('his', ('e', 0), ['term:0', 'term:1', 'alive']),
             # a polite close() that the child survives, the child's own end later, observed by wait() first
             ('hi', ('e', 4), ['close:0', 'exit:0', 'alive']),                  # inside a with-block: a polite close() the child survives, then the block ends
             ('hi', ('e', 4), ['close:0', 'exit:1']),
             ('', ('e', 4), ['exit:0', 'exit:0', 'send']),
             ('', ('e', 2), ['ends', 'read', 'alive', 'close:1', 'read', 'send']),       # end of stream seen, child reaped, then closed: I/O is an error all the same
             ('', ('s', 9), ['ends', 'read', 'read', 'exit:0', 'read']),
             ('hi', ('e', 7), ['close:0', 'ends', 'wait', 'alive']),
             ('hi', ('s', 9), ['close:0', 'ends', 'wait', 'wait']),
             ('hi', ('e', 0), ['close:0', 'close:0', 'ends', 'wait'])]
    if prop == 'C09':
        cases += sweep_c09(ctx, sigs)
    disps = ['', 'h', 'i', 'hi', 's', 'hs', 'his']
    if prop == 'C10' or not ctx.quick():
        # exhaustive pairs of ops (quick) per disposition, then random sequences
        pair_ops = ['alive', 'kill:1', 'kill:9', 'term:0', 'term:1', 'close:0', 'close:1', 'ends', 'send']
        for d in (['', 'hi', 's'] if ctx.quick() else disps):
            for a, b in itertools.product(pair_ops, repeat=2):
                if ctx.quick() and rng.random() < 0.6:
                    continue
                cases.append((d, ('e', 5), [a, b, 'alive']))
    n = 40 if ctx.quick() else 1500
    for _ in range(n):
        d = rng.choice(disps)
        plan = ('e', rng.randrange(0, 256)) if rng.random() < 0.7 else ('s', rng.choice([1, 2, 3, 9, 15, 15, 31, 34, 40, 64]))
        ops = []
        for _ in range(rng.randrange(1, 7)):
            o = rng.choice(OPS)
            if o == 'wait' and 's' in d:
                o = 'alive'            # a plain waitpid never reports a stopped child: would block
            ops.append(o)
        cases.append((d, plan, ops))
    # `wait` must not be asked of a child that will not end: make sure its plan can run (not stopped, or continued)
    lines = [model_line(d, plan, ops) for (d, plan, ops) in cases]
    try:
        mouts = common.run_model(lines)
    except common.ModelUnavailable as e:
        ctx.broken.append('model driver unavailable: ' + str(e)[:300]); mouts = [None] * len(cases)
    for (d, plan, ops), mo in zip(cases, mouts):
        if mo is not None and 'wait' in ops:
            # skip histories in which the model says `wait` would be called on a stopped child
            toks = mo.split(' # ')[0].split(' ; ')
            skip = False
            for i, o in enumerate(ops):
                if o == 'wait' and 's' in d and not any(x.startswith(('kill:18', 'term', 'close')) for x in ops[:i]):
                    skip = True
            if skip:
                continue
        real = run_real(d, plan, ops)
        bad = oracle(d, plan, ops, real)
        if (bad and bad[0] in (prop, '*')) or (mo is not None and real != mo):
            # real processes on a loaded machine: a signal may take longer than 40 ms to show its effect.  Re-run patiently;
            # only what reproduces is judged.
            for patience in (10, 25):
                real = run_real(d, plan, ops, patience=patience)
                bad = oracle(d, plan, ops, real)
                if not ((bad and bad[0] in (prop, '*')) or (mo is not None and real != mo)):
                    break
        sigs.add((d, tuple(o.split(':')[0] for o in ops), real.split(' # ')[1]))
        if bad and bad[0] in (prop, '*'):
            common.report(ctx, 'life/%s/%s' % (d or 'normal', '+'.join(o.split(':')[0] for o in ops)[:40]),
                          'child(%s, plan %s) ops %s: %s' % (d or 'normal', plan, ops, bad[1]),
                          dict(disposition=d, plan=list(plan), ops=ops, real=real, how='harness/props/lifecycle.py run_real(disp, plan, ops)'))
            continue
        if mo is not None and real != mo:
            ctx.broken.append('correspondence life-cycle model vs real child(%s, %s) ops %s: real [%s] model [%s]' % (d or 'normal', plan, ops, real, mo))
    forked_histories(ctx, sigs, cases, mouts)
    if prop == 'C09':
        stage_sigchld_ignored(ctx, sigs)
        last_words(ctx, sigs)
        popen_and_run(ctx, sigs)
        popen_histories(ctx, sigs)
    else:
        leak_check(ctx, 12 if ctx.quick() else 200)
        kill_faults(ctx, sigs)
        fd_socket_lifecycle(ctx, sigs)
        hostile_close(ctx, sigs)
    return common.finish(
        ctx, 'real pty children with dispositions {normal, ignores HUP, ignores INT, both, stopped, ...} and a planned end (exit code / signal); operation '
             'sequences over {isalive, wait, kill(sig), terminate(force), close(force), child ends, send, read}: corpus, (C09) every exit code / signal class x 5 '
             'observation paths, (C10) pairs of operations per disposition, random sequences <= 6; compared op by op with the Lean life-cycle model and '
             'judged by the direct oracles (exactly-one status, status decodes, stability, liveness truth, close/terminate effects, I/O after close); '
             'PopenSpawn.wait and run(withexitstatus); descriptor / zombie accounting; fdspawn / SocketSpawn close. distinct = (disposition, op names, final state)',
        [dict(disposition=c[0], plan=list(c[1]), ops=c[2]) for c in cases[:3]], len(cases), len(sigs),
        assumptions=['a delivered fatal signal makes the child waitable within delayafterterminate (set to 30 ms here)',
                     'wait() is not called on a stopped child (a plain waitpid never returns for it)',
                     'kernel signal semantics (HUP/INT ignorable, KILL not, stopped processes keep HUP/INT pending until CONT, hang-up = HUP+CONT)'])


def replay(ctx, path):
    d = json.load(open(path))['replay']
    if 'disposition' not in d:
        return None
    real = run_real(d['disposition'], tuple(d['plan']), d['ops'])
    print(real)
    bad = oracle(d['disposition'], tuple(d['plan']), d['ops'], real)
    print(bad)
    return 1 if bad else 0
