"""C18 ANSI emulator: totality / shape / no residue / chunk independence over the generated FSM table."""
import json, collections, warnings, itertools
warnings.simplefilter('ignore')
from lib import common
common.repo_on_path()
from pexpect import ANSI
from drivers import screen_drv as SD

ESC = '\x1b'


FINALS = 'ABCDEFGHIJKLMNOPQRSTUVWXYZabcdefghijklmnopqrstuvwxyz@`~{|}'


def params(rng, rows, cols):
    return rng.choice([0, 1, 2, max(1, rows // 2), rows, cols, rows + 1, cols + 3, 99999999999, 7])


def known_sequences(rng, rows, cols):
    P = lambda: str(params(rng, rows, cols))
    return [
        ESC + '[H', ESC + '[D', ESC + '[B', ESC + '[C', ESC + '[A', ESC + '[J', ESC + '[K', ESC + '[r', ESC + '[m',
        ESC + '[' + P() + 'D', ESC + '[' + P() + 'B', ESC + '[' + P() + 'C', ESC + '[' + P() + 'A', ESC + '[' + P() + 'J',
        ESC + '[' + P() + 'K', ESC + '[' + P() + 'l', ESC + '[' + P() + 'm', ESC + '[' + P() + 'q',
        ESC + '[' + P() + ';' + P() + 'H', ESC + '[' + P() + ';' + P() + 'f', ESC + '[' + P() + ';' + P() + 'r',
        ESC + '[' + P() + ';' + P() + 'm', ESC + '[' + P() + ';' + P() + ';' + P() + 'm', ESC + '[' + P() + ';' + P() + ';' + P() + ';' + P() + 'q',
        ESC + '[?' + P() + 'h', ESC + '[?' + P() + 'l', ESC + '7', ESC + '8', ESC + 'M', ESC + '>', ESC + '<', ESC + '=', ESC + '#8',
        # any number of parameters before any final character (a final that takes fewer must not leave the others behind)
        ESC + '[' + ';'.join(P() for _ in range(rng.randrange(1, 6))) + rng.choice('HfrmqABCDJKl'),
        ESC + '[' + ';'.join(P() for _ in range(3)) + rng.choice('Hfr'),
        # any final character at all, with none, one or two parameters (most are not sequences this emulator knows: those are dropped whole)
        ESC + '[' + rng.choice(FINALS), ESC + '[' + P() + rng.choice(FINALS), ESC + '[' + P() + ';' + P() + rng.choice(FINALS),
        ESC + '[' + P() + rng.choice(FINALS),
        ESC + '(B', ESC + ')0', ESC + '[0J', ESC + '[1J', ESC + '[2J', ESC + '[0K', ESC + '[1K', ESC + '[2K', ESC + '[0;0r', ESC + '[1;1H',
    ]


def rand_input(rng, rows, cols, n, alph):
    out = []
    for _ in range(n):
        r = rng.random()
        if r < 0.45:
            out.append(rng.choice(alph))
        elif r < 0.53:
            out.append(rng.choice('\r\n\x08\n'))
        elif r < 0.55:
            out.append(chr(rng.choice(list(range(0, 32)) + [127])))          # any C0 control, DEL
        elif r < 0.60:
            s = rng.choice(known_sequences(rng, rows, cols))               # a sequence interrupted by a control character (CAN / SUB cancel, BEL, TAB, ...)
            k = rng.randrange(1, len(s) + 1)
            out.append(s[:k] + chr(rng.choice([0x18, 0x1a, 0x18, 0x1a, 7, 9, 0, 11, 12, 14, 15, 127, 5])) + (s[k:] if rng.random() < 0.5 else ''))
        elif r < 0.88:
            out.append(rng.choice(known_sequences(rng, rows, cols)))
        elif r < 0.94:
            s = rng.choice(known_sequences(rng, rows, cols))
            out.append(s[:rng.randrange(1, len(s) + 1)])      # truncated
        else:
            out.append(ESC + rng.choice('[?(#') + ''.join(rng.choice('0;9?x[\x1bZ~') for _ in range(rng.randrange(0, 4))))   # unknown
    return ''.join(out)


def cut(rng, s, k):
    pts = sorted(rng.randrange(0, len(s) + 1) for _ in range(k)) if s else []
    out, prev = [], 0
    for p in pts + [len(s)]:
        out.append(s[prev:p]); prev = p
    return out


def enc(s):
    return ','.join(str(ord(c)) for c in s) if s else '-'


def encb(b):
    return ','.join(str(x) for x in b) if b else '-'


def run_real(rows, cols, encoding, chunks, feed='write'):
    """chunks: list of str or bytes; feed: the entry point the pieces go through - write(), its alias process_list(), or process() one
    character / byte at a time"""
    t = ANSI.ANSI(rows, cols, encoding=encoding)
    other = ANSI.ANSI(rows, cols, encoding=encoding) if feed == 'two' else None
    try:
        for ch in chunks:
            if feed == 'write':
                t.write(ch)
            elif feed == 'two':
                # two more terminals of the same kind live next to this one: one is fed the beginning of every piece, one is constructed
                # between this one's writes - a terminal's pending input is its own
                t.write(ch)
                try:
                    other.write(ch[:1])
                    ANSI.ANSI(rows, cols, encoding=encoding).write(ch[:1])
                except Exception:
                    pass
            elif feed == 'write+flush':
                t.write(ch); t.flush()          # what spawn._log does with a log file: the terminal may be one
            elif feed == 'process_list':
                t.process_list(ch)
            else:
                for i in range(len(ch)):
                    t.process(ch[i:i + 1])
    except Exception as e:
        return 'raises:%s' % type(e).__name__, t
    st = t.state
    line = SD.show_state(t) + ' st=AnsiGen.S.%s k=%s' % (st.current_state, ';'.join(enc(m) for m in st.memory[1:]))
    return line, t


def shape_problem(t, rows, cols):
    if len(t.w) != rows or any(len(r) != cols for r in t.w):
        return 'grid is not %dx%d' % (rows, cols)
    if any((not isinstance(c, str)) or len(c) != 1 for r in t.w for c in r):
        return 'a cell is not a single character'
    if not (1 <= t.cur_r <= rows and 1 <= t.cur_c <= cols):
        return 'cursor (%d,%d) off the %dx%d screen' % (t.cur_r, t.cur_c, rows, cols)
    if t.state.current_state == 'INIT' and len(t.state.memory) != 1:
        return 'parser residue %r left in state INIT' % (t.state.memory[1:],)
    return None


def model_line(rows, cols, encoding, chunks):
    toks = []
    for ch in chunks:
        toks.append(('b=' + encb(ch)) if isinstance(ch, bytes) else ('t=' + enc(ch)))
    return 'AN %d %d %s %s' % (rows, cols, 'utf8' if encoding == 'utf-8' else 'latin1', ' '.join(toks))


def run(ctx):
    common.prove(ctx, ['C18'])
    if not ctx.quick():
        common.leanchecker(ctx, ['C18'])
    rng = ctx.rng
    cases = []       # (rows, cols, encoding, chunks, whole)
    # corpus
    cases.append((4, 3, 'latin-1', [ESC + '[0;0r', '\n\n\n\n\n', 'x'], None))            # defect #16 (fixed)
    cases.append((3, 4, 'latin-1', [ESC + '[5;', '6Ha', ESC, '[', '2', 'J'], None))
    cases.append((2, 2, 'utf-8', ['héllo€'.encode('utf-8')[:2], 'héllo€'.encode('utf-8')[2:7], 'héllo€'.encode('utf-8')[7:]], None))
    ncorpus = len(cases)
    # exhaustive: sequences of <= 3 (quick) commands over a command alphabet on a 2x3 screen
    cmds = ['a', '\r', '\n', '\x08', ESC + '[H', ESC + '[2;3H', ESC + '[9;9H', ESC + '[0;0H', ESC + '[A', ESC + '[B', ESC + '[C', ESC + '[D',
            ESC + '[5A', ESC + '[0B', ESC + '[J', ESC + '[1J', ESC + '[2J', ESC + '[K', ESC + '[1K', ESC + '[2K', ESC + '[3K', ESC + '[r',
            ESC + '[2;2r', ESC + '[0;0r', ESC + '[2;1r', ESC + 'M', ESC + '7', ESC + '8', ESC + '[1;2;3m', ESC + '[?25h', ESC + '[4l', ESC + '[1;',
            ESC + '[;', ESC + '[x', ESC + ESC, ESC + '#3', ESC + '(A', ESC + '[1;2;x', ESC + '[1;2;3;4q', 'é', ESC + '[1;2;3H', ESC + '[9;1;2;3r', ESC + '[1;2;3f',
            '\x18', ESC + '[12\x18', ESC + '[3;4\x1a', ESC + '[?25\x18', '\t', '\x07', '\x0e']
    depth = 2 if ctx.quick() else 3
    nex = 0
    for seq in itertools.product(cmds, repeat=depth):
        s = ''.join(seq) + 'z'
        cases.append((2, 3, 'latin-1', [s], None)); nex += 1
    nrand = 4000 if ctx.quick() else 100000
    for _ in range(nrand):
        rows, cols = rng.choice([(1, 1), (2, 3), (3, 4), (24, 80), (1, 5), (5, 1)])
        mode = rng.choice(['str', 'str', 'latin1', 'utf8'])
        alph = 'abcXYZ019;[ ~é' if mode != 'utf8' else 'abcXYZ019;[ ~é€ü'
        s = rand_input(rng, rows, cols, rng.randrange(1, 25), alph)
        k = rng.choice([0, 1, 2, 3, 5])
        if mode == 'str':
            cases.append((rows, cols, 'latin-1', cut(rng, s, k), s))
        elif mode == 'latin1':
            b = s.encode('latin-1', 'replace')
            cases.append((rows, cols, 'latin-1', cut(rng, b, k), b))
        else:
            b = s.encode('utf-8')
            cases.append((rows, cols, 'utf-8', cut(rng, b, k), b))
    # bytes input in encodings whose trail bytes look like ASCII (a cut inside a character leaves a lone 7-bit byte for the next write), and
    # ill-formed UTF-8 (a lead byte followed by ASCII or ESC): judged by chunk independence and shape only (no_model)
    no_model = set()
    for _ in range(400 if ctx.quick() else 8000):
        rows, cols = rng.choice([(2, 3), (3, 4), (24, 80), (1, 5)])
        kind = rng.choice(['shift_jis', 'gbk', 'utf8bad', 'utf8bad'])
        if kind == 'utf8bad':
            e = 'utf-8'
            b = b''.join(rng.choice([b'a', b'Z', b'\xc3', b'\xe2\x82', b'\xc3\xa9', b'\xe2\x82\xac', ESC.encode() + b'[2;2H', ESC.encode(), b'\xf0\x9f', b'\xa9', b'\r\n'])
                         for _ in range(rng.randrange(1, 10)))
        else:
            e = kind
            b = ''.join(rng.choice(['a', '\u30bd', '\u4e00', '\u8868', ESC + '[1;1H', 'x', '\u2500', '\r\n', '\u80fd']) for _ in range(rng.randrange(1, 10))).encode(e, 'replace')
        k = rng.choice([1, 2, 3, len(b)])
        chunks = [bytes([x]) for x in b] if k == len(b) else cut(rng, b, k)
        no_model.add(len(cases))
        cases.append((rows, cols, e, chunks, b))
    # all cut points (single cut at every offset) of a subset of inputs
    ncut = 0
    for (rows, cols, e, chunks, whole) in list(cases[ncorpus + nex: ncorpus + nex + (150 if ctx.quick() else 2000)]):
        if whole is None or len(whole) > 60:
            continue
        for p in range(1, len(whole)):
            cases.append((rows, cols, e, [whole[:p], whole[p:]], whole)); ncut += 1
    try:
        mouts = common.run_model([model_line(r, c, ('latin-1' if i in no_model else e), (['x'] if i in no_model else ch)) for i, (r, c, e, ch, w) in enumerate(cases)])
        mouts = [None if i in no_model else m for i, m in enumerate(mouts)]
    except common.ModelUnavailable as ex:
        ctx.broken.append('model driver unavailable: ' + str(ex)[:300])
        mouts = [None] * len(cases)
    sigs = set()
    states = collections.Counter()
    oracle_fail = corr_fail = None
    nseen = 0
    whole_cache = {}
    for (rows, cols, e, chunks, whole), mo in zip(cases, mouts):
        real, t = run_real(rows, cols, e, chunks)
        states[real.rsplit(' st=', 1)[-1].split(' ')[0] if ' st=' in real else real] += 1
        sigs.add((rows, cols, e, len(chunks) > 1, real.rsplit(' st=', 1)[-1][:30]))
        msg = None
        if real.startswith('raises'):
            msg = 'write() raised %s' % real.split(':')[1]
        else:
            msg = shape_problem(t, rows, cols)
            if msg is None and whole is not None and len(chunks) > 1:
                key = (rows, cols, e, whole)
                if key not in whole_cache:
                    whole_cache[key] = run_real(rows, cols, e, [whole])[0]
                if whole_cache[key] != real:
                    msg = 'fed in %d pieces gives a different terminal than fed at once' % len(chunks)
        nseen += 1
        if msg is None and not real.startswith('raises') and nseen % 3 == 0:
            # the other entry points that feed the terminal must agree with write()
            feed = ('process_list', 'process', 'write+flush', 'two')[(nseen // 3) % 4]
            other = run_real(rows, cols, e, chunks, feed)[0]
            if other != real:
                what = 'an exception (%s)' % other.split(':')[1] if other.startswith('raises') else 'another terminal'
                if feed == 'two':
                    msg = 'fed through write() while two other terminals are written to gives %s, alone the terminal is different' % what
                else:
                    msg = 'fed through %s() gives %s, through write() the terminal is different' % (feed, what)
        if msg and oracle_fail is None:
            oracle_fail = (rows, cols, e, chunks, msg)
        if mo is not None and mo != real and not (mo == 'raises' and real.startswith('raises')) and corr_fail is None:
            corr_fail = (rows, cols, e, chunks, real, mo)
    if oracle_fail:
        rows, cols, e, chunks, msg = oracle_fail
        chunks = shrink(rows, cols, e, chunks)
        common.report(ctx, 'ansi/' + msg.split(' ')[0] + '/' + msg.split(' ')[-1][:20], 'ANSI(%d,%d) fed %r: %s' % (rows, cols, chunks, msg),
                      dict(rows=rows, cols=cols, encoding=e, chunks=[c.decode('latin-1') if isinstance(c, bytes) else c for c in chunks],
                           bytes=[isinstance(c, bytes) for c in chunks], feed=('two' if 'two other terminals' in msg else 'write'),
                           how='ANSI.ANSI(rows, cols, encoding=encoding).write(chunk) for each chunk' + (' (feed two: a second terminal is written the first byte of each chunk and a third is constructed in between; see run_real)' if 'two other terminals' in msg else '')))
    elif corr_fail:
        rows, cols, e, chunks, real, mo = corr_fail
        ctx.broken.append('correspondence ANSI model vs pexpect.ANSI on %dx%d %r: real %s model %s' % (rows, cols, chunks, real[-80:], mo[-80:]))
    # the int() digit limit of CPython >= 3.11: a numeric parameter of more than 4300 digits
    t = ANSI.ANSI(3, 4)
    try:
        t.write(ESC + '[' + '1' * 4301 + 'A')
    except ValueError:
        common.report(ctx, 'ansi/int-digit-limit', 'ANSI.write raises ValueError on a numeric parameter longer than 4300 digits',
                      dict(input='ESC [ "1"*4301 A', how="ANSI.ANSI(3,4).write('\\x1b[' + '1'*4301 + 'A')"))
    except Exception as ex:
        common.report(ctx, 'ansi/huge-parameter', 'ANSI.write raises %r on a 4301-digit parameter' % ex, dict(input='ESC [ 1*4301 A'))
    ctx.cov['exhaustive_part'] = dict(cases=nex, screen='2x3', depth=depth, commands=len(cmds))
    ctx.cov['all_cut_points_cases'] = ncut
    ctx.cov['final_state_histogram'] = dict(states)
    return common.finish(
        ctx, 'corpus; every sequence of <= %d commands over %d commands (printables, controls, every escape family with edge parameters, '
             'unknown and truncated sequences) on 2x3; random inputs on 1x1..24x80 as str / latin-1 bytes / utf-8 bytes cut in <= 5 places; '
             'every single cut point of a subset; distinct = (size, encoding, chunked, final parser state and stack)' % (depth, len(cmds)),
        [dict(rows=r, cols=c, encoding=e, chunks=[repr(x) for x in ch]) for (r, c, e, ch, w) in cases[:3] + cases[-2:]],
        len(cases), len(sigs),
        assumptions=['numeric parameters have at most 4300 digits (CPython int() limit) - beyond that see the known finding',
                     'the incremental decoders of CPython satisfy the chunk law (validated in C07); the Lean utf-8 instance covers well-formed input',
                     'DoLog appends to ./log in the current directory (side effect outside the model; the check runs in a scratch directory)'])


def shrink(rows, cols, e, chunks):
    def bad(chs):
        real, t = run_real(rows, cols, e, chs)
        return real.startswith('raises') or shape_problem(t, rows, cols) is not None
    if not bad(chunks):
        return chunks
    whole = chunks[0][:0].join(chunks)
    if bad([whole]):
        cur = whole
        changed = True
        while changed:
            changed = False
            for i in range(len(cur)):
                cand = cur[:i] + cur[i + 1:]
                if cand and bad([cand]):
                    cur = cand; changed = True; break
        return [cur]
    return chunks


def replay(ctx, path):
    d = json.load(open(path))['replay']
    if 'chunks' not in d:
        print(d); return None
    chunks = [c.encode('latin-1') if b else c for c, b in zip(d['chunks'], d['bytes'])]
    real, t = run_real(d['rows'], d['cols'], d['encoding'], chunks)
    print(real)
    if d.get('feed') == 'two':
        two = run_real(d['rows'], d['cols'], d['encoding'], chunks, 'two')[0]
        print(two)
        return 1 if two != real else 0
    return 1 if real.startswith('raises') or shape_problem(t, d['rows'], d['cols']) else 0
