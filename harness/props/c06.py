"""C06 transport fidelity: pty / fd / socket / popen against their world models and the stream oracles."""
import os, json, random, collections, time, itertools
from lib import common
from drivers import transports as T
import pexpect

PTY_SCRIPTS = ['W', 'WW', 'WE', 'WWE', 'E', 'WCE', 'CE', 'WC', 'WWCW', 'WCWE', 'WWWE', 'C']
PAYLOADS = [b'abc', b'x', b'0123456789' * 4, b'\r\n\xff\x00', b'']


def mk_script(rng, letters, payloads=PAYLOADS):
    out = []
    for ch in letters:
        if ch == 'W':
            out.append(('W', rng.choice(payloads)))
        else:
            out.append((ch,))
    return out


def pty_oracle(res, calls):
    got = b''.join(o[1] for o in res['outs'] if o[0] == 'd')
    if any(o[0] == 'exc' for o in res['outs']):
        return 'read_nonblocking raised %s' % [o for o in res['outs'] if o[0] == 'exc'][0][1]
    for o, (size, _) in zip(res['outs'], calls):
        if o[0] == 'd' and len(o[1]) > size:
            return 'a read returned %d bytes for size %d' % (len(o[1]), size)
        if o[0] == 'd' and len(o[1]) == 0:
            return 'a read returned an empty string instead of raising'
    if got + res['left'] != res['written']:
        return 'delivered %r + unread %r != written %r' % (got, res['left'], res['written'])
    if res['outs'] and res['outs'][-1] == ('eof',) and res['left']:
        return 'EOF reported with %r still unread' % res['left']
    return None


def stage_pty(ctx, stats, sigs):
    rng = ctx.rng
    n = 120 if ctx.quick() else 2500
    cases = []
    corpus = [
        ([('W', b'DATA'), ('E',)], [0, 0, 0, 2], [(10, True), (10, True)], False),      # defect #7 (fixed): write+exit in the timed wait
        ([('W', b'abcabc'), ('E',)], [0, 0, 2], [(10, False), (10, False)], False),      # its timeout=0 variant
        ([('W', b'abc'), ('C',), ('E',)], [2, 0, 0, 0, 1], [(1, True)] * 5, True),
        # a second write lands between the first read and the drain loop's re-poll: the call must still return at most `size`
        ([('W', b'abc'), ('W', b'def'), ('W', b'gh'), ('E',)], [1, 0, 1, 0, 1, 0, 0, 0, 1, 0, 0, 0], [(5, True)] * 4, False),
        ([('W', b'abcd'), ('W', b'efgh'), ('E',)], [1, 0, 1, 0, 0, 0, 1, 0, 0, 0], [(7, False)] * 3, True),
        # one call: a first read, a second piece picked up by the drain loop, and the end of the stream met by the drain loop's next read
        ([('W', b'first '), ('W', b'second '), ('E',)], [1, 0, 1, 0, 1, 0, 0, 0, 0, 0], [(2000, True)] * 3, False),
        ([('W', b'first '), ('W', b'second '), ('W', b'third'), ('E',)], [1, 0, 1, 0, 1, 0, 1, 0, 0, 0, 0, 0], [(2000, False)] * 3, True),
    ]
    for c in corpus:
        cases.append(c)
    for _ in range(n):
        letters = rng.choice(PTY_SCRIPTS)
        script = mk_script(rng, letters)
        sched = [rng.choice([0, 0, 0, 1, 1, 2, 3]) for _ in range(14)]
        size = rng.choice([1, 3, 4, 5, 7, 2000, 65536])
        calls = [(size, rng.random() < 0.6) for _ in range(rng.choice([2, 3, 5]))]
        cases.append((script, sched, calls, rng.random() < 0.3))
    lines = [T.pty_model_line(s, sc, c) for (s, sc, c, up) in cases]
    try:
        mouts = common.run_model(lines)
    except common.ModelUnavailable as e:
        ctx.broken.append('model driver unavailable: ' + str(e)[:300]); mouts = [None] * len(cases)
    forced = 0
    for (script, sched, calls, use_poll), mo in zip(cases, mouts):
        res = T.run_pty(script, sched, calls, use_poll=use_poll)
        forced += res['forced']
        sigs.add(('pty', ''.join(a[0] for a in script), tuple(o[0] for o in res['outs']), calls[0][0] > 3))
        msg = pty_oracle(res, calls)
        if msg:
            common.report(ctx, 'pty/' + msg.split(' ')[0] + '/' + ''.join(a[0] for a in script), 'pty transport, script %s schedule %s calls %s: %s' % (
                [(a[0], len(a[1]) if len(a) > 1 else 0) for a in script], sched, calls, msg),
                dict(script=[[a[0]] + ([a[1].decode('latin-1')] if len(a) > 1 else []) for a in script], sched=sched, calls=calls, use_poll=use_poll,
                     outs=[list(map(repr, o)) for o in res['outs']], trace=res['trace'], how='harness/drivers/transports.py run_pty'))
            break
        if mo is not None and not res['forced']:
            real = T.canon_outs(res['outs']) + ' # left=%s written=%d' % (T.enc(res['left']), len(res['written']))
            if real != mo:
                ctx.broken.append('correspondence pty world model vs kernel+pty_spawn on script %s sched %s calls %s: real [%s] model [%s] trace %s' % (
                    [(a[0], len(a[1]) if len(a) > 1 else 0) for a in script], sched, calls, real, mo, res['trace'][:12]))
                break
    stats['pty_runs'] = len(cases)
    stats['pty_forced_exit_runs'] = forced


def fd_oracle(res, sizes, kind):
    if any(o[0] == 'exc' for o in res['outs']):
        return '%s read_nonblocking raised %s' % (kind, [o for o in res['outs'] if o[0] == 'exc'][0][1])
    got = b''.join(o[1] for o in res['outs'] if o[0] == 'd')
    for o, size in zip(res['outs'], sizes):
        if o[0] == 'd' and len(o[1]) > size:
            return 'a read returned %d bytes for size %d' % (len(o[1]), size)
    if got + res['left'] != res['written']:
        return 'delivered %r + unread %r != written %r' % (got, res['left'], res['written'])
    if res['outs'] and res['outs'][-1] == ('eof',) and res['left']:
        return 'EOF reported with %r still unread' % res['left']
    if kind == 'socket' and res['sock_timeout'][0] != res['sock_timeout'][1]:
        return "the socket's timeout was %r and is now %r" % res['sock_timeout']
    return None


def stage_fd_text(ctx, stats, sigs):
    """the same transports in unicode mode: a multi-byte character written byte by byte gives reads that deliver '' —
    they are not the end of the stream; EOF comes only after everything the peer wrote has been delivered"""
    text = 'h\u00e9\u20acllo \u65e5!'
    raw = text.encode('utf-8')
    for kind in ('fd', 'socket'):
        script = [('W', raw[i:i + 1]) for i in range(len(raw))] + [('C',)]
        sched = [1] + [0, 1] * (len(raw) + 2)
        res = T.run_fd(kind, script, sched, [1000] * (len(raw) + 4), timed=True, encoding='utf-8')
        got = b''.join(o[1] for o in res['outs'] if o[0] == 'd').decode('latin-1')
        sigs.add((kind, 'text', tuple(o[0] for o in res['outs'])[:4]))
        stats['text_runs'] = stats.get('text_runs', 0) + 1
        bad = None
        if any(o[0] == 'exc' for o in res['outs']):
            bad = 'a read raised %s' % [o for o in res['outs'] if o[0] == 'exc'][0][1]
        elif got.encode('latin-1', 'replace') != text.encode('latin-1', 'replace') or res['left']:
            bad = 'delivered %r (+ %d bytes unread) of %r before %s' % (got, len(res['left']), text, res['outs'][-1][0])
        elif res['outs'][-1] != ('eof',):
            bad = 'no EOF after the peer closed: %r' % (res['outs'][-3:],)
        if bad:
            common.report(ctx, '%s/text/%s' % (kind, bad.split(' ')[0]), '%s transport, unicode mode, one byte per write: %s' % (kind, bad),
                          dict(kind=kind, stage='stage_fd_text'))


def stage_fd(ctx, stats, sigs):
    rng = ctx.rng
    n = 600 if ctx.quick() else 8000
    cases = []
    for _ in range(n):
        kind = rng.choice(['fd', 'fd', 'socket'])
        letters = rng.choice(['W', 'WW', 'WC', 'WWC', 'C', 'WCW', 'WWWC', ''])
        script = mk_script(rng, letters, [b'abc', b'x', b'0123456789' * 3, b'\xff\x00'])
        sched = [rng.choice([0, 0, 1, 1, 2]) for _ in range(12)]
        size = rng.choice([1, 3, 2000])
        sizes = [size] * rng.choice([2, 4, 6])
        cases.append((kind, script, sched, sizes, rng.random() < 0.3, rng.random() < 0.7))
    lines = [T.fd_model_line(s, sc, sz) for (k, s, sc, sz, up, timed) in cases]
    try:
        mouts = common.run_model(lines)
    except common.ModelUnavailable as e:
        ctx.broken.append('model driver unavailable: ' + str(e)[:300]); mouts = [None] * len(cases)
    for (kind, script, sched, sizes, use_poll, timed), mo in zip(cases, mouts):
        res = T.run_fd(kind, script, sched, sizes, use_poll=use_poll, timed=timed)
        sigs.add((kind, ''.join(a[0] for a in script), tuple(o[0] for o in res['outs']), sizes[0] > 3))
        msg = fd_oracle(res, sizes, kind)
        if msg:
            common.report(ctx, '%s/%s' % (kind, msg.split(' ')[0]), '%s transport, script %s schedule %s sizes %s: %s' % (
                kind, [(a[0], len(a[1]) if len(a) > 1 else 0) for a in script], sched, sizes, msg),
                dict(kind=kind, script=[[a[0]] + ([a[1].decode('latin-1')] if len(a) > 1 else []) for a in script], sched=sched, sizes=sizes,
                     use_poll=use_poll, timed=timed, outs=[list(map(repr, o)) for o in res['outs']]))
            break
        if mo is not None and timed:
            real = T.canon_outs(res['outs']) + ' # left=%s written=%d' % (T.enc(res['left']), len(res['written']))
            if real != mo:
                ctx.broken.append('correspondence pipe world model vs %s transport on script %s sched %s sizes %s: real [%s] model [%s]' % (
                    kind, [(a[0], len(a[1]) if len(a) > 1 else 0) for a in script], sched, sizes, real, mo))
                break
    stats['fd_socket_runs'] = len(cases)


def stage_popen(ctx, stats, sigs):
    rng = ctx.rng
    n = 25 if ctx.quick() else 300
    for it in range(n):
        letters = rng.choice(['WE', 'WWE', 'E', 'WWWE', 'WW', 'W'])
        script = mk_script(rng, letters, [b'abc', b'x' * 1500, b'0123456789' * 300, b'\xff\x00\r\n', b'y' * 5000])
        size = rng.choice([1, 7, 100, 2000])
        sizes = [size] * rng.choice([3, 6, 12])
        adv = 0 if it % 2 else rng.choice([1, 2, 2, 3])      # half of the runs: the reader thread overtakes read_nonblocking right after it found the queue empty
        if it == 0:
            letters, script, size, sizes, adv = 'WE', [('W', b'last words'), ('E',)], 100, [100] * 4, 2
        res = T.run_popen(script, sizes, timeout=rng.choice([0, 0.01, 0.05]), adversarial=adv)
        got = b''.join(o[1] for o in res['outs'] if o[0] == 'd') + b''.join(res['tail'])
        sigs.add(('popen', letters, size, len(res['written']) > 1024))
        msg = None
        if any(o[0] == 'exc' for o in res['outs']):
            msg = 'read_nonblocking raised %s' % [o for o in res['outs'] if o[0] == 'exc'][0][1]
        elif any(o[0] == 'd' and len(o[1]) > size for o in res['outs']):
            msg = 'a read returned more than size %d' % size
        elif got != res['written']:
            msg = 'delivered %d bytes != written %d bytes (first difference at %d)' % (len(got), len(res['written']), next(
                (i for i, (x, y) in enumerate(zip(got, res['written'])) if x != y), min(len(got), len(res['written']))))
        elif not res['outs'] or res['outs'][-1] != ('eof',):
            msg = 'EOF never reported after the child exited'
        if msg:
            common.report(ctx, 'popen/' + msg.split(' ')[0], 'popen transport, script %s sizes %s: %s' % (
                [(a[0], len(a[1]) if len(a) > 1 else 0) for a in script], sizes[:3], msg), dict(script=letters, size=size, thread_overtakes_after_empty_queue=adv))
            break
    stats['popen_runs'] = n
    # the reader thread and read_nonblocking run truly interleaved (a switch interval of a microsecond): a child that writes 300 KB in small
    # pieces while the consumer polls in a tight loop; nothing may fall between the two threads
    import sys as _sys
    old_si = _sys.getswitchinterval()
    _sys.setswitchinterval(1e-6)
    try:
        lost = None
        for k in range(12 if ctx.quick() else 150):
            total = 300000
            pp_ = pexpect.popen_spawn.PopenSpawn([common.PY, '-c', 'import sys\nfor i in range(600): sys.stdout.write("%04d" % (i % 10000) * 125); sys.stdout.flush()'], timeout=5) \
                if hasattr(pexpect, 'popen_spawn') else None
            if pp_ is None:
                from pexpect import popen_spawn as _ps
                pp_ = _ps.PopenSpawn([common.PY, '-c', 'import sys\nfor i in range(600): sys.stdout.write("%04d" % (i % 10000) * 125); sys.stdout.flush()'], timeout=5)
            got_, t0, ended_ = [], time.time(), False
            while time.time() - t0 < 20:
                try:
                    got_.append(pp_.read_nonblocking(4096, 0))
                except pexpect.EOF:
                    ended_ = True; break
            pp_.proc.wait(); pp_.proc.stdout.close()
            data_ = b''.join(got_)
            want_ = b''.join(b'%04d' % i * 125 for i in range(600))
            if data_ != want_ or not ended_:
                lost = (k, len(data_), len(want_), ended_)
                break
        sigs.add(('popen-race', lost is None))
        if lost:
            common.report(ctx, 'popen/thread-race', 'popen transport, reader thread and consumer interleaved at a 1 microsecond switch interval (run %d): delivered %d of %d bytes, '
                          'EOF reported: %s' % lost, dict(script='child writes 300000 bytes in 600 pieces; read_nonblocking(4096, 0) in a loop until EOF'))
    finally:
        _sys.setswitchinterval(old_si)
    # a fault on the pipe (os.read in the reader thread fails once, after the first chunk): whatever the transport makes of it, nothing the
    # child wrote is delivered twice and the reader is not left waiting for ever
    import pexpect.popen_spawn as PO
    import errno as _errno

    class FaultyOs(object):
        def __init__(self):
            self.n = 0

        def read(self, fd, k):
            self.n += 1
            if self.n == 2:
                raise OSError(_errno.EIO, 'injected read fault')
            return os.read(fd, k)

        def __getattr__(self, name):
            return getattr(os, name)
    saved_os = PO.os
    PO.os = FaultyOs()
    try:
        p = PO.PopenSpawn([common.PY, '-c', 'import sys,time; sys.stdout.write("only-chunk\\n"); sys.stdout.flush(); time.sleep(0.3)'], timeout=5)
        got, t0, ended = b'', time.time(), False
        while time.time() - t0 < 5:
            try:
                got += p.read_nonblocking(100, 0.05)
            except pexpect.EOF:
                ended = True; break
            except Exception as e:      # noqa
                got += b'<%s>' % type(e).__name__.encode(); break
        p.proc.wait(); p.proc.stdout.close()
    finally:
        PO.os = saved_os
    sigs.add(('popen-fault', ended))
    if not b'only-chunk\n'.startswith(got) or not ended:
        common.report(ctx, 'popen/read-fault', 'popen transport, read fault after the first chunk: the child wrote b"only-chunk\\n", delivered %r, EOF reported: %s' % (got, ended),
                      dict(script='one chunk, then os.read raises EIO once in the reader thread'))

    # the application looks after its child between two reads - wait(), a liveness test - while the child's last output is still in the pipe
    # (the child has exited, the reader thread has fetched only the first part): every byte is still delivered before EOF
    import threading as _th

    class GatedOs(object):
        def __init__(self):
            self.n = 0
            self.second = _th.Event()
            self.go = _th.Event()

        def read(self, fd, k):
            self.n += 1
            if self.n == 2:
                self.second.set()
                self.go.wait(10)
            return os.read(fd, k)

        def __getattr__(self, name):
            return getattr(os, name)
    for between in ('wait', 'isalive', 'kill0', 'poll'):
        gated = GatedOs()
        saved_os = PO.os
        PO.os = gated
        try:
            p = PO.PopenSpawn([common.PY, '-c', 'import sys; sys.stdout.write("x" * 5000); sys.stdout.flush()'], timeout=5)
            gated.second.wait(5)                 # the first chunk is queued, the reader is about to fetch the second
            for _ in range(2000):
                if p.proc.poll() is not None or between == 'poll':
                    break
                time.sleep(0.001)
            err = None
            try:
                if between == 'wait':
                    p.wait()
                elif between == 'isalive':
                    p.isalive() if hasattr(p, 'isalive') else None
                elif between == 'kill0':
                    try:
                        p.kill(0)
                    except (OSError, ProcessLookupError):
                        pass
                else:
                    p.proc.poll()
            except Exception as e:      # noqa
                err = type(e).__name__
            gated.go.set()
            got, t0, ended = b'', time.time(), False
            while time.time() - t0 < 5:
                try:
                    got += p.read_nonblocking(4096, 0.05)
                except pexpect.EOF:
                    ended = True; break
                except pexpect.TIMEOUT:
                    continue
                except Exception as e:      # noqa
                    err = err or type(e).__name__; break
            try:
                p.proc.wait(); p.proc.stdout.close()
            except Exception:
                pass
        finally:
            gated.go.set()
            PO.os = saved_os
        sigs.add(('popen-between', between, ended))
        stats['popen_between_reads'] = stats.get('popen_between_reads', 0) + 1
        if got != b'x' * 5000 or not ended:
            common.report(ctx, 'popen/lost-after-' + between, 'popen transport: the child wrote 5000 bytes and exited; after the first chunk the application called %s; '
                          'delivered %d bytes, EOF reported: %s%s' % ({'wait': 'wait()', 'isalive': 'isalive()', 'kill0': 'kill(0)', 'poll': 'proc.poll()'}[between], len(got), ended,
                                                                   (', ' + err) if err else ''),
                          dict(script='child writes 5000 bytes and exits; reader thread held before its second read; %s; reader released' % between))


def stage_volume(ctx, stats, sigs):
    """large outputs through the real transports, byte for byte"""
    import pexpect
    from pexpect import popen_spawn, fdpexpect, socket_pexpect
    total = (64 if ctx.quick() else 512) * 1024
    code = "import sys,os\nn=%d\nb=bytes(range(256))*(n//256)\nos.write(1,b)\n" % total
    expected = bytes(range(256)) * (total // 256)
    for kind in ('pty', 'popen'):
        for maxread in ([2000] if ctx.quick() else [1, 2000, 65536]):
            if maxread == 1 and total > 65536:
                continue
            if kind == 'pty':
                p = pexpect.spawn(common.PY, ['-c', 'import tty\ntty.setraw(1)\n' + code], timeout=60, maxread=maxread)
            else:
                p = popen_spawn.PopenSpawn([common.PY, '-c', code], timeout=60, maxread=maxread)
            got = p.read()
            sigs.add(('volume', kind, maxread))
            if got != expected:
                common.report(ctx, '%s/volume' % kind, '%s transport: %d bytes written, %d delivered, equal prefix %d' % (
                    kind, len(expected), len(got), next((i for i, (x, y) in enumerate(zip(got, expected)) if x != y), min(len(got), len(expected)))),
                    dict(kind=kind, maxread=maxread, total=total))
            if kind == 'pty':
                p.close()
            else:
                p.wait()
    stats['volume_bytes'] = total


def run(ctx):
    common.prove(ctx, ['C06'])
    if not ctx.quick():
        common.leanchecker(ctx, ['C06'])
    stats, sigs = {}, set()
    t0 = time.time(); stage_pty(ctx, stats, sigs); stats['pty_s'] = round(time.time() - t0, 1)
    t0 = time.time(); stage_fd(ctx, stats, sigs); stage_fd_text(ctx, stats, sigs); stats['fd_s'] = round(time.time() - t0, 1)
    t0 = time.time(); stage_popen(ctx, stats, sigs); stats['popen_s'] = round(time.time() - t0, 1)
    t0 = time.time(); stage_volume(ctx, stats, sigs); stats['volume_s'] = round(time.time() - t0, 1)
    ctx.cov.update(stats)
    n = stats.get('pty_runs', 0) + stats.get('fd_socket_runs', 0) + stats.get('popen_runs', 0)
    return common.finish(
        ctx, 'pty: controlled child + interposed select/poll/read/waitpid, peer scripts over {write, close-tty, exit} placed by random schedules '
             'between the reader\'s system calls, sizes {1,3,2000,65536}, timed / timeout 0, select / poll; fd and socket: os.pipe / socketpair '
             'driven at the interposed gaps; popen: controlled piped child, stream-level oracle; volume: 64 KiB (quick) byte for byte. '
             'distinct = (transport, peer script shape, outcome sequence, size class)',
        [dict(script='W E', sched=[0, 0, 0, 2], calls=[[10, True], [10, True]])], n, len(sigs),
        assumptions=['Linux pty semantics: data written before the slave side closes stays readable; read on a hung-up empty master gives EIO',
                     'a blocking waitpid on a child that closed its terminal but lives on is forced to finish by the harness (that is the C05 known finding) '
                     'and such runs are excluded from the model comparison',
                     'PopenSpawn: the reader thread is scheduled at one point only (it may overtake read_nonblocking right after the queue was found empty); otherwise stream-level facts are judged'])


def replay(ctx, path):
    d = json.load(open(path))['replay']
    print(json.dumps(d, indent=1)[:3000])
    if 'calls' in d:
        script = [(a[0], a[1].encode('latin-1')) if len(a) > 1 else (a[0],) for a in d['script']]
        res = T.run_pty(script, d['sched'], [tuple(c) for c in d['calls']], use_poll=d.get('use_poll', False))
        msg = pty_oracle(res, [tuple(c) for c in d['calls']])
        print(res['outs'], msg)
        return 1 if msg else 0
    return None      # no dedicated replay for this kind of case: check.py re-runs the check with the recorded seed
