from props.expecter_family import run, replay
