"""C17: pxssh login — proofs over the table T-pxssh regenerates (Props/C17.lean) + the real pxssh class against an
in-process scripted server under a virtual clock (every expect answer, read and send recorded and replayed through
the Lean interpreter; server-side oracles) + a few real fake-ssh processes."""
import os, sys, json, copy, time as real_time, re, collections, subprocess, multiprocessing
from lib import common

common.repo_on_path()
import pexpect
from pexpect import pxssh as PX, EOF, TIMEOUT, ExceptionPexpect
import pexpect.expect as EXM
import pexpect.pty_spawn as PS

PASSWORD = 'S3cr3t!pw'
TERM = 'vt220x'
UNIQ_RE = re.compile(r'\[PEXPECT\][\$\#] ')
KNOWN_SILENT = 'login/timeout-outcome/auto_prompt_reset=False,sync_original_prompt=False'


class Clock(object):
    def __init__(self):
        self.now = 5000.0

    def time(self):
        self.now += 1e-6
        return self.now

    def sleep(self, s):
        self.now += max(0.0, s)

    def __getattr__(self, k):
        return getattr(real_time, k)


class Deadlock(Exception):
    pass


class Server(object):
    """scripted ssh server + remote shell.  steps: ['say', text] | ['line'] | ['silence', secs] | ['close'] |
    ['shell', flavor, prompt, opts]   flavor in sh/csh/zsh/stuck  (stuck: the prompt cannot be changed)"""

    def __init__(self, steps, clock, rng_chunks):
        self.steps = [list(s) for s in steps]
        self.k = 0
        self.clock = clock
        self.out = ''
        self.inb = ''
        self.closed = False
        self.until = None
        self.lines = []            # (line, output emitted since the previous line)
        self.since = ''
        self.all_out = ''
        self.shell = None          # dict(flavor, prompt, echo, delay)
        self.zsh_ready = False
        self.chunks = rng_chunks
        self.pending_reply = None  # (due time, text)
        self.after_ssh = None

    def emit(self, t):
        self.out += t; self.since += t; self.all_out += t

    def take_line(self):
        if '\n' not in self.inb:
            return None
        line, self.inb = self.inb.split('\n', 1)
        self.lines.append((line, self.since))
        self.since = ''
        return line

    def shell_line(self, line):
        sh = self.shell
        rep = ''
        if sh.get('echo'):
            rep += line + '\r\n'
        fl = sh['flavor']
        if line == '' or line == 'unset PROMPT_COMMAND':
            pass
        elif line == "PS1='[PEXPECT]\\$ '":
            if fl == 'sh':
                sh['prompt'] = '[PEXPECT]$ '
            else:
                rep += 'PS1=[PEXPECT]\\$ : Command not found.\r\n'
        elif line == "set prompt='[PEXPECT]\\$ '":
            if fl == 'csh':
                sh['prompt'] = '[PEXPECT]$ '
            elif fl != 'sh':
                rep += 'zsh: bad set\r\n'
        elif line == 'prompt restore;':
            if fl == 'zsh':
                self.zsh_ready = True
                return rep          # no prompt yet: the command continues on the next line
            rep += 'prompt: Command not found.\r\n'
        elif line == "PS1='[PEXPECT]%(!.#.$) '":
            if fl == 'zsh' and self.zsh_ready:
                sh['prompt'] = '[PEXPECT]# ' if sh.get('root') else '[PEXPECT]$ '
            elif fl == 'sh':
                sh['prompt'] = '[PEXPECT]%(!.#.$) '
        elif line.startswith('echo '):
            rep += line[5:] + '\r\n'
        elif line.startswith('big '):
            n = int(line[4:])
            rep += ('0123456789abcdef' * (n // 16 + 1))[:n] + '\r\n'
        elif line == 'exit':
            self.closed_next = True
        elif line.startswith('ssh ') and self.after_ssh is not None:
            # a hop to the next host: the dialogue of the second login follows (login(..., spawn_local_ssh=False))
            self.steps, self.k, self.after_ssh, self.shell, self.zsh_ready = [list(x) for x in self.after_ssh], 0, None, None, False
            return rep
        else:
            rep += 'sh: %s: not found\r\n' % line.split(' ')[0]
        return rep + sh['prompt']

    def pump(self):
        progressed = True
        while progressed:
            progressed = False
            if self.pending_reply and self.clock.now >= self.pending_reply[0]:
                self.emit(self.pending_reply[1]); self.pending_reply = None; progressed = True
            if self.shell is not None:
                if self.pending_reply:
                    break
                line = self.take_line()
                if line is not None:
                    rep = self.shell_line(line)
                    if self.shell is None:
                        self.emit(rep); progressed = True
                        continue
                    if getattr(self, 'closed_next', False):
                        self.closed = True
                        break
                    d = self.shell.get('delay', 0)
                    if d:
                        self.pending_reply = (self.clock.now + d, rep)
                    else:
                        self.emit(rep)
                    progressed = True
                continue
            if self.k >= len(self.steps):
                break
            st = self.steps[self.k]
            if st[0] == 'say':
                self.emit(st[1]); self.k += 1; progressed = True
            elif st[0] == 'line':
                if self.take_line() is not None:
                    self.k += 1; progressed = True
            elif st[0] == 'silence':
                if self.until is None:
                    self.until = self.clock.now + st[1]
                if self.clock.now >= self.until:
                    self.until = None; self.k += 1; progressed = True
            elif st[0] == 'close':
                self.closed = True; self.k += 1
            elif st[0] == 'shell':
                self.shell = dict(flavor=st[1], prompt=st[2], **(st[3] if len(st) > 3 else {}))
                self.emit(self.shell['prompt']); self.k += 1; progressed = True

    def next_event(self):
        if self.pending_reply:
            return self.pending_reply[0]
        if self.shell is None and self.k < len(self.steps) and self.steps[self.k][0] == 'silence':
            return self.until
        return None

    def read(self, size, timeout):
        while True:
            self.pump()
            if self.out:
                n = min(size, self.chunks.pop(0) if self.chunks else size)
                n = max(1, n)
                d, self.out = self.out[:n], self.out[n:]
                return d
            if self.closed:
                raise EOF('server closed')
            nxt = self.next_event()
            if timeout is None:
                if nxt is None:
                    raise Deadlock()
                self.clock.now = max(self.clock.now, nxt)
                continue
            if nxt is not None and nxt <= self.clock.now + timeout:
                timeout -= max(0.0, nxt - self.clock.now)
                self.clock.now = max(self.clock.now, nxt)
                continue
            self.clock.now += max(0.0, timeout)
            raise TIMEOUT('server silent')


class TestPxssh(PX.pxssh):
    """the real pxssh class; only the transport (read_nonblocking / send / close / isalive) is replaced"""

    def attach(self, server, clock):
        self.srv = server
        self.clk = clock
        self.rec_expect = []       # [npatterns, 'i<k>' | 'E' | 'T', virtual time]
        self.rec_reads = []        # try_read_prompt results
        self.rec_sent = []         # [text, index of the last expect record before it, text read since the previous send]
        self.seen = ''
        self.closed = False
        self.child_fd = 99
        self.delayafterread = None
        self.spawned = None

    def read_nonblocking(self, size=1, timeout=-1):
        if self.closed:
            raise ValueError('I/O operation on closed file.')
        if timeout == -1:
            timeout = self.timeout
        d = self.srv.read(size, timeout)
        self.seen += d
        if getattr(self, 'prompt_reads', None) is not None:
            self.prompt_reads.append(d)
        d = d.encode('latin-1')
        d = self._decoder.decode(d, final=False)
        self._log(d, 'read')
        return d

    def send(self, s):
        s = self._coerce_send_string(s)
        self._log(s, 'send')
        b = self._encoder.encode(s, final=False)
        t = b.decode('latin-1')
        self.rec_sent.append([t, len(self.rec_expect), self.seen])
        self.seen = ''
        self.srv.inb += t
        return len(b)

    def expect(self, pattern, timeout=-1, searchwindowsize=-1, async_=False, **kw):
        n = len(pattern) if isinstance(pattern, list) else 1
        try:
            i = PX.pxssh.expect(self, pattern, timeout, searchwindowsize, async_, **kw)
        except EOF:
            self.rec_expect.append([n, 'E', self.clk.now]); raise
        except TIMEOUT:
            self.rec_expect.append([n, 'T', self.clk.now]); raise
        self.rec_expect.append([n, 'i%d' % i, self.clk.now])
        a = self.after
        self.last_after = a.decode('latin-1') if isinstance(a, bytes) else a if isinstance(a, str) else None
        return i

    def try_read_prompt(self, timeout_multiplier):
        try:
            r = PX.pxssh.try_read_prompt(self, timeout_multiplier)
        except EOF:
            self.rec_reads.append(None); raise
        self.rec_reads.append(r.decode('latin-1') if isinstance(r, bytes) else r)
        return r

    def close(self, force=True):
        self.closed = True
        self.child_fd = -1

    def isalive(self):
        return not self.closed and not self.srv.closed


def one_login(p, srv, clock, case, spawned, out):
    o = case['opts']
    kw = dict(login_timeout=case.get('login_timeout', 3), auto_prompt_reset=o['reset'], sync_original_prompt=o['sync'],
              sync_multiplier=case.get('mult', 0.5), terminal_type=TERM, quiet=o.get('quiet', True))
    if o.get('port') is not None:
        kw['port'] = o['port']
    if not o.get('local', True):
        kw['spawn_local_ssh'] = False
    if o.get('original_prompt'):
        kw['original_prompt'] = o['original_prompt']
    if o.get('password_regex'):
        kw['password_regex'] = o['password_regex']
    p.last_after = None
    t0 = clock.now
    try:
        r = p.login('testhost', 'alice', PASSWORD, **kw)
        out['res'] = 'ok' if r is True else 'ret:%r' % (r,)
    except PX.ExceptionPxssh as e:
        out['res'] = 'pxssh'; out['msg'] = str(e)[:80]
    except EOF:
        out['res'] = 'EOF'
    except TIMEOUT:
        out['res'] = 'TIMEOUT'
    except Deadlock:
        out['res'] = 'DEADLOCK'
    except Exception as e:      # noqa
        out['res'] = 'EXC:' + type(e).__name__; out['msg'] = repr(e)[:200]
    out['elapsed'] = round(clock.now - t0, 4)
    out['closed'] = bool(p.closed)
    out['expects'] = [[n, a] for n, a, _ in p.rec_expect]
    out['last_after'] = getattr(p, 'last_after', None)
    out['reads'] = list(p.rec_reads)
    out['sent'] = [list(x) for x in p.rec_sent]
    out['lines'] = [list(x) for x in srv.lines]
    out['shell'] = dict(srv.shell) if srv.shell else None
    out['spawned'] = spawned[:]
    out['server_k'] = srv.k
    # after a successful login with the unique prompt: prompt() must delimit each command's output
    cmds = []
    if out['res'] == 'ok' and o['reset']:
        b0 = p.buffer
        out['pending_at_login'] = b0.decode('latin-1') if isinstance(b0, bytes) else b0
        p.prompt_reads = []
        todo = []
        for c in case.get('commands', []):
            if isinstance(c, list):           # ['pair', c1, c2]: both lines typed ahead, then two prompt() calls
                todo.append((c[1], c[1] + '\n' + c[2])); todo.append((c[2], None))
            else:
                todo.append((c, c))
        for c, tosend in todo:
            rec = dict(cmd=c)
            try:
                if tosend is not None:
                    p.sendline(tosend)
                ok = p.prompt(timeout=case.get('prompt_timeout', 5))
                rec['ok'] = ok
                b = p.before
                rec['before'] = b.decode('latin-1') if isinstance(b, bytes) else b
            except EOF:
                rec['ok'] = 'EOF'
            except Exception as e:   # noqa
                rec['ok'] = 'EXC:' + type(e).__name__
            cmds.append(rec)
        out['prompt_reads'] = list(p.prompt_reads)
    out['cmds'] = cmds
    return out


def run_case(case):
    """case: steps, opts(sync, reset, quiet, port, key, local), timeouts, chunks, commands (after login)"""
    clock = Clock()
    saved = (EXM.time, PX.time, PS.spawn._spawn)
    EXM.time = clock; PX.time = clock
    spawned = []
    PS.spawn._spawn = lambda self, cmd, *a, **k: spawned.append(cmd)
    out = {}
    try:
        steps = case['steps'] if case['opts'].get('local', True) else [['line']] + case['steps']     # the remote shell reads the ssh command line
        srv = Server(steps, clock, list(case.get('chunks', [])))
        enc = case.get('encoding')
        p = TestPxssh(timeout=case.get('timeout', 2), encoding=enc, options=case.get('ssh_options', {}))
        p.attach(srv, clock)
        one_login(p, srv, clock, case, spawned, out)
        c2 = case.get('then')
        if c2 and out['res'] == 'ok' and not p.closed and srv.shell is not None:
            # a second login on the same object, through the shell of the first (the documented jump-host use)
            srv.after_ssh = c2['steps']
            p.rec_expect, p.rec_reads, p.rec_sent, p.seen, srv.lines = [], [], [], '', []
            p.prompt_reads = None
            out2 = {}
            one_login(p, srv, clock, c2, spawned, out2)
            out['then'] = out2
        return out
    finally:
        EXM.time, PX.time, PS.spawn._spawn = saved


# --------------------------------------------------------------------------------------------------- model

SENDS = {'yes\n': 'yes', PASSWORD + '\n': 'password', TERM + '\n': 'termType', '\n': 'enter', 'unset PROMPT_COMMAND\n': 'unset',
         "PS1='[PEXPECT]\\$ '\n": 'set:sh', "set prompt='[PEXPECT]\\$ '\n": 'set:csh', "prompt restore;\nPS1='[PEXPECT]%(!.#.$) '\n": 'set:zsh'}


def enc(t):
    return ','.join(str(ord(c)) for c in t) if t else '-'


def model_line(case, out):
    ex = out['expects']
    if not ex:
        return None
    first = ex[0][1]
    session = [a for n, a in ex[1:] if n == 6]
    reset = [a for n, a in ex[1:] if n == 2]
    reads = ['N' if r is None else enc(r) for r in out['reads']]
    o = case['opts']
    return 'PX %d %d %s @ %s @ %s @ %s' % (1 if o['sync'] else 0, 1 if o['reset'] else 0, first, ' '.join(session), ' '.join(reads), ' '.join(reset))


def canon_real(case, out):
    """the model's output line, computed from what the real login() did"""
    sent = []
    ex = out['expects']
    skip_first = 0 if case['opts'].get('local', True) else 1
    for text, nexp, _seen in out['sent'][skip_first:]:
        name = SENDS.get(text)
        if name is None:
            sent.append('?%r' % text[:30]); continue
        if name in ('yes', 'password', 'termType'):
            idx = ex[nexp - 1][1] if nexp >= 1 else '?'
            sent.append('F:%s:%s:%d' % (name, idx[1:] if idx.startswith('i') else idx, nexp - 1))
        else:
            sent.append(name)
    nexpects = len([1 for n, a in ex if n in (8, 6, 2)])
    return '%s closed=%d expects=%d reads=%d sent=[%s]' % (out['res'], 1 if out['closed'] else 0, nexpects, len(out['reads']), ' '.join(sent))


# ------------------------------------------------------------------------------------------------- oracles

PW_RE = re.compile(r'(?i)(?:password:)|(?:passphrase for key)')
HK_RE = re.compile(r'(?i)are you sure you want to continue connecting')


def oracle(case, out):
    """the property on the server-side transcript; returns (signature, message) or None"""
    o = case['opts']
    lines = out['lines']
    if out['res'].startswith('EXC') or out['res'].startswith('ret') or out['res'] == 'DEADLOCK':
        return ('login/unexpected-exception', 'login() ended with %s %s' % (out['res'], out.get('msg')))
    # secrets
    pw = [(l, since) for l, since in lines if l == PASSWORD]
    # text still in the server's input buffer counts too
    if len(pw) > 1:
        return ('login/password-twice', 'password sent %d times' % len(pw))
    sent_texts = [t for t, _, _ in out['sent']]
    if sent_texts.count(PASSWORD + '\n') > 1:
        return ('login/password-twice', 'password sent %d times' % sent_texts.count(PASSWORD + '\n'))
    # "direct answer": everything the server printed since the client's previous line contains the prompt
    since = ''
    k = 0
    all_since = []
    acc = ''
    # rebuild "output since previous client send" from the server's own log: out['lines'] holds it per received line
    for t, _, s in out['sent']:
        if t == PASSWORD + '\n' and not (re.compile(o['password_regex']) if o.get('password_regex') else PW_RE).search(s):
            return ('login/password-without-prompt', 'password sent although the client had only read %r since its previous send' % s[-60:])
        if t == 'yes\n' and not HK_RE.search(s):
            return ('login/yes-without-question', 'yes sent although the client had only read %r since its previous send' % s[-60:])
    if (PASSWORD + '\n') in sent_texts and not any(l == PASSWORD for l, _ in lines):
        # sent but not consumed by a line-step: judge against all output so far
        pass
    sh = out['shell']
    if out['res'] == 'ok':
        if out['closed']:
            return ('login/ok-but-closed', 'login returned True on a closed session')
        if o['reset']:
            if not sh or not UNIQ_RE.fullmatch(sh['prompt']):
                return ('login/ok-without-unique-prompt', 'True with auto_prompt_reset but the remote prompt is %r' % (sh and sh['prompt']))
        if o['sync']:
            r = out['reads']
            if len(r) < 4 or not r[2]:
                return ('login/ok-without-sync', 'True with sync_original_prompt but the responses to Enter were %r' % (r,))
            # "synchronised" means the last two answers to Enter look alike (edit distance below 40 % of the first), computed here independently
            a_, b_ = r[2] or '', r[3] or ''
            prev = list(range(len(b_) + 1))
            for i_, ca in enumerate(a_, 1):
                cur = [i_]
                for j_, cb in enumerate(b_, 1):
                    cur.append(min(prev[j_] + 1, cur[j_ - 1] + 1, prev[j_ - 1] + (ca != cb)))
                prev = cur
            if len(a_) and float(prev[-1]) / len(a_) >= 0.4:
                return ('login/ok-without-sync', 'True with sync_original_prompt although the last two answers to Enter differ: %r / %r (edit distance %d)' % (a_[-40:], b_[-40:], prev[-1]))
        if not sh:
            if not o['reset'] and not o['sync']:
                last = out['expects'][-1][1] if out.get('expects') else None
                took = out.get('last_after')
                if last != 'T' and took is not None and not re.search(o.get('original_prompt') or r'[#$]', took):
                    # not the TIMEOUT heuristic: some text was taken for the shell prompt, and it is not what this call was told a prompt looks like
                    return ('login/ok-on-foreign-prompt', 'login() returned True on the text %r, which does not match the original_prompt %r given to this call (no shell was reached)' % (
                        took[-40:], o.get('original_prompt') or r'[#$]'))
                return (KNOWN_SILENT, 'login() returned True although the server never reached a shell prompt (steps done: %d)' % out['server_k'])
            if not o['reset']:
                # sync accepted two similar non-empty answers of a non-shell: the heuristic itself (not judged)
                pass
    else:
        if out['res'] == 'pxssh' and not out['closed']:
            return ('login/raise-without-close', 'ExceptionPxssh raised but the session was left open')
    # bounded time
    budget = case.get('login_timeout', 3) + 3 * case.get('timeout', 2) + 0.1 + 4 * 3 * case.get('mult', 0.5) + 3 * 10 + 1.0
    if out['elapsed'] > budget:
        return ('login/too-slow', 'login took %.2f virtual seconds, budget %.2f' % (out['elapsed'], budget))
    # prompt() delimits
    for rec in out['cmds']:
        exp = None
        c = rec['cmd']
        echo = (case_shell_opts(case) or {}).get('echo')
        if c.startswith('echo '):
            exp = c[5:] + '\r\n'
        elif c.startswith('big '):
            n = int(c[4:]); exp = ('0123456789abcdef' * (n // 16 + 1))[:n] + '\r\n'
        if exp is not None:
            if echo:
                exp = c + '\r\n' + exp
            if rec['ok'] is not True or rec.get('before') != exp:
                return ('prompt/not-delimited', 'after %r prompt() gave %r with before %r, expected %r' % (
                    c, rec['ok'], (rec.get('before') or '')[:60], exp[:60]))
    # command line
    if o.get('local', True) and out['spawned']:
        cmd = out['spawned'][0]
        want = 'ssh ' + (' -q' if o.get('quiet', True) else '') + (' -p %s' % o['port'] if o.get('port') is not None else '') + ' -l alice testhost'
        if cmd != want:
            return ('login/command-line', 'spawned %r, expected %r' % (cmd, want))
    return None


def case_shell_opts(case):
    for st in case['steps']:
        if st[0] == 'shell':
            return st[3] if len(st) > 3 else {}
    return None


# --------------------------------------------------------------------------------------------- generators

ITEMS = {
    'hostkey': [['say', "The authenticity of host 'x' can't be established.\r\nAre you sure you want to continue connecting (yes/no)? "], ['line']],
    'password': [['say', "alice@testhost's password: "], ['line']],
    'passphrase': [['say', "Enter passphrase for key '/home/alice/.ssh/id_rsa': "], ['line']],
    'denied': [['say', 'Permission denied, please try again.\r\n']],
    'termtype': [['say', 'Terminal type? '], ['line']],
    'banner': [['say', 'Welcome to host$ost #1 (GNU/Linux)\r\nLast login: today\r\n']],
    'plainbanner': [['say', 'Welcome. Last login: today\r\n']],
    # text that talks about passwords without asking for one
    'pwbanner': [['say', 'Your password will expire in 7 days.\r\nLast login: Mon Sep 30 from 10.0.0.1\r\n']],
    'motd': [['say', 'Remember: the password policy changed; passphrases of 12 letters or more: see intranet.\r\n']],
    'closed': [['say', 'Connection closed by remote host\r\n'], ['close']],
    'silence': [['silence', 50]],
    'pause': [['silence', 0.7]],
    'pwcolon': [['say', 'Reminder - never tell anyone your password: IT will not ask for it.\r\n']],
    'exit': [['close']],
}


def build(items, shell):
    steps = []
    for it in items:
        steps += copy.deepcopy(ITEMS[it])
    if shell:
        steps.append(copy.deepcopy(shell))
    return steps


CORPUS = [
    dict(items=['hostkey', 'password', 'plainbanner'], shell=['shell', 'sh', 'alice@host:~$ ', {}], opts=dict(sync=True, reset=True), commands=['echo hi', 'echo two words', 'big 5000']),
    # two commands typed ahead: both answers (and both prompts) can arrive in one read; each prompt() returns its own output
    dict(items=['password'], shell=['shell', 'sh', '$ ', {}], opts=dict(sync=True, reset=True), commands=[['pair', 'echo one', 'big 600'], 'echo after'], chunks=[]),
    dict(items=['password'], shell=['shell', 'csh', 'host% # ', {}], opts=dict(sync=True, reset=True), commands=['echo csh']),
    dict(items=['password'], shell=['shell', 'zsh', 'host# ', {'root': True}], opts=dict(sync=True, reset=True), commands=['echo z']),
    dict(items=['password', 'denied', 'password'], shell=None, opts=dict(sync=True, reset=True)),
    dict(items=['password', 'denied'], shell=None, opts=dict(sync=True, reset=True)),
    dict(items=['hostkey', 'hostkey'], shell=None, opts=dict(sync=True, reset=True)),
    dict(items=['closed'], shell=None, opts=dict(sync=True, reset=True)),
    dict(items=['exit'], shell=None, opts=dict(sync=True, reset=True)),
    dict(items=['silence'], shell=None, opts=dict(sync=False, reset=False)),           # the known finding
    dict(items=['silence'], shell=None, opts=dict(sync=True, reset=True)),
    dict(items=['silence'], shell=None, opts=dict(sync=False, reset=True)),
    dict(items=['password', 'termtype'], shell=['shell', 'sh', '$ ', {'echo': True}], opts=dict(sync=True, reset=True), commands=['echo e']),
    dict(items=['password'], shell=['shell', 'stuck', '$ ', {}], opts=dict(sync=True, reset=True)),
    dict(items=['password', 'banner'], shell=['shell', 'sh', '> ', {'delay': 0.3}], opts=dict(sync=True, reset=True), commands=['echo slow']),
    dict(items=['password', 'pause', 'exit'], shell=None, opts=dict(sync=False, reset=False)),
    dict(items=['pwbanner'], shell=['shell', 'sh', '$ ', {}], opts=dict(sync=True, reset=True), commands=['echo key login']),       # key-based login: no password prompt at all
    dict(items=['motd', 'password', 'pwbanner'], shell=['shell', 'sh', 'h$ ', {}], opts=dict(sync=True, reset=True), commands=['echo ok']),
    # two logins on one object (jump host): what the first leaves behind must not weaken what the second guarantees
    dict(items=['password'], shell=['shell', 'sh', 'jump$ ', {}], opts=dict(sync=True, reset=False),
         then=dict(items=['password'], shell=['shell', 'stuck', 'r$ ', {}], opts=dict(sync=True, reset=True, local=False))),
    dict(items=['password'], shell=['shell', 'sh', 'jump$ ', {}], opts=dict(sync=True, reset=False),
         then=dict(items=['password'], shell=['shell', 'sh', 'inner$ ', {}], opts=dict(sync=True, reset=True, local=False), commands=['echo price: $5 #1', 'big 300'])),
    dict(items=['password'], shell=['shell', 'sh', 'jump$ ', {}], opts=dict(sync=True, reset=True), commands=['echo on jump'],
         then=dict(items=['hostkey', 'password', 'denied', 'password'], shell=None, opts=dict(sync=True, reset=True, local=False))),
    # round-8 change C17-8A: the second login is told what a prompt / a password question looks like; the first login's ideas must not be reused
    dict(items=['password'], shell=['shell', 'sh', 'jump$ ', {}], opts=dict(sync=True, reset=False),
         then=dict(items=['banner', 'pause', 'password', 'denied', 'password'], shell=None, opts=dict(sync=False, reset=False, local=False, original_prompt=r'inner\$ $'))),
    dict(items=['password'], shell=['shell', 'sh', 'jump$ ', {}], opts=dict(sync=True, reset=False),
         then=dict(items=['pwcolon', 'pause', 'password'], shell=['shell', 'sh', 'inner$ ', {}],
                   opts=dict(sync=True, reset=True, local=False, password_regex=r"(?i)'s password: "), commands=['echo in'])),
    dict(items=[], shell=['shell', 'csh', 'j% ', {}], opts=dict(sync=False, reset=True),
         then=dict(items=['banner'], shell=['shell', 'zsh', 'z% ', {}], opts=dict(sync=False, reset=True, local=False), commands=['echo $x #y'])),
]


def finish_case(c, rng):
    c = copy.deepcopy(c)
    if c.get('then') and 'items' in c['then']:
        c['then'] = finish_case(c['then'], rng)
        c['then']['chunks'] = []
    c['steps'] = build(c.pop('items'), c.pop('shell'))
    c.setdefault('chunks', [rng.choice([1, 2, 3, 7, 50, 2000]) for _ in range(rng.randrange(0, 30))])
    c.setdefault('mult', rng.choice([0.2, 0.5, 1]))
    c.setdefault('timeout', rng.choice([1, 2]))
    c.setdefault('login_timeout', rng.choice([1, 3]))
    return c


def rand_case(rng, depth=0):
    n = rng.randrange(0, 6)
    pool = ['hostkey', 'password', 'passphrase', 'denied', 'termtype', 'banner', 'plainbanner', 'closed', 'silence', 'pause', 'exit', 'pwbanner', 'motd']
    w = [2, 5, 1, 2, 1, 2, 2, 1, 1, 2, 1, 1, 1]
    items = [rng.choices(pool, w)[0] for _ in range(n)]
    # a terminal item ends the dialogue
    for k, it in enumerate(items):
        if it in ('closed', 'silence', 'exit'):
            items = items[:k + 1]
            break
    shell = None
    if not items or items[-1] not in ('closed', 'silence', 'exit'):
        if rng.random() < 0.8:
            fl = rng.choice(['sh', 'sh', 'csh', 'zsh', 'stuck'])
            so = {}
            if rng.random() < 0.3:
                so['echo'] = True
            if rng.random() < 0.25:
                so['delay'] = rng.choice([0.05, 0.3, 1.5])
            if fl == 'zsh' and rng.random() < 0.5:
                so['root'] = True
            shell = ['shell', fl, rng.choice(['$ ', '# ', 'alice@host:~$ ', 'host% ', '> ', '[alice@h ~]$ ']), so]
        else:
            items.append(rng.choice(['silence', 'exit']))
    opts = dict(sync=rng.random() < 0.7, reset=rng.random() < 0.7, quiet=rng.random() < 0.7, port=rng.choice([None, None, 2222]),
                local=rng.random() < 0.85)
    cmds = [rng.choice(['echo a', 'echo hello world', 'echo $x #y', 'big 300', 'big 5000', 'echo [PEXPECT', 'echo ',
                        ['pair', 'echo one', 'big 600'], ['pair', 'big 250', 'echo z']]) for _ in range(rng.randrange(0, 4))]
    c = dict(items=items, shell=shell, opts=opts, commands=cmds, encoding=rng.choice([None, None, 'utf-8']))
    if depth == 0 and shell and shell[1] != 'stuck' and rng.random() < 0.2:
        c['then'] = rand_case(rng, 1)
        c['then']['opts']['local'] = False
        c['then'].pop('encoding', None)
    return c if depth else finish_case(c, rng)


def exhaustive(depth, rng):
    """all dialogues up to `depth` items over the 10-item alphabet x option sets, each ending in a shell, silence or exit"""
    import itertools
    pool = ['hostkey', 'password', 'passphrase', 'denied', 'termtype', 'banner', 'closed', 'pause']
    cases = []
    for n in range(0, depth + 1):
        for items in itertools.product(pool, repeat=n):
            if any(it == 'closed' for it in items[:-1]):
                continue
            for tail in (['shell', 'sh', 'h$ ', {}], 'silence', 'exit'):
                if items and items[-1] == 'closed' and tail != 'exit':
                    continue
                for sync, reset in ((True, True), (False, True), (True, False), (False, False)):
                    it = list(items) + ([tail] if isinstance(tail, str) and not (items and items[-1] == 'closed') else [])
                    cases.append(finish_case(dict(items=it, shell=(tail if isinstance(tail, list) else None), opts=dict(sync=sync, reset=reset),
                                                  commands=['echo ok'], chunks=[]), rng))
    return cases


# ----------------------------------------------------------------------------------------- real processes

FAKE_SSH = r'''
import sys, os, json, time, tty
steps = json.loads(open(sys.argv[1]).read())
tty.setraw(0)
def rl():
    s = b''
    while not s.endswith(b'\n'):
        c = os.read(0, 1)
        if not c: os._exit(0)
        s += c
    return s[:-1].decode()
got = []
prompt = None
for st in steps:
    if st[0] == 'say': os.write(1, st[1].encode())
    elif st[0] == 'line': got.append(rl())
    elif st[0] == 'silence': time.sleep(st[1])
    elif st[0] == 'close': break
    elif st[0] == 'shell':
        prompt = st[2]; os.write(1, prompt.encode())
        while True:
            l = rl(); got.append(l)
            if l == "PS1='[PEXPECT]\\$ '": prompt = '[PEXPECT]$ '
            elif l.startswith('echo '): os.write(1, (l[5:] + '\r\n').encode())
            elif l == 'exit': break
            open(sys.argv[2], 'w').write(json.dumps(got))
            os.write(1, prompt.encode())
open(sys.argv[2], 'w').write(json.dumps(got))
'''


def real_case(arg):
    case, tmp, n = arg
    common.repo_on_path()
    sp = os.path.join(tmp, 'fakessh_%d.py' % n); st = os.path.join(tmp, 'steps_%d.json' % n); tr = os.path.join(tmp, 'got_%d.json' % n)
    open(sp, 'w').write(FAKE_SSH); open(st, 'w').write(json.dumps(case['steps']))
    p = PX.pxssh(timeout=1)
    out = {}
    t0 = real_time.time()
    try:
        r = p.login('host', 'alice', PASSWORD, login_timeout=2, sync_multiplier=0.3, auto_prompt_reset=case['opts']['reset'],
                    sync_original_prompt=case['opts']['sync'], cmd='%s %s %s %s' % (sys.executable, sp, st, tr))
        out['res'] = 'ok' if r is True else repr(r)
        if case['opts']['reset']:
            p.sendline('echo real'); ok = p.prompt(timeout=3)
            out['cmd'] = [ok, p.before.decode()]
    except PX.ExceptionPxssh as e:
        out['res'] = 'pxssh'
    except EOF:
        out['res'] = 'EOF'
    except TIMEOUT:
        out['res'] = 'TIMEOUT'
    except Exception as e:   # noqa
        out['res'] = 'EXC:%s %r' % (type(e).__name__, e)
    out['wall'] = round(real_time.time() - t0, 2)
    out['closed'] = p.closed
    try:
        p.close()
    except Exception:
        pass
    for _ in range(40):
        if os.path.exists(tr):
            break
        real_time.sleep(0.05)
    try:
        out['got'] = json.load(open(tr))
    except Exception:
        out['got'] = None
    return out


REAL = [
    (dict(steps=build(['hostkey', 'password', 'plainbanner'], ['shell', 'sh', 'h$ ', {}]), opts=dict(sync=True, reset=True)),
     dict(res='ok', got_prefix=['yes', PASSWORD], cmd=[True, 'real\r\n'])),
    (dict(steps=build(['password', 'denied', 'password'], None) + [['silence', 3]], opts=dict(sync=True, reset=True)), dict(res='pxssh', got=[PASSWORD], closed=True)),
    (dict(steps=build(['closed'], None), opts=dict(sync=True, reset=True)), dict(res='pxssh', got=[], closed=True)),
    (dict(steps=build(['exit'], None), opts=dict(sync=True, reset=True)), dict(res='pxssh', got=[], closed=True)),
    (dict(steps=build(['plainbanner'], ['shell', 'sh', 'h$ ', {}]), opts=dict(sync=True, reset=False)), dict(res='ok', got_prefix=['', '', '', ''])),
]


def stage_command_line(ctx):
    """login options -> ssh command line (pxssh.py:314-389), judged on the shell tokens: every requested option is there,
    with its value next to it, nothing that was not requested, the server last"""
    import shlex, itertools, tempfile
    rng = ctx.rng
    keyfile = tempfile.NamedTemporaryFile(prefix='verif_key_', delete=False); keyfile.close()
    cfgfile = tempfile.NamedTemporaryFile(prefix='verif_cfg_', delete=False, mode='w'); cfgfile.write('Host srv\n  User bob\n'); cfgfile.close()
    n = 0
    try:
        for it in range(120 if ctx.quick() else 1500):
            quiet = rng.random() < 0.5
            port = rng.choice([None, None, 22, 2222])
            key = rng.choice([None, None, True, keyfile.name, '/nonexistent/key'])
            cli = rng.random() < 0.7
            tunnels = rng.choice([{}, {}, {'local': ['2424:localhost:22']}, {'remote': ['2525:h:22'], 'dynamic': [8888]}])
            options = rng.choice([{}, {}, {'StrictHostKeyChecking': 'no'}, {'UserKnownHostsFile': '/dev/null', 'A': 'b'}])
            user = rng.choice(['alice', 'alice', None])
            cfg = rng.choice([None, None, cfgfile.name, '/nonexistent/cfg'])
            p = PX.pxssh(debug_command_string=True, options=options)
            kw = dict(quiet=quiet, port=port, ssh_key=key, check_local_ip=cli, ssh_tunnels=tunnels, ssh_config=cfg)
            try:
                cmd = p.login('srv', user, 'pw', **kw)
                res = 'cmd'
            except PX.ExceptionPxssh:
                res = 'pxssh'
            except TypeError:
                res = 'TypeError'
            except Exception as e:  # noqa
                res = 'EXC:' + type(e).__name__
            n += 1
            # expected class of outcome
            if cfg == '/nonexistent/cfg' or key == '/nonexistent/key':
                want = 'pxssh'
                # the config test comes first in the source; either way an ExceptionPxssh
            elif user is None and cfg is None:
                want = 'TypeError'
            else:
                want = 'cmd'
            bad = None
            if res != want:
                bad = 'outcome %s, expected %s' % (res, want)
            elif res == 'cmd':
                toks = shlex.split(cmd)
                exp = ['ssh']
                for k, v in options.items():
                    exp += ['-o', '%s=%s' % (k, v)]
                if quiet:
                    exp.append('-q')
                if not cli:
                    exp.append('-oNoHostAuthenticationForLocalhost=yes')
                if cfg:
                    exp += ['-F', cfg]
                if port is not None:
                    exp += ['-p', str(port)]
                if key is True:
                    exp.append('-A')
                elif key:
                    exp += ['-i', key]
                for ttype, flag in (('local', '-L'), ('remote', '-R'), ('dynamic', '-D')):
                    for t in tunnels.get(ttype, []):
                        exp += [flag, str(t)]
                if user is not None:
                    exp += ['-l', user]
                exp.append('srv')
                if toks != exp:
                    bad = 'command line %r, expected the tokens %r' % (cmd, exp)
            if bad:
                common.report(ctx, 'login/command-line', 'login(%r) -> %s' % (kw, bad), dict(kind='cmdline', kw={k: repr(v) for k, v in kw.items()}, user=user, options=options))
                break
    finally:
        os.unlink(keyfile.name); os.unlink(cfgfile.name)
    ctx.cov['command_lines_checked'] = n


# ------------------------------------------------------------------------------------------------- driver

def evaluate(case):
    out = run_case(case)
    orc = oracle(case, out)
    if orc is None and 'then' in out:
        o2 = oracle(case['then'], out['then'])
        if o2:
            orc = (o2[0] if o2[0] == KNOWN_SILENT else 'second-login/' + o2[0],
                   'second login on the same object (the first: auto_prompt_reset=%s, sync_original_prompt=%s): %s' % (case['opts']['reset'], case['opts']['sync'], o2[1]))
    return out, orc


def run(ctx):
    tr = common.run_translators() if False else None
    ok = common.prove(ctx, ['C17'])
    if not ctx.quick():
        common.leanchecker(ctx, ['C17'])
    cases = [finish_case(c, ctx.rng) for c in CORPUS]
    ex = exhaustive(2 if ctx.quick() else 3, ctx.rng)
    cases += ex
    nrand = 1500 if ctx.quick() else 20000
    cases += [rand_case(ctx.rng) for _ in range(nrand)]
    outs = []
    lines = []
    hist = collections.Counter()
    sigs = set()
    first_fail = None
    for c in cases:
        out, orc = evaluate(c)
        outs.append(out)
        ml = model_line(c, out)
        lines.append(ml or 'PX 0 0 i5 @ @ @')
        hist[out['res']] += 1
        sigs.add((out['res'], c['opts']['sync'], c['opts']['reset'], tuple(a for _, a in out['expects'])[:6], len(out['reads'])))
        if orc:
            if orc[0] == KNOWN_SILENT:
                common.report(ctx, orc[0], orc[1], dict(case=c, real=out))
            elif first_fail is None:
                first_fail = (c, out, orc)
    if first_fail:
        c, out, orc = first_fail
        small = shrink(c, lambda cc: (lambda r: r is not None and r[0] == orc[0])(evaluate(cc)[1]))
        o2, r2 = evaluate(small)
        common.report(ctx, r2[0] if r2 else orc[0], r2[1] if r2 else orc[1], dict(case=small, real=o2))
    # the second login of a two-login history is the same function of its own dialogue (Px.login has no memory)
    second = [(c['then'], o['then']) for c, o in zip(cases, outs) if 'then' in o and model_line(c['then'], o['then'])]
    cases = cases + [c2 for c2, _ in second]
    outs = outs + [o2 for _, o2 in second]
    lines = lines + [model_line(c2, o2) for c2, o2 in second]
    ctx.cov['second_logins_through_model'] = len(second)
    # correspondence
    try:
        mouts = common.run_model(lines)
    except common.ModelUnavailable as e:
        mouts = None
        ctx.broken.append('model driver unavailable: ' + str(e)[:300])
    if mouts is not None:
        for c, out, ml, mo in zip(cases, outs, lines, mouts):
            if model_line(c, out) is None or out['res'].startswith(('EXC', 'ret', 'DEAD')):
                continue
            real = canon_real(c, out)
            if real != mo:
                ctx.broken.append('correspondence pxssh model vs pexpect.pxssh.login on %s: model %r real %r' % (json.dumps(c)[:300], mo, real))
                break
    # prompt(): the reads of the post-login commands through PxP.promptSeq (also validates "PROMPT = the two strings it denotes")
    plines, pidx = [], []
    for k, (c, out) in enumerate(zip(cases, outs)):
        cm = out.get('cmds') or []
        if cm and all(r.get('ok') is True for r in cm) and out.get('pending_at_login') == '' and (not c.get('encoding')):
            plines.append('PP %d @ %s' % (len(cm), ' '.join('d=' + enc(d) for d in out['prompt_reads'])))
            pidx.append(k)
    try:
        pouts = common.run_model(plines) if plines else []
        for k, ml in zip(pidx, pouts):
            cm = outs[k]['cmds']
            want = ' | '.join('hit 0 b=%s' % enc(r['before']) for r in cm)
            got = ' | '.join(x.split(' a=')[0] for x in ml.split(' | ')[:-1])
            if want != got:
                ctx.broken.append('correspondence prompt() model vs pxssh.prompt on %s: model %r real %r' % (json.dumps(cases[k])[:200], got[:200], want[:200]))
                break
        ctx.cov['prompt_sessions_replayed'] = len(plines)
    except common.ModelUnavailable:
        pass
    # levenshtein / similarity decision: model vs real method
    lv = []
    px = PX.pxssh.__new__(PX.pxssh)
    for _ in range(300 if ctx.quick() else 3000):
        a = ''.join(ctx.rng.choice('ab$# ') for _ in range(ctx.rng.randrange(0, 9)))
        b = a if ctx.rng.random() < 0.3 else ''.join(ctx.rng.choice('ab$# ') for _ in range(ctx.rng.randrange(0, 9)))
        if ctx.rng.random() < 0.3 and a:
            k = ctx.rng.randrange(len(a)); b = a[:k] + ctx.rng.choice('ab$') + a[k + 1:]
        lv.append((a, b))
    try:
        lo = common.run_model(['LV %s %s' % (enc(a), enc(b)) for a, b in lv])
        for (a, b), l in zip(lv, lo):
            d = PX.pxssh.levenshtein_distance(px, a, b)
            simr = 1 if (len(a) != 0 and float(d) / len(a) < 0.4) else 0
            if l != '%d %d' % (d, simr):
                ctx.broken.append('correspondence levenshtein/similarity on %r %r: model %s real %d %d' % (a, b, l, d, simr))
                break
    except common.ModelUnavailable:
        pass
    stage_command_line(ctx)
    # real processes
    with multiprocessing.Pool(5) as pool:
        routs = pool.map(real_case, [(c, ctx.tmp, n) for n, (c, _) in enumerate(REAL)])
    for (c, want), r in zip(REAL, routs):
        bad = None
        if r['res'] != want['res']:
            bad = 'result %r, expected %r' % (r['res'], want['res'])
        elif 'got' in want and r['got'] is not None and r['got'] != want['got']:
            bad = 'server received %r, expected %r' % (r['got'], want['got'])
        elif 'got_prefix' in want and (r['got'] or [])[:len(want['got_prefix'])] != want['got_prefix']:
            bad = 'server received %r, expected it to start with %r' % (r['got'], want['got_prefix'])
        elif 'cmd' in want and r.get('cmd') != want['cmd']:
            bad = 'prompt() gave %r, expected %r' % (r.get('cmd'), want['cmd'])
        elif want.get('closed') and not r['closed']:
            bad = 'session not closed after ExceptionPxssh'
        if bad and not ctx.violations:
            again = real_case((c, ctx.tmp, 900))
            if again['res'] == r['res']:
                common.report(ctx, 'login/real-process', 'real fake-ssh run: ' + bad, dict(kind='real', case=c, got=r))
            else:
                ctx.notes.append('unreproduced real-process anomaly: ' + bad)
    ctx.cov['result_histogram'] = dict(hist)
    ctx.cov['second_logins_on_same_object'] = dict(collections.Counter(o['then']['res'] for o in outs if 'then' in o))
    ctx.cov['exhaustive_part'] = dict(cases=len(ex), depth=2 if ctx.quick() else 3,
                                      note='all dialogues over {hostkey, password, passphrase, denied, termtype, banner, closed, pause} up to depth x {shell, silence, exit} x 4 option sets')
    ctx.cov['real_process_runs'] = len(REAL)
    samples = [dict(case=cases[i], result=outs[i]['res'], sent=[x[0] for x in outs[i]['sent']][:8]) for i in range(3)]
    return common.finish(
        ctx,
        'corpus, all short dialogues, then random dialogues over the item alphabet x shells (sh/csh/zsh/stuck, echo, delays, root) x option sets x '
        'read chunkings, on the real pxssh class with a scripted in-process server under a virtual clock; every expect answer / read / send is '
        'replayed through the Lean interpreter of the generated table; distinct = (result, options, answer sequence, reads); non-trivial = all of them '
        'except the plain happy path',
        samples, len(cases) + len(REAL), max(0, len(sigs) - 1),
        assumptions=['the transport of the pxssh object is replaced in-process (read_nonblocking / send / close); expect(), the Expecter, login(), '
                     'sync_original_prompt(), try_read_prompt(), set_unique_prompt() and prompt() are the real code',
                     'a server that answers Enter twice with similar non-empty text is accepted by sync_original_prompt: that heuristic is what the partial theorem states'])


def shrink(case, bad):
    cur = copy.deepcopy(case)
    changed = True
    while changed:
        changed = False
        for i in range(len(cur['steps'])):
            c = copy.deepcopy(cur); del c['steps'][i]
            try:
                if bad(c):
                    cur = c; changed = True; break
            except Exception:
                pass
        if not changed and cur.get('chunks'):
            c = copy.deepcopy(cur); c['chunks'] = []
            if bad(c):
                cur = c; changed = True
        if not changed and cur.get('commands'):
            c = copy.deepcopy(cur); c['commands'] = c['commands'][:-1]
            if bad(c):
                cur = c; changed = True
    return cur


def replay(ctx, path):
    d = json.load(open(path))
    r = d['replay']
    if r.get('kind') == 'real':
        o = real_case((r['case'], ctx.tmp, 1))
        print(json.dumps(o, indent=1))
        return 0
    out, orc = evaluate(r['case'])
    print(json.dumps(dict(real=out, oracle=orc), indent=1, default=repr))
    return 1 if orc else 0
