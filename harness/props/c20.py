"""C20 pattern forms: compile_pattern_list / expect_exact decision logic vs the Forms model; metamorphic runs."""
import re, json, collections
from lib import common
common.repo_on_path()
import pexpect
from pexpect import EOF, TIMEOUT
from drivers import expecter as X
from props.expecter_family import rand_ast, sample

FLAGCHARS = [('a', re.ASCII), ('i', re.IGNORECASE), ('m', re.MULTILINE), ('s', re.DOTALL), ('x', re.VERBOSE)]
MASK = re.ASCII | re.IGNORECASE | re.MULTILINE | re.DOTALL | re.VERBOSE


def flags_of(bits):
    s = ''.join(ch for ch, b in FLAGCHARS if bits & b)
    return s or 'n'


def bits_of(s):
    f = 0
    for ch, b in FLAGCHARS:
        if ch in s:
            f |= b
    return f


def enc(t):
    return ','.join(str(ord(c)) for c in t) if t else '-'


class Obj(object):
    pass


INVALID = [lambda: 7, lambda: None, lambda: 3.5, lambda: Obj(), lambda: ['a'], lambda: ('a',), lambda: {'a': 1}, lambda: bytearray(b'a'),
           lambda: re, lambda: EOF('x'), lambda: TIMEOUT('x'), lambda: object]


def make_form(kind, text, fl, mode):
    """-> (python object, model token)"""
    if kind == 's':
        return text, 's=' + enc(text)
    if kind == 'y':
        return text.encode('ascii'), 'y=' + enc(text)
    if kind == 'cs':
        return re.compile(text, bits_of(fl)), 'cs=%s=%s' % (fl, enc(text))
    if kind == 'cb':
        return re.compile(text.encode('ascii'), bits_of(fl)), 'cb=%s=%s' % (fl, enc(text))
    if kind == 'E':
        return EOF, 'E'
    if kind == 'T':
        return TIMEOUT, 'T'
    return INVALID[fl % len(INVALID)](), 'O'


# the encoding of unicode-mode objects: what a pattern means does not depend on it (the scripted transport hands over text, so the
# attribute only reaches the coercion code); rotated by the stages below
UENC = ['utf-8']
UENCS = ['utf-8', 'utf-8', 'latin-1', 'ascii', 'utf-16', 'cp500', 'utf-32', 'shift_jis']


def scripted(script, mode, clock):
    p = X.Scripted(script, mode, clock)
    if mode == 'u':
        p.encoding = UENC[0]
    return p


def real_compile(p, forms):
    try:
        cpl = p.compile_pattern_list(forms)
    except TypeError:
        return 'TypeError'
    except Exception as e:
        return 'EXC:' + type(e).__name__
    out = []
    for c in cpl:
        if c is EOF:
            out.append('E')
        elif c is TIMEOUT:
            out.append('T')
        else:
            pat = c.pattern
            native = isinstance(pat, bytes) == (p.encoding is None)
            if not native:
                return 'WRONGTYPE'
            txt = pat.decode('latin-1') if isinstance(pat, bytes) else pat
            out.append('re=%s=%s' % (flags_of(c.flags & MASK), enc(txt)))
    return ' '.join(out)


def run_stream(mode, ic, arg, stream_chunks, api):
    """one expect-family call on a fresh scripted spawn; -> canonical outcome"""
    clock = X.FakeTime()
    p = scripted([['d', c] for c in stream_chunks] + [['T']], mode, clock)
    p.ignorecase = ic
    try:
        if api == 'expect':
            i = p.expect(arg)
        elif api == 'expect_list':
            i = p.expect_list(p.compile_pattern_list(arg))
        else:
            i = p.expect_exact(arg)
        after = p.after
        kind = 'eof' if after is EOF else 'timeout' if after is TIMEOUT else 'hit'
        return (kind, i, X.to_text(p.before, mode), X.to_text(after, mode) if kind == 'hit' else None, X.to_text(p.buffer, mode)), len(p.delivered), p
    except TypeError:
        return ('TypeError',), len(p.delivered), p
    except TIMEOUT:
        return ('TIMEOUT', X.to_text(p.before, mode)), len(p.delivered), p
    except EOF:
        return ('EOF', X.to_text(p.before, mode)), len(p.delivered), p
    except Exception as e:
        return ('EXC:' + type(e).__name__,), len(p.delivered), p


def run(ctx):
    common.prove(ctx, ['C20'])
    if not ctx.quick():
        common.leanchecker(ctx, ['C20'])
    rng = ctx.rng
    alph = 'abAB\nx.'
    lines, reals, descs = [], [], []
    sigs = set()
    n1 = 3000 if ctx.quick() else 40000
    # (1) decision-logic correspondence: compile_pattern_list / expect_exact preparation vs the Lean model
    for _ in range(n1):
        mode = rng.choice('bu')
        ic = rng.random() < 0.4
        kind = rng.choice('rrx')
        forms, toks = [], []
        for _ in range(rng.randrange(1, 5)):
            k = rng.choice(['s', 's', 'y', 'cs', 'cb', 'E', 'T', 'O'] if rng.random() < 0.5 else ['s', 'cs', 'cb', 'E', 'T', 'y'])
            text = ''.join(rng.choice(['a', 'b', '.', 'c', 'a*', '[ab]']) for _ in range(rng.randrange(1, 4)))
            fl = ''.join(ch for ch, _ in FLAGCHARS if rng.random() < 0.35) or 'n'
            if k == 'O':
                fl = rng.randrange(0, 100)
            o, t = make_form(k, text, fl, mode)
            forms.append(o); toks.append(t)
        UENC[0] = rng.choice(UENCS)
        p = scripted([['d', 'zzz']], mode, X.FakeTime())
        p.ignorecase = ic
        if kind == 'r':
            r = real_compile(p, forms)
        else:
            res, nd, p2 = run_stream(mode, ic, forms, ['zzz'], 'expect_exact')
            if res[0] == 'TypeError':
                r = 'TypeError'
            else:
                # read back what the searcher was given (order and coercion): reconstruct from a timeout message is fragile,
                # so compare acceptance only and leave the text comparison to the metamorphic stage
                r = 'accepted'
        lines.append('FM %s %d %s %s' % (mode, 1 if ic else 0, kind, ' '.join(toks)))
        reals.append(r)
        descs.append((mode, ic, kind, toks, UENC[0]))
        sigs.add((mode, ic, kind, tuple(t.split('=')[0] for t in toks), r == 'TypeError'))
    try:
        mouts = common.run_model(lines)
    except common.ModelUnavailable as e:
        ctx.broken.append('model driver unavailable: ' + str(e)[:300]); mouts = [None] * len(lines)
    for l, mo, r, d in zip(lines, mouts, reals, descs):
        if mo is None:
            break
        agree = (mo == r) if d[2] == 'r' else ((mo == 'TypeError') == (r == 'TypeError'))
        if not agree:
            kinds = '+'.join(sorted(set(t.split('=')[0] for t in d[3])))
            if 'O' in kinds and r != 'TypeError':
                common.report(ctx, 'forms/other-accepted/' + d[0], 'an object that is not a pattern was accepted: %s -> %s' % (l, r), dict(line=l, real=r, model=mo, object_encoding=d[4]))
            elif r == 'TypeError' or mo == 'TypeError':
                common.report(ctx, 'forms/acceptance/%s/%s' % (d[0], kinds), '%s: real %s, model %s' % (l, r, mo), dict(line=l, real=r, model=mo, object_encoding=d[4]))
            else:
                common.report(ctx, 'forms/compiled/%s/%s' % (d[0], kinds),
                              'compile_pattern_list gives %s; every accepted form must give %s (%s)' % (r, mo, l), dict(line=l, real=r, model=mo, object_encoding=d[4]))
            break
    # (2) metamorphic oracle: the same pattern in every accepted form selects the same occurrence
    n2 = 1500 if ctx.quick() else 20000
    for it in range(n2):
        mode = rng.choice('bu')
        UENC[0] = rng.choice(UENCS)
        ic = rng.random() < 0.4
        a = rand_ast(rng, rng.choice([1, 2, 2, 3]), 'abAB\n')
        src = X.render(a, 'u')
        fl_string = 's' + ('i' if ic else '')
        fl = rng.choice([fl_string, fl_string, ''.join(ch for ch, _ in FLAGCHARS if rng.random() < 0.4) or 'n'])
        text = ''
        while len(text) < rng.randrange(0, 14):
            text += sample(rng, a, 'abAB\n') if rng.random() < 0.5 else rng.choice(alph)
        cutp = rng.randrange(0, len(text) + 1)
        chunks = [text[:cutp], text[cutp:]]
        native = src if mode == 'u' else src.encode('ascii')
        other = src.encode('ascii') if mode == 'u' else src
        variants = [('compiled-native', re.compile(native, bits_of(fl)), 'expect'), ('compiled-other', re.compile(other, bits_of(fl)), 'expect'),
                    ('compiled-native-list', [re.compile(native, bits_of(fl))], 'expect'), ('compiled-other-expect_list', [re.compile(other, bits_of(fl))], 'expect_list')]
        if set(fl) - {'n'} == set(fl_string):
            variants += [('string', native, 'expect'), ('string-list', [native], 'expect_list')]
            if mode == 'b':
                variants += [('ascii-text', src, 'expect'), ('ascii-text-list', [src], 'expect')]
        results = [(name, run_stream(mode, ic, arg, chunks, api)[0]) for name, arg, api in variants]
        base = results[0]
        sigs.add(('meta', mode, ic, fl, base[1][0]))
        for name, r in results[1:]:
            if r != base[1]:
                common.report(ctx, 'forms/metamorphic/%s/%s' % (mode, name.split('-')[0] + '-' + name.split('-')[1] if '-' in name else name),
                              'pattern %r flags %s on %r (%s mode, ignorecase=%s): %s gives %r, %s gives %r' % (src, fl, chunks, mode, ic, base[0], base[1], name, r),
                              dict(pattern=src, flags=fl, mode=mode, ignorecase=ic, chunks=chunks, results=[[n, list(map(repr, rr))] for n, rr in results]))
                break
        # literal pattern: expect_exact forms
        lit = ''.join(rng.choice('abAB') for _ in range(rng.randrange(1, 3)))
        ev = [('x-native', X.conv(lit, mode), 'expect_exact'), ('x-native-list', [X.conv(lit, mode)], 'expect_exact')]
        if mode == 'b':
            ev += [('x-ascii-text', lit, 'expect_exact'), ('x-ascii-text-list', [lit, TIMEOUT][:1], 'expect_exact')]
        rs = [(n, run_stream(mode, False, arg, chunks, api)[0]) for n, arg, api in ev]
        for n, r in rs[1:]:
            if r != rs[0][1]:
                common.report(ctx, 'forms/metamorphic-exact/%s/%s' % (mode, n), 'expect_exact(%r) on %r: %s gives %r, %s gives %r' % (lit, chunks, rs[0][0], rs[0][1], n, r),
                              dict(literal=lit, mode=mode, chunks=chunks))
                break
    # (3) other objects are rejected with TypeError before anything is consumed
    n3 = 0
    for mode in 'bu':
        for api in ('expect', 'expect_exact', 'expect_list'):
            for mk in INVALID:
                for pos in ('single', 'first', 'last'):
                    bad = mk()
                    good = X.conv('zz', mode)
                    arg = bad if pos == 'single' else [bad, good] if pos == 'first' else [good, EOF, bad]
                    if pos == 'single' and isinstance(bad, (list, tuple)):
                        continue          # a list / tuple argument *is* a pattern list
                    if pos == 'single' and bad is None and api != 'expect_exact':
                        continue          # documented: patterns=None means the empty pattern list
                    if api == 'expect_exact' and pos == 'single' and isinstance(bad, (dict, bytearray)):
                        continue          # any iterable is taken as the pattern list by expect_exact; judged through its elements
                    res, nd, p = run_stream(mode, False, arg, ['hello'], api)
                    n3 += 1
                    if res[0] != 'TypeError' or nd != 0 or X.to_text(p.buffer, mode) != '':
                        common.report(ctx, 'forms/invalid/%s/%s' % (api, type(bad).__name__),
                                      '%s(%r) on a %s-mode object: outcome %r, %d reads consumed (expected TypeError before any output is consumed)' % (
                                          api, arg, mode, res, nd), dict(api=api, arg=repr(arg), mode=mode, outcome=list(map(repr, res)), reads=nd))
    # (4) the caller's own list: the same list object given to several calls (with `ignorecase` toggled in between, to
    # expect and then to expect_exact, after a rejected call) behaves every time like a freshly written list, and is left as written
    import copy as _copy
    n4 = 0
    for mode in 'bu':
        for second in ('expect-ic', 'expect_exact', 'rejected'):
            sp = scripted([['d', 'xx password: yy PASSWORD: zz']], mode, X.FakeTime())
            lst = [X.conv('PASSWORD: ', mode), X.conv('nomatch', mode)] + ([5] if second == 'rejected' else [])
            written = list(lst)
            saved_t = X.pexpect_expect.time
            X.pexpect_expect.time = sp.clock
            try:
                try:
                    first = sp.expect(lst, timeout=1)
                except TypeError:
                    first = 'TypeError'
                if second == 'expect-ic':
                    sp.ignorecase = True
                    sp.buffer = X.conv('xx password: yy', mode)
                    got = sp.expect(lst, timeout=1)
                    want = 0
                elif second == 'expect_exact':
                    sp.buffer = X.conv('again PASSWORD: tail', mode)
                    try:
                        got = sp.expect_exact(lst, timeout=1)
                    except TypeError:
                        got = 'TypeError'
                    want = 0
                else:
                    got, want = first, 'TypeError'
            except Exception as e:      # noqa
                got, want = 'EXC:' + type(e).__name__, 'no exception'
            finally:
                X.pexpect_expect.time = saved_t
            n4 += 1
            same = len(lst) == len(written) and all(a is b for a, b in zip(lst, written))
            if got != want or not same:
                common.report(ctx, 'forms/callers-list/%s/%s' % (mode, second),
                              'one list object given to expect() and then %s (%s mode): second call gave %r (a fresh list gives %r); the caller\'s list is %s' % (
                                  second, mode, got, want, 'unchanged' if same else 'rewritten to %r' % (lst,)), dict(mode=mode, second=second))
    ctx.cov['callers_list_cases'] = n4
    # (5) the `delimiter` attribute is a pattern too: read(n) / read() / readline() stop at it, whichever accepted form it is given in;
    # another object is rejected with TypeError
    n5 = 0
    for mode in 'bu':
        for uenc in (['utf-8'] if mode == 'b' else ['utf-8', 'utf-16']):
            UENC[0] = uenc
            native = (lambda t: t) if mode == 'u' else (lambda t: t.encode('ascii'))
            other = (lambda t: t.encode('ascii')) if mode == 'u' else (lambda t: t)
            forms = {'native string': native('S+'), 'native compiled': re.compile(native('S+')), 'other-type compiled': re.compile(other('S+')), 'marker EOF': EOF}
            if mode == 'b':
                forms['text given to a bytes-mode object'] = 'S+'
            for api in ('read4', 'readall', 'readline'):
                ref = None
                for name, form in forms.items():
                    sp = scripted([['d', 'abcdefgSSShij\r\nklm'], ['E']], mode, X.FakeTime())
                    sp.delimiter = form
                    try:
                        v = sp.read(4) if api == 'read4' else sp.read() if api == 'readall' else sp.readline()
                        out = ('value', X.to_text(v, mode), X.to_text(sp.read(3), mode))
                    except Exception as e:      # noqa
                        out = ('raises', type(e).__name__)
                    n5 += 1
                    if name == 'marker EOF':
                        continue
                    if ref is None:
                        ref = (name, out)
                    elif out != ref[1]:
                        common.report(ctx, 'forms/delimiter/%s/%s' % (mode, api), '%s with delimiter given as %s: %r; as %s: %r (%s mode)' % (
                            api, name, out, ref[0], ref[1], mode), dict(api=api, mode=mode, form=name))
                        break
                for bad in (5, 3.5, object()):
                    sp = scripted([['d', 'abcdefgSSShij'], ['E']], mode, X.FakeTime())
                    sp.delimiter = bad
                    try:
                        sp.read(4) if api == 'read4' else sp.read() if api == 'readall' else sp.readline()
                        out = 'accepted'
                    except TypeError:
                        out = 'TypeError'
                    except Exception as e:      # noqa
                        out = type(e).__name__
                    n5 += 1
                    if out != 'TypeError' or sp.delivered:
                        common.report(ctx, 'forms/delimiter-invalid/%s/%s' % (mode, api), '%s with delimiter = %r on a %s-mode object: %s, %d reads consumed (expected TypeError before any '
                                      'output is consumed)' % (api, bad, mode, out, len(sp.delivered)), dict(api=api, mode=mode, bad=repr(bad)))
                        break
    ctx.cov['delimiter_cases'] = n5
    ctx.cov['decision_cases'] = n1
    ctx.cov['metamorphic_cases'] = n2
    ctx.cov['invalid_object_cases'] = n3
    return common.finish(
        ctx, 'random pattern lists over forms {str, bytes, compiled str, compiled bytes, EOF, TIMEOUT, 12 kinds of other object} x flags subsets of '
             '{A,I,M,S,X} x mode x ignorecase, compile_pattern_list output compared with the Lean model; metamorphic runs of one generated regex '
             'under every accepted form on a two-chunk stream; invalid objects in every position x 3 entry points. distinct = (mode, ignorecase, '
             'entry point, form kinds, rejected?) and (mode, ignorecase, flags, outcome kind)',
        [dict(line=lines[0], real=reals[0])], n1 + n2 + n3, len(sigs),
        assumptions=['re.compile is deterministic in (pattern, flags): equal compiled inputs select equal occurrences',
                     'patterns handed over in the other string type are ASCII'])


def replay(ctx, path):
    d = json.load(open(path)).get('replay') or {}
    line = d.get('line', '')
    if line.startswith('FM ') and ' O' not in line:
        # stage (1): rebuild the forms from the model line, compile them with the real method and compare with the model again
        toks = line.split(' ')
        mode, ic, kind, forms = toks[1], toks[2] == '1', toks[3], []

        def dec(t):
            return ''.join(chr(int(x)) for x in t.split(',')) if t != '-' else ''
        for t in toks[4:]:
            parts = t.split('=')
            if parts[0] in ('s', 'y'):
                forms.append(make_form(parts[0], dec(parts[1]), 'n', mode)[0])
            elif parts[0] in ('cs', 'cb'):
                forms.append(make_form(parts[0], dec(parts[2]), parts[1], mode)[0])
            else:
                forms.append(make_form(parts[0], '', 'n', mode)[0])
        UENC[0] = d.get('object_encoding', 'utf-8')
        p = scripted([['d', 'zzz']], mode, X.FakeTime())
        p.ignorecase = ic
        real = real_compile(p, forms) if kind == 'r' else ('TypeError' if run_stream(mode, ic, forms, ['zzz'], 'expect_exact')[0][0] == 'TypeError' else 'accepted')
        mo = common.run_model([line])[0]
        agree = (mo == real) if kind == 'r' else ((mo == 'TypeError') == (real == 'TypeError'))
        print('%s\n real : %s\n model: %s' % (line, real, mo))
        return 0 if agree else 1
    print(json.dumps(d, indent=1, default=repr)[:3000])
    return None      # no dedicated replay for this kind of case: check.py re-runs the check with the recorded seed
