"""C15: interact() — proofs about the copy-loop model (Props/C15.lean) + real interact() sessions: an outer pty plays the
user, a raw-mode inner child reports what it read and wrote, every os.read / os.write of the loop is recorded and the
recorded reads are replayed through the Lean model."""
import os, sys, json, copy, time, pty, tty, termios, threading, select, errno, io, collections, multiprocessing, signal, tempfile
from lib import common

common.repo_on_path()
import pexpect
from pexpect import TIMEOUT, EOF
import pexpect.pty_spawn as PS

CHILD = r'''
import sys, os, tty, select, json
tty.setraw(0)
report, ctlp = sys.argv[1], sys.argv[2]
ctl = os.open(ctlp, os.O_RDONLY)
got = b''; wrote = 0
def rep():
    tmp = report + '.tmp'
    open(tmp, 'w').write(json.dumps(dict(got=got.hex(), wrote=wrote)))
    os.rename(tmp, report)
def say(b):
    global wrote
    while b:
        n = os.write(1, b[:4096]); b = b[n:]; wrote += n
rep()
cbuf = b''
while True:
    r, _, _ = select.select([0, ctl], [], [])
    if 0 in r:
        d = os.read(0, 65536)
        if not d: break
        got += d; rep()
    if ctl in r:
        d = os.read(ctl, 65536)
        if not d: break
        cbuf += d
        while b'\n' in cbuf:
            line, cbuf = cbuf.split(b'\n', 1)
            if line.startswith(b'S '): say(bytes.fromhex(line[2:].decode())); rep()
            elif line.startswith(b'B '):
                n = int(line[2:]); say((b'0123456789abcdef' * (n // 16 + 1))[:n]); rep(); os._exit(0)
            elif line == b'Q': rep(); os._exit(0)
'''


def filt(name):
    if name == 'id' or name is None:
        return None
    if name == 'up':
        return lambda b: bytes((c - 32) if 97 <= c <= 122 else c for c in b)
    if name == 'dbl':
        return lambda b: bytes(x for c in b for x in (c, c))
    if name.startswith('drop'):
        n = int(name[4:])
        return lambda b: bytes(c for c in b if c != n)
    raise ValueError(name)


def apply_f(name, b):
    f = filt(name)
    return f(b) if f else b


class OsProxy(object):
    def __init__(self, log, child_fd_get, stdin_fd, short=None, out_fd=None):
        self.log, self.cfd, self.sfd = log, child_fd_get, stdin_fd
        self.ofd = stdin_fd if out_fd is None else out_fd
        self.short = short           # the child's terminal takes at most this many bytes per write (a nearly full queue; a non-blocking descriptor)

    def read(self, fd, n):
        try:
            d = os.read(fd, n)
        except OSError as e:
            if fd == self.cfd() and e.errno == errno.EIO:
                self.log.append(['X'])
            raise
        if fd == self.cfd():
            self.log.append(['o', d.hex(), n] if d else ['X'])
        elif fd == self.sfd:
            self.log.append(['u', d.hex(), n])
        return d

    def write(self, fd, data):
        if self.short and fd == self.cfd():
            data = bytes(data)[:self.short]
        n = os.write(fd, data)
        if fd == self.cfd():
            self.log.append(['wc', bytes(data[:n]).hex()])
        elif fd == self.ofd:
            self.log.append(['ws', bytes(data[:n]).hex()])
        return n

    def __getattr__(self, k):
        return getattr(os, k)


def session(arg):
    """one interact() session in this (worker) process. case: steps, esc, fin, fout, pending, encoding, poll, logs"""
    case, tmp, n = arg
    common.repo_on_path()
    d = tempfile.mkdtemp(prefix='ia_', dir=tmp)
    cp = os.path.join(d, 'child.py'); rp = os.path.join(d, 'report.json'); fifo = os.path.join(d, 'ctl')
    open(cp, 'w').write(CHILD)
    os.mkfifo(fifo)
    om, osl = pty.openpty()
    # standard output may be something else than the terminal the keys come from (script | tee log): the terminal to put into raw mode, and
    # back, is the one on standard input
    pr, pw = os.pipe() if case.get('split_out') else (None, None)
    outfd = osl if pw is None else pw
    # the user's terminal: cooked (canonical, echo) but no output post-processing, so that bytes can be compared exactly
    a = termios.tcgetattr(osl)
    a[1] &= ~termios.OPOST
    if case.get('odd_tty'):
        # a terminal left with unusual settings by whatever ran before (stty min 0 time 5, another intr character): interact() must put
        # back exactly what it found
        a[6][termios.VMIN] = b'\x00'; a[6][termios.VTIME] = b'\x05'; a[6][termios.VINTR] = b'\x02'
    termios.tcsetattr(osl, termios.TCSANOW, a)
    mode0 = termios.tcgetattr(osl)
    display = bytearray()
    stop = threading.Event()
    raw_set = threading.Event()
    out = dict(case=case)
    saved_stdout = sys.stdout
    sys.stdout = io.TextIOWrapper(os.fdopen(os.dup(outfd), 'wb', buffering=0), write_through=True)
    log = []
    logs = {}
    p = None
    try:
        kw = {}
        if case.get('encoding'):
            kw['encoding'] = case['encoding']
        # use_poll exists for programs that hold many descriptors: the child's terminal may well have a number select() cannot take
        dummies = [os.open('/dev/null', os.O_RDONLY) for _ in range(1040)] if case.get('highfd') else []
        try:
            p = pexpect.spawn(sys.executable, [cp, rp, fifo], timeout=5, use_poll=bool(case.get('poll')), echo=False, **kw)
        finally:
            for fd_ in dummies:
                os.close(fd_)
        out['child_fd'] = p.child_fd
        p.STDIN_FILENO = osl
        p.STDOUT_FILENO = outfd
        if case.get('logs'):
            mk = (lambda: io.StringIO()) if case.get('encoding') else (lambda: io.BytesIO())
            logs = dict(read=mk(), send=mk())
            p.logfile_read, p.logfile_send = logs['read'], logs['send']
        ctl = os.open(fifo, os.O_WRONLY)

        def report():
            for _ in range(400):
                try:
                    return json.load(open(rp))
                except Exception:
                    time.sleep(0.005)
            return dict(got='', wrote=0)

        def wait(cond, limit=4.0):
            t0 = time.time()
            while time.time() - t0 < limit:
                if cond():
                    return True
                time.sleep(0.004)
            return False
        wait(lambda: os.path.exists(rp))
        # an earlier, short interact() session on the same object (ended at once by the escape character): what it leaves behind must not
        # change what the session under test shows
        if case.get('twice') and case.get('esc'):
            def first_user():
                for _ in range(400):
                    if not (termios.tcgetattr(osl)[3] & termios.ICANON):
                        break
                    time.sleep(0.005)
                os.write(om, esc1.encode('latin-1'))
            # twice == 'other': the earlier session had another escape character - the one given to a call is the one that counts for it
            esc1 = case['esc'] if case['twice'] != 'other' else ('\x02' if case['esc'] != '\x02' else '\x03')
            th1 = threading.Thread(target=first_user, daemon=True); th1.start()
            try:
                p.interact(escape_character=esc1)
            except Exception as e:      # noqa
                out['first_interact_error'] = type(e).__name__
            th1.join(3)
            raw_set.clear()
            while select.select([om], [], [], 0.05)[0]:
                os.read(om, 65536)
        # pending text: the child prints it, a timed-out expect_exact reads it without handing it back
        pend = case.get('pending', '')
        if pend:
            os.write(ctl, b'S ' + pend.encode('latin-1').hex().encode() + b'\n')
            try:
                p.expect_exact(['\x00never\x00'] if case.get('encoding') else [b'\x00never\x00'], timeout=0.25,
                               searchwindowsize=case.get('W'))
            except TIMEOUT:
                pass
            b = p.before
            out['pending_seen'] = (b if isinstance(b, str) else b.decode('latin-1'))

        # hand-over inside a character: the child's output ends in the middle of a multi-byte character, expect() consumes what is
        # complete, interact() takes over the stream with the rest of the character still to come
        if case.get('handover'):
            part1, word = case['handover']
            os.write(ctl, b'S ' + part1.encode() + b'\n')
            wait(lambda: report()['wrote'] >= len(bytes.fromhex(part1)), 2.0)
            try:
                p.expect_exact(word, timeout=2)
            except Exception as e:      # noqa
                out['handover_error'] = type(e).__name__
            for _ in range(20):
                try:
                    p.read_nonblocking(100, 0.02)       # make sure the cut byte has reached the spawn's decoder
                except TIMEOUT:
                    break
            out['pending_seen'] = p.buffer if isinstance(p.buffer, str) else p.buffer.decode('latin-1')

        if case.get('dead_first'):
            # a short-lived child: it prints its last output and exits, pexpect learns that it is gone (isalive()), and only then is interact()
            # called - what the child left in the terminal is still output of the child
            n_ = [st[1] for st in case['steps'] if st[0] == 'burst_exit'][0]
            os.write(ctl, b'B %d\n' % n_)
            wait(lambda: not p.isalive(), 3.0)
            out['dead_first_alive'] = p.isalive()

        def drain():
            while not stop.is_set():
                r, _, _ = select.select([om] + ([pr] if pr is not None else []), [], [], 0.02)
                for fd_ in r:
                    try:
                        d_ = os.read(fd_, 65536)
                    except OSError:
                        return
                    if pr is None or fd_ == pr:
                        display.extend(d_)          # (with a separate standard output the terminal only carries its own echo)
        th_d = threading.Thread(target=drain, daemon=True)
        th_d.start()
        typed = bytearray()
        exit_sent = threading.Event()
        budget = [0.8]
        orig_isalive = p.isalive

        def proc_state():
            try:
                return open('/proc/%d/stat' % p.pid).read().rsplit(')', 1)[1].split()[0]
            except Exception:
                return 'X'

        def isalive():
            # the adversarial (and perfectly legal) schedule: once the child has been told to exit, every liveness test of the
            # loop happens only after the child has really gone (or is blocked writing into a full pty)
            if exit_sent.is_set() and budget[0] > 0:
                t1 = time.time()
                wait(lambda: proc_state() in 'ZX', min(0.3, budget[0]))
                budget[0] -= time.time() - t1
            return orig_isalive()
        p.isalive = isalive

        pend_seen = out.get('pending_seen') or ''
        try:
            shown_target = [len(pend_seen.encode(case.get('encoding') or 'latin-1', 'replace'))]
        except LookupError:
            shown_target = [len(pend_seen)]

        def user():
            raw_set.wait(3.0)
            for st in case['steps']:
                if st[0] == 'type':
                    b = bytes.fromhex(st[1])
                    os.write(om, b); typed.extend(b)
                    want = st[2] if len(st) > 2 else None
                    if want is not None:
                        wait(lambda: len(bytes.fromhex(report()['got'])) >= want, 1.5)
                    else:
                        time.sleep(0.03)
                elif st[0] == 'say':
                    b = bytes.fromhex(st[1])
                    w0 = report()['wrote']
                    os.write(ctl, b'S ' + st[1].encode() + b'\n')
                    # first the child has really written it, then it has had time to cross the loop: the target is an absolute count (pending
                    # text + everything said so far), so that the flush of the pending text cannot be mistaken for this chunk
                    wait(lambda: report()['wrote'] >= w0 + len(b), 5.0)
                    shown_target[0] += len(apply_f(case.get('fout'), b))
                    wait(lambda: len(display) >= shown_target[0], 2.0)
                    if not apply_f(case.get('fout'), b):
                        time.sleep(0.08)          # nothing to wait for on the display: let the loop read this chunk on its own
                elif st[0] == 'burst_exit' and case.get('dead_first'):
                    pass
                elif st[0] == 'burst_exit':
                    exit_sent.set()
                    os.write(ctl, b'B %d\n' % st[1])
                elif st[0] == 'quit':
                    exit_sent.set()
                    os.write(ctl, b'Q\n')
                elif st[0] == 'sleep':
                    time.sleep(st[1])
        def user_safe():
            try:
                user()
            except OSError:
                pass                       # the session is over and its descriptors are closed
        th_u = threading.Thread(target=user_safe, daemon=True)
        orig_setraw = tty.setraw

        def setraw(fd, *a, **k):
            r = orig_setraw(fd, *a, **k)
            if fd == osl:
                raw_set.set()
            return r
        tty.setraw = setraw
        PS.os = OsProxy(log, lambda: p.child_fd, osl, case.get('short'), outfd)
        th_u.start()
        log0 = {k: len(v.getvalue()) for k, v in logs.items()}
        esc = case.get('esc', chr(29))
        t0 = time.time()
        done = {}

        def watchdog():
            # an interact() that does not return (no escape, child alive) is ended by making the child quit
            if not wait(lambda: 'ret' in done, case.get('limit', 6.0)):
                done['forced'] = True
                try:
                    os.write(ctl, b'Q\n')
                except OSError:
                    pass
        th_w = threading.Thread(target=watchdog, daemon=True)
        th_w.start()
        try:
            p.interact(escape_character=esc, input_filter=filt(case.get('fin')), output_filter=filt(case.get('fout')))
            out['ret'] = 'returned'
        except Exception as e:      # noqa
            out['ret'] = 'EXC:%s %r' % (type(e).__name__, e)
        done['ret'] = True
        # what interact() itself logged: from the log length at its start to the length at its return
        out['logs'] = {}
        for k, v in logs.items():
            val = v.getvalue()[log0[k]:]
            out['logs'][k] = val if isinstance(val, str) else val.decode('latin-1')
        out['forced'] = bool(done.get('forced'))
        out['wall'] = round(time.time() - t0, 2)
        PS.os = os
        tty.setraw = orig_setraw
        th_u.join(3.0)
        time.sleep(0.05)
        out['mode_restored'] = (termios.tcgetattr(osl) == mode0)
        out['alive_after'] = p.isalive()
        # what is left for later calls: the flushed pending text must not come back
        after = None
        p.isalive = orig_isalive
        if True:
            try:
                p.expect_exact([TIMEOUT, EOF], timeout=0.05)
                b = p.before
                after = b if isinstance(b, str) else b.decode('latin-1')
            except Exception as e:  # noqa
                after = 'EXC:' + type(e).__name__
        out['before_after'] = after
        stop.set(); th_d.join(1.0)
        rep = report()
        out['child_got'] = rep['got']; out['child_wrote'] = rep['wrote']
        out['display'] = bytes(display).hex()
        out['typed'] = bytes(typed).hex()
        out['log'] = log
        return out
    finally:
        sys.stdout = saved_stdout
        PS.os = os
        try:
            if p is not None:
                p.close(force=True)
        except Exception:
            pass
        for fd in (om, osl) + ((pr, pw) if pr is not None else ()):
            try:
                os.close(fd)
            except OSError:
                pass


# --------------------------------------------------------------------------------------------------- judging

def hx(s):
    return bytes.fromhex(s)


def enc(b):
    return ','.join(str(c) for c in b) if b else '-'


def model_line(case, out):
    esc = case.get('esc', chr(29))
    toks = ['IA', '-' if esc is None else str(ord(esc)), case.get('fin') or 'id', case.get('fout') or 'id',
            enc((out.get('pending_seen') or '').encode('latin-1')), '@']
    for ev in out['log']:
        if ev[0] == 'o':
            toks.append('o=' + enc(hx(ev[1])))
        elif ev[0] == 'u':
            toks.append('u=' + enc(hx(ev[1])))
        elif ev[0] == 'X':
            toks.append('X')
    return ' '.join(toks)


def canon_real(case, out):
    """what the loop really wrote (from the recorded os.write calls), in the model's output format"""
    shown = (out.get('pending_seen') or '').encode('latin-1') + b''.join(hx(e[1]) for e in out['log'] if e[0] == 'ws')
    child = b''.join(hx(e[1]) for e in out['log'] if e[0] == 'wc')
    return 'shown=%s child=%s' % (enc(shown), enc(child))


def oracle(case, out):
    if out['ret'] != 'returned':
        return ('interact/exception', 'interact() raised: ' + out['ret'])
    esc = case.get('esc', chr(29))
    fin, fout = case.get('fin'), case.get('fout')
    display = hx(out['display'])
    pend = (out.get('pending_seen') or '').encode('latin-1')
    if case.get('pending') and not case.get('handover'):
        # what is pending when interact() starts is what the child was told to print before (a timed-out call consumes nothing, whatever the
        # object went through earlier): judge against that, not against what the object believes is pending
        told = case['pending'].encode('latin-1')
        if pend != told:
            return ('interact/pending-text-wrong', 'the child had written %r before interact() was called; the object held %r as pending text' % (told, pend))
    # output: pending first, then everything the child wrote after that, through the filter, in order
    said = b''
    ended = False
    for st in case['steps']:
        if st[0] == 'say' and not ended:
            said += hx(st[1])
        elif st[0] == 'type' and esc is not None and esc.encode('latin-1') in apply_f(fin, hx(st[1])):
            ended = True            # the session ends here: later steps are not part of it
    burst = 0 if ended else sum(st[1] for st in case['steps'] if st[0] == 'burst_exit')
    tail = (b'0123456789abcdef' * (burst // 16 + 1))[:burst] if burst else b''
    want_out = pend + apply_f(fout, said) if (not fout or fout == 'up' or fout.startswith('drop')) else None
    if want_out is not None:
        want_all = want_out + apply_f(fout, tail)
        if not display.startswith(pend):
            return ('interact/pending-not-flushed', 'pending text %r, the display starts with %r' % (pend[:40], display[:40]))
        if ended:
            # after the escape the terminal is back in its original (echoing) mode: keystrokes still in flight are echoed by the
            # terminal itself, which is not output of interact()
            display = display[:len(want_all)]
        if display != want_all:
            k = next((i for i, (a, b) in enumerate(zip(display, want_all)) if a != b), min(len(display), len(want_all)))
            kind = 'interact/output-lost-at-exit' if (burst and display == want_all[:len(display)]) else 'interact/output-not-transparent'
            return (kind, 'the child wrote %d bytes after the pending %d, the user saw %d bytes (first difference at %d)' % (
                len(want_all) - len(pend), len(pend), len(display), k))
    # input: everything typed (through the filter, per read) up to the first escape
    got = hx(out['child_got'])
    reads = [hx(e[1]) for e in out['log'] if e[0] == 'u']
    stream = b''.join(apply_f(fin, r) for r in reads)
    if esc is not None and esc.encode('latin-1') in stream:
        want_in = stream[:stream.index(esc.encode('latin-1'))]
        escaped = True
    else:
        want_in = stream
        escaped = False
    if fin in (None, 'up') or fin.startswith('drop'):
        typed = hx(out['typed'])
        whole = apply_f(fin, typed)
        if esc is not None and esc.encode('latin-1') in whole:
            w2 = whole[:whole.index(esc.encode('latin-1'))]
            if got != w2:
                return ('interact/input-not-until-first-escape', 'typed %r (escape %r): the child received %r, expected %r' % (
                    typed[:40], esc, got[:40], w2[:40]))
        elif not out['forced'] and not burst and not any(st[0] == 'quit' for st in case['steps']):
            pass
        elif got != whole[:len(got)] or (len(got) < len(whole) and not burst and not any(st[0] == 'quit' for st in case['steps'])):
            return ('interact/input-lost', 'typed %d bytes, the child received %d (%r...)' % (len(whole), len(got), got[:30]))
    if got != want_in[:len(got)] or (escaped and got != want_in):
        return ('interact/input-mismatch', 'reads %r: child received %r, expected %r' % ([r[:20] for r in reads][:4], got[:40], want_in[:40]))
    if escaped and out['forced']:
        return ('interact/no-return-on-escape', 'the escape character was typed but interact() did not return')
    if case.get('handover') and case.get('logs'):
        lr = out['logs'].get('read', '')
        if lr != case['handover_log']:
            return ('interact/handover-log', 'a character cut at the hand-over from expect() to interact(): logfile_read got %r during interact(), expected %r' % (lr, case['handover_log']))
    if not out['mode_restored']:
        return ('interact/mode-not-restored', 'terminal attributes after interact() differ from those before')
    if (burst or any(st[0] == 'quit' for st in case['steps'])) and out['wall'] > case.get('limit', 6.0):
        return ('interact/no-return-on-exit', 'the child exited but interact() returned only after %.1f s' % out['wall'])
    # (judged only for pending texts long enough not to occur in the child's payloads by accident: 'ab' is part of every burst)
    if pend and len(pend) >= 8 and out.get('before_after') not in (None,) and isinstance(out['before_after'], str) and pend.decode('latin-1') and \
            pend.decode('latin-1')[:8] in out['before_after'] and not escaped_into(case):
        return ('interact/pending-not-cleared', 'pending text %r was shown by interact() and handed back again by the next call (%r)' % (
            pend[:30], out['before_after'][:40]))
    if case.get('logs'):
        lr, ls = out['logs'].get('read', ''), out['logs'].get('send', '')
        shown_after = display[len(pend):]
        encg = case.get('encoding')
        want_lr = shown_after.decode(encg, 'replace') if encg else shown_after.decode('latin-1')
        want_ls = got.decode(encg, 'replace') if encg else got.decode('latin-1')
        if shown_after and lr != want_lr and (not encg or encg == 'latin-1'):
            return ('interact/logfile_read', 'logfile_read ends with %r, the user saw %r' % (lr[-30:], want_lr[-30:]))
        if ls != want_ls:
            return ('interact/logfile_send', 'logfile_send %r, the child received %r' % (ls[:40], want_ls[:40]))
    return None


def escaped_into(case):
    return False


# ----------------------------------------------------------------------------------------------- generators

def T(b, wait=None):
    return ['type', b.hex()] + ([wait] if wait is not None else [])


def S_(b):
    return ['say', b.hex()]


ESC = b'\x1d'
CORPUS = [
    # defect 14 (fixed): repeated escape in one read
    dict(steps=[T(b'ab' + ESC + b'cd' + ESC + b'ef')], esc=chr(29)),
    # pending text trimmed by a window / by the exact searcher's look-back must still be flushed whole, and cleared
    dict(steps=[S_(b'out1'), T(b'xy' + ESC)], pending='hello world', esc=chr(29)),
    dict(steps=[T(ESC)], pending='hello world, this is pending text', W=3, esc=chr(29)),
    # child exits with unread output
    dict(steps=[T(b'abc', 3), ['burst_exit', 2500]], esc=chr(29)),
    dict(steps=[['burst_exit', 3500]], esc=chr(29), poll=True),
    dict(steps=[T(b'abc', 3), ['burst_exit', 16000]], esc=chr(29)),
    dict(steps=[['burst_exit', 100000]], esc=chr(29)),
    # the child printed and exited before interact() was called (spawn('ls'); ...; interact()): its output is still shown
    dict(steps=[['burst_exit', 1500]], esc=chr(29), dead_first=True),
    dict(steps=[['burst_exit', 40]], esc=chr(29), dead_first=True, pending='pending text here', poll=True),
    dict(steps=[['burst_exit', 2500]], esc=None, dead_first=True, encoding='latin-1', logs=True),
    dict(steps=[S_(b'bye'), ['quit']], esc=chr(29)),
    dict(steps=[S_(b'bye'), ['quit']], esc=chr(29), odd_tty=True),
    dict(steps=[S_(b'to the pipe'), T(b'abc' + ESC + b'xyz')], esc=chr(29), split_out=True),
    dict(steps=[S_(b'bye'), ['quit']], esc=chr(29), split_out=True, poll=True),
    dict(steps=[S_(b'more'), T(b'ab' + ESC)], esc=chr(29), pending='hello world, this is pending text', twice=True),
    dict(steps=[T(ESC)], esc=chr(29), pending='pending after a first session', W=3, twice=True),
    dict(steps=[T(b'a\x02b' + ESC + b'never')], esc=chr(29), twice='other'),
    dict(steps=[S_(b'out'), T(b'xy' + ESC)], esc=chr(29), pending='text pending', twice='other'),
    dict(steps=[S_(b'x'), T(b'ab' + ESC)], esc=chr(29), odd_tty=True, poll=True),
    # poll mode with a descriptor number beyond what select() accepts (the reason use_poll exists): output, keystrokes, child exit
    dict(steps=[S_(b'last words'), ['quit']], esc=chr(29), poll=True, highfd=True),
    dict(steps=[T(b'abc', 3), ['burst_exit', 2500]], esc=chr(29), poll=True, highfd=True),
    dict(steps=[S_(b'out'), T(b'typed' + ESC + b'not sent')], esc=chr(29), poll=True, highfd=True),
    # the child's terminal takes three bytes per write: everything typed still arrives, also what precedes the escape character in its read
    dict(steps=[T(b'hello world\n' + ESC + b'ignored\n')], esc=chr(29), short=3),
    dict(steps=[T(b'0123456789abcdef', 16), S_(b'ok'), T(b'xyz' + ESC)], esc=chr(29), short=3, poll=True),
    # an escape character beyond ASCII is the byte of that value (the loop copies bytes), whatever text encoding the object was given
    dict(steps=[S_(b'plain'), T(b'ab\xffcd')], esc=chr(255), encoding='ascii'),
    dict(steps=[T(b'xy\xe9zz')], esc=chr(0xe9), encoding='latin-1', poll=True),
    dict(steps=[T(b'ab\xff')], esc=chr(255)),
    # no escape character: ^] is data
    dict(steps=[T(b'a' + ESC + b'b', 3), ['quit']], esc=None),
    # filters
    dict(steps=[T(b'abq' + ESC), S_(b'shout')], fin='up', fout='up', esc=chr(29)),
    dict(steps=[T(b'ab\x1dcd', 5), T(b'Qz')], fin='drop29', esc='Q'),
    # an output filter that empties a whole read (a lone BEL) must not end the session
    dict(steps=[S_(b'one'), S_(b'\x07'), S_(b'two'), T(b'k', 1), S_(b'\x07\x07'), S_(b'three'), T(ESC)], fout='drop7', esc=chr(29)),
    # the stream is handed from expect() to interact() in the middle of a multi-byte character (log files are text in unicode mode)
    dict(steps=[S_(b'\xa9!'), T(ESC)], esc=chr(29), encoding='utf-8', logs=True, handover=(b'caf\xc3'.hex(), 'caf'), handover_log='\u00e9!'),
    dict(steps=[S_(b'\x82\xac ok'), T(ESC)], esc=chr(29), encoding='utf-8', logs=True, poll=True, handover=(b'x\xe2'.hex(), 'x'), handover_log='\u20ac ok'),
    # bursts larger than one read
    dict(steps=[T(bytes(range(32, 127)) * 30, 95 * 30), T(ESC)], esc=chr(29)),
    dict(steps=[S_(bytes(range(256)) * 12), T(ESC)], esc=chr(29)),
    dict(steps=[T(bytes([c for c in range(256) if c != 29]) * 2, 510), T(ESC)], esc=chr(29), encoding='utf-8', logs=True),
    dict(steps=[S_('héllo €'.encode('utf-8')), T('é€'.encode('utf-8') + ESC)], esc=chr(29), encoding='utf-8', logs=True, poll=True),
]


def rand_case(rng):
    esc = rng.choice([chr(29), chr(29), chr(29), None, 'q'])
    e = esc.encode('latin-1') if esc else None
    steps = []
    typed_esc = False
    for _ in range(rng.randrange(1, 6)):
        r = rng.random()
        if r < 0.55:
            n = rng.choice([1, 2, 3, 5, 8, 999, 1000, 1001, 2500])
            b = bytes(rng.choice([97, 98, 113, 29, 0, 255, 10, 13, 3]) if rng.random() < 0.7 else rng.randrange(256) for _ in range(n))
            if e and rng.random() < 0.6:
                b = bytes(c for c in b if c != e[0])          # mostly keep the escape out of the bulk
            if e and rng.random() < 0.35:
                k = rng.randrange(0, len(b) + 1)
                b = b[:k] + e + b[k:] + (e + b'zz' if rng.random() < 0.4 else b'')
            if e and e in b:
                typed_esc = True
                steps.append(T(b)); break
            steps.append(T(b, None))
        elif r < 0.85:
            n = rng.choice([1, 3, 40, 1000, 1001, 5000])
            steps.append(S_(bytes(rng.randrange(256) for _ in range(n))))
        else:
            steps.append(['sleep', 0.05])
    if not typed_esc:
        r = rng.random()
        if e and r < 0.5:
            steps.append(T(e))
        elif r < 0.75:
            steps.append(['burst_exit', rng.choice([0, 10, 1500, 2500, 3900, 40000])])
        else:
            steps.append(['quit'])
    # waits: make every typed chunk arrive before the next action (so "lost" can be judged)
    total = 0
    for st in steps:
        if st[0] == 'type':
            total += len(hx(st[1]))
    case = dict(steps=steps, esc=esc, fin=rng.choice([None, None, None, 'up', 'drop97']), fout=rng.choice([None, None, None, 'up', 'drop7']),
                pending=rng.choice(['', '', 'pending text here', 'ab']), W=rng.choice([None, None, 2]),
                poll=rng.random() < 0.3, encoding=rng.choice([None, None, 'latin-1']), logs=rng.random() < 0.4)
    if case['fin'] == 'up' and esc == 'q':
        case['esc'] = 'Q'          # the filter runs before the escape test
    if case['poll'] and rng.random() < 0.5:
        case['highfd'] = True
    if rng.random() < 0.25 and total <= 200:
        # (with a terminal that takes a byte or three per write, long keystroke streams would still be on their way when the session is wound up)
        case['short'] = rng.choice([1, 3, 7])
    if rng.random() < 0.3:
        case['odd_tty'] = True
    if rng.random() < 0.25:
        case['twice'] = rng.choice([True, 'other'])
    if rng.random() < 0.25 and not case['pending']:
        case['split_out'] = True
    if steps[-1][0] == 'burst_exit' and steps[-1][1] <= 2500 and rng.random() < 0.6:
        case['dead_first'] = True
        case['steps'] = [steps[-1]]
    return case


def run(ctx):
    common.prove(ctx, ['C15'])
    if not ctx.quick():
        common.leanchecker(ctx, ['C15'])
    cases = list(map(copy.deepcopy, CORPUS))
    n = 36 if ctx.quick() else 400
    for _ in range(n):
        cases.append(rand_case(ctx.rng))
    # every session runs in a worker process under a watchdog: a session that never ends (interact() stuck in a read while the user types, or
    # after the child is gone) is a finding, not a reason for the check to hang
    pool = multiprocessing.Pool(12)
    try:
        pending = [pool.apply_async(session, ((c, ctx.tmp, k),)) for k, c in enumerate(cases)]
        outs, kept = [], []
        t_end = time.time() + (240 if ctx.quick() else 1500)
        for c, r in zip(cases, pending):
            try:
                outs.append(r.get(timeout=max(5.0, t_end - time.time())))
                kept.append(c)
            except multiprocessing.TimeoutError:
                common.report(ctx, 'interact/session-never-ended', 'an interact() session did not end: neither the escape character, nor the child\'s exit, nor the '
                              'harness closing both ends made interact() return (steps %s, escape %r, poll %s)' % (
                                  [st[0] for st in c['steps']][:8], c.get('esc'), bool(c.get('poll'))), dict(case=c))
        cases = kept
    finally:
        pool.terminate()
    hist = collections.Counter()
    sigs = set()
    fails = []
    lines = []
    for c, o in zip(cases, outs):
        lines.append(model_line(c, o))
        r = oracle(c, o)
        kinds = tuple(sorted(set(e[0] for e in o.get('log', []))))
        hist[o['ret'].split(':')[0] + ('/forced' if o.get('forced') else '')] += 1
        sigs.add((kinds, c.get('esc') is None, bool(c.get('fin')), bool(c.get('fout')), bool(c.get('pending')), bool(c.get('poll')),
                  max([len(hx(e[1])) for e in o.get('log', []) if e[0] in ('u', 'o')] + [0]) >= 1000))
        if r:
            fails.append((c, o, r))
    seen = set()
    for c, o, r in fails:
        if r[0] in seen:
            continue
        seen.add(r[0])
        # a real-process failure must reproduce
        again = [oracle(c, session((c, ctx.tmp, 7000 + k))) for k in range(2)]
        if all(a is not None and a[0] == r[0] for a in again):
            common.report(ctx, r[0], r[1], dict(case=c, log=o.get('log', [])[:12], display_len=len(hx(o['display'])), child_got=o['child_got'][:80]))
        else:
            ctx.notes.append('unreproduced anomaly %s: %s' % (r[0], r[1][:160]))
    # correspondence: the recorded reads through the Lean model = what the loop wrote
    try:
        mouts = common.run_model(lines)
        for c, o, ml in zip(cases, outs, mouts):
            real = canon_real(c, o)
            mo = ' '.join(ml.split(' ')[:2])
            if mo != real:
                ctx.broken.append('correspondence interact model vs pty_spawn.interact on %s: model %s real %s' % (json.dumps(c)[:200], mo[:200], real[:200]))
                break
    except common.ModelUnavailable as e:
        ctx.broken.append('model driver unavailable: ' + str(e)[:300])
    ctx.cov['sessions'] = len(cases)
    ctx.cov['result_histogram'] = dict(hist)
    samples = [dict(case=cases[0], events=outs[0].get('log', [])[:6])]
    return common.finish(
        ctx,
        'corpus, then random sessions: keystroke chunks over all byte values (1 - 2500 bytes, escape absent / first / middle / last / repeated), child '
        'output chunks (1 - 5000 bytes), input / output filters, escape_character default / None / other, pending text (with and without a search '
        'window), child exit with 0 - 100 000 unread bytes, select / poll, bytes / unicode with log files; an outer pty plays the user; every os.read / os.write '
        'of the copy loop is recorded and the recorded reads are replayed through the Lean model; distinct = (event kinds, escape off, filters, pending, poll, '
        'a read of the full 1000 bytes)',
        samples, len(cases), len(sigs),
        assumptions=['the user terminal is an outer pty without output post-processing; the inner child runs its terminal in raw mode and reports what it read and wrote',
                     'the kernel delivers what is written to a pty in order and complete (checked by the same runs)'])


def replay(ctx, path):
    d = json.load(open(path))
    c = d['replay']['case']
    o = session((c, ctx.tmp, 1))
    r = oracle(c, o)
    print(json.dumps(dict(ret=o['ret'], oracle=r, log=o['log'][:10]), indent=1))
    return 1 if r else 0
